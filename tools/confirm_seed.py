#!/venv/bin/python
"""confirm a seeded change independently: patch applies to a pristine worktree of /repo, the existing suite still passes with it,
the demonstration fails with it and passes without it.  usage: confirm_seed.py <seed dir> [...]   (dir holds patch.diff, demo.py)"""
import json, os, subprocess, sys, tempfile, shutil, re
from concurrent.futures import ThreadPoolExecutor

PY = "/venv/bin/python"


def sh(cmd, cwd=None, env=None, timeout=1800):
    r = subprocess.run(cmd, shell=True, cwd=cwd, env=env, capture_output=True, text=True, timeout=timeout)
    return r.returncode, (r.stdout + r.stderr)


def confirm(d):
    d = os.path.abspath(d)
    name = d.strip("/").replace("/", "_")
    wt = f"/tmp/cw/{name}"
    res = {"dir": d}
    sh(f"git -C /repo worktree remove --force {wt}")
    os.makedirs("/tmp/cw", exist_ok=True)
    rc, out = sh(f"git -C /repo worktree add -f --detach {wt} HEAD")
    if rc:
        res["error"] = out[-300:]
        return res
    try:
        env = dict(os.environ, PYTHONPATH=wt)
        rc, out = sh(f"{PY} {d}/demo.py", cwd=wt, env=env, timeout=900)
        res["demo_clean_rc"] = rc
        rc, out = sh(f"git apply {d}/patch.diff", cwd=wt)
        res["apply_rc"] = rc
        if rc:
            res["error"] = out[-300:]
            return res
        rc, out = sh(f"{PY} -m compileall -q py_ecc", cwd=wt)
        res["compile_rc"] = rc
        rc, out = sh(f"{PY} {d}/demo.py", cwd=wt, env=env, timeout=900)
        res["demo_patched_rc"] = rc
        res["demo_patched_tail"] = out[-400:]
        rc, out = sh(f"{PY} -m pytest -q -p no:cacheprovider -n 4 --timeout=900 tests", cwd=wt, timeout=3000)
        m = re.search(r"(\d+) passed", out)
        f = re.search(r"(\d+) failed", out)
        res["tests_passed"] = int(m.group(1)) if m else 0
        res["tests_failed"] = int(f.group(1)) if f else 0
        res["tests_rc"] = rc
        res["ok"] = (res["demo_clean_rc"] == 0 and res["demo_patched_rc"] not in (0, None) and rc == 0 and res["tests_passed"] >= 196)
    finally:
        sh(f"git -C /repo worktree remove --force {wt}")
        shutil.rmtree(wt, ignore_errors=True)
    return res


if __name__ == "__main__":
    dirs = sys.argv[1:]
    with ThreadPoolExecutor(4) as ex:
        for r in ex.map(confirm, dirs):
            print(json.dumps(r))
