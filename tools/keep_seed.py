#!/venv/bin/python
"""keep confirmed seeded changes under /verif/seeded/<id>/ : keep_seed.py <confirm.jsonl> [...]
Each line of a confirm file is the JSON printed by confirm_seed.py.  Runs try_seed-like detection to fill caught_by."""
import json, os, shutil, subprocess, sys, re

V = os.path.dirname(os.path.dirname(os.path.abspath(__file__)))
sys.path.insert(0, os.path.join(V, "tools"))
import try_seed

for cf in sys.argv[1:]:
    for line in open(cf):
        line = line.strip()
        if not line.startswith("{"):
            continue
        c = json.loads(line)
        d = c["dir"]
        parts = d.rstrip("/").split("/")
        rnd = "r2-" if "/seed2/" in d else ("r3-" if "/seed3/" in d else ("r4-" if "/seed4/" in d else ("r5-" if "/seed5/" in d else ("r6-" if "/seed6/" in d else ("r7-" if "/seed7/" in d else "")))))
        sid = f"{parts[-2]}-{rnd}{parts[-1]}"
        if not c.get("ok"):
            print("NOT CONFIRMED, skipped:", d, {k: v for k, v in c.items() if k not in ("dir", "demo_patched_tail")})
            continue
        _, res = try_seed.run(d, try_seed.ALL, "quick")
        fired = sorted(p for p, v in res.items() if isinstance(v, dict) and v.get("rc") == 1)
        rules = sorted({r for p, v in res.items() if isinstance(v, dict) and v.get("rc") == 1 for r in v["rules"]})
        errs = sorted(p for p, v in res.items() if isinstance(v, dict) and v.get("rc") == 2)
        am = {}
        try:
            am = json.load(open(os.path.join(d, "meta.json")))
        except Exception as e:
            am = {"summary": "(agent meta.json unreadable)"}
        out = os.path.join(V, "seeded", sid)
        os.makedirs(out, exist_ok=True)
        shutil.copy(os.path.join(d, "patch.diff"), os.path.join(out, "patch.diff"))
        shutil.copy(os.path.join(d, "demo.py"), os.path.join(out, "demo.py"))
        meta = {
            "id": sid, "property": am.get("property", parts[-2]),
            "summary": am.get("summary"), "needs": am.get("needs"), "files": am.get("files"),
            "author": "independent sub-agent given only the property text and a scratch worktree",
            "confirmed": {
                "how": "tools/confirm_seed.py in a fresh worktree of /repo HEAD: demo on clean tree, git apply, compileall, demo on patched "
                       "tree, full suite (pytest -n 4)",
                "demo_clean_exit": c.get("demo_clean_rc"), "demo_patched_exit": c.get("demo_patched_rc"),
                "tests_passed": c.get("tests_passed"), "tests_failed": c.get("tests_failed"),
                "run_demo": "cd <worktree with patch> && PYTHONPATH=$PWD /venv/bin/python /verif/seeded/%s/demo.py" % sid,
            },
            "caught_by": fired, "rules": rules, "analysis_error_in": errs,
            "agent_ran": am.get("ran"),
        }
        json.dump(meta, open(os.path.join(out, "meta.json"), "w"), indent=1, ensure_ascii=False)
        print("kept", sid, "caught_by", fired, "errors", errs)
