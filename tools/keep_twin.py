#!/venv/bin/python
"""keep confirmed behaviour-preserving twins under /verif/twins/<id>/ : keep_twin.py <confirm.jsonl>"""
import json, os, shutil, sys
V = os.path.dirname(os.path.dirname(os.path.abspath(__file__)))
sys.path.insert(0, os.path.join(V, "tools"))
import try_seed

for cf in sys.argv[1:]:
    for line in open(cf):
        line = line.strip()
        if not line.startswith("{"):
            continue
        c = json.loads(line)
        d = c["dir"]
        parts = d.rstrip("/").split("/")
        tid = f"{parts[-2]}-{parts[-1]}"
        if not c.get("ok"):
            print("NOT CONFIRMED, skipped:", d, {k: v for k, v in c.items() if k not in ("dir", "equiv_tail")})
            continue
        _, res = try_seed.run(d, try_seed.ALL, "quick")
        noisy = sorted(p for p, v in res.items() if isinstance(v, dict) and v.get("rc") in (1, 2))
        try:
            am = json.load(open(os.path.join(d, "meta.json")))
        except Exception:
            am = {}
        out = os.path.join(V, "twins", tid)
        if os.path.isdir(out):
            shutil.rmtree(out)
        os.makedirs(out)
        shutil.copy(os.path.join(d, "patch.diff"), out)
        for extra in os.listdir(d):
            if extra.endswith(".py") or extra == "pristine" or extra.endswith(".json") and extra != "meta.json":
                src = os.path.join(d, extra)
                if os.path.isdir(src):
                    shutil.copytree(src, os.path.join(out, extra), ignore=shutil.ignore_patterns("__pycache__", "*.pyc"))
                elif os.path.getsize(src) < 400_000:
                    shutil.copy(src, out)
        meta = {"id": tid, "property": am.get("property", parts[-2]), "summary": am.get("summary"),
                "why_equivalent": am.get("why_equivalent"), "files": am.get("files"),
                "author": "independent sub-agent given only the property text and a scratch worktree",
                "confirmed": {"how": "tools/confirm_twin.py in a fresh worktree of /repo HEAD: git apply, equiv.py (pristine vs refactored "
                                     "module on a broad input set), full suite",
                              "equiv_exit": c.get("equiv_rc"), "tests_passed": c.get("tests_passed")},
                "expect": "silent", "noisy_checks": noisy}
        json.dump(meta, open(os.path.join(out, "meta.json"), "w"), indent=1, ensure_ascii=False)
        print("kept twin", tid, "noisy:", noisy)
