#!/venv/bin/python
"""regenerates MANIFEST.json from the table below (kept in one place so that the
claimed list, techniques and not_applicable reasons stay consistent)"""
import json, pathlib, importlib, sys
V = pathlib.Path(__file__).resolve().parent.parent
sys.path.insert(0, str(V))
props = [json.loads(l) for l in open(V / "properties.jsonl")]

CLAIMS = {}   # pid -> dict(level, text, note, technique, design_ref)
for f in sorted((V / "vstatic" / "rules").glob("C*.py")):
    pid = f.stem
    mod = importlib.import_module(f"vstatic.rules.{pid}")
    man = getattr(mod, "MANIFEST", None)
    if man:
        CLAIMS[pid] = man

checks = []
na = []
for p in props:
    pid = p["id"]
    c = CLAIMS.get(pid)
    if c is None:
        na.append({"property_id": pid, "reason": "check not built yet (build in progress, see DESIGN.md section 7)"})
        continue
    checks.append({
        "property_id": pid,
        "quick_cmd": f"./check {pid} --tier quick",
        "thorough_cmd": f"./check {pid} --tier thorough",
        "evidence_file": f"/verif/evidence/{pid}.json",
        "replay_cmd_template": f"./check {pid} --replay {{path}}",
        "engine": "vstatic",
        "level_claimed": {"category": c.get("level", "other"), "text": c["text"], "design_ref": c.get("design_ref", f"DESIGN.md §3 {pid}")},
        "level_note": c["note"] + " Rule " + pid + ".H (every property): no walked function returns a value read from module-/class-level "
                      "state whose key does not determine it (def-use dataflow, vstatic/memo.py).",
        "technique": c["technique"],
    })
m = {
    "version": 1,
    "setup_cmd": "true",
    "hooks": {"guard": "PY_ECC_VERIF", "enable": "none needed: the checks read /repo's source with ast; no instrumentation exists",
              "baseline_off_cmd": "cd /repo && /venv/bin/python -m pytest -ra -q -p no:cacheprovider --timeout=900 --continue-on-collection-errors",
              "source_commits": [], "add_only": True},
    "engines": [{"name": "vstatic", "path": "/verif/vstatic", "serves_properties": sorted(CLAIMS),
                 "kind_free_text": "stdlib-ast static analyser: resolver/call graph, abstract evaluator with path enumeration, "
                                   "range/finite-set, polynomial, byte-term, group and effect domains; no repository code is executed"}],
    "checks": checks,
    "notes": "Static analysis only. Every claimed check decides named clauses of its property (listed in evidence under coverage.rules) "
             "and lists the clauses it does not decide under coverage.not_decided; see DESIGN.md. known_findings.json lists genuine "
             "defects (fixed ones with their fix: commit).",
    "not_applicable": na,
}
json.dump(m, open(V / "MANIFEST.json", "w"), indent=1)
print(f"{len(checks)} claimed, {len(na)} not applicable/pending")
