#!/venv/bin/python
"""regression over the kept seeded changes (/verif/seeded/<id>/): every patch is applied to a scratch copy of /repo's package and the
checks named in meta.json["caught_by"] must report a VIOLATION (exit 1); the clean tree must stay silent.
usage: run_seeded.py [--tier quick|thorough] [ids...]"""
import json, os, subprocess, sys, shutil, tempfile
from concurrent.futures import ThreadPoolExecutor

V = os.path.dirname(os.path.dirname(os.path.abspath(__file__)))
S = os.path.join(V, "seeded")


def one(sid, tier):
    d = os.path.join(S, sid)
    meta = json.load(open(os.path.join(d, "meta.json")))
    root = tempfile.mkdtemp(prefix="seeded-")
    try:
        shutil.copytree("/repo/py_ecc", root + "/py_ecc")
        r = subprocess.run(["patch", "-p1", "-s", "-i", os.path.join(d, "patch.diff")], cwd=root, capture_output=True, text=True)
        if r.returncode:
            return sid, False, "patch does not apply: " + (r.stdout + r.stderr)[-200:]
        os.makedirs(root + "/out")
        env = dict(os.environ, VERIF_REPO=root, VERIF_OUT=root + "/out")
        missed = []
        for p in meta["caught_by"]:
            rr = subprocess.run([V + "/check", p, "--tier", tier], capture_output=True, text=True, env=env)
            if rr.returncode != 1 or f"VIOLATION property={p}" not in rr.stdout:
                missed.append(f"{p} rc={rr.returncode}")
        # a change recorded as undecided in some check must stop that check (exit 2): it may never pass there silently
        for p in meta.get("undecided_in", []):
            rr = subprocess.run([V + "/check", p, "--tier", tier], capture_output=True, text=True, env=env)
            if rr.returncode == 0:
                missed.append(f"{p} rc=0 (recorded as undecided, now silent)")
        return sid, not missed, "; ".join(missed) + (" [undecided in " + ",".join(meta["undecided_in"]) + "]" if meta.get("undecided_in") else "")
    finally:
        shutil.rmtree(root, ignore_errors=True)


def one_twin(tid, tier):
    d = os.path.join(V, "twins", tid)
    root = tempfile.mkdtemp(prefix="twin-")
    try:
        shutil.copytree("/repo/py_ecc", root + "/py_ecc")
        r = subprocess.run(["patch", "-p1", "-s", "-i", os.path.join(d, "patch.diff")], cwd=root, capture_output=True, text=True)
        if r.returncode:
            return tid, False, "patch does not apply: " + (r.stdout + r.stderr)[-200:]
        os.makedirs(root + "/out")
        env = dict(os.environ, VERIF_REPO=root, VERIF_OUT=root + "/out")
        noisy = []
        try:
            undecided = set(json.load(open(os.path.join(d, "meta.json"))).get("undecided_in", []))
        except Exception:
            undecided = set()
        und = []
        for i in range(1, 21):
            p = f"C{i:02d}"
            rr = subprocess.run([V + "/check", p, "--tier", tier], capture_output=True, text=True, env=env)
            if rr.returncode == 2 and p in undecided and "VIOLATION" not in rr.stdout:
                und.append(p)             # recorded limitation: the analysis stops (undecided), it never alarms
            elif rr.returncode != 0:
                noisy.append(f"{p} rc={rr.returncode}")
        return tid, not noisy, "; ".join(noisy) or (("undecided (exit 2, as recorded): " + ",".join(und)) if und else "")
    finally:
        shutil.rmtree(root, ignore_errors=True)


if __name__ == "__main__":
    args = sys.argv[1:]
    if "--twins" in args:
        args.remove("--twins")
        tier = "quick"
        T = os.path.join(V, "twins")
        ids = args or sorted(x for x in os.listdir(T) if os.path.isdir(os.path.join(T, x)))
        bad = 0
        with ThreadPoolExecutor(8) as ex:
            for tid, ok, msg in ex.map(lambda s: one_twin(s, tier), ids):
                print(("silent  " if ok else "ALARM   ") + tid + ("  " + msg if msg else ""))
                bad += not ok
        print(f"{len(ids)} behaviour-preserving twins, {bad} not silent")
        sys.exit(1 if bad else 0)
    tier = "quick"
    if "--tier" in args:
        i = args.index("--tier"); tier = args[i + 1]; del args[i:i + 2]
    ids = args or sorted(x for x in os.listdir(S) if os.path.isdir(os.path.join(S, x)))
    bad = 0
    with ThreadPoolExecutor(8) as ex:
        for sid, ok, msg in ex.map(lambda s: one(s, tier), ids):
            print(("caught  " if ok else "MISSED  ") + sid + ("  " + msg if msg else ""))
            bad += not ok
    print(f"{len(ids)} seeded changes, {bad} missed")
    sys.exit(1 if bad else 0)
