#!/venv/bin/python
"""run every check against a scratch copy of /repo's package with one seeded patch applied.
usage: try_seed.py <seed dir> [...] [--props C01,C02] [--tier quick]"""
import json, os, subprocess, sys, shutil, tempfile, re
from concurrent.futures import ThreadPoolExecutor

V = os.path.dirname(os.path.dirname(os.path.abspath(__file__)))
ALL = [f"C{i:02d}" for i in range(1, 21)]


def run(d, props, tier):
    d = os.path.abspath(d)
    root = tempfile.mkdtemp(prefix="seedrun-")
    try:
        shutil.copytree("/repo/py_ecc", root + "/py_ecc")
        r = subprocess.run(["patch", "-p1", "-s", "-i", d + "/patch.diff"], cwd=root, capture_output=True, text=True)
        if r.returncode:
            return d, {"error": "patch failed: " + (r.stdout + r.stderr)[-200:]}
        os.makedirs(root + "/out")
        env = dict(os.environ, VERIF_REPO=root, VERIF_OUT=root + "/out")

        def one(p):
            r = subprocess.run([V + "/check", p, "--tier", tier], capture_output=True, text=True, env=env)
            out = r.stdout + r.stderr
            rules = sorted(set(re.findall(r"rule (C\d\d\.\w+)", out)))
            first = ""
            m = re.search(r"VIOLATION.*\n.*\n(.*)\n(.*)", out)
            if m:
                first = (m.group(1).strip() + " :: " + m.group(2).strip())[:300]
            if r.returncode == 2:
                first = [l for l in out.splitlines() if "ANALYSIS-ERROR" in l][-1:][0][:300] if "ANALYSIS-ERROR" in out else out[-300:]
            return p, r.returncode, rules, first
        with ThreadPoolExecutor(10) as ex:
            res = list(ex.map(one, props))
        return d, {p: {"rc": rc, "rules": rules, "first": first} for p, rc, rules, first in res if rc != 0}
    finally:
        shutil.rmtree(root, ignore_errors=True)


if __name__ == "__main__":
    args = sys.argv[1:]
    props, tier = ALL, "quick"
    dirs = []
    i = 0
    while i < len(args):
        if args[i] == "--props":
            props = args[i + 1].split(","); i += 2
        elif args[i] == "--tier":
            tier = args[i + 1]; i += 2
        else:
            dirs.append(args[i]); i += 1
    for d in dirs:
        d, res = run(d, props, tier)
        fired = {p: v for p, v in res.items() if isinstance(v, dict) and v.get("rc") == 1}
        err = {p: v for p, v in res.items() if isinstance(v, dict) and v.get("rc") == 2}
        print(f"== {d}: fired={sorted(fired)} analysis-error={sorted(err)}" + (f" {res['error']}" if "error" in res else ""))
        for p, v in {**fired, **err}.items():
            print(f"   {p} rc={v['rc']} {v['rules']} {v['first']}")
