#!/bin/sh
# every registered command (quick and thorough) on the unchanged tree: all must exit 0
cd "$(dirname "$0")/.."
rc=0
for t in quick thorough; do
  for i in $(seq -w 1 20); do
    out=$(./check C$i --tier $t 2>&1); r=$?
    echo "$out" | grep -v "^KNOWN" | tail -1 | cut -c1-120
    [ $r -ne 0 ] && { echo "FAILED: C$i $t rc=$r"; rc=1; }
  done
done
exit $rc
