#!/venv/bin/python
"""confirm a behaviour-preserving twin: patch applies to a pristine worktree, suite passes, equiv.py exits 0 with the patch.
usage: confirm_twin.py <twin dir> [...]"""
import json, os, subprocess, sys, shutil, re
from concurrent.futures import ThreadPoolExecutor
PY = "/venv/bin/python"


def sh(cmd, cwd=None, env=None, timeout=3000):
    try:
        r = subprocess.run(cmd, shell=True, cwd=cwd, env=env, capture_output=True, text=True, timeout=timeout)
        return r.returncode, r.stdout + r.stderr
    except subprocess.TimeoutExpired:
        return 124, "timeout"


def confirm(d):
    d = os.path.abspath(d)
    wt = "/tmp/cw/" + d.strip("/").replace("/", "_")
    res = {"dir": d}
    sh(f"git -C /repo worktree remove --force {wt}")
    os.makedirs("/tmp/cw", exist_ok=True)
    rc, out = sh(f"git -C /repo worktree add -f --detach {wt} HEAD")
    try:
        rc, out = sh(f"git apply {d}/patch.diff", cwd=wt)
        res["apply_rc"] = rc
        if rc:
            res["error"] = out[-300:]
            return res
        env = dict(os.environ, PYTHONPATH=wt)
        rc, out = sh(f"{PY} {d}/equiv.py", cwd=wt, env=env, timeout=1500)
        res["equiv_rc"] = rc
        res["equiv_tail"] = out[-200:]
        rc, out = sh(f"{PY} -m pytest -q -p no:cacheprovider -n 4 --timeout=900 tests", cwd=wt)
        m = re.search(r"(\d+) passed", out)
        res["tests_passed"] = int(m.group(1)) if m else 0
        res["tests_rc"] = rc
        res["ok"] = res["equiv_rc"] == 0 and rc == 0 and res["tests_passed"] >= 196
    finally:
        sh(f"git -C /repo worktree remove --force {wt}")
        shutil.rmtree(wt, ignore_errors=True)
    return res


if __name__ == "__main__":
    with ThreadPoolExecutor(4) as ex:
        for r in ex.map(confirm, sys.argv[1:]):
            print(json.dumps(r), flush=True)
