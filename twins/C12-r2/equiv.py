import os, sys; sys.path.insert(0, os.getcwd())  # noqa: E401,E702

"""
Equivalence demonstration for refactoring r2 (property C12).

Loads the pristine py_ecc/optimized_bn128/optimized_pairing.py (saved next to this
script) under another module name inside the same package and compares it with the
refactored module of the current working tree on miller_loop, pairing and
final_exponentiate (results and exception classes).
"""
import importlib.util
import random
import time

HERE = os.path.dirname(os.path.abspath(__file__))

import py_ecc.optimized_bn128.optimized_pairing as new  # noqa: E402
from py_ecc.fields import (  # noqa: E402
    bn128_FQ12 as ref_FQ12,
    optimized_bn128_FQ as FQ,
    optimized_bn128_FQ2 as FQ2,
    optimized_bn128_FQ12 as FQ12,
)
from py_ecc.optimized_bn128 import (  # noqa: E402
    G1,
    G2,
    Z1,
    Z2,
    add,
    curve_order,
    field_modulus,
    multiply,
    neg,
    twist,
)


def load_pristine():
    name = "py_ecc.optimized_bn128._pristine_optimized_pairing"
    path = os.path.join(HERE, "pristine", "optimized_bn128_optimized_pairing.py")
    spec = importlib.util.spec_from_file_location(name, path)
    mod = importlib.util.module_from_spec(spec)
    sys.modules[name] = mod
    spec.loader.exec_module(mod)
    return mod


old = load_pristine()
assert os.path.realpath(new.__file__).startswith(os.path.realpath(os.getcwd())), new.__file__
assert old.__file__ != new.__file__
# the working tree really carries the refactoring
assert hasattr(new, "final_exponent") and not hasattr(old, "final_exponent")

failures = []
checks = 0


def canon(v):
    if isinstance(v, tuple):
        return ("tuple", tuple(canon(x) for x in v))
    if hasattr(v, "coeffs"):
        return (
            type(v).__module__,
            type(v).__name__,
            tuple((type(c).__name__, int(c)) for c in v.coeffs),
        )
    if hasattr(v, "n"):
        return (type(v).__name__, int(v.n))
    return (type(v).__name__, repr(v))


exc_seen = {}


def outcome(fn, *args, **kwargs):
    try:
        return ("ok", canon(fn(*args, **kwargs)))
    except BaseException as e:  # noqa: B902
        exc_seen[type(e).__name__] = exc_seen.get(type(e).__name__, 0) + 1
        return ("exc", type(e).__name__)


def same(label, fname, *args, **kwargs):
    global checks
    checks += 1
    a = outcome(getattr(old, fname), *args, **kwargs)
    b = outcome(getattr(new, fname), *args, **kwargs)
    if a != b:
        failures.append((label, fname, a, b))
    return a


t0 = time.time()
rng = random.Random(0xC12)
p = field_modulus
plain_exp = (p**12 - 1) // curve_order

# ---------------------------------------------------------------- module constants
for nm in ("ate_loop_count", "log_ate_loop_count", "pseudo_binary_encoding", "field_modulus"):
    checks += 1
    if getattr(old, nm) != getattr(new, nm):
        failures.append((nm, "const", None, None))
checks += 3
if new.final_exponent != plain_exp:
    failures.append(("final_exponent", "const", None, None))
if new.pseudo_binary_encoding[new.log_ate_loop_count :: -1] != old.pseudo_binary_encoding[63::-1]:
    failures.append(("slice", "const", None, None))
if set(new.pseudo_binary_encoding) != {0, 1, -1}:
    failures.append(("digits", "const", None, None))


# ---------------------------------------------------------------- subgroup points
def rescale(pt, k):
    x, y, z = pt
    return (x * k, y * k, z * k)


scalars_q = [1, 2, 3, curve_order - 1, rng.randrange(1, curve_order), rng.randrange(1, curve_order)]
scalars_p = [1, 2, 5, curve_order - 2, rng.randrange(1, curve_order), rng.randrange(1, curve_order)]
pairs = []
for a, b in zip(scalars_q, scalars_p):
    pairs.append((multiply(G2, a), multiply(G1, b)))
pairs.append((multiply(G2, 1), multiply(G1, scalars_p[5])))
# points produced by add() (different projective representative than multiply())
pairs.append((add(multiply(G2, 5), G2), add(multiply(G1, 9), G1)))

miller = []
for i, (Q, P) in enumerate(pairs):
    full = same("pair%d" % i, "pairing", Q, P)
    same("pair%d_kw" % i, "pairing", Q, P, final_exponentiate=True)
    same("pair%d_pos" % i, "pairing", Q, P, False)
    m = same("pair%d_nofe" % i, "pairing", Q, P, final_exponentiate=False)
    # truthy / falsy non-bool flags take the same branch
    if i < 1:
        for flag in (0, 1, None, "", "x", []):
            same("pair%d_flag%r" % (i, flag), "pairing", Q, P, final_exponentiate=flag)
    # another projective representative of the same points
    kq = FQ2([rng.randrange(1, p), rng.randrange(p)])
    kp = rng.randrange(2, p)
    same("pair%d_resc" % i, "pairing", rescale(Q, kq), rescale(P, kp))
    same("pair%d_resc_nofe" % i, "pairing", rescale(Q, kq), rescale(P, kp), final_exponentiate=False)
    # direct miller_loop on twisted / cast points
    tQ, cP = twist(Q), new.cast_point_to_fq12(P)
    same("miller%d" % i, "miller_loop", tQ, cP, final_exponentiate=False)
    if i < 3:
        same("miller%d_fe" % i, "miller_loop", tQ, cP)
        same("miller%d_fe_pos" % i, "miller_loop", tQ, cP, True)
    # two-step form == one-step form, across trees
    mo = old.pairing(Q, P, final_exponentiate=False)
    mn = new.pairing(Q, P, final_exponentiate=False)
    miller.append((mo, mn))
    checks += 1
    if not (
        canon(old.final_exponentiate(mo)) == canon(new.final_exponentiate(mn)) == full[1]
        and canon(mo) == canon(mn) == m[1]
    ):
        failures.append(("pair%d" % i, "two-step", None, None))

# products of 1..6 Miller values
acc_old, acc_new, prod_single = FQ12.one(), FQ12.one(), FQ12.one()
for i, (mo, mn) in enumerate(miller[:6]):
    acc_old, acc_new = acc_old * mo, acc_new * mn
    prod_single = prod_single * new.pairing(*pairs[i])
    checks += 1
    if not (
        canon(old.final_exponentiate(acc_old))
        == canon(new.final_exponentiate(acc_new))
        == canon(prod_single)
    ):
        failures.append(("product%d" % (i + 1), "final_exponentiate", None, None))

# bilinearity sanity on the new tree (guards against both trees being "equally wrong")
checks += 1
if canon(new.pairing(multiply(G2, 2), G1)) != canon(new.pairing(G2, G1) * new.pairing(G2, G1)):
    failures.append(("bilinear", "pairing", None, None))

# ---------------------------------------------------------------- final_exponentiate on FQ12 elements
def sparse(idx, vals):
    c = [0] * 12
    for i, v in zip(idx, vals):
        c[i] = v
    return FQ12(c)


elements = [
    ("zero", FQ12.zero()),
    ("one", FQ12.one()),
    ("minus_one", FQ12([p - 1] + [0] * 11)),
    ("w", FQ12([0, 1] + [0] * 10)),
    ("w11", sparse([11], [p - 1])),
    ("fq2_like", sparse([0, 6], [rng.randrange(p), rng.randrange(p)])),
    ("sparse_035", sparse([0, 3, 5], [1, p - 1, 7])),
    ("fq_coeffs", FQ12([FQ(rng.randrange(p)) for _ in range(12)])),
]
elements += [("rand%d" % i, FQ12([rng.randrange(p) for _ in range(12)])) for i in range(5)]
for label, x in elements:
    before = tuple(x.coeffs)
    r = same(label, "final_exponentiate", x)
    checks += 1
    if r[0] == "ok" and canon(x**plain_exp) != r[1]:
        failures.append((label, "final_exponentiate vs plain", None, None))
    if tuple(x.coeffs) != before:
        failures.append((label, "mutated", None, None))
# final_exponentiate accepts any field element type (Optimized_Field)
for label, x in [
    ("fq", FQ(7)),
    ("fq0", FQ(0)),
    ("fq2", FQ2([3, 4])),
    ("ref_fq12", ref_FQ12([1, 2, 3] + [0] * 9)),
    ("int", 3),
    ("none", None),
    ("str", "a"),
    ("tuple", (1, 2)),
]:
    if label == "int":
        # 3 ** huge exponent is not feasible in either version; skip evaluation
        continue
    same(label, "final_exponentiate", x)

# ---------------------------------------------------------------- infinity / invalid / malformed points
inf_q = [Z2, (FQ2([5, 7]), FQ2([1, 2]), FQ2.zero()), (FQ2.zero(), FQ2.zero(), FQ2.zero())]
inf_p = [Z1, (FQ(5), FQ(9), FQ(0)), (FQ(0), FQ(0), FQ(0))]
cases = []
for j, zq in enumerate(inf_q):
    cases.append(("infQ%d" % j, zq, G1))
    for k, zp in enumerate(inf_p):
        cases.append(("infQ%d_infP%d" % (j, k), zq, zp))
for k, zp in enumerate(inf_p):
    cases.append(("infP%d" % k, G2, zp))
cases += [
    ("swapped", G1, G2),
    ("off_curve_P", G2, (FQ(1), FQ(1), FQ(1))),
    ("off_curve_Q", (FQ2([1, 1]), FQ2([1, 1]), FQ2([1, 0])), G1),
    ("off_curve_both", (FQ2([1, 1]), FQ2([1, 1]), FQ2([1, 0])), (FQ(1), FQ(1), FQ(1))),
    ("off_curve_Q_infP", (FQ2([1, 1]), FQ2([1, 1]), FQ2([1, 0])), Z1),
    ("infQ_off_curve_P", Z2, (FQ(1), FQ(1), FQ(1))),
    ("none_Q", None, G1),
    ("none_P", G2, None),
    ("none_both", None, None),
    ("int_P", G2, (1, 2, 1)),
    ("int_P_inf", G2, (1, 1, 0)),
    ("short_P", G2, (FQ(1), FQ(2))),
    ("long_P", G2, (FQ(1), FQ(2), FQ(1), FQ(1))),
    ("short_Q", G2[:2], G1),
    ("list_P", G2, list(G1)),
    ("list_Q", list(G2), G1),
    ("str_P", G2, "abc"),
    ("empty_P", G2, ()),
    ("negP", G2, neg(G1)),
    ("negQ", neg(G2), G1),
    ("affine_like_Q", (G2[0], G2[1]), G1),
]
for label, Q, P in cases:
    same(label, "pairing", Q, P)
    same(label, "pairing", Q, P, final_exponentiate=False)

tG2, cG1 = twist(G2), new.cast_point_to_fq12(G1)
tZ2 = twist(Z2)
for label, Q, P in [
    ("m_none_Q", None, cG1),
    ("m_none_P", tG2, None),
    ("m_none_both", None, None),
    ("m_untwisted_Q", G2, G1),
    ("m_mixed", tG2, G1),
    ("m_short_Q", tG2[:2], cG1),
    ("m_short_P", tG2, cG1[:2]),
    ("m_int_Q", (1, 2, 1), cG1),
    ("m_str", "abc", cG1),
    ("m_infQ", tZ2, cG1),
    ("m_infP", tG2, new.cast_point_to_fq12(Z1)),
    ("m_list_Q", list(tG2), cG1),
]:
    same(label, "miller_loop", Q, P)
    same(label, "miller_loop", Q, P, final_exponentiate=False)

print("exception classes observed (old+new calls):", exc_seen)
print("checks:", checks, "failures:", len(failures), "time: %.1fs" % (time.time() - t0))
for f in failures[:20]:
    print("FAIL", f)
sys.exit(1 if failures else 0)
