import os, sys; sys.path.insert(0, os.getcwd())  # noqa: E401,E702

"""
Equivalence demonstration for twin q1 of property C14.

Loads the pristine py_ecc/fields/optimized_field_elements.py (saved next to this
script) under another module name and the edited one from the working tree, builds
the same field classes from both and checks that every result (class name, canonical
integer coefficients, coefficient types) and every exception class is identical.
"""

import importlib
import importlib.util
import random
import signal
import time

HERE = os.path.dirname(os.path.abspath(__file__))
PRISTINE_DIR = os.path.join(HERE, "pristine")
T0 = time.time()


def load_as(name, path):
    spec = importlib.util.spec_from_file_location(name, path)
    mod = importlib.util.module_from_spec(spec)
    sys.modules[name] = mod
    spec.loader.exec_module(mod)
    return mod


def load_modules():
    new = importlib.import_module("py_ecc.fields.optimized_field_elements")
    assert os.path.realpath(new.__file__).startswith(os.path.realpath(os.getcwd()))
    old = load_as(
        "pristine_optimized_field_elements",
        os.path.join(PRISTINE_DIR, "optimized_field_elements.py"),
    )
    pristine_utils = os.path.join(PRISTINE_DIR, "utils.py")
    if os.path.exists(pristine_utils):
        pu = load_as("pristine_utils", pristine_utils)
        # the pristine field module must use the pristine helpers
        old.prime_field_inv = pu.prime_field_inv
        old.deg = pu.deg
        old_utils = pu
    else:
        old_utils = importlib.import_module("py_ecc.utils")
    new_utils = importlib.import_module("py_ecc.utils")
    return old, new, old_utils, new_utils


OLD, NEW, OLD_UTILS, NEW_UTILS = load_modules()

from py_ecc.fields.field_properties import field_properties  # noqa: E402
import py_ecc.fields.field_elements as REF  # noqa: E402

BN = field_properties["bn128"]
BLS = field_properties["bls12_381"]

# name -> (p, fq2 modulus coeffs, fq12 modulus coeffs, degree-3 modulus coeffs)
FIELDS = {
    "bn128": (
        BN["field_modulus"],
        tuple(BN["fq2_modulus_coeffs"]),
        tuple(BN["fq12_modulus_coeffs"]),
        (3, 0, 2),
    ),
    "bls12_381": (
        BLS["field_modulus"],
        tuple(BLS["fq2_modulus_coeffs"]),
        tuple(BLS["fq12_modulus_coeffs"]),
        (2, 1, 0),
    ),
    # small instantiations; dense modulus polynomials exercise every mc_tuple
    "p7": (7, (1, 0), (3, 1, 4, 1, 5, 2, 6, 5, 3, 5, 1, 2), (2, 6, 0)),
    "p13": (13, (2, 5), (2, 0, 0, 0, 0, 0, 11, 0, 0, 0, 0, 0), (7, 0, 1)),
    "p3": (3, (1, 0), (1, 2, 0, 0, 1, 0, 0, 0, 2, 0, 0, 1), (1, 2, 0)),
    "p2": (2, (1, 1), (1, 1, 0, 1, 0, 0, 0, 0, 0, 0, 0, 0), (1, 1, 0)),
}


class Family:
    def __init__(self, mod, name, reference=False):
        p, c2, c12, c3 = FIELDS[name]
        self.p = p
        self.FQ = type("T_FQ", (mod.FQ,), {"field_modulus": p})
        self.FQP = type("T_FQP", (mod.FQP,), {"field_modulus": p})
        self.FQ2 = type(
            "T_FQ2",
            (mod.FQ2, self.FQP),
            {"field_modulus": p, "FQ2_MODULUS_COEFFS": c2},
        )
        self.FQ12 = type(
            "T_FQ12",
            (mod.FQ12, self.FQP),
            {"field_modulus": p, "FQ12_MODULUS_COEFFS": c12},
        )
        if reference:
            self.FQ3 = None
        else:
            # direct user of the FQP base class with its own degree
            def init3(self_, coeffs, _c3=c3, _base=mod.FQP):
                self_.mc_tuples = [(i, c) for i, c in enumerate(_c3) if c]
                _base.__init__(self_, coeffs, _c3)

            self.FQ3 = type(
                "T_FQ3",
                (self.FQP,),
                {"field_modulus": p, "degree": 3, "__init__": init3},
            )
        self.by_kind = {
            "FQ": self.FQ,
            "FQ2": self.FQ2,
            "FQ12": self.FQ12,
            "FQ3": self.FQ3,
        }

    def make(self, kind, payload):
        cls = self.by_kind[kind]
        if kind == "FQ":
            return cls(payload)
        return cls(list(payload))


DEG = {"FQ2": 2, "FQ12": 12, "FQ3": 3}


def canon(v):
    """Canonical, module-independent description of a value."""
    if isinstance(v, (OLD.FQ, NEW.FQ, REF.FQ)):
        return ("FQ", type(v).__name__, int(v.n))
    if isinstance(v, (OLD.FQP, NEW.FQP)):
        return (
            "FQP",
            type(v).__name__,
            tuple(("FQ" if not isinstance(c, int) else "int", int(c)) for c in v.coeffs),
            v.degree,
            tuple(int(c) for c in v.modulus_coeffs),
            tuple(v.mc_tuples),
        )
    if isinstance(v, REF.FQP):
        return ("FQP", type(v).__name__, tuple(("int", int(c)) for c in v.coeffs))
    if isinstance(v, (list, tuple)):
        return (type(v).__name__, tuple(canon(x) for x in v))
    if isinstance(v, float):
        return ("float", repr(v))  # repr so that nan compares equal to nan
    if isinstance(v, (bool, int, str, type(None))):
        return (type(v).__name__, v)
    return ("other", type(v).__name__)


class Hang(BaseException):
    pass


def _on_alarm(signum, frame):
    raise Hang()


signal.signal(signal.SIGALRM, _on_alarm)


def outcome(fn):
    # watchdog: an input on which the code under test does not terminate is a bug
    # of this script's input selection, not something to compare
    signal.alarm(20)
    try:
        return _outcome(fn)
    except Hang:
        print("HANG: a single evaluation took more than 20s")
        raise
    finally:
        signal.alarm(0)


def _outcome(fn):
    try:
        return ("ok", canon(fn()))
    except Hang:
        raise
    except RecursionError:
        raise
    except BaseException as e:  # noqa: B902
        return ("exc", type(e).__name__)


CHECKS = 0
TREE_STATS = {}


def same(desc, f_old, f_new):
    global CHECKS
    a, b = outcome(f_old), outcome(f_new)
    CHECKS += 1
    if a != b:
        print("MISMATCH", desc, "\n  pristine:", a, "\n  edited:  ", b)
        sys.exit(1)
    return a


# ---------------------------------------------------------------------------
# random straight-line programs (expression trees) -------------------------
# ---------------------------------------------------------------------------
def interesting_ints(rng, p):
    pool = [0, 1, 2, p - 1, p, p + 1, -1, -p, 2 * p, p // 2, (p + 1) // 2, 3]
    if rng.random() < 0.5:
        return rng.choice(pool)
    return rng.randrange(-2 * p, 2 * p + 1)


def rand_leaf(rng, kind, p):
    if kind == "FQ":
        return ("leaf", kind, interesting_ints(rng, p))
    n = DEG[kind]
    mode = rng.random()
    if mode < 0.1:
        cs = [0] * n
    elif mode < 0.2:
        cs = [0] * n
        cs[rng.randrange(n)] = interesting_ints(rng, p)
    elif mode < 0.3:
        cs = [interesting_ints(rng, p)] + [0] * (n - 1)
    else:
        cs = [interesting_ints(rng, p) for _ in range(n)]
    return ("leaf", kind, tuple(cs))


def rand_tree(rng, kind, p, depth):
    if depth == 0 or rng.random() < 0.12:
        return rand_leaf(rng, kind, p)
    ops = ["add", "sub", "mul", "div", "pow", "neg", "imul", "rimul", "idiv",
           "mul", "div", "add", "sub"]
    if kind == "FQ" or rng.random() < 0.01:
        # int + x, int - x and int / x are only defined for the prime field; for the
        # extensions they raise TypeError, which is compared too, but rarely, so that
        # most programs run to completion
        ops += ["iadd", "risub", "ridiv"]
    op = rng.choice(ops)
    if op in ("add", "sub", "mul", "div"):
        return (op, rand_tree(rng, kind, p, depth - 1), rand_tree(rng, kind, p, depth - 1))
    if op == "neg":
        return (op, rand_tree(rng, kind, p, depth - 1))
    if op == "pow":
        e = rng.choice([0, 1, 2, 3, 5, p - 1, p, p + 1, rng.randrange(0, 70), -1, -3])
        if kind == "FQ12" and p > 1000:
            e = rng.choice([0, 1, 2, 3, 7, -2])
        return (op, rand_tree(rng, kind, p, depth - 1), e)
    # integer mixing
    return (op, rand_tree(rng, kind, p, depth - 1), interesting_ints(rng, p))


def evaluate(fam, t):
    op = t[0]
    if op == "leaf":
        return fam.make(t[1], t[2])
    if op == "neg":
        return -evaluate(fam, t[1])
    if op in ("add", "sub", "mul", "div"):
        a, b = evaluate(fam, t[1]), evaluate(fam, t[2])
        if op == "add":
            return a + b
        if op == "sub":
            return a - b
        if op == "mul":
            return a * b
        return a / b
    a, k = evaluate(fam, t[1]), t[2]
    if op == "pow":
        return a**k
    if op == "imul":
        return a * k
    if op == "rimul":
        return k * a
    if op == "idiv":
        return a / k
    if op == "iadd":
        return a + k
    if op == "risub":
        return k - a
    if op == "ridiv":
        return k / a
    raise AssertionError(op)


def ref_compare(fam_new, fam_ref, t):
    """The property itself: edited optimized classes agree with the reference."""
    a, b = outcome(lambda: evaluate(fam_new, t)), outcome(lambda: evaluate(fam_ref, t))
    if a[0] == "ok" and b[0] == "ok":
        va = a[1][2] if a[1][0] == "FQP" else a[1][2]
        vb = b[1][2] if b[1][0] == "FQP" else b[1][2]
        if va != vb:
            print("PROPERTY VIOLATION (edited optimized vs reference)", t, va, vb)
            sys.exit(1)


def run_trees(seed):
    rng = random.Random(seed)
    plan = {
        # kind -> (number of trees for big fields, for small fields, max depth)
        "FQ": (300, 400, 8),
        "FQ2": (250, 400, 8),
        "FQ3": (100, 300, 8),
        "FQ12": (16, 80, 8),
    }
    for name in FIELDS:
        old, new, ref = Family(OLD, name), Family(NEW, name), Family(REF, name, True)
        big = old.p > 1000
        for kind, (nbig, nsmall, maxd) in plan.items():
            n = nbig if big else nsmall
            for k in range(n):
                depth = rng.randrange(1, maxd + 1)
                if kind == "FQ12":
                    depth = rng.randrange(1, 5) if big else rng.randrange(1, 7)
                    if k == 0:
                        depth = 8  # at least one full-depth degree-12 program
                t = rand_tree(rng, kind, old.p, depth)
                res = same(
                    ("tree", name, kind, t),
                    lambda: evaluate(old, t),
                    lambda: evaluate(new, t),
                )
                TREE_STATS[res[0]] = TREE_STATS.get(res[0], 0) + 1
                genuine_field = big or kind == "FQ" or (name == "p7" and kind == "FQ2")
                if genuine_field and kind != "FQ3" and (kind != "FQ12" or k < 4):
                    ref_compare(new, ref, t)
        print(f"  trees {name}: ok ({CHECKS} checks so far, {time.time() - T0:.1f}s)")


# ---------------------------------------------------------------------------
# direct, boundary and malformed-operand checks ------------------------------
# ---------------------------------------------------------------------------
class Weird:
    pass


def operands_for(fam, other_fam, kind, rng):
    """Well-formed and malformed right operands for an element of ``kind``."""
    p = fam.p
    ops = [
        ("int0", lambda f: 0),
        ("int1", lambda f: 1),
        ("intp", lambda f: f.p),
        ("int-1", lambda f: -1),
        ("bigint", lambda f: 3 * f.p + 2),
        ("True", lambda f: True),
        ("False", lambda f: False),
        ("None", lambda f: None),
        ("str", lambda f: "7"),
        ("float", lambda f: 2.0),
        ("list", lambda f: [1, 2]),
        ("tuple", lambda f: (1, 2)),
        ("weird", lambda f: Weird()),
        ("fq", lambda f: f.FQ(5)),
        ("fq0", lambda f: f.FQ(0)),
    ]
    for k2 in ("FQ2", "FQ3", "FQ12"):
        n = DEG[k2]
        cs = tuple(rng.randrange(0, p) for _ in range(n))
        ops.append((k2 + "rand", lambda f, k2=k2, cs=cs: f.make(k2, cs)))
        ops.append((k2 + "zero", lambda f, k2=k2, n=n: f.make(k2, (0,) * n)))
        ops.append((k2 + "one", lambda f, k2=k2, n=n: f.make(k2, (1,) + (0,) * (n - 1))))
        # coefficients given as FQ objects (kept un-normalised by the constructor)
        ops.append(
            (k2 + "fqcoeffs", lambda f, k2=k2, cs=cs: f.by_kind[k2]([f.FQ(c) for c in cs]))
        )
    return ops


def binary_ops():
    return [
        ("mul", lambda a, b: a * b),
        ("rmul", lambda a, b: b * a),
        ("add", lambda a, b: a + b),
        ("sub", lambda a, b: a - b),
        ("rsub", lambda a, b: b - a),
        ("div", lambda a, b: a / b),
        ("rdiv", lambda a, b: b / a),
        ("eq", lambda a, b: a == b),
        ("ne", lambda a, b: a != b),
        ("pow", lambda a, b: a**b),
        ("__mul__", lambda a, b: a.__mul__(b)),
        ("__rmul__", lambda a, b: a.__rmul__(b)),
        ("__div__", lambda a, b: a.__div__(b)),
    ]


def run_direct(seed):
    rng = random.Random(seed)
    for name in FIELDS:
        old, new = Family(OLD, name), Family(NEW, name)
        p = old.p
        for kind in ("FQ", "FQ2", "FQ3", "FQ12"):
            lefts = []
            if kind == "FQ":
                lefts = [0, 1, p - 1, p, -1, rng.randrange(p), 2]
            else:
                n = DEG[kind]
                lefts = [
                    (0,) * n,
                    (1,) + (0,) * (n - 1),
                    (0,) * (n - 1) + (1,),
                    (p - 1,) * n,
                    tuple(rng.randrange(-p, 2 * p) for _ in range(n)),
                    tuple(rng.randrange(p) for _ in range(n)),
                ]
            for payload in lefts:
                mk_old = lambda: old.make(kind, payload)  # noqa: E731
                mk_new = lambda: new.make(kind, payload)  # noqa: E731
                # unary things
                for uname, u in [
                    ("neg", lambda a: -a),
                    ("sgn0", lambda a: a.sgn0),
                    ("sgn0twice", lambda a: (a.sgn0, a.sgn0)),
                    ("repr", lambda a: repr(a)),
                    ("inv", lambda a: a.inv() if hasattr(a, "inv") else 1 / a),
                    ("sq", lambda a: a * a),
                    ("one", lambda a: type(a).one() if kind != "FQ3" else None),
                    ("zero", lambda a: type(a).zero()),
                    ("mulinv", lambda a: a * (a.inv() if hasattr(a, "inv") else 1 / a)),
                ]:
                    same((name, kind, payload, uname), lambda: u(mk_old()), lambda: u(mk_new()))
                ops_old = operands_for(old, new, kind, random.Random(seed + 1))
                ops_new = operands_for(new, old, kind, random.Random(seed + 1))
                for (oname, mo), (_, mn) in zip(ops_old, ops_new):
                    for bname, f in binary_ops():
                        if bname == "pow" and oname not in (
                            "int0", "int1", "int-1", "True", "False", "None", "str",
                            "float", "weird", "fq",
                        ):
                            continue
                        if bname == "pow" and oname == "float":
                            continue  # 2.0 >>= 1 raises in both, covered by "str"
                        same(
                            (name, kind, payload, bname, oname),
                            lambda: f(mk_old(), mo(old)),
                            lambda: f(mk_new(), mn(new)),
                        )
                    # operands are not mutated
                    a_o, b_o = mk_old(), outcome(lambda: mo(old))
                    a_n, b_n = mk_new(), outcome(lambda: mn(new))
                    assert b_o == b_n
                    bo, bn = mo(old), mn(new)
                    before = (canon(a_n), canon(bn))
                    try:
                        a_o * bo
                    except Exception:
                        pass
                    try:
                        a_n * bn
                    except Exception:
                        pass
                    assert (canon(a_n), canon(bn)) == before
                    assert (canon(a_o), canon(bo)) == before
        print(f"  direct {name}: ok ({CHECKS} checks so far, {time.time() - T0:.1f}s)")


def run_cross_field():
    """Elements of different field families / modules meeting each other."""
    for n1, n2 in [("p7", "p13"), ("bn128", "bls12_381"), ("p7", "bn128")]:
        o1, o2 = Family(OLD, n1), Family(OLD, n2)
        e1, e2 = Family(NEW, n1), Family(NEW, n2)
        for kind in ("FQ2", "FQ12", "FQ3"):
            n = DEG[kind]
            cs1 = tuple(range(1, n + 1))
            cs2 = tuple(range(3, n + 3))
            for bname, f in binary_ops():
                if bname == "pow":
                    continue
                same(
                    ("cross", n1, n2, kind, bname),
                    lambda: f(o1.make(kind, cs1), o2.make(kind, cs2)),
                    lambda: f(e1.make(kind, cs1), e2.make(kind, cs2)),
                )


def run_exhaustive_small():
    """All pairs of the 49 elements of F_7[x]/(x^2+1): *, /, inverse; sgn0."""
    old, new = Family(OLD, "p7"), Family(NEW, "p7")
    elems = [(a, b) for a in range(7) for b in range(7)]
    for x in elems:
        same(("inv", x), lambda: old.FQ2(list(x)).inv(), lambda: new.FQ2(list(x)).inv())
        same(("sgn0", x), lambda: old.FQ2(list(x)).sgn0, lambda: new.FQ2(list(x)).sgn0)
        for y in elems:
            same(
                ("mul", x, y),
                lambda: old.FQ2(list(x)) * old.FQ2(list(y)),
                lambda: new.FQ2(list(x)) * new.FQ2(list(y)),
            )
            same(
                ("div", x, y),
                lambda: old.FQ2(list(x)) / old.FQ2(list(y)),
                lambda: new.FQ2(list(x)) / new.FQ2(list(y)),
            )
    # all 27 elements of the cubic extension of F_3, all pairs
    old, new = Family(OLD, "p3"), Family(NEW, "p3")
    elems = [(a, b, c) for a in range(3) for b in range(3) for c in range(3)]
    for x in elems:
        for y in elems:
            for bname, f in binary_ops()[:6]:
                same(
                    ("F27", bname, x, y),
                    lambda: f(old.FQ3(list(x)), old.FQ3(list(y))),
                    lambda: f(new.FQ3(list(x)), new.FQ3(list(y))),
                )
    print(f"  exhaustive small fields: ok ({CHECKS} checks so far)")


def run_poly_div_and_utils(seed):
    rng = random.Random(seed)
    # prime_field_inv / deg, exhaustively on small arguments and on odd ones
    for n in list(range(-6, 40)) + [BN["field_modulus"], BLS["field_modulus"]]:
        for a in list(range(-45, 90)) + [n, 2 * n, -n, n - 1, n + 1, 10**40 + 7, True, False]:
            same(
                ("prime_field_inv", a, n),
                lambda: OLD_UTILS.prime_field_inv(a, n),
                lambda: NEW_UTILS.prime_field_inv(a, n),
            )
    for a, n in [(1.5, 7), (3, 7.0), ("3", 7), (3, "7"), (None, 7), (3, None),
                 (OLD.FQ, 7), ([1], 7), (2.0, 7.0), (float("nan"), 7), (5, float("inf"))]:
        same(
            ("prime_field_inv-odd", repr(a), repr(n)),
            lambda: OLD_UTILS.prime_field_inv(a, n),
            lambda: NEW_UTILS.prime_field_inv(a, n),
        )
    for name in FIELDS:
        old, new = Family(OLD, name), Family(NEW, name)
        p = old.p
        same(("fq-as-a", name), lambda: OLD_UTILS.prime_field_inv(old.FQ(3), p),
             lambda: NEW_UTILS.prime_field_inv(new.FQ(3), p))
        for kind in ("FQ2", "FQ3", "FQ12"):
            n = DEG[kind]
            for _ in range(40):
                la = rng.randrange(1, n + 3)
                lb = rng.randrange(1, n + 3)
                a = [rng.randrange(p) if rng.random() < 0.8 else 0 for _ in range(la)]
                b = [rng.randrange(p) if rng.random() < 0.8 else 0 for _ in range(lb)]
                if rng.random() < 0.2:
                    a[-1] = 0
                if rng.random() < 0.2:
                    b[-1] = 0
                zo = old.make(kind, (0,) * n)
                zn = new.make(kind, (0,) * n)
                a0, b0 = list(a), list(b)
                same(
                    ("polydiv", name, kind, a, b),
                    lambda: zo.optimized_poly_rounded_div(list(a), list(b)),
                    lambda: zn.optimized_poly_rounded_div(list(a), list(b)),
                )
                assert a == a0 and b == b0
                # same, with FQ objects as polynomial coefficients
                same(
                    ("polydiv-fq", name, kind, a, b),
                    lambda: zo.optimized_poly_rounded_div(
                        [old.FQ(x) for x in a], [old.FQ(x) for x in b]
                    ),
                    lambda: zn.optimized_poly_rounded_div(
                        [new.FQ(x) for x in a], [new.FQ(x) for x in b]
                    ),
                )
            for bad_a, bad_b in [([], [1]), ([1], []), ([1, 2], [0]), ([0], [0]),
                                 ([1, 2, 3], [0, 0]), (["x"], [1]), ([1, 2], [None, 1]),
                                 ([1], [0, 1]), ([1], ["q", "r"]), ([1.5, 2.5], [2])]:
                zo = old.make(kind, (0,) * n)
                zn = new.make(kind, (0,) * n)
                same(
                    ("polydiv-bad", name, kind, bad_a, bad_b),
                    lambda: zo.optimized_poly_rounded_div(list(bad_a), list(bad_b)),
                    lambda: zn.optimized_poly_rounded_div(list(bad_a), list(bad_b)),
                )
    print(f"  poly division and utils: ok ({CHECKS} checks so far)")


def run_constructor_edges():
    for name in ("p7", "bn128"):
        old, new = Family(OLD, name), Family(NEW, name)
        for kind in ("FQ2", "FQ3", "FQ12"):
            for payload in [(), (1,), (1, 2, 3, 4), ("a", "b"), (None, None),
                            (1.5, 2.5), (1, "b"), tuple(range(12)), tuple(range(13))]:
                same(
                    ("ctor", name, kind, payload),
                    lambda: old.make(kind, payload),
                    lambda: new.make(kind, payload),
                )
            # elements with non-numeric coefficients take part in arithmetic
            for payload in [("a", "b"), (1.5, 2.5)]:
                for bname, f in binary_ops():
                    for rhs in (2, 0, None):
                        same(
                            ("odd-coeffs", name, kind, payload, bname, rhs),
                            lambda: f(old.make(kind, payload * (DEG[kind] // 2)), rhs),
                            lambda: f(new.make(kind, payload * (DEG[kind] // 2)), rhs),
                        )
        # classes without the required attributes
        for modname, mod in (("old", OLD), ("new", NEW)):
            pass
        same(("nomod-fq",), lambda: OLD.FQ(1), lambda: NEW.FQ(1))
        same(("nomod-fqp",), lambda: OLD.FQP([1], [1]), lambda: NEW.FQP([1], [1]))
        same(("nomod-fq2",), lambda: OLD.FQ2([1, 2]), lambda: NEW.FQ2([1, 2]))
        same(("nomod-fq12",), lambda: OLD.FQ12([1] * 12), lambda: NEW.FQ12([1] * 12))
        # FQP base used directly (no mc_tuples on the instance)
        same(
            ("bare-fqp-mul",),
            lambda: old.FQP([1, 2], [1, 0]) * old.FQP([3, 4], [1, 0]),
            lambda: new.FQP([1, 2], [1, 0]) * new.FQP([3, 4], [1, 0]),
        )
        same(
            ("bare-fqp-imul",),
            lambda: old.FQP([1, 2], [1, 0]) * 3,
            lambda: new.FQP([1, 2], [1, 0]) * 3,
        )
        same(
            ("bare-fqp-pow",),
            lambda: old.FQP([1, 2], [1, 0]) ** 0,
            lambda: new.FQP([1, 2], [1, 0]) ** 0,
        )
        same(
            ("bare-fqp-div",),
            lambda: old.FQP([1, 2], [1, 0]) / 3,
            lambda: new.FQP([1, 2], [1, 0]) / 3,
        )
    # zero modulus / degenerate classes
    for mod_value in (0, 1, -7, None, 2.0):
        def build(mod):
            FQ = type("Z_FQ", (mod.FQ,), {"field_modulus": 5})
            FQP = type("Z_FQP", (mod.FQP,), {"field_modulus": mod_value})
            FQ2 = type("Z_FQ2", (mod.FQ2, FQP),
                       {"field_modulus": mod_value, "FQ2_MODULUS_COEFFS": (1, 0)})
            return FQ, FQ2

        for coeffs_kind in ("int", "fq", "str"):
            def elem(mod):
                FQ, FQ2 = build(mod)
                if coeffs_kind == "int":
                    return FQ2([3, 4])
                if coeffs_kind == "fq":
                    return FQ2([FQ(3), FQ(4)])
                return FQ2(["a", "b"])

            for bname, f in binary_ops():
                for rhs_kind in ("int", "self", "zero"):
                    def rhs(mod, a):
                        if rhs_kind == "int":
                            return 3
                        if rhs_kind == "zero":
                            return 0
                        return a

                    def go(mod):
                        a = elem(mod)
                        return f(a, rhs(mod, a))

                    if bname == "pow" and rhs_kind == "self":
                        continue
                    # Euclid's loop need not terminate when the "field" has no inverses
                    nonterminating = mod_value in (-7, 2.0)
                    if nonterminating and rhs_kind == "self" and "div" in bname:
                        continue
                    same(("degenerate", mod_value, coeffs_kind, bname, rhs_kind),
                         lambda: go(OLD), lambda: go(NEW))
            if mod_value in (-7, 2.0):
                continue
            same(("degenerate-inv", mod_value, coeffs_kind),
                 lambda: elem(OLD).inv(), lambda: elem(NEW).inv())
            same(("degenerate-polydiv", mod_value, coeffs_kind),
                 lambda: elem(OLD).optimized_poly_rounded_div([1], [0, 1]),
                 lambda: elem(NEW).optimized_poly_rounded_div([1], [0, 1]))
    print(f"  constructor / degenerate classes: ok ({CHECKS} checks so far)")


def run_history(seed):
    """Repeated and interleaved calls give equal answers (no hidden state)."""
    rng = random.Random(seed)
    for name in ("p7", "p13", "bls12_381", "bn128"):
        old, new = Family(OLD, name), Family(NEW, name)
        p = old.p
        calls = []
        for kind in ("FQ", "FQ2", "FQ3", "FQ12"):
            for _ in range(6 if kind != "FQ12" else 3):
                t = rand_tree(rng, kind, p, 3)
                calls.append((kind, t))
        # persistent operands reused through the whole history
        keep_old = {k: old.make(*rand_leaf(random.Random(9), k, p)[1:]) for k in DEG}
        keep_new = {k: new.make(*rand_leaf(random.Random(9), k, p)[1:]) for k in DEG}
        first = {}
        order = list(range(len(calls))) * 3
        rng.shuffle(order)
        for idx in order:
            kind, t = calls[idx]
            r = same(("history", name, idx), lambda: evaluate(old, t), lambda: evaluate(new, t))
            assert first.setdefault(idx, r) == r, "result changed with call history"
            if kind != "FQ":
                k = kind
                r2 = same(
                    ("history-keep", name, idx),
                    lambda: (keep_old[k] * evaluate(old, t), keep_old[k].inv(),
                             keep_old[k] / keep_old[k], keep_old[k].sgn0, keep_old[k] * 3,
                             keep_old[k]),
                    lambda: (keep_new[k] * evaluate(new, t), keep_new[k].inv(),
                             keep_new[k] / keep_new[k], keep_new[k].sgn0, keep_new[k] * 3,
                             keep_new[k]),
                )
                assert first.setdefault(("keep", idx), r2) == r2
    print(f"  call histories: ok ({CHECKS} checks so far)")


def run_library_classes():
    """The real exported classes of the edited tree against pristine-built ones."""
    import py_ecc.fields as F

    rng = random.Random(77)
    for name, pref in (("bn128", "optimized_bn128"), ("bls12_381", "optimized_bls12_381")):
        old = Family(OLD, name)
        lib = {
            "FQ": getattr(F, pref + "_FQ"),
            "FQ2": getattr(F, pref + "_FQ2"),
            "FQ12": getattr(F, pref + "_FQ12"),
        }

        class LibFam:
            p = old.p
            by_kind = lib

            def make(self, kind, payload):
                return lib[kind](payload if kind == "FQ" else list(payload))

        libfam = LibFam()
        for kind in ("FQ", "FQ2", "FQ12"):
            for _ in range(25 if kind != "FQ12" else 6):
                t = rand_tree(rng, kind, old.p, 4 if kind != "FQ12" else 3)
                a = outcome(lambda: evaluate(old, t))
                b = outcome(lambda: evaluate(libfam, t))
                # class names differ (library classes have their own names)
                strip = lambda o: (o[0], o[1][0], o[1][2:]) if o[0] == "ok" else o  # noqa: E731
                if strip(a) != strip(b):
                    print("MISMATCH library class", name, kind, t, a, b)
                    sys.exit(1)
    print("  exported library classes: ok")


def main():
    print("pristine:", OLD.__file__)
    print("edited:  ", NEW.__file__)
    run_poly_div_and_utils(5)
    run_constructor_edges()
    run_exhaustive_small()
    run_cross_field()
    run_direct(11)
    run_history(23)
    run_library_classes()
    run_trees(2024)
    print("  expression-tree outcomes (identical in both versions):", TREE_STATS)
    assert TREE_STATS.get("ok", 0) > 3 * TREE_STATS.get("exc", 0)
    print(f"ALL EQUIVALENT: {CHECKS} paired checks, {time.time() - T0:.1f}s")


if __name__ == "__main__":
    main()
