import os, sys; sys.path.insert(0, os.getcwd())  # noqa: E401,E702

"""
Equivalence demonstration for C03/s1.

s1 moves G2_to_signature / signature_to_G2 from py_ecc/bls/g2_primitives.py into the
new module py_ecc/bls/signature_encoding.py, re-exports them from g2_primitives and
lets ciphersuites import them from the new module.

The pristine g2_primitives.py and ciphersuites.py (saved under ./pristine) are loaded
under other module names inside the py_ecc.bls package (the pristine ciphersuites is
wired to the pristine g2_primitives), and both versions are run side by side.
"""
import importlib
import itertools
import random
import time
import types

HERE = os.path.dirname(os.path.abspath(__file__))
PRISTINE = os.path.join(HERE, "pristine")
T0 = time.time()


def load_pristine(filename, modname, replacements=()):
    src = open(os.path.join(PRISTINE, filename)).read()
    for old, new in replacements:
        assert src.count(old) >= 1, (filename, old)
        src = src.replace(old, new)
    mod = types.ModuleType(modname)
    mod.__file__ = os.path.join(PRISTINE, filename)
    mod.__package__ = modname.rpartition(".")[0]
    sys.modules[modname] = mod
    exec(compile(src, mod.__file__, "exec"), mod.__dict__)
    return mod


import py_ecc.bls  # noqa: E402  (edited tree, from cwd)

assert os.path.abspath(py_ecc.bls.__file__).startswith(os.getcwd()), py_ecc.bls.__file__

new_prim = importlib.import_module("py_ecc.bls.g2_primitives")
new_enc = importlib.import_module("py_ecc.bls.signature_encoding")
new_cs = importlib.import_module("py_ecc.bls.ciphersuites")

old_prim = load_pristine("g2_primitives.py", "py_ecc.bls.pristine_g2_primitives")
old_cs = load_pristine(
    "ciphersuites.py",
    "py_ecc.bls.pristine_ciphersuites",
    [("from .g2_primitives import", "from .pristine_g2_primitives import")],
)

# the pristine copies really are separate objects, and really pristine
assert old_prim.G2_to_signature is not new_prim.G2_to_signature
assert old_prim.G2_to_signature.__module__ == "py_ecc.bls.pristine_g2_primitives"
assert old_cs.G2_to_signature is old_prim.G2_to_signature
assert old_cs.signature_to_G2 is old_prim.signature_to_G2
assert old_cs.G2Basic is not new_cs.G2Basic

# --- structural checks: every old import path still works and binds the same object
for name in ("G2_to_signature", "signature_to_G2"):
    assert getattr(new_prim, name) is getattr(new_enc, name), name
    assert getattr(new_cs, name) is getattr(new_enc, name), name
for name in ("subgroup_check", "G1_to_pubkey", "pubkey_to_G1", "is_inf"):
    assert getattr(new_cs, name) is getattr(new_prim, name), name
    assert hasattr(old_prim, name)
public_old = {n for n in vars(old_prim) if not n.startswith("__")}
public_new = {n for n in vars(new_prim) if not n.startswith("__")}
# names that disappear from g2_primitives are only imports it no longer needs
assert public_old - public_new <= {
    "BLSSignature",
    "compress_G2",
    "decompress_G2",
    "G2Compressed",
    "G2Uncompressed",
}, public_old - public_new
assert py_ecc.bls.G2Basic is new_cs.G2Basic

from py_ecc.fields import optimized_bls12_381_FQ2 as FQ2  # noqa: E402
from py_ecc.optimized_bls12_381 import (  # noqa: E402
    G1,
    G2,
    Z1,
    Z2,
    add,
    curve_order,
    field_modulus as q,
    multiply,
    neg,
    normalize,
)

N_CHECKS = 0


def outcome(f, *args):
    try:
        r = f(*args)
    except BaseException as e:  # noqa: B902
        return ("exc", type(e))
    return ("ok", type(r), r)


def same(fo, fn, *args, label=""):
    global N_CHECKS
    a = outcome(fo, *args)
    b = outcome(fn, *args)
    assert a == b, (label, args, a, b)
    N_CHECKS += 1
    return a


rnd = random.Random(0xC03)

# ---------------------------------------------------------------- codec level
scalars = [1, 2, 3, 5, 7, curve_order - 1, curve_order - 2, 2**64 + 13] + [
    rnd.randrange(1, curve_order) for _ in range(6)
]
g2_points = [Z2, (FQ2.one(), FQ2.one(), FQ2.zero()), (FQ2([5, 9]), FQ2([7, 1]), FQ2.zero())]
for k in scalars:
    P = multiply(G2, k)
    g2_points.append(P)
    x, y = normalize(P)
    g2_points.append((x, y, FQ2.one()))
    lam = FQ2([rnd.randrange(1, q), rnd.randrange(q)])
    g2_points.append((P[0] * lam, P[1] * lam, P[2] * lam))
    g2_points.append(neg(P))
# not on the curve / wrong shapes / wrong field
bad_points = [
    (FQ2([1, 2]), FQ2([3, 4]), FQ2.one()),
    (FQ2.zero(), FQ2.zero(), FQ2.one()),
    G1,
    Z1,
    (G2[0], G2[1]),
    None,
    b"",
]
sig_bytes = []
for P in g2_points + bad_points:
    r = same(old_prim.G2_to_signature, new_enc.G2_to_signature, P, label="G2_to_signature")
    same(old_prim.G2_to_signature, new_prim.G2_to_signature, P, label="G2_to_signature/re")
    if r[0] == "ok":
        assert r[1] is bytes and len(r[2]) == 96
        sig_bytes.append(r[2])

inf_sig = bytes([0xC0]) + bytes(95)
malformed = [
    b"",
    b"\x00",
    bytes(95),
    bytes(96),
    bytes(97),
    inf_sig,
    inf_sig + b"\x00",
    inf_sig[:-1],
    bytes([0xE0]) + bytes(95),  # infinity with a_flag
    bytes([0x40]) + bytes(95),  # b_flag without c_flag
    bytes([0x80]) + bytes(95),  # x = 0, finite
    bytes([0xA0]) + bytes(95),
    bytes([0xC0]) + bytes(94) + b"\x01",  # b_flag set but z2 != 0
    bytes([0xC0]) + bytes(46) + b"\x01" + bytes(48),  # b_flag set but x1 != 0
    b"\xA0" + b"\x11" * 95,
    b"\x9f" + b"\xff" * 95,  # x1 >= q
    b"\x80" + bytes(47) + b"\xff" * 48,  # z2 >= q
    b"\x80" + bytes(47) + b"\x1a" + b"\xff" * 47,  # z2 >= q
    b"\xff" * 96,
    b"\xff" * 200,
    bytearray(inf_sig),
    memoryview(inf_sig),
    list(inf_sig),
    "c0" + "00" * 95,
    12345,
    None,
]
for s in sig_bytes[:12]:
    malformed.append(s[:-1])
    malformed.append(s + b"\x00")
    malformed.append(bytes([s[0] ^ 0x20]) + s[1:])  # flip a_flag
    malformed.append(bytes([s[0] ^ 0x80]) + s[1:])  # drop c_flag
    malformed.append(bytes([s[0] | 0x40]) + s[1:])  # set b_flag
    malformed.append(s[:48] + bytes([s[48] | 0x80]) + s[49:])  # flags in z2
    malformed.append(s[:95] + bytes([s[95] ^ 1]))  # probably not on curve
    malformed.append(s[48:] + s[:48])
    malformed.append(bytearray(s))
for _ in range(12):
    malformed.append(bytes([0x80 | rnd.randrange(0x20)]) + rnd.randbytes(95))


def pt_key(r):
    # FQ2 tuples compare by value; keep types in the picture too
    if r[0] == "ok" and isinstance(r[2], tuple):
        return (r[0], r[1], tuple((type(c), tuple(int(v) for v in c.coeffs)) for c in r[2]))
    return r


for s in sig_bytes + malformed:
    a = pt_key(outcome(old_prim.signature_to_G2, s))
    for f in (new_enc.signature_to_G2, new_prim.signature_to_G2, new_cs.signature_to_G2):
        b = pt_key(outcome(f, s))
        assert a == b, ("signature_to_G2", s, a, b)
        N_CHECKS += 1
# the decoded identity is the shared Z2 object in both versions
assert old_prim.signature_to_G2(inf_sig) is Z2 and new_enc.signature_to_G2(inf_sig) is Z2

print("codec checks done", N_CHECKS, "%.1fs" % (time.time() - T0))

# ---------------------------------------------------------------- Aggregate
SUITES = ("G2Basic", "G2MessageAugmentation", "G2ProofOfPossession")
pool = sig_bytes[:]
rnd.shuffle(pool)
for suite in SUITES:
    fo = getattr(old_cs, suite).Aggregate
    fn = getattr(new_cs, suite).Aggregate
    same(fo, fn, [], label="agg-empty")
    same(fo, fn, (), label="agg-empty-tuple")
    same(fo, fn, None, label="agg-none")
    same(fo, fn, [inf_sig], label="agg-inf")
    same(fo, fn, [inf_sig, inf_sig], label="agg-inf2")
    for n in (1, 2, 3, 5, 32) if suite == SUITES[0] else (1, 2, 4):
        sigs = [rnd.choice(pool) for _ in range(n)]
        base = same(fo, fn, sigs, label="agg")
        assert base[0] == "ok"
        same(fo, fn, tuple(sigs), label="agg-tuple")
        same(fo, fn, list(reversed(sigs)), label="agg-rev")
        sh = sigs[:]
        rnd.shuffle(sh)
        assert same(fo, fn, sh, label="agg-shuffled")[2] == base[2]
        if n >= 2:
            # grouping: aggregate of aggregates
            cut = rnd.randrange(1, n)
            left = same(fo, fn, sigs[:cut], label="agg-left")[2]
            right = same(fo, fn, sigs[cut:], label="agg-right")[2]
            assert same(fo, fn, [left, right], label="agg-grouped")[2] == base[2]
        # repeat: equal arguments give equal results after other calls
        assert same(fo, fn, sigs, label="agg-again") == base
    # P + (-P) and doubling
    P = multiply(G2, 11)
    sP, sN = new_enc.G2_to_signature(P), new_enc.G2_to_signature(neg(P))
    assert same(fo, fn, [sP, sN], label="agg-cancel")[2] == inf_sig
    same(fo, fn, [sP, sP], label="agg-double")
    same(fo, fn, [sP, sN, sP], label="agg-mix")
    # wrongly sized / malformed entries at every position
    good = pool[:2]
    for i, bad in enumerate(malformed):
        # all positions for the first suite, a rotating position for the others
        for pos in range(3) if suite == SUITES[0] else (i % 3,):
            arg = good[:pos] + [bad] + good[pos:]
            same(fo, fn, arg, label="agg-bad")
        same(fo, fn, [bad], label="agg-bad-single")
print("Aggregate checks done", N_CHECKS, "%.1fs" % (time.time() - T0))

# ---------------------------------------------------------------- verification
sks = [1, 2, 3, curve_order - 1, 0xDEADBEEF, rnd.randrange(1, curve_order)]
msgs = [b"", b"\x00", b"abc", b"msg-%d" % 3, b"x" * 100, bytes(48)]
inf_pk = bytes([0xC0]) + bytes(47)


def sign_all(suite_new, ks, ms):
    return [suite_new.Sign(k, m) for k, m in zip(ks, ms)]


def verify_matrix(suite, n, repeated_msgs=False, repeated_keys=False):
    so, sn = getattr(old_cs, suite), getattr(new_cs, suite)
    ks = [sks[i % (2 if repeated_keys else len(sks))] for i in range(n)]
    ms = [msgs[0] if repeated_msgs else msgs[i] for i in range(n)]
    pks = [same(so.SkToPk, sn.SkToPk, k, label="sktopk")[2] for k in ks]
    sigs = []
    for k, m in zip(ks, ms):
        sigs.append(same(so.Sign, sn.Sign, k, m, label="sign")[2])
    agg = same(so.Aggregate, sn.Aggregate, sigs, label="agg-v")[2]
    av = lambda S: S.AggregateVerify  # noqa: E731
    r = same(av(so), av(sn), pks, ms, agg, label="AV-good")
    expect_true = not (suite == "G2Basic" and len(set(ms)) != len(ms))
    assert r == ("ok", bool, expect_true), (suite, n, r)
    # repeat with equal arguments (fresh containers) after the other calls
    assert same(av(so), av(sn), list(pks), tuple(ms), bytes(agg), label="AV-again") == r
    other_pk = sn.SkToPk(424242)
    other_sig = sn.Sign(424242, b"other")
    cases = [
        (pks[1:], ms[1:], agg),  # drop a signer
        (pks + [pks[0]], ms + [ms[0]], agg),  # duplicate a signer
        ([other_pk] + pks[1:], ms, agg),  # substitute a key
        (pks, [b"other"] + ms[1:], agg),  # substitute a message
        (pks, ms, other_sig),  # altered aggregate
        (pks[:-1], ms, agg),  # length mismatch
        (pks, ms[:-1], agg),
        ([], [], agg),  # empty
        ([], ms, agg),
        (pks, [], agg),
        ([inf_pk] + pks[1:], ms, agg),  # invalid key
        ([pks[0][:-1]] + pks[1:], ms, agg),  # short key
        ([pks[0] + b"\x00"] + pks[1:], ms, agg),  # long key
        (pks, ms, agg[:-1]),  # wrongly sized signature
        (pks, ms, agg + b"\x00"),
        (pks, ms, bytes(96)),
        (pks, ms, b"\xA0" + b"\x11" * 95),
        (pks, [m if i else "str" for i, m in enumerate(ms)], agg),  # non-bytes message
        (list(reversed(pks)), list(reversed(ms)), agg),  # consistent reordering
        (list(reversed(pks)), ms, agg),  # keys reordered only
    ]
    for c in cases:
        same(av(so), av(sn), *c, label="AV-case")
    if suite == "G2ProofOfPossession":
        m = b"shared"
        fs = [same(so.Sign, sn.Sign, k, m, label="sign-f")[2] for k in ks]
        fagg = same(so.Aggregate, sn.Aggregate, fs, label="agg-f")[2]
        fo, fn = so.FastAggregateVerify, sn.FastAggregateVerify
        r = same(fo, fn, pks, m, fagg, label="FAV-good")
        assert r == ("ok", bool, True), r
        fcases = [
            (pks[1:], m, fagg),
            (pks + [pks[0]], m, fagg),
            ([other_pk] + pks[1:], m, fagg),
            (pks, b"sharee", fagg),
            (pks, m, other_sig),
                ([], m, fagg),
            ([inf_pk] + pks, m, fagg),
            ([pks[0][:-1]] + pks[1:], m, fagg),
            (pks, m, fagg[:-1]),
            (pks, "shared", fagg),
            (list(reversed(pks)), m, fagg),
        ]
        if n >= 2:
            # key and its negation aggregate to the identity key
            P1 = new_prim.pubkey_to_G1(pks[0])
            fcases.append(([pks[0], new_prim.G1_to_pubkey(neg(P1))], m, inf_sig))
        for c in fcases:
            same(fo, fn, *c, label="FAV-case")
        assert same(fo, fn, pks, m, fagg, label="FAV-again") == r
        for k, pk in zip(ks[:1], pks[:1]):
            proof = same(so.PopProve, sn.PopProve, k, label="popprove")[2]
            same(so.PopVerify, sn.PopVerify, pk, proof, label="popverify")
            same(so.PopVerify, sn.PopVerify, pk, agg, label="popverify-bad")
        same(so._AggregatePKs, sn._AggregatePKs, pks, label="aggpks")
        same(so._AggregatePKs, sn._AggregatePKs, [], label="aggpks-empty")


verify_matrix("G2Basic", 2)
print("G2Basic n=2 done", N_CHECKS, "%.1fs" % (time.time() - T0))
verify_matrix("G2MessageAugmentation", 2, repeated_msgs=True, repeated_keys=True)
print("G2MessageAugmentation n=2 done", N_CHECKS, "%.1fs" % (time.time() - T0))
verify_matrix("G2ProofOfPossession", 2, repeated_keys=True)
print("G2ProofOfPossession n=2 done", N_CHECKS, "%.1fs" % (time.time() - T0))
verify_matrix("G2Basic", 2, repeated_msgs=True)

# single Verify on the moved decoder: malformed signatures
for suite in SUITES:
    so, sn = getattr(old_cs, suite), getattr(new_cs, suite)
    pk = sn.SkToPk(5)
    sig = sn.Sign(5, b"m")
    for s in [sig, inf_sig, sig[:-1], bytes(96), b"\xA0" + b"\x11" * 95, None]:
        same(so.Verify, sn.Verify, pk, b"m", s, label="verify")

print("all %d checks identical in %.1fs" % (N_CHECKS, time.time() - T0))
