import os, sys; sys.path.insert(0, os.getcwd())  # noqa: E401,E702

import importlib.util
import random
import time

HERE = os.path.dirname(os.path.abspath(__file__))

import py_ecc.bls.point_compression as new_pc  # noqa: E402
import py_ecc.bls.g2_primitives as g2p  # noqa: E402
from py_ecc.bls import G2Basic, G2MessageAugmentation, G2ProofOfPossession  # noqa: E402
from py_ecc.bls.constants import POW_2_381, POW_2_382, POW_2_383  # noqa: E402
from py_ecc.bls.hash_to_curve import hash_to_G2  # noqa: E402
from py_ecc.bls.hash import i2osp, os2ip  # noqa: E402
from py_ecc.fields import (  # noqa: E402
    optimized_bls12_381_FQ as FQ,
    optimized_bls12_381_FQ2 as FQ2,
)
from py_ecc.optimized_bls12_381 import (  # noqa: E402
    G1, G2, Z1, Z2, add, b2, curve_order, double, field_modulus as q, multiply, neg,
    normalize,
)
from hashlib import sha256  # noqa: E402

assert os.path.realpath(new_pc.__file__).startswith(os.path.realpath(os.getcwd())), (
    "must run with the worktree as cwd"
)


def load(name, path):
    spec = importlib.util.spec_from_file_location(name, path)
    mod = importlib.util.module_from_spec(spec)
    sys.modules[name] = mod
    spec.loader.exec_module(mod)
    return mod


import py_ecc.bls.ciphersuites as new_cs  # noqa: E402

# pristine codec, a private copy of (unchanged) g2_primitives bound to it, and the
# pristine ciphersuites bound to that copy: a complete pristine stack next to the new one
old_pc = load("py_ecc.bls._pristine_point_compression",
              os.path.join(HERE, "pristine", "point_compression.py"))
old_g2p = load("py_ecc.bls._pristine_g2_primitives", g2p.__file__)
for _n in ("compress_G1", "compress_G2", "decompress_G1", "decompress_G2"):
    setattr(old_g2p, _n, getattr(old_pc, _n))
old_cs = load("py_ecc.bls._pristine_ciphersuites",
              os.path.join(HERE, "pristine", "ciphersuites.py"))
for _n in ("G1_to_pubkey", "G2_to_signature", "pubkey_to_G1", "signature_to_G2"):
    assert getattr(old_cs, _n) is getattr(g2p, _n)
    setattr(old_cs, _n, getattr(old_g2p, _n))
assert old_pc.__package__ == "py_ecc.bls"
assert old_pc.decompress_G2 is not new_pc.decompress_G2
assert not hasattr(old_cs, "GT_ONE") and hasattr(new_cs, "GT_ONE")
assert g2p.decompress_G2 is new_pc.decompress_G2
assert old_cs.G2Basic is not G2Basic and new_cs.G2Basic is G2Basic

# facts the edit relies on
from py_ecc.bls.constants import EIGHTH_ROOTS_OF_UNITY, FQ2_ORDER  # noqa: E402
from py_ecc.fields import optimized_bls12_381_FQ12 as FQ12  # noqa: E402

roots = [r.coeffs for r in EIGHTH_ROOTS_OF_UNITY]
assert len(set(roots)) == 8, "eighth roots of unity must be pairwise distinct"
for k, r in enumerate(new_pc.EVEN_EIGHTH_ROOTS_OF_UNITY):
    assert r is EIGHTH_ROOTS_OF_UNITY[2 * k]
    assert EIGHTH_ROOTS_OF_UNITY.index(r) // 2 == k
assert new_pc.FQ_SQRT_EXPONENT == (q + 1) // 4
assert new_pc.FQ2_SQRT_EXPONENT == (FQ2_ORDER + 8) // 16
SNAP = {
    "GT_ONE": (type(new_cs.GT_ONE), new_cs.GT_ONE.coeffs),
    "NEG_G1": tuple((type(c), c.n) for c in new_cs.NEG_G1),
    "ROOTS": tuple(roots),
    "G1": tuple((type(c), c.n) for c in G1),
}
assert SNAP["GT_ONE"] == (type(FQ12.one()), FQ12.one().coeffs)
assert SNAP["NEG_G1"] == tuple((type(c), c.n) for c in neg(G1))


def check_constants_untouched():
    assert SNAP["GT_ONE"] == (type(new_cs.GT_ONE), new_cs.GT_ONE.coeffs)
    assert SNAP["NEG_G1"] == tuple((type(c), c.n) for c in new_cs.NEG_G1)
    assert SNAP["ROOTS"] == tuple(r.coeffs for r in EIGHTH_ROOTS_OF_UNITY)
    assert SNAP["G1"] == tuple((type(c), c.n) for c in G1)


def canon(v):
    if isinstance(v, FQ2):
        return ("FQ2", tuple(canon(c) for c in v.coeffs))
    if isinstance(v, FQ):
        return ("FQ", v.n)
    if isinstance(v, tuple):
        return ("tuple", type(v).__name__, tuple(canon(c) for c in v))
    if isinstance(v, bool):
        return ("bool", v)
    if isinstance(v, int):
        return ("int", v)
    if v is None:
        return None
    return (type(v).__name__, repr(v))


def run(f, *a):
    try:
        return ("ok", canon(f(*a)))
    except Exception as e:  # noqa: BLE001
        return ("exc", type(e).__name__, str(e))


n_checked = 0


def same(fname, *a):
    global n_checked
    r_new = run(getattr(new_pc, fname), *a)
    r_old = run(getattr(old_pc, fname), *a)
    assert r_new == r_old, (fname, a, r_new, r_old)
    n_checked += 1
    return r_new


rng = random.Random(20260101)
FLAGS = [a * POW_2_381 + b_ * POW_2_382 + c * POW_2_383
         for a in (0, 1) for b_ in (0, 1) for c in (0, 1)]

# ---------------------------------------------------------------- G1 decoding
g1_pts = [multiply(G1, k) for k in (1, 2, 3, 5, curve_order - 1, rng.randrange(1, curve_order))]
g1_zs = [new_pc.compress_G1(p) for p in g1_pts]
for z in g1_zs:
    assert old_pc.compress_G1(new_pc.decompress_G1(z)) == z
g1_xs = [z % POW_2_381 for z in g1_zs] + [0, 1, 2, 3, 4, q - 1, q, q + 1, POW_2_381 - 1]
g1_xs += [rng.randrange(q) for _ in range(40)]
for x in g1_xs:
    for fl in FLAGS:
        same("decompress_G1", x + fl)
for z in (-1, -POW_2_383, 2**384, 2**384 + POW_2_383 + 5, 2**400 + POW_2_383 + POW_2_382,
          POW_2_383 + POW_2_382, POW_2_383 + POW_2_382 + POW_2_381, POW_2_382):
    same("decompress_G1", z)
for bad in (None, "x", 1.5, b"\x00"):
    same("decompress_G1", bad)

# ------------------------------------------------- is_point_at_infinity/flags
for z1 in (0, 1, POW_2_381, POW_2_383 + POW_2_382, POW_2_383, 5 + POW_2_383):
    for z2 in (None, 0, 1, q):
        same("is_point_at_infinity", z1, z2)
    same("get_flags", z1)

# ---------------------------------------------------------------- G2 decoding
msgs = [b"", b"abc", b"\x00" * 32, bytes(range(48))]
h_pts = [hash_to_G2(m, G2Basic.DST, sha256) for m in msgs]
g2_pts = [multiply(G2, k) for k in (1, 2, 3, curve_order - 1, rng.randrange(1, curve_order))]
g2_pts += h_pts + [neg(p) for p in h_pts[:2]] + [double(h_pts[0]), add(h_pts[0], G2)]


def find_curve_points_not_in_subgroup(count):
    """valid encodings of points on the twist that were not cofactor-cleared"""
    out = []
    x0 = 1
    while len(out) < count:
        x0 += 1
        x = FQ2([x0, 1])
        y = old_pc.modular_squareroot_in_FQ2(x**3 + b2)
        if y is not None:
            out.append((x, y, FQ2([1, 0])))
    return out


offsub = find_curve_points_not_in_subgroup(3)
g2_pts += offsub + [add(h_pts[1], offsub[0])]

# compress: affine, projective representatives, infinity (several reps), off-curve
g2_encodings = []
for p in g2_pts:
    r = same("compress_G2", p)
    assert r[0] == "ok"
    for lam in (FQ2([2, 0]), FQ2([3, 7]), FQ2([q - 1, 5])):
        rp = (p[0] * lam, p[1] * lam, p[2] * lam)
        assert same("compress_G2", rp) == r
    g2_encodings.append(new_pc.compress_G2(p))
for infp in (Z2, (FQ2([1, 0]), FQ2([1, 0]), FQ2([0, 0])), (FQ2([5, 9]), FQ2([3, 4]), FQ2([0, 0])),
             (FQ2([0, 0]), FQ2([0, 0]), FQ2([0, 0]))):
    same("compress_G2", infp)
for offp in ((FQ2([1, 2]), FQ2([3, 4]), FQ2([1, 0])), (G2[0], G2[1], FQ2([2, 0])),
             (FQ2([0, 0]), FQ2([0, 0]), FQ2([1, 0]))):
    same("compress_G2", offp)
for idx, (z1, z2) in enumerate(g2_encodings):
    r = same("decompress_G2", (z1, z2))
    assert r[0] == "ok", r
    x1 = z1 % POW_2_381
    for fl in FLAGS:
        same("decompress_G2", (x1 + fl, z2))
    if idx % 6:
        continue
    # flags in the second half, out-of-range halves
    for fl in FLAGS[1:]:
        same("decompress_G2", (z1, z2 + fl))
    same("decompress_G2", (z1, z2 + q))
    same("decompress_G2", (z1 + q, z2))
    same("decompress_G2", (z1, -z2 - 1))
    same("decompress_G2", (z1, None))
    same("decompress_G2", (z1,))
    same("decompress_G2", (z1, z2, 0))

# infinity-like and boundary encodings
for z1x in (0, 1, q - 1, q, POW_2_381 - 1):
    for z2 in (0, 1, q - 1, q, POW_2_383, 2**384 - 1, -1):
        for fl in FLAGS:
            same("decompress_G2", (z1x + fl, z2))
# random x (about half have no square root)
for _ in range(30):
    z1x, z2 = rng.randrange(q), rng.randrange(q)
    for fl in (POW_2_383, POW_2_383 + POW_2_381):
        same("decompress_G2", (z1x + fl, z2))
for bad in (None, 5, ("a", "b"), (1.5, 2), (b"\x80", 0)):
    same("decompress_G2", bad)

# modular_squareroot_in_FQ2: squares, non-squares, zero, one, roots of unity; make sure
# each of the four even roots is hit as `check` (the index arithmetic that was rewritten)
hit = set()
vals = [FQ2([0, 0]), FQ2([1, 0]), FQ2([0, 1]), FQ2([q - 1, 0]), FQ2([0, q - 1]), FQ2([4, 4])]
vals += list(EIGHTH_ROOTS_OF_UNITY)
for _ in range(40):
    v = FQ2([rng.randrange(q), rng.randrange(q)])
    vals += [v, v * v, v * v * EIGHTH_ROOTS_OF_UNITY[1]]
for v in vals:
    r = same("modular_squareroot_in_FQ2", v)
    if r[0] == "ok" and r[1] is not None and v != FQ2([0, 0]):
        cs_ = v ** ((FQ2_ORDER + 8) // 16)
        hit.add(EIGHTH_ROOTS_OF_UNITY.index(cs_**2 / v))
        y = new_pc.modular_squareroot_in_FQ2(v)
        assert y * y == v
assert hit == {0, 2, 4, 6}, hit

# -y against the pristine spelling FQ2((y * -1).coeffs), pow(y, 2, q) against y * y % q
edge = (0, 1, 2, (q - 1) // 2, (q + 1) // 2, q - 2, q - 1)
for re_ in edge + tuple(rng.randrange(q) for _ in range(20)):
    for im_ in edge + (rng.randrange(q),):
        y = FQ2([re_, im_])
        assert canon(-y) == canon(FQ2((y * -1).coeffs))
        assert canon(y * y) == canon(y**2)
        n_checked += 1
    assert pow(re_, 2, q) == re_ * re_ % q

# ------------------------------------ every single-bit flip of one signature
sk = 0x1F2E3D4C5B6A79880123456789ABCDEF % curve_order
msg = b"equivalence"
sig = G2Basic.Sign(sk, msg)
flip_bits = range(96 * 8)  # every single-bit flip
for bit in flip_bits:
    c = bytearray(sig)
    c[bit // 8] ^= 1 << (bit % 8)
    c = bytes(c)
    same("decompress_G2", (os2ip(c[:48]), os2ip(c[48:])))
for _ in range(30):
    c = bytearray(sig)
    for bit in rng.sample(range(96 * 8), rng.randrange(2, 6)):
        c[bit // 8] ^= 1 << (bit % 8)
    same("decompress_G2", (os2ip(bytes(c[:48])), os2ip(bytes(c[48:]))))

print("function-level comparisons:", n_checked)

# ------------------------------------------- end-to-end: Verify / PopVerify
check_constants_untouched()


def enc(pt):
    z1, z2 = old_pc.compress_G2(pt)
    return i2osp(z1, 48) + i2osp(z2, 48)


pk = G2Basic.SkToPk(sk)
assert pk == old_cs.G2Basic.SkToPk(sk)
S = g2p.signature_to_G2(sig)
H = hash_to_G2(msg, G2Basic.DST, sha256)
flip = lambda s, bit: bytes(b ^ ((1 << (bit % 8)) if i == bit // 8 else 0) for i, b in enumerate(s))  # noqa: E731,E501
cands = {
    "canonical": sig,
    "other key": G2Basic.Sign(sk + 12345, msg),
    "other msg": G2Basic.Sign(sk, msg + b"!"),
    "aug suite": G2MessageAugmentation.Sign(sk, msg),
    "pop suite": G2ProofOfPossession.Sign(sk, msg),
    "pop proof": G2ProofOfPossession.PopProve(sk),
    "sk+1": enc(multiply(H, sk + 1)),
    "sk-1": enc(multiply(H, sk - 1)),
    "neg": enc(neg(S)),
    "double": enc(double(S)),
    "S+torsion": enc(add(S, multiply(offsub[0], curve_order))),
    "S+offsub": enc(add(S, offsub[1])),
    "infinity": i2osp(POW_2_383 + POW_2_382, 48) + bytes(48),
    "inf+a": i2osp(POW_2_383 + POW_2_382 + POW_2_381, 48) + bytes(48),
    "flip a": flip(sig, 5),
    "flip b": flip(sig, 6),
    "flip c": flip(sig, 7),
    "flip lsb": flip(sig, 95 * 8),
    "flip mid": flip(sig, 48 * 8 + 7),
    "zero": bytes(96),
    "short": sig[:95],
    "long": sig + b"\x00",
    "random G2": enc(multiply(G2, 987654321)),
}
sk2 = sk + 12345
pk2 = G2Basic.SkToPk(sk2)
msg2 = msg + b"!"
inf_pk = i2osp(POW_2_383 + POW_2_382, 48)
bad_pk = flip(pk, 100)
t0 = time.time()
results = {}
for label, cs in (("new", new_cs), ("old", old_cs)):
    B, A, P = cs.G2Basic, cs.G2MessageAugmentation, cs.G2ProofOfPossession
    r = {}
    for k, c in cands.items():
        r["basic/" + k] = run(B.Verify, pk, msg, c)
    # interleave with different arguments, then repeat equal arguments
    r["basic/canonical again"] = run(B.Verify, pk, msg, cands["canonical"])
    r["basic/other key under its key"] = run(B.Verify, pk2, msg, cands["other key"])
    r["basic/other msg under its msg"] = run(B.Verify, pk, msg2, cands["other msg"])
    r["basic/canonical third"] = run(B.Verify, pk, msg, cands["canonical"])
    r["augnoprefix/aug suite"] = run(A.Verify, pk, pk + msg, cands["aug suite"])
    r["basicprefix/aug suite"] = run(B.Verify, pk, pk + msg, cands["aug suite"])
    for k in ("canonical", "aug suite", "pop proof", "pop suite", "infinity"):
        r["aug/" + k] = run(A.Verify, pk, msg, cands[k])
        r["pop/" + k] = run(P.Verify, pk, msg, cands[k])
        r["popverify/" + k] = run(P.PopVerify, pk, cands[k])
    for k, badpk in (("inf pk", inf_pk), ("bad pk", bad_pk), ("short pk", pk[:47]), ("str pk", "x")):
        r["basic/" + k] = run(B.Verify, badpk, msg, sig)
        r["popverify/" + k] = run(P.PopVerify, badpk, cands["pop proof"])
    r["basic/non-bytes msg"] = run(B.Verify, pk, "m", sig)
    r["basic/non-bytes sig"] = run(B.Verify, pk, msg, 5)
    # aggregate paths share GT_ONE / NEG_G1
    agg = B.Aggregate([cands["canonical"], G2Basic.Sign(sk2, msg2)])
    r["agg"] = ("ok", agg)
    r["aggverify/ok"] = run(B.AggregateVerify, [pk, pk2], [msg, msg2], agg)
    r["aggverify/swapped"] = run(B.AggregateVerify, [pk2, pk], [msg, msg2], agg)
    r["aggverify/len mismatch"] = run(B.AggregateVerify, [pk, pk2], [msg], agg)
    r["aggverify/empty"] = run(B.AggregateVerify, [], [], agg)
    r["aggverify/inf sig"] = run(B.AggregateVerify, [pk, pk2], [msg, msg2], cands["infinity"])
    r["aggverify/ok again"] = run(B.AggregateVerify, [pk, pk2], [msg, msg2], agg)
    fagg = P.Aggregate([P.Sign(sk, msg), P.Sign(sk2, msg)])
    r["fastagg/ok"] = run(P.FastAggregateVerify, [pk, pk2], msg, fagg)
    r["fastagg/wrong msg"] = run(P.FastAggregateVerify, [pk, pk2], msg2, fagg)
    r["sign"] = run(B.Sign, sk, msg)
    r["popprove"] = run(P.PopProve, sk)
    r["basic/canonical last"] = run(B.Verify, pk, msg, cands["canonical"])
    results[label] = r
    check_constants_untouched()
assert results["new"] == results["old"], [
    (k, results["new"][k], results["old"][k]) for k in results["new"]
    if results["new"][k] != results["old"][k]
]
r = results["new"]
T = ("ok", ("bool", True))
expected_true = {
    "basic/canonical", "basic/canonical again", "basic/canonical third", "basic/canonical last",
    "basic/other key under its key", "basic/other msg under its msg",
    "aug/aug suite", "pop/pop suite", "popverify/pop proof",
    "aggverify/ok", "aggverify/ok again", "fastagg/ok",
}
assert {k for k, v in r.items() if v == T} == expected_true, {k for k, v in r.items() if v == T}
assert all(v[0] == "ok" for k, v in r.items()), [k for k, v in r.items() if v[0] != "ok"]
print("end-to-end comparisons:", len(r), "in %.1fs" % (time.time() - t0))
print("OK")
