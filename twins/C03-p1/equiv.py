import os, sys; sys.path.insert(0, os.getcwd())  # noqa: E401,E702

# Equivalence demonstration for C03/p1 (memoised message->G2 hashing and a
# precomputed -G1 in the aggregate verification paths).
#
# Loads the pristine ciphersuites module next to the edited one and replays the
# same call sequence on both, comparing return values and exception classes.

import importlib
import importlib.util
import time
from hashlib import sha256, sha512

HERE = os.path.dirname(os.path.abspath(__file__))
T0 = time.time()

import py_ecc.bls  # noqa: E402
import py_ecc.bls.ciphersuites as new  # noqa: E402

spec = importlib.util.spec_from_file_location(
    "py_ecc.bls._pristine_ciphersuites",
    os.path.join(HERE, "pristine", "ciphersuites.py"),
)
old = importlib.util.module_from_spec(spec)
sys.modules[spec.name] = old
spec.loader.exec_module(old)

from py_ecc.bls.g2_primitives import (  # noqa: E402
    G1_to_pubkey,
    G2_to_signature,
    signature_to_G2,
)
from py_ecc.bls.hash_to_curve import hash_to_G2  # noqa: E402
from py_ecc.optimized_bls12_381 import (  # noqa: E402
    G1,
    Z1,
    Z2,
    curve_order,
    multiply,
    neg,
)

assert new.__file__.startswith(os.getcwd()), new.__file__
assert old.__file__.startswith(HERE)
assert hasattr(new, "_message_to_G2") and not hasattr(old, "_message_to_G2")

FAILS = []
NCHECK = [0]


def outcome(fn, *args):
    try:
        r = fn(*args)
    except BaseException as e:  # noqa: B902
        return ("exc", type(e).__name__)
    return ("ok", r)


def both(label, name_path, *args):
    """Run <module>.<Suite>.<method>(*args) on both modules and compare."""
    res = []
    for mod in (old, new):
        obj = mod
        for part in name_path.split("."):
            obj = getattr(obj, part)
        res.append(outcome(obj, *args))
    NCHECK[0] += 1
    if res[0] != res[1] or type(res[0][1]) is not type(res[1][1]):
        FAILS.append((label, name_path, res))
        print("MISMATCH", label, name_path, res)
    return res[1]


def coords(pt):
    return tuple(tuple(c.coeffs) if hasattr(c, "coeffs") else c.n for c in pt)


# --------------------------------------------------------------------------
# fixtures
# --------------------------------------------------------------------------
SUITES = ["G2Basic", "G2MessageAugmentation", "G2ProofOfPossession"]
SKS = [1, curve_order - 1, 0x1234567890ABCDEF, 2**200 + 7]
MSGS = [b"", b"m1", b"\x00" * 32, b"a much longer message " * 20]
PKS = [old.G2Basic.SkToPk(sk) for sk in SKS]
INF_PK = G1_to_pubkey(Z1)
INF_SIG = G2_to_signature(Z2)


def find_non_subgroup_pk():
    for x in range(1, 200):
        for flag in (0x80, 0xA0):
            raw = bytearray(x.to_bytes(48, "big"))
            raw[0] |= flag
            pk = bytes(raw)
            if outcome(new.pubkey_to_G1, pk)[0] == "ok" and not old.G2Basic.KeyValidate(
                pk
            ):
                return pk
    raise SystemExit("no non-subgroup key found")


def find_non_subgroup_sig():
    for x in range(1, 200):
        raw = bytearray(48) + bytearray(x.to_bytes(48, "big"))
        raw[0] |= 0x80
        sig = bytes(raw)
        r = outcome(signature_to_G2, sig)
        if r[0] == "ok" and not new.subgroup_check(r[1]):
            return sig
    raise SystemExit("no non-subgroup signature found")


BAD_PK_SUBGROUP = find_non_subgroup_pk()
BAD_SIG_SUBGROUP = find_non_subgroup_sig()
BAD_PK_OFFCURVE = None
for x in range(1, 200):
    raw = bytearray(x.to_bytes(48, "big"))
    raw[0] |= 0x80
    if outcome(new.pubkey_to_G1, bytes(raw))[0] == "exc":
        BAD_PK_OFFCURVE = bytes(raw)
        break
assert BAD_PK_OFFCURVE


class BytesSub(bytes):
    pass


class NoLen:
    """re-iterable without __len__ (stands in for a generator argument)"""

    def __init__(self, items):
        self.items = list(items)

    def __iter__(self):
        return iter(self.items)


# --------------------------------------------------------------------------
# 1. the memoised helper against the plain function, with repeats,
#    interleavings, every key component varied, eviction and odd inputs
# --------------------------------------------------------------------------
class UnhashableHash:
    """callable hash constructor that cannot be used as a dict key"""

    __hash__ = None

    def __eq__(self, other):
        return self is other

    def __call__(self, data=b""):
        return sha256(data)


DSTS = [s_.DST for s_ in (old.G2Basic, old.G2MessageAugmentation, old.G2ProofOfPossession)]
DSTS.append(old.G2ProofOfPossession.POP_TAG)
DSTS.append(b"")
direct = []
for m in [b"", b"m1"]:
    for d in DSTS[:3]:
        direct.append((m, d, sha256))
direct.append((b"m1", DSTS[0], sha512))
direct.append((b"m1", DSTS[3], sha256))
direct.append((b"m1", DSTS[4], sha256))
direct.append((b"m1", b"D" * 256, sha256))  # DST too long: ValueError
direct.append((b"m1", DSTS[0], UnhashableHash()))
direct.append((BytesSub(b"m1"), DSTS[0], sha256))
direct.append((bytearray(b"m1"), DSTS[0], sha256))
direct.append((b"m1", bytearray(DSTS[0]), sha256))
direct.append((b"m1", BytesSub(DSTS[1]), sha256))
direct.append(("m1", DSTS[0], sha256))  # str message: TypeError
direct.append((None, DSTS[0], sha256))
direct.append((b"m1", DSTS[0], None))  # not callable
direct.append((b"m1", DSTS[0], 5))
# repeat everything in a different order so the second pass is served from
# the memo where applicable
direct = direct + direct[::-1]
snapshots = {}
for m, d, h in direct:
    a = outcome(hash_to_G2, m, d, h)
    b = outcome(new._message_to_G2, m, d, h)
    NCHECK[0] += 1
    if a[0] != b[0]:
        FAILS.append(("direct", (m, d, h), a, b))
    elif a[0] == "exc":
        if a != b:
            FAILS.append(("direct-exc", (m, d, h), a, b))
    else:
        if coords(a[1]) != coords(b[1]) or type(b[1]) is not tuple:
            FAILS.append(("direct-val", (m, d, h), a, b))
        if type(m) is bytes and type(d) is bytes and h is sha256:
            snapshots[(m, d)] = (b[1], coords(b[1]))
print("direct helper checks done", round(time.time() - T0, 1), "s")


# --------------------------------------------------------------------------
# 2. the public API of the three suites (+ two derived suites that differ in
#    exactly one memo-key component), same call sequence on both modules
# --------------------------------------------------------------------------
for mod in (old, new):

    class Sha512Basic(mod.G2Basic):  # same DST as G2Basic, other hash
        xmd_hash_function = sha512

    class OtherDstPop(mod.G2ProofOfPossession):  # same hash, other DST
        DST = b"TWIN-C03-OTHER-DST_POP_"

    mod.Sha512Basic = Sha512Basic
    mod.OtherDstPop = OtherDstPop

SIGS = {}  # (suite, i, j) -> signature of signer i on message j
for s in SUITES + ["Sha512Basic", "OtherDstPop"]:
    for i in range(3 if s in SUITES else 2):
        for j in ([i] if s not in ("G2ProofOfPossession",) else [i, 0]):
            SIGS[(s, i, j)] = both("sign", s + ".Sign", SKS[i], MSGS[j])[1]
SIGS[("G2Basic", 3, 3)] = both("sign", "G2Basic.Sign", SKS[3], MSGS[3])[1]
print("signatures done", round(time.time() - T0, 1), "s")


def api_sequence(s, full):
    """(label, method, args) for suite s; `full` adds the costlier variants."""
    sg = [SIGS[(s, i, i)] for i in range(3)]
    pk, ms = PKS[:2], MSGS[:2]
    pk3, ms3 = PKS[:3], MSGS[:3]
    agg3 = both("agg3", s + ".Aggregate", sg)[1]
    agg2 = both("agg2", s + ".Aggregate", sg[:2])[1]
    calls = []
    A = s + ".Aggregate"
    V = s + ".AggregateVerify"
    # --- Aggregate: order, grouping, identity, refusals (all cheap)
    calls += [
        ("agg-perm", A, (sg[::-1],)),
        ("agg-perm2", A, ([sg[1], sg[2], sg[0]],)),
        ("agg-tuple", A, (tuple(sg),)),
        ("agg-group", A, ([agg2, sg[2]],)),
        ("agg-group2", A, ([sg[0], both("agg12", A, sg[1:])[1]],)),
        ("agg-one", A, ([sg[0]],)),
        ("agg-dup", A, ([sg[0], sg[0]],)),
        ("agg-inf", A, ([INF_SIG],)),
        ("agg-inf2", A, ([INF_SIG, sg[1], INF_SIG],)),
        (
            "agg-cancel",
            A,
            ([sg[0], G2_to_signature(neg(signature_to_G2(sg[0])))],),
        ),
        ("agg-empty", A, ([],)),
        ("agg-empty-t", A, ((),)),
        ("agg-short", A, ([sg[0], sg[1][:95]],)),
        ("agg-long", A, ([sg[0] + b"\x00"],)),
        ("agg-pk-sized", A, ([PKS[0]],)),
        ("agg-bytearray", A, ([bytearray(sg[0])],)),
        ("agg-str", A, (["x" * 96],)),
        ("agg-malformed", A, ([sg[0], b"\x00" * 96],)),
        ("agg-malformed2", A, ([b"\xff" * 96],)),
        ("agg-nonsubgroup", A, ([BAD_SIG_SUBGROUP, sg[0]],)),
        ("agg-none", A, (None,)),
        ("agg-gen", A, (NoLen(sg),)),
    ]
    # --- AggregateVerify: acceptance
    calls += [
        ("av-2", V, (pk, ms, agg2)),
        ("av-2-again", V, (pk, ms, agg2)),
    ]
    # --- single element perturbations
    calls += [
        ("av-drop", V, (pk[:1], ms[:1], agg2)),
        ("av-subst-msg", V, (pk, [ms[0], b"other"], agg2)),
        ("av-nonsubgroup-agg", V, (pk, ms, BAD_SIG_SUBGROUP)),
        ("av-flip-agg", V, (pk, ms, agg2[:-1] + bytes([agg2[-1] ^ 1]))),
        ("av-malformed-agg", V, (pk, ms, b"\x00" * 96)),
    ]
    # --- preconditions (refused before any pairing is computed)
    calls += [
        ("av-empty", V, ([], [], agg2)),
        ("av-len-mismatch", V, (pk, ms[:1], agg2)),
        ("av-len-mismatch2", V, (pk[:1], ms, agg2)),
        ("av-short-key", V, ([pk[0][:47], pk[1]], ms, agg2)),
        ("av-long-key", V, ([pk[0] + b"\x00", pk[1]], ms, agg2)),
        ("av-short-sig", V, (pk, ms, agg2[:95])),
        ("av-inf-key", V, ([INF_PK, pk[1]], ms, agg2)),
        ("av-offcurve-key", V, ([BAD_PK_OFFCURVE, pk[1]], ms, agg2)),
        ("av-nonsubgroup-key", V, ([BAD_PK_SUBGROUP, pk[1]], ms, agg2)),
        ("av-str-msg", V, (pk, [ms[0], "m1"], agg2)),
        ("av-bytearray-key", V, ([bytearray(pk[0]), pk[1]], ms, agg2)),
        ("av-none-keys", V, (None, ms, agg2)),
        ("av-none-msgs", V, (pk, None, agg2)),
        ("av-none-sig", V, (pk, ms, None)),
        ("av-gen-msgs", V, (pk, NoLen(ms), agg2)),
        ("av-gen-keys", V, (NoLen(pk), ms, agg2)),
    ]
    if full:
        calls += [
            ("av-2-perm", V, (pk[::-1], ms[::-1], agg2)),
            ("av-other-agg", V, (pk, ms, sg[0])),
            ("av-1", V, (pk[:1], ms[:1], sg[0])),
            ("av-subst-key", V, ([PKS[3], pk[1]], ms, agg2)),
            ("av-3", V, (pk3, ms3, agg3)),
            ("av-drop-sig", V, (pk3, ms3, agg2)),
            ("av-late-inf-key", V, ([pk[0], INF_PK], ms, agg2)),
            ("av-late-nonsubgroup-key", V, ([pk[0], BAD_PK_SUBGROUP], ms, agg2)),
            ("av-bytearray-msg", V, (pk, [ms[0], bytearray(ms[1])], agg2)),
            ("av-bytessub-msg", V, (pk, [ms[0], BytesSub(ms[1])], agg2)),
            ("av-rep-msg-wrong", V, (pk, [ms[0], ms[0]], agg2)),
        ]
    return calls


ALL_CALLS = []
for s in SUITES:
    ALL_CALLS += api_sequence(s, s == "G2Basic")
AUGS = "G2MessageAugmentation"
aug_pk, aug_ms = PKS[:2], [MSGS[0], bytearray(MSGS[1])]
ALL_CALLS += [
    # pk + bytearray is plain bytes again, so the augmentation suite accepts it
    (
        "aug-bytearray-msg",
        AUGS + ".AggregateVerify",
        (aug_pk, aug_ms, old.G2Basic.Aggregate([SIGS[(AUGS, 0, 0)], SIGS[(AUGS, 1, 1)]])),
    ),
]

# repeated messages / repeated keys with the matching aggregate
P = "G2ProofOfPossession"
rep_sigs = [SIGS[(P, i, 0)] for i in range(3)]
rep_agg = both("rep-agg", P + ".Aggregate", rep_sigs)[1]
ALL_CALLS += [
    ("pop-same-msg", P + ".AggregateVerify", (PKS[1:3], [MSGS[0]] * 2, old.G2Basic.Aggregate(rep_sigs[1:]))),
    ("fav-3", P + ".FastAggregateVerify", (PKS[:3], MSGS[0], rep_agg)),
    ("fav-1", P + ".FastAggregateVerify", (PKS[:1], MSGS[0], rep_sigs[0])),
    ("fav-drop", P + ".FastAggregateVerify", (PKS[:2], MSGS[0], rep_agg)),
    ("fav-msg", P + ".FastAggregateVerify", (PKS[:3], MSGS[1], rep_agg)),
    ("fav-inf-agg", P + ".FastAggregateVerify", (PKS[:3], MSGS[0], INF_SIG)),
    ("fav-empty", P + ".FastAggregateVerify", ([], MSGS[0], rep_agg)),
    # sk=1 and sk=r-1 cancel: the aggregate key is the identity
    ("fav-cancel", P + ".FastAggregateVerify", (PKS[:2], MSGS[0], INF_SIG)),
    ("av-cancel", P + ".AggregateVerify", (PKS[:2], [MSGS[0]] * 2, INF_SIG)),
    ("fav-inf-key", P + ".FastAggregateVerify", ([INF_PK], MSGS[0], INF_SIG)),
    ("fav-bad-key", P + ".FastAggregateVerify", ([PKS[0], BAD_PK_SUBGROUP], MSGS[0], rep_agg)),
    ("fav-short-key", P + ".FastAggregateVerify", ([PKS[0][:47]], MSGS[0], rep_agg)),
    ("fav-str-msg", P + ".FastAggregateVerify", (PKS[:3], "m", rep_agg)),
    ("fav-bytearray-msg", P + ".FastAggregateVerify", (PKS[:3], bytearray(MSGS[0]), rep_agg)),
    ("fav-short-sig", P + ".FastAggregateVerify", (PKS[:3], MSGS[0], rep_agg[:95])),
    ("fav-none", P + ".FastAggregateVerify", (None, MSGS[0], rep_agg)),
]
B = "G2Basic"
ALL_CALLS += [
    # basic suite: repeated message is refused even with the matching aggregate
    (
        "basic-rep-msg",
        B + ".AggregateVerify",
        (PKS[:2], [MSGS[0]] * 2, old.G2Basic.Aggregate([SIGS[(B, 0, 0)], old.G2Basic.Sign(SKS[1], MSGS[0])])),
    ),
    ("basic-unhashable-msg", B + ".AggregateVerify", (PKS[:2], [bytearray(b"x"), b"y"], rep_agg)),
    ("basic-verify", B + ".Verify", (PKS[0], MSGS[0], SIGS[(B, 0, 0)])),
    ("pop-popverify", P + ".PopVerify", (PKS[0], old.G2ProofOfPossession.PopProve(SKS[0]))),
    # PopVerify hashes PK with POP_TAG; Verify of the same bytes as a message
    # uses DST: different memo entries
    ("pop-verify-pk-as-msg", P + ".Verify", (PKS[0], PKS[0], old.G2ProofOfPossession.PopProve(SKS[0]))),
]
# derived suites: identical messages, one memo-key component differs
for s in ("Sha512Basic", "OtherDstPop"):
    sg = [SIGS[(s, i, i)] for i in range(2)]
    a2 = both("agg2", s + ".Aggregate", sg)[1]
    base = "G2Basic" if s == "Sha512Basic" else P
    base_a2 = old.G2Basic.Aggregate([SIGS[(base, i, i)] for i in range(2)])
    ALL_CALLS += [
        (s + "-av", s + ".AggregateVerify", (PKS[:2], MSGS[:2], a2)),
        (s + "-base-av-derived-sig", base + ".AggregateVerify", (PKS[:2], MSGS[:2], a2)),
    ]

EXPECT_TRUE = {
    "av-3", "av-2-again", "av-2-perm", "av-2", "av-1", "av-tuple", "av-2-third-time",
    "aug-bytearray-msg",
    "pop-same-msg", "fav-3", "fav-3-again", "fav-perm", "fav-1", "basic-verify",
    "pop-verify", "pop-popverify", "aug-verify", "Sha512Basic-av", "OtherDstPop-av",
    "Sha512Basic-base-av", "OtherDstPop-base-av", "Sha512Basic-verify",
    "OtherDstPop-verify", "av-cancel", "av-bytessub-msg",
}
results = {}
for n, (label, path, args) in enumerate(ALL_CALLS):
    r = both(label, path, *args)
    results[n] = r
    if r[0] == "ok" and path.endswith("Verify"):
        want = label in EXPECT_TRUE
        if label == "av-rep-key" or label == "av-rep-msg-wrong":
            want = False
        if r[1] is not want:
            FAILS.append(("unexpected verdict", label, path, r))
            print("UNEXPECTED", label, path, r)
print("api sequence done:", len(ALL_CALLS), "calls,", round(time.time() - T0, 1), "s")

# --------------------------------------------------------------------------
# 3. eviction: push more distinct (message, DST) pairs through the memo than
#    it can hold, then come back to the earliest ones and to the API
# --------------------------------------------------------------------------
info = new._cached_hash_to_G2.cache_info()
assert info.maxsize == new._MESSAGE_POINT_CACHE_SIZE and info.maxsize is not None
for k in range(info.maxsize + 6):
    m = b"filler-%d" % k
    d = DSTS[k % 3]
    got = new._message_to_G2(m, d, sha256)
    if k % 16 == 0:
        NCHECK[0] += 1
        if coords(got) != coords(hash_to_G2(m, d, sha256)):
            FAILS.append(("filler", k))
info2 = new._cached_hash_to_G2.cache_info()
assert info2.currsize == info2.maxsize, info2
for (m, d), (obj, snap) in snapshots.items():
    NCHECK[0] += 1
    if coords(obj) != snap:
        FAILS.append(("cached object changed", m, d))
    if coords(new._message_to_G2(m, d, sha256)) != coords(hash_to_G2(m, d, sha256)):
        FAILS.append(("after eviction", m, d))
# replay a slice of the API sequence on the edited module only and compare
# with what the very same calls returned earlier (history independence)
replayed = 0
for n, (label, path, args) in enumerate(ALL_CALLS):
    if n % 17 != 0:
        continue
    obj = new
    for part in path.split("."):
        obj = getattr(obj, part)
    r = outcome(obj, *args)
    NCHECK[0] += 1
    replayed += 1
    if r != results[n]:
        FAILS.append(("replay", label, path, r, results[n]))
print("replayed", replayed, "calls after eviction", round(time.time() - T0, 1), "s")

# constants untouched
assert coords(new._NEG_G1) == coords(neg(G1))
assert coords(new.G1) == coords(old.G1) == coords(multiply(G1, 1))
assert new.Z2 is old.Z2 and coords(Z2) == ((1, 0), (1, 0), (0, 0))

print("checks:", NCHECK[0], "failures:", len(FAILS), "time:", round(time.time() - T0, 1), "s")
if FAILS:
    for f in FAILS[:20]:
        print(f)
    sys.exit(1)
print("EQUIVALENT")
