import os, sys; sys.path.insert(0, os.getcwd())
import importlib
import importlib.util
import json
import random
import time

HERE = os.path.dirname(os.path.abspath(__file__))
T0 = time.time()


def load(name, path):
    spec = importlib.util.spec_from_file_location(name, path)
    mod = importlib.util.module_from_spec(spec)
    sys.modules[name] = mod
    spec.loader.exec_module(mod)
    return mod


CURVES = {}
for cname, fname in (("bn128", "bn128_pairing"), ("bls12_381", "bls12_381_pairing")):
    pkg = importlib.import_module("py_ecc." + cname)
    new = importlib.import_module("py_ecc.%s.%s" % (cname, fname))
    assert os.path.abspath(new.__file__).startswith(os.getcwd()), new.__file__
    old = load(
        "py_ecc.%s._pristine_pairing" % cname,
        os.path.join(HERE, "pristine", fname + ".py"),
    )
    assert hasattr(new, "final_exponent") and not hasattr(old, "final_exponent")
    assert pkg.pairing is new.pairing
    CURVES[cname] = (pkg, old, new)


def outcome(fn, *args):
    try:
        v = fn(*args)
        return ("ok", type(v).__name__, repr(v))
    except Exception as e:  # noqa
        return ("exc", type(e).__name__, "")


def build(cname, spec):
    """Build (Q, P) for a task spec inside the worker."""
    pkg = CURVES[cname][0]
    kind = spec[0]
    if kind == "mul":
        _, a, b = spec
        return pkg.multiply(pkg.G2, b), pkg.multiply(pkg.G1, a)
    if kind == "sumP":
        _, a1, a2 = spec
        return pkg.G2, pkg.add(pkg.multiply(pkg.G1, a1), pkg.multiply(pkg.G1, a2))
    if kind == "sumQ":
        _, b1, b2 = spec
        return pkg.add(pkg.multiply(pkg.G2, b1), pkg.multiply(pkg.G2, b2)), pkg.G1
    if kind == "negP":
        return pkg.G2, pkg.neg(pkg.G1)
    if kind == "negQ":
        return pkg.neg(pkg.G2), pkg.G1
    raise AssertionError(spec)


def cheap_checks():
    n = 0
    for cname, (pkg, old, new) in CURVES.items():
        FQ, FQ2, FQ12, G1, G2 = pkg.FQ, pkg.FQ2, pkg.FQ12, pkg.G1, pkg.G2
        # the new constants are exactly the values the old code recomputed per call
        assert new.final_exponent == (old.field_modulus**12 - 1) // old.curve_order
        assert type(new.final_exponent) is int
        assert type(new.ate_loop_bits) is tuple
        assert all(type(x) is bool for x in new.ate_loop_bits)
        old_bits = [
            bool(old.ate_loop_count & (2**i))
            for i in range(old.log_ate_loop_count, -1, -1)
        ]
        assert list(new.ate_loop_bits) == old_bits
        assert new.ate_loop_count == old.ate_loop_count
        assert new.log_ate_loop_count == old.log_ate_loop_count
        snapshot = (new.ate_loop_bits, new.final_exponent)

        def same(label, fname, *args):
            nonlocal n
            o = outcome(getattr(old, fname), *args)
            w = outcome(getattr(new, fname), *args)
            if o != w:
                print("MISMATCH", cname, label, fname, o, w)
                sys.exit(1)
            n += 1
            return w

        # infinity in either argument -> unit
        assert same("infQ", "pairing", None, G1)[0] == "ok"
        assert same("infP", "pairing", G2, None)[0] == "ok"
        assert same("infPQ", "pairing", None, None) == same("infQ2", "pairing", None, G1)
        same("ml-noneQ", "miller_loop", None, new.cast_point_to_fq12(G1))
        same("ml-noneP", "miller_loop", pkg.twist(G2), None)
        # off-curve input refused (ValueError) before any pairing work
        offP = [(FQ(1), FQ(3)), (G1[0], G1[1] + 1), (FQ(0), FQ(0))]
        offQ = [(G2[0], G2[1] + FQ2([1, 0])), (FQ2([1, 1]), FQ2([2, 2])), (FQ2.zero(), FQ2.zero())]
        for op in offP:
            assert same(("offP", op), "pairing", G2, op) == ("exc", "ValueError", "")
            same(("offP-infQ", op), "pairing", None, op)
        for oq in offQ:
            assert same(("offQ", oq), "pairing", oq, G1) == ("exc", "ValueError", "")
            same(("offQ-infP", oq), "pairing", oq, None)
            same(("offQ-offP", oq), "pairing", oq, offP[0])
        # malformed operands: same exception class from both versions
        malformed = [5, (), (FQ(1), FQ(2), FQ(1)), "ab", (1.0, 2.0), (G1[0],),
                     (FQ12.one(), FQ12.one())]
        # arguments of the wrong group (swapped) are refused too
        assert same("swapQ", "pairing", G1, G1)[0] == "exc"
        assert same("swapP", "pairing", G2, G2)[0] == "exc"
        assert same("swapPQ", "pairing", G1, G2)[0] == "exc"
        for m in malformed:
            same(("malQ", repr(m)[:30]), "pairing", m, G1)
            same(("malP", repr(m)[:30]), "pairing", G2, m)
            same(("malQ-inf", repr(m)[:30]), "pairing", m, None)
            same(("malP-inf", repr(m)[:30]), "pairing", None, m)
        # malformed operands handed straight to the Miller loop (fail fast, cheap)
        tQ, cP = pkg.twist(G2), new.cast_point_to_fq12(G1)
        for q_, p_ in [(G2, cP), (tQ, G1), (5, cP), (tQ, 5), ((tQ[0],), cP),
                       (tQ, (cP[0],)), ((1, 2), (1, 2)), (tQ + (FQ12.one(),), cP)]:
            same(("ml-bad", repr(q_)[:30], repr(p_)[:30]), "miller_loop", q_, p_)
        # final_exponentiate on cheap / degenerate values
        same("fe-fq", "final_exponentiate", FQ(3))
        same("fe-fq2", "final_exponentiate", FQ2([3, 4]))
        same("fe-str", "final_exponentiate", "x")
        same("fe-none", "final_exponentiate", None)
        same("fe-0", "final_exponentiate", 0)
        same("fe-1", "final_exponentiate", 1)
        same("fe-m1", "final_exponentiate", -1)
        # constants never mutated by any of the calls above
        assert (new.ate_loop_bits, new.final_exponent) == snapshot
    return n


EXPECTED = os.path.join(HERE, "expected_pristine.json")


def expensive_tasks():
    rng = random.Random(0xC05)
    tasks = []
    for cname, (pkg, old, new) in CURVES.items():
        r = pkg.curve_order
        p = old.field_modulus
        ra, rb = rng.randrange(r), rng.randrange(r)
        tasks += [
            (cname, ("mul", 1, 1)),
            (cname, ("mul", 2, 1)),
            (cname, ("mul", 1, r - 1)),
            (cname, ("mul", ra, rb)),
            (cname, ("negQ",)),
            (cname, ("finalexp", [rng.randrange(p) for _ in range(12)])),
        ]
    return tasks


def run_one(task, which):
    """which: 1 = pristine copy, 2 = edited module"""
    cname, spec = task
    pkg = CURVES[cname][0]
    mod = CURVES[cname][which]
    if spec[0] == "finalexp":
        return outcome(mod.final_exponentiate, pkg.FQ12(spec[1]))
    Q, P = build(cname, spec)
    return outcome(mod.pairing, Q, P)


def main():
    tasks = expensive_tasks()
    if "--regen" in sys.argv:
        # values of the PRISTINE module copy (pristine/*.py), stored for the comparison
        data = {repr(t): list(run_one(t, 1)) for t in tasks}
        with open(EXPECTED, "w") as fh:
            json.dump(data, fh, indent=1, sort_keys=True)
        print("wrote", EXPECTED)
        return
    with open(EXPECTED) as fh:
        expected = json.load(fh)
    assert set(expected) == {repr(t) for t in tasks}

    # scalars 0 and r give the point at infinity (None): cheap, both versions in-process
    n = 0
    for cname, (pkg, old, new) in CURVES.items():
        r = pkg.curve_order
        for a, b in [(0, 1), (1, 0), (r, 1), (1, r), (0, 0), (r, r)]:
            Q, P = build(cname, ("mul", a, b))
            o, w = outcome(old.pairing, Q, P), outcome(new.pairing, Q, P)
            assert o == w and o[0] == "ok", (cname, a, b, o, w)
            assert o[2] == repr(pkg.FQ12.one())
            n += 1
    n += cheap_checks()

    # full pairings / final exponentiations of the edited modules against the values
    # the pristine copy produced (expected_pristine.json, made by `equiv.py --regen`)
    results = {}
    for task in tasks:
        w = run_one(task, 2)
        if list(w) != expected[repr(task)]:
            print("MISMATCH", task, expected[repr(task)], w)
            sys.exit(1)
        assert w[0] == "ok" and w[1] == CURVES[task[0]][0].FQ12.__name__, (task, w)
        results[repr(task)] = w
        n += 1
    # one live old-vs-new full pairing as well (not via the JSON file)
    cname = "bn128"
    pkg, old, new = CURVES[cname]
    Q, P = build(cname, ("sumP", 3, 11))
    o, w = outcome(old.pairing, Q, P), outcome(new.pairing, Q, P)
    assert o == w and o[0] == "ok", (o, w)
    n += 1

    # property sanity on the edited modules
    for cname, (pkg, old, new) in CURVES.items():
        one = repr(pkg.FQ12.one())

        def val(spec):
            return results[repr((cname, spec))]

        assert val(("mul", 1, 1))[2] != one
        assert val(("mul", 1, pkg.curve_order - 1)) == val(("negQ",))
        assert val(("mul", 2, 1)) != val(("mul", 1, 1))
    # after all the interleaved calls, cheap calls still agree and constants are intact
    n += cheap_checks()
    print("q2 equivalence OK: %d comparisons in %.1fs" % (n, time.time() - T0))


if __name__ == "__main__":
    main()
