import os, sys; sys.path.insert(0, os.getcwd())  # noqa: E401,E702

# Equivalence demonstration for a refactoring of py_ecc/bls/hash_to_curve.py
# (hash_to_field_FQ2 / hash_to_field_FQ) and py_ecc/bls/constants.py
# (HASH_TO_FIELD_L).  The pristine copies saved next to this script are loaded
# under other module names inside the py_ecc.bls package (so their relative
# imports work) and compared with the modules of the working tree (cwd).
import hashlib
import importlib.util
import random

HERE = os.path.dirname(os.path.abspath(__file__))


def load(name, path):
    spec = importlib.util.spec_from_file_location(name, path)
    mod = importlib.util.module_from_spec(spec)
    sys.modules[name] = mod
    spec.loader.exec_module(mod)
    return mod


import py_ecc.bls.constants as new_const  # noqa: E402
import py_ecc.bls.hash_to_curve as new_h2c  # noqa: E402
from py_ecc.optimized_bls12_381 import field_modulus as P, normalize  # noqa: E402

assert os.path.abspath(new_h2c.__file__).startswith(os.getcwd()), new_h2c.__file__
old_const = load(
    "py_ecc.bls._pristine_constants", os.path.join(HERE, "pristine", "constants.py")
)
old_h2c = load(
    "py_ecc.bls._pristine_hash_to_curve",
    os.path.join(HERE, "pristine", "hash_to_curve.py"),
)
# the pristine hash_to_curve did `from .constants import HASH_TO_FIELD_L`, which
# resolved to the working-tree constants module: give it the pristine value.
old_h2c.HASH_TO_FIELD_L = old_const.HASH_TO_FIELD_L

# --- constants -------------------------------------------------------------
for name in dir(old_const):
    if name.startswith("__"):
        continue
    a, b = getattr(old_const, name), getattr(new_const, name)
    if name == "FQ2":
        assert a is b
        continue
    assert type(a) is type(b) and a == b, name
assert type(new_const.HASH_TO_FIELD_L) is int and new_const.HASH_TO_FIELD_L == 64
assert old_const.HASH_TO_FIELD_L == 64

n_checked = 0
n_raised = 0


def canon(r):
    """integers held by returned field elements / points, with class names"""
    if isinstance(r, tuple):
        return ("tuple", tuple(canon(e) for e in r))
    if hasattr(r, "coeffs"):
        assert all(type(c) is int for c in r.coeffs)
        return (type(r).__name__, tuple(r.coeffs))
    if hasattr(r, "n"):
        assert type(r.n) is int
        return (type(r).__name__, r.n)
    return (type(r).__name__, r)


def outcome(fn, *args):
    try:
        r = fn(*args)
    except BaseException as e:  # noqa: B902
        return ("exc", type(e))
    return ("ok", canon(r))


def same(label, f_old, f_new, *args):
    global n_checked, n_raised
    a = outcome(f_old, *args)
    b = outcome(f_new, *args)
    if a != b:
        print("MISMATCH", label, [repr(x)[:60] for x in args], a, b)
        sys.exit(1)
    n_checked += 1
    if a[0] == "exc":
        n_raised += 1
    return a


rnd = random.Random(1502)


def rb(n):
    return bytes(rnd.getrandbits(8) for _ in range(n))


HASHES = [hashlib.sha256, hashlib.sha512, hashlib.sha384, hashlib.sha3_256,
          hashlib.blake2b, hashlib.sha1, hashlib.sha224]
DST_G2 = b"BLS_SIG_BLS12381G2_XMD:SHA-256_SSWU_RO_POP_"
DST_G1 = b"BLS_SIG_BLS12381G1_XMD:SHA-256_SSWU_RO_POP_"
MSGS = [b"", b"abc", b"abcdef0123456789", rb(55), rb(56), rb(63), rb(64), rb(65),
        rb(119), rb(128), rb(136), rb(1024), rb(3000)]
TAGS = [b"", b"x", DST_G2, DST_G1, rb(254), rb(255), rb(256), rb(400)]
COUNTS = list(range(0, 9)) + [-1, -2, 15, 16, 31, 32, 63, 64, 65, 127, 128, 129,
                              191, 192, 255, 256, 1000]

PAIRS = [
    ("hash_to_field_FQ2", old_h2c.hash_to_field_FQ2, new_h2c.hash_to_field_FQ2),
    ("hash_to_field_FQ", old_h2c.hash_to_field_FQ, new_h2c.hash_to_field_FQ),
]

# 1. grid: function x hash x count x tag x message
for label, f_old, f_new in PAIRS:
    for h in HASHES:
        for count in COUNTS:
            for tag in TAGS:
                for msg in (MSGS if count in (1, 2, 3) else MSGS[:3]):
                    res = same(label, f_old, f_new, msg, count, tag, h)
                    if res[0] == "ok":
                        assert len(res[1][1]) == max(count, 0)

# 2. independent restatement of RFC 9380 section 5.2 on top of the library's
#    expand_message_xmd (not touched by this refactoring)
from py_ecc.bls.hash import expand_message_xmd  # noqa: E402

for h in HASHES[:5]:
    for count in range(1, 9):
        for m, (label, f_old, f_new) in ((2, PAIRS[0]), (1, PAIRS[1])):
            msg, tag = rb(rnd.randrange(0, 200)), rb(rnd.randrange(0, 256))
            try:
                ub = expand_message_xmd(msg, tag, count * m * 64, h)
            except ValueError:
                assert outcome(f_new, msg, count, tag, h) == ("exc", ValueError)
                assert outcome(f_old, msg, count, tag, h) == ("exc", ValueError)
                continue
            want = tuple(
                tuple(
                    int.from_bytes(ub[64 * (j + i * m):64 * (j + i * m) + 64], "big") % P
                    for j in range(m)
                )
                for i in range(count)
            )
            for f in (f_old, f_new):
                got = f(msg, count, tag, h)
                got = tuple(
                    tuple(e.coeffs) if m == 2 else (e.n,) for e in got
                )
                assert got == want

# 3. crafted uniform bytes (exercise the slicing and the reduction mod p):
#    both modules get the same stub in place of expand_message_xmd
SPECIAL = [0, 1, P - 1, P, P + 1, 2 * P - 1, 2 * P, 2**381, 2**384 - 1, 2**384,
           2**511, 2**512 - 1, (2**512 - 1) // P * P, (2**512 - 1) // P * P - 1]


def stubbed(mod, fn_name, blob):
    def run(msg, count, tag, h):
        saved = mod.expand_message_xmd
        mod.expand_message_xmd = lambda *_a: blob
        try:
            return getattr(mod, fn_name)(msg, count, tag, h)
        finally:
            mod.expand_message_xmd = saved
    return run


for fn_name, m in (("hash_to_field_FQ2", 2), ("hash_to_field_FQ", 1)):
    for count in range(0, 9):
        blobs = []
        for _ in range(12):
            blobs.append(b"".join(
                rnd.choice(SPECIAL + [rnd.getrandbits(512)]).to_bytes(64, "big")
                for _ in range(count * m)))
        blobs.append(b"\xff" * (64 * count * m))
        blobs.append(b"\x00" * (64 * count * m))
        # expander returning fewer / more bytes than asked for (cannot happen with
        # the real one; both versions must still agree)
        blobs.append(rb(max(64 * count * m - 10, 0)))
        blobs.append(rb(64 * count * m + 70))
        blobs.append(b"")
        blobs.append(bytearray(rb(64 * count * m)))
        for blob in blobs:
            same("stub-" + fn_name, stubbed(old_h2c, fn_name, blob),
                 stubbed(new_h2c, fn_name, blob), b"m", count, b"t", hashlib.sha256)

# 4. malformed arguments
MALFORMED = [
    ("abc", 2, DST_G2, hashlib.sha256),
    (b"abc", 2, "dst", hashlib.sha256),
    (b"abc", 2.0, DST_G2, hashlib.sha256),
    (b"abc", 0.5, DST_G2, hashlib.sha256),
    (b"abc", "2", DST_G2, hashlib.sha256),
    (b"abc", None, DST_G2, hashlib.sha256),
    (b"abc", True, DST_G2, hashlib.sha256),
    (b"abc", False, DST_G2, hashlib.sha256),
    (b"abc", 2, None, hashlib.sha256),
    (None, 2, DST_G2, hashlib.sha256),
    (b"abc", 2, DST_G2, None),
    (b"abc", 2, DST_G2, hashlib.shake_128),
    (b"abc", 2, rb(256), hashlib.shake_128),
    (b"abc", 10**6, rb(256), hashlib.sha256),
    (b"abc", 10**400, DST_G2, hashlib.sha256),
    (b"abc", [2], DST_G2, hashlib.sha256),
    (bytearray(b"abc"), 2, bytearray(DST_G2), hashlib.sha256),
]
for label, f_old, f_new in PAIRS:
    for args in MALFORMED:
        same("malformed-" + label, f_old, f_new, *args)

# 5. random sampling
for _ in range(1500):
    label, f_old, f_new = rnd.choice(PAIRS)
    same("rand-" + label, f_old, f_new, rb(rnd.randrange(0, 400)),
         rnd.randrange(0, 12), rb(rnd.choice([0, 7, 43, 254, 255, 256])),
         rnd.choice(HASHES))

# 6. the callers hash_to_G2 / hash_to_G1 (ciphersuite parameters)
for msg in (b"", b"abc", rb(100)):
    a = normalize(old_h2c.hash_to_G2(msg, DST_G2, hashlib.sha256))
    b = normalize(new_h2c.hash_to_G2(msg, DST_G2, hashlib.sha256))
    assert canon(a) == canon(b)
    a = normalize(old_h2c.hash_to_G1(msg, DST_G1, hashlib.sha256))
    b = normalize(new_h2c.hash_to_G1(msg, DST_G1, hashlib.sha256))
    assert canon(a) == canon(b)
    n_checked += 2
for f_old, f_new in ((old_h2c.hash_to_G2, new_h2c.hash_to_G2),
                     (old_h2c.hash_to_G1, new_h2c.hash_to_G1)):
    same("h2c-long-dst", f_old, f_new, b"abc", rb(256), hashlib.sha256)

# 7. RFC 9380 J.10.1 (BLS12381G2_XMD:SHA-256_SSWU_RO_), msg = "": u[0], u[1]
RFC_DST = b"QUUX-V01-CS02-with-BLS12381G2_XMD:SHA-256_SSWU_RO_"
u0 = (
    0x03dbc2cce174e91ba93cbb08f26b917f98194a2ea08d1cce75b2b9cc9f21689d80bd79b594a613d0a68eb807dfdc1cf8,  # noqa: E501
    0x05a2acec64114845711a54199ea339abd125ba38253b70a92c876df10598bd1986b739cad67961eb94f7076511b3b39a,  # noqa: E501
)
u1 = (
    0x02f99798e8a5acdeed60d7e18e9120521ba1f47ec090984662846bc825de191b5b7641148c0dbc237726a334473eee94,  # noqa: E501
    0x145a81e418d4010cc027a68f14391b30074e89e60ee7a22f87217b2f6eb0c4b94c9115b436e6fa4607e95a98de30a435,  # noqa: E501
)
for mod in (old_h2c, new_h2c):
    got = mod.hash_to_field_FQ2(b"", 2, RFC_DST, hashlib.sha256)
    assert tuple(tuple(e.coeffs) for e in got) == (u0, u1)

print("equivalent: %d comparisons (%d of them raised the same exception class)"
      % (n_checked, n_raised))
sys.exit(0)
