import os, sys; sys.path.insert(0, os.getcwd())  # noqa: E702

"""
Equivalence demonstration for C10/p2.

Edited module : py_ecc/bls/hash_to_curve.py (current worktree)
Pristine copy : /tmp/twin2/C10/p2/pristine/hash_to_curve.py

hash_to_field_FQ and hash_to_field_FQ2 now share one implementation
(_hash_to_field_coeffs).  The pristine file is loaded under another module name
in the same package and both versions are compared on a broad input set.
"""

import hashlib
import importlib.util
import random

HERE = os.path.dirname(os.path.abspath(__file__))

import py_ecc.bls.hash_to_curve as new  # noqa: E402
from py_ecc.fields import (  # noqa: E402
    optimized_bls12_381_FQ as FQ,
    optimized_bls12_381_FQ2 as FQ2,
)
from py_ecc.optimized_bls12_381 import (  # noqa: E402
    b,
    b2,
    curve_order,
    field_modulus as p,
    is_inf,
    is_on_curve,
    multiply,
    normalize,
)

assert os.path.realpath(new.__file__).startswith(os.path.realpath(os.getcwd())), (
    "edited module must come from the worktree",
    new.__file__,
)
assert hasattr(new, "_hash_to_field_coeffs"), "edit not applied"

spec = importlib.util.spec_from_file_location(
    "py_ecc.bls.hash_to_curve_pristine", os.path.join(HERE, "pristine", "hash_to_curve.py")
)
old = importlib.util.module_from_spec(spec)
old.__package__ = "py_ecc.bls"
sys.modules[spec.name] = old
spec.loader.exec_module(old)
assert not hasattr(old, "_hash_to_field_coeffs")

rng = random.Random(0xC10 + 2)
checks = 0


def canon(x):
    """Type-and-value canonical form (so 3, FQ(3) and [3] / (3,) all differ)."""
    if isinstance(x, (tuple, list)):
        return (type(x).__name__, tuple(canon(e) for e in x))
    if isinstance(x, FQ):
        return (type(x).__name__, x.n)
    if hasattr(x, "coeffs"):
        return (type(x).__name__, tuple(canon(c) for c in x.coeffs),
                canon(x.modulus_coeffs), x.degree)
    if isinstance(x, (bytes, bytearray, int, str, float, bool, type(None))):
        return (type(x).__name__, x if not isinstance(x, bytearray) else bytes(x))
    return (type(x).__name__, id(x))


def outcome(f, *args):
    try:
        return ("ok", canon(f(*args)))
    except BaseException as e:  # noqa: B902
        return ("raise", type(e).__name__)


def same(fname, *args):
    global checks
    snapshot = canon(args)
    a = outcome(getattr(old, fname), *args)
    c = outcome(getattr(new, fname), *args)
    assert a == c, (fname, args, a, c)
    assert canon(args) == snapshot, ("arguments mutated", fname)
    checks += 1
    return a


DSTS = [
    b"", b"x", b"QUUX-V01-CS02-with-BLS12381G2_XMD:SHA-256_SSWU_RO_",
    b"QUUX-V01-CS02-with-BLS12381G1_XMD:SHA-256_SSWU_RO_",
    b"BLS_SIG_BLS12381G2_XMD:SHA-256_SSWU_RO_POP_", b"d" * 255,
]
MSGS = [b"", b"abc", b"abcdef0123456789", b"\x00" * 64, b"\xff" * 33, b"a" * 512]
MSGS += [rng.randbytes(rng.randrange(1, 100)) for _ in range(10)]
HASHES = [hashlib.sha256, hashlib.sha512, hashlib.sha384, hashlib.sha224,
          hashlib.sha3_256, hashlib.sha3_512, hashlib.blake2b, hashlib.blake2s,
          hashlib.sha1, hashlib.md5]

# ------------------------------------------------------------ hash_to_field
n_ok = n_raise = 0
for hf in HASHES:
    for m in MSGS[:5] + [MSGS[-1]]:
        for d in (DSTS[0], DSTS[2], DSTS[5]):
            # count sweeps across the ell <= 255 limit of expand_message_xmd
            for count in (0, 1, 2, 3, 5):
                for f in ("hash_to_field_FQ", "hash_to_field_FQ2"):
                    r = same(f, m, count, d, hf)
                    n_ok += r[0] == "ok"
                    n_raise += r[0] == "raise"
for hf in HASHES:
    for count in (31, 32, 63, 64, 65, 127, 128, 129, 255, 256, 511, 512, 1000):
        for f in ("hash_to_field_FQ", "hash_to_field_FQ2"):
            r = same(f, b"limit", count, DSTS[2], hf)
            n_ok += r[0] == "ok"
            n_raise += r[0] == "raise"
assert n_ok > 500 and n_raise > 50, (n_ok, n_raise)

# well-formedness of what both return (types, canonical range, tuple-ness)
for f, cls in (("hash_to_field_FQ", FQ), ("hash_to_field_FQ2", FQ2)):
    for count in (0, 1, 2, 4):
        res = getattr(new, f)(b"abc", count, DSTS[2], hashlib.sha256)
        assert type(res) is tuple and len(res) == count
        assert all(type(e) is cls for e in res)
    res = getattr(new, f)(b"abc", 2, DSTS[2], hashlib.sha256)
    for e in res:
        cs = [e.n] if cls is FQ else list(e.coeffs)
        assert all(type(c) is int and 0 <= c < p for c in cs)

# prefix-consistency must be identical as well: element i depends on count only
# through len_in_bytes, in BOTH versions
for f in ("hash_to_field_FQ", "hash_to_field_FQ2"):
    a2 = same(f, b"abc", 2, DSTS[2], hashlib.sha256)
    a3 = same(f, b"abc", 3, DSTS[2], hashlib.sha256)
    assert a2 != a3

# malformed / unusual arguments: same exception classes, same results
bad_counts = [-1, -5, True, False, 1.0, 2.5, None, "2", b"2", [2], (2,), 10**6,
              2**70]
for c in bad_counts:
    for f in ("hash_to_field_FQ", "hash_to_field_FQ2"):
        same(f, b"abc", c, DSTS[2], hashlib.sha256)
bad_msgs = ["abc", None, 5, [1, 2], bytearray(b"abc"), memoryview(b"abc")]
bad_dsts = ["dst", None, 5, b"d" * 256, b"d" * 1000, bytearray(b"dst"), [1, 2]]
bad_hashes = [None, "sha256", hashlib.shake_128, hashlib.shake_256, int,
              hashlib.sha256(), lambda: None, lambda x=b"": hashlib.sha256(x)]
for f in ("hash_to_field_FQ", "hash_to_field_FQ2", "hash_to_G1", "hash_to_G2"):
    mk = (lambda m, d, h: (m, 2, d, h)) if "field" in f else (lambda m, d, h: (m, d, h))
    for m in bad_msgs:
        same(f, *mk(m, DSTS[2], hashlib.sha256))
    for d in bad_dsts:
        same(f, *mk(b"abc", d, hashlib.sha256))
    for h in bad_hashes:
        same(f, *mk(b"abc", DSTS[2], h))
assert same("hash_to_G2", b"abc", b"d" * 256, hashlib.sha256) == ("raise", "ValueError")
assert same("hash_to_G1", b"abc", b"d" * 256, hashlib.sha256) == ("raise", "ValueError")
assert same("hash_to_field_FQ2", b"abc", 64, b"d", hashlib.sha256) == ("raise", "ValueError")
assert same("hash_to_field_FQ", b"abc", 128, b"d", hashlib.sha256) == ("raise", "ValueError")
assert same("hash_to_field_FQ2", b"abc", 63, b"d", hashlib.sha256)[0] == "ok"
assert same("hash_to_field_FQ", b"abc", 127, b"d", hashlib.sha256)[0] == "ok"

# ------------------------------------------------ RFC 9380 anchor (J.10.1, u)
u0, u1 = new.hash_to_field_FQ2(
    b"", 2, b"QUUX-V01-CS02-with-BLS12381G2_XMD:SHA-256_SSWU_RO_", hashlib.sha256
)
assert u0.coeffs[0] == int(
    "03dbc2cce174e91ba93cbb08f26b917f98194a2ea08d1cce75b2b9cc9f21689d"
    "80bd79b594a613d0a68eb807dfdc1cf8", 16)
assert u1.coeffs[0] == int(
    "02f99798e8a5acdeed60d7e18e9120521ba1f47ec090984662846bc825de191b"
    "5b7641148c0dbc237726a334473eee94", 16)

# ---------------------------------------------------------- full pipelines


def affine(pt):
    return None if is_inf(pt) else canon(normalize(pt))


def pipeline(group, msg, dst, hf):
    f = "hash_to_" + group
    a = same(f, msg, dst, hf)
    assert a[0] == "ok"
    pn = getattr(new, f)(msg, dst, hf)
    po = getattr(old, f)(msg, dst, hf)
    assert affine(po) == affine(pn)
    assert is_on_curve(pn, b if group == "G1" else b2)
    assert is_inf(multiply(pn, curve_order))
    return a


seq = []
for i, m in enumerate(MSGS[:10]):
    for g in ("G1", "G2"):
        seq.append((g, m, DSTS[i % len(DSTS)], hashlib.sha256))
for i, hf in enumerate(HASHES[1:7]):
    seq.append(("G2", MSGS[i], DSTS[2], hf))
    seq.append(("G1", MSGS[i], DSTS[3], hf))
first = {k: pipeline(*args) for k, args in enumerate(seq)}
# history independence: shuffled repeats, interleaved with hash_to_field calls of
# the OTHER field, refused calls, and map_to_curve calls
order = list(range(len(seq)))
rng.shuffle(order)
for k in order[:10]:
    g, m, d, hf = seq[k]
    same("hash_to_field_FQ" if g == "G2" else "hash_to_field_FQ2", m, 3, d, hf)
    same("hash_to_field_FQ2", m, 64, d, hashlib.sha256)  # refused
    assert pipeline(g, m, d, hf) == first[k]

# map_to_curve / clear_cofactor are untouched; confirm on boundary field elements
halfm, halfp = (p - 1) // 2, (p + 1) // 2
for u in [FQ(0), FQ(1), FQ(p - 1), FQ(halfm), FQ(halfp)] + [
    FQ(rng.randrange(p)) for _ in range(10)
]:
    same("map_to_curve_G1", u)
for u in [FQ2([0, 0]), FQ2([1, 0]), FQ2([p - 1, 0]), FQ2([0, 1]), FQ2([halfm, 0]),
          FQ2([halfp, 0]), FQ2([0, halfm]), FQ2([rng.randrange(p), 0]),
          FQ2([0, rng.randrange(p)])] + [
    FQ2([rng.randrange(p), rng.randrange(p)]) for _ in range(8)
]:
    same("map_to_curve_G2", u)

# public surface: everything the pristine module exposes is still there
for name in dir(old):
    if not name.startswith("__"):
        assert hasattr(new, name), name

print(f"C10/p2 equivalence OK: {checks} comparisons "
      f"({n_ok} accepted / {n_raise} refused hash_to_field calls in the sweep)")
sys.exit(0)
