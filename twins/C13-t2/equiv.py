import os, sys; sys.path.insert(0, os.getcwd())
"""
Equivalence demonstration for C13 / t2.

Loads the pristine copies of the touched modules (saved next to this script under
pristine/) as synthetic packages `pristine_bn128` / `pristine_bls12_381`, and the
edited modules from the current working directory (the worktree), then runs both
versions of add / double / eq / is_on_curve / neg / multiply / linefunc / pairing (and
secp256k1's jacobian_double / jacobian_add / jacobian_multiply / multiply / add / ECDSA
sign + recover, see the second half) on a
broad set of inputs (proper points, rescaled representatives, all kinds of
representatives of infinity, equal and inverse points, off-curve triples, and
malformed operands: ints, mixed field classes, cross-curve classes, short / long
tuples, None) and checks that results (value, type, and object identity with the
operands) and exception classes are identical.
"""
import importlib
import itertools
import random
import time
import types

HERE = os.path.dirname(os.path.abspath(__file__))
PRISTINE = os.path.join(HERE, "pristine", "py_ecc")

T0 = time.time()


def load_pristine_pkg(name, subdir):
    pkg = types.ModuleType(name)
    pkg.__path__ = [os.path.join(PRISTINE, subdir)]
    pkg.__package__ = name
    sys.modules[name] = pkg
    cur = importlib.import_module(name + ".optimized_curve")
    pai = importlib.import_module(name + ".optimized_pairing")
    return cur, pai


import py_ecc  # noqa: E402

assert os.path.dirname(os.path.dirname(os.path.abspath(py_ecc.__file__))) == os.getcwd(), (
    "must be run with the worktree as cwd",
    py_ecc.__file__,
)

from py_ecc.fields import (  # noqa: E402
    optimized_bls12_381_FQ,
    optimized_bls12_381_FQ2,
    optimized_bls12_381_FQ12,
    optimized_bn128_FQ,
    optimized_bn128_FQ2,
    optimized_bn128_FQ12,
)
from py_ecc.fields.optimized_field_elements import FQ as BaseFQ, FQP as BaseFQP  # noqa: E402

NEW = {
    "bn128": (
        importlib.import_module("py_ecc.optimized_bn128.optimized_curve"),
        importlib.import_module("py_ecc.optimized_bn128.optimized_pairing"),
    ),
    "bls12_381": (
        importlib.import_module("py_ecc.optimized_bls12_381.optimized_curve"),
        importlib.import_module("py_ecc.optimized_bls12_381.optimized_pairing"),
    ),
}
OLD = {
    "bn128": load_pristine_pkg("pristine_bn128", "optimized_bn128"),
    "bls12_381": load_pristine_pkg("pristine_bls12_381", "optimized_bls12_381"),
}
for k in NEW:
    for n, o in zip(NEW[k], OLD[k]):
        assert n.__file__ != o.__file__
        assert o.__file__.startswith(HERE)
        assert n.__file__.startswith(os.getcwd() + os.sep)

FIELDS = {
    "bn128": (optimized_bn128_FQ, optimized_bn128_FQ2, optimized_bn128_FQ12),
    "bls12_381": (
        optimized_bls12_381_FQ,
        optimized_bls12_381_FQ2,
        optimized_bls12_381_FQ12,
    ),
}

rng = random.Random(0xC13)
N_CHECKS = 0


# ---------------------------------------------------------------- comparison helpers
def canon(v, operands):
    """A structural, type-aware description of a result."""
    for i, op in enumerate(operands):
        if v is op:
            return ("operand", i)
    if isinstance(v, bool):
        return ("bool", v)
    if isinstance(v, int):
        return ("int", v)
    if isinstance(v, BaseFQ):
        return ("FQ", type(v).__module__, type(v).__name__, v.n)
    if isinstance(v, BaseFQP):
        return (
            "FQP",
            type(v).__name__,
            tuple((type(c).__name__, int(c)) for c in v.coeffs),
        )
    if isinstance(v, tuple):
        return ("tuple",) + tuple(canon(x, ()) for x in v)
    if isinstance(v, list):
        return ("list",) + tuple(canon(x, ()) for x in v)
    if v is None:
        return ("None",)
    return ("other", type(v).__name__, repr(v))


def run(fn, args):
    try:
        return ("ok", canon(fn(*args), args))
    except RecursionError:
        raise
    except Exception as e:  # noqa: BLE001
        # class only: the interpreter's message for a failing `x ** 2` names "** or
        # pow()" while the one for `x * x` names "*"; the class is what callers see.
        return ("exc", type(e).__module__, type(e).__name__)


def same(label, f_new, f_old, args):
    global N_CHECKS
    snap = [canon(a, ()) for a in args]
    r_new = run(f_new, args)
    assert [canon(a, ()) for a in args] == snap, ("new mutated its arguments", label)
    r_old = run(f_old, args)
    assert [canon(a, ()) for a in args] == snap, ("old mutated its arguments", label)
    if r_new != r_old:
        print("MISMATCH", label)
        print("  args:", args)
        print("  new :", r_new)
        print("  old :", r_old)
        sys.exit(1)
    N_CHECKS += 1
    return r_new


# ---------------------------------------------------------------- input generators
def rand_elt(F, nonzero=False):
    while True:
        if issubclass(F, BaseFQ):
            e = F(rng.randrange(F.field_modulus))
            z = e.n == 0
        else:
            e = F([rng.randrange(F.field_modulus) for _ in range(F.degree)])
            z = all(int(c) == 0 for c in e.coeffs)
        if not (nonzero and z):
            return e


def small_elt(F, k):
    if issubclass(F, BaseFQ):
        return F(k)
    return F([k] + [0] * (F.degree - 1))


def scale(pt, lam):
    return (pt[0] * lam, pt[1] * lam, pt[2] * lam)


def point_pool(curve_mod, F, base, bcoef):
    """Operands over field class F built from an on-curve base point."""
    one, zero = F.one(), F.zero()
    pts = {}
    P = base
    P2 = curve_mod.double(P)
    P3 = curve_mod.add(P2, P)
    P5 = curve_mod.add(P3, P2)
    pts["P"] = P
    pts["2P"] = P2
    pts["3P"] = P3
    pts["5P"] = P5
    pts["P*lam"] = scale(P, rand_elt(F, True))
    pts["P*lam'"] = scale(P, rand_elt(F, True))
    pts["P*(-1)"] = scale(P, small_elt(F, -1))
    pts["2P*lam"] = scale(P2, rand_elt(F, True))
    pts["-P"] = curve_mod.neg(P)
    pts["-P*lam"] = scale(curve_mod.neg(P), rand_elt(F, True))
    pts["-2P*lam"] = scale(curve_mod.neg(P2), rand_elt(F, True))
    nx, ny = curve_mod.normalize(P3)
    pts["3P affine z=1"] = (nx, ny, one)
    # representatives of infinity
    pts["inf(1,1,0)"] = (one, one, zero)
    pts["inf(0,0,0)"] = (zero, zero, zero)
    pts["inf(0,1,0)"] = (zero, one, zero)
    pts["inf(x,y,0)"] = (rand_elt(F), rand_elt(F), zero)
    pts["inf(P.x,P.y,0)"] = (P[0], P[1], zero)
    pts["inf fresh zero"] = (F.one(), F.one(), F.zero())
    # off-curve / degenerate triples (formal identities hold for any triple)
    pts["rand"] = (rand_elt(F), rand_elt(F), rand_elt(F, True))
    pts["rand'"] = (rand_elt(F), rand_elt(F), rand_elt(F, True))
    r = pts["rand"]
    pts["rand*lam"] = scale(r, rand_elt(F, True))
    pts["rand negy*lam"] = scale((r[0], -r[1], r[2]), rand_elt(F, True))
    pts["y=0"] = (rand_elt(F), zero, rand_elt(F, True))
    pts["y=0 same x other scale"] = scale(pts["y=0"], rand_elt(F, True))
    pts["x=0"] = (zero, rand_elt(F, True), rand_elt(F, True))
    pts["x=0,y=0"] = (zero, zero, one)
    pts["same x other y"] = (r[0], rand_elt(F), r[2])
    pts["list point"] = [P[0], P[1], P[2]]
    return pts


def malformed_pool(F, other_classes, P):
    one, zero = F.one(), F.zero()
    m = {}
    m["ints"] = (1, 2, 1)
    m["ints inf"] = (1, 1, 0)
    m["int z=1"] = (P[0], P[1], 1)
    m["int z=0"] = (P[0], P[1], 0)
    m["int x"] = (5, P[1], P[2])
    m["int y"] = (P[0], 7, P[2])
    m["short"] = (P[0], P[1])
    m["long"] = (P[0], P[1], P[2], one)
    m["long inf"] = (one, one, zero, one)
    m["empty"] = ()
    m["None"] = None
    m["None coord"] = (P[0], None, P[2])
    m["None z"] = (P[0], P[1], None)
    m["str z"] = (P[0], P[1], "0")
    m["bool z"] = (P[0], P[1], False)
    for G in other_classes:
        tag = G.__module__.split(".")[-1] + "." + G.__name__
        m["all " + tag] = (rand_elt(G), rand_elt(G), rand_elt(G, True))
        m["inf " + tag] = (G.one(), G.one(), G.zero())
        m["z " + tag] = (P[0], P[1], rand_elt(G, True))
        m["z0 " + tag] = (P[0], P[1], G.zero())
        m["x " + tag] = (rand_elt(G), P[1], P[2])
        m["y " + tag] = (P[0], rand_elt(G), P[2])
    return m


# ---------------------------------------------------------------- the comparison
ALL_CLASSES = [c for k in FIELDS for c in FIELDS[k]]

for cname in ("bn128", "bls12_381"):
    ncur, npai = NEW[cname]
    ocur, opai = OLD[cname]
    FQ, FQ2, FQ12 = FIELDS[cname]

    # module-level constants unchanged
    for const in ("G1", "G2", "G12", "Z1", "Z2", "b", "b2", "b12", "w"):
        assert canon(getattr(ncur, const), ()) == canon(getattr(ocur, const), ()), const

    bases = [
        (FQ, ncur.G1, ncur.b),
        (FQ2, ncur.G2, ncur.b2),
        (FQ12, ncur.G12, ncur.b12),
    ]
    pools = {}
    for F, base, bcoef in bases:
        pools[F] = point_pool(ocur, F, base, bcoef)

    # -- well-typed operands: every ordered pair for the binary functions
    for F, base, bcoef in bases:
        pool = pools[F]
        names = list(pool)
        for a, b_ in itertools.product(names, names):
            args = (pool[a], pool[b_])
            same((cname, F.__name__, "add", a, b_), ncur.add, ocur.add, args)
            same((cname, F.__name__, "eq", a, b_), ncur.eq, ocur.eq, args)
        for a in names:
            for fn in ("double", "neg", "is_inf", "normalize"):
                same(
                    (cname, F.__name__, fn, a),
                    getattr(ncur, fn),
                    getattr(ocur, fn),
                    (pool[a],),
                )
            same(
                (cname, F.__name__, "is_on_curve", a),
                ncur.is_on_curve,
                ocur.is_on_curve,
                (pool[a], bcoef),
            )
            for n in (0, 1, 2, 3, 7, 2**64 + 13, ncur.curve_order, ncur.curve_order - 1):
                if F is FQ12 and n > 7:
                    continue
                same(
                    (cname, F.__name__, "multiply", a, n),
                    ncur.multiply,
                    ocur.multiply,
                    (pool[a], n),
                )
        # linefunc: all ordered pairs (P1, P2) against a few T
        if F is FQ12:
            tnames = ["P", "inf(1,1,0)", "rand"]
            lnames = [n for n in names if n not in ("P*lam'", "5P", "rand'")]
        else:
            tnames = ["P", "3P", "P*lam", "inf(1,1,0)", "inf(0,0,0)", "rand", "y=0", "list point"]
            lnames = names
        for a, b_ in itertools.product(lnames, lnames):
            for t in tnames:
                same(
                    (cname, F.__name__, "linefunc", a, b_, t),
                    npai.linefunc,
                    opai.linefunc,
                    (pool[a], pool[b_], pool[t]),
                )

    # -- malformed operands (both positions), FQ and FQ2 as the "home" class
    for F, base, bcoef in bases[:2]:
        pool = pools[F]
        others = [c for c in ALL_CLASSES if c is not F]
        bad = malformed_pool(F, others, base)
        good = {k: pool[k] for k in ("P", "2P*lam", "-P*lam", "inf(1,1,0)", "inf(0,0,0)", "P*lam")}
        for bk, bv in bad.items():
            for gk, gv in good.items():
                for args, tag in (((bv, gv), "bad,good"), ((gv, bv), "good,bad")):
                    same((cname, F.__name__, "add", tag, bk, gk), ncur.add, ocur.add, args)
                    same((cname, F.__name__, "eq", tag, bk, gk), ncur.eq, ocur.eq, args)
                for args, tag in (
                    ((bv, gv, pool["rand"]), "bad,good,T"),
                    ((gv, bv, pool["rand"]), "good,bad,T"),
                    ((gv, pool["3P"], bv), "good,good,badT"),
                    ((gv, gv, bv), "good,same,badT"),
                    ((gv, ocur.neg(gv), bv), "good,neg,badT"),
                ):
                    same(
                        (cname, F.__name__, "linefunc", tag, bk, gk),
                        npai.linefunc,
                        opai.linefunc,
                        args,
                    )
            same((cname, F.__name__, "add", "bad,bad", bk), ncur.add, ocur.add, (bv, bv))
            same(
                (cname, F.__name__, "linefunc", "bad,bad,bad", bk),
                npai.linefunc,
                opai.linefunc,
                (bv, bv, bv),
            )
            for fn in ("double", "neg", "is_inf"):
                same((cname, F.__name__, fn, bk), getattr(ncur, fn), getattr(ocur, fn), (bv,))
            same(
                (cname, F.__name__, "is_on_curve", bk),
                ncur.is_on_curve,
                ocur.is_on_curve,
                (bv, bcoef),
            )
        # a few pairs of malformed operands against each other
        bks = list(bad)
        for _ in range(300):
            a, b_, c = rng.choice(bks), rng.choice(bks), rng.choice(bks)
            same((cname, F.__name__, "add", "bad pair", a, b_), ncur.add, ocur.add, (bad[a], bad[b_]))
            same(
                (cname, F.__name__, "linefunc", "bad triple", a, b_, c),
                npai.linefunc,
                opai.linefunc,
                (bad[a], bad[b_], bad[c]),
            )

    # -- random walk: interleaved calls, results fed back as operands, repeated calls
    for F, base, bcoef in bases[:2]:
        pool = pools[F]
        live_new = [pool[k] for k in ("P", "2P", "inf(1,1,0)", "-P*lam", "rand")]
        live_old = list(live_new)
        for step in range(400):
            i, j = rng.randrange(len(live_new)), rng.randrange(len(live_new))
            op = rng.choice(["add", "add", "double", "neg", "scale", "repeat"])
            if op == "add":
                rn, ro = ncur.add(live_new[i], live_new[j]), ocur.add(live_old[i], live_old[j])
            elif op == "double":
                rn, ro = ncur.double(live_new[i]), ocur.double(live_old[i])
            elif op == "neg":
                rn, ro = ncur.neg(live_new[i]), ocur.neg(live_old[i])
            elif op == "scale":
                lam = rand_elt(F, True)
                rn, ro = scale(live_new[i], lam), scale(live_old[i], lam)
            else:
                r1 = canon(ncur.add(live_new[i], live_new[j]), ())
                r2 = canon(ncur.add(live_new[i], live_new[j]), ())
                assert r1 == r2
                continue
            assert canon(rn, ()) == canon(ro, ()), (cname, F.__name__, "walk", step, op)
            ln = run(npai.linefunc, (live_new[i], live_new[j], rn))
            lo = run(opai.linefunc, (live_old[i], live_old[j], ro))
            assert ln == lo, (cname, F.__name__, "walk linefunc", step)
            N_CHECKS += 2
            live_new.append(rn)
            live_old.append(ro)
            if len(live_new) > 12:
                k = rng.randrange(len(live_new))
                live_new.pop(k)
                live_old.pop(k)

    # -- whole pairing (drives linefunc/add/double through the Miller loop)
    for (a, b_) in ((1, 1), (3, 5)):
        Q = ocur.multiply(ocur.G2, a)
        Pp = ocur.multiply(ocur.G1, b_)
        rn = run(npai.pairing, (Q, Pp))
        ro = run(opai.pairing, (Q, Pp))
        assert rn == ro and rn[0] == "ok", (cname, "pairing", a, b_)
        N_CHECKS += 1
    for args in ((ocur.Z2, ocur.G1), (ocur.G2, ocur.Z1), (ocur.G1, ocur.G2)):
        assert run(npai.pairing, args) == run(opai.pairing, args), (cname, "pairing edge")
        N_CHECKS += 1

# cross-module: bn128 functions applied to bls12_381 points and vice versa
for cname, other in (("bn128", "bls12_381"), ("bls12_381", "bn128")):
    ncur, npai = NEW[cname]
    ocur, opai = OLD[cname]
    xcur = OLD[other][0]
    for G in (xcur.G1, xcur.G2):
        pts = [G, xcur.double(G), xcur.neg(G), (G[0].one(), G[0].one(), G[0].zero()), scale(G, small_elt(type(G[0]), 9))]
        for a, b_ in itertools.product(pts, pts):
            same((cname, "cross add"), ncur.add, ocur.add, (a, b_))
            same((cname, "cross eq"), ncur.eq, ocur.eq, (a, b_))
            for t in pts[:2]:
                same((cname, "cross linefunc"), npai.linefunc, opai.linefunc, (a, b_, t))


# ------------------------------------------------------------------ plain-int operands
# double() has no field-class requirement, so it accepts plain ints today (exact integer
# arithmetic, unreduced); is_on_curve with int x / y next to field z.
for cname in ("bn128", "bls12_381"):
    ncur, ocur = NEW[cname][0], OLD[cname][0]
    FQ, FQ2, FQ12 = FIELDS[cname]
    for _ in range(300):
        kind = rng.randrange(4)
        if kind == 0:
            t = tuple(rng.randrange(-50, 50) for _ in range(3))
        elif kind == 1:
            t = tuple(rng.randrange(-(2**400), 2**400) for _ in range(3))
        elif kind == 2:
            F = rng.choice([FQ, FQ2])
            t = tuple(rng.choice([rng.randrange(-9, 9), rand_elt(F)]) for _ in range(3))
        else:
            t = (True, False, rng.randrange(5))
        same((cname, "double int-ish", t), ncur.double, ocur.double, (t,))
        for bb in (ncur.b, ncur.b2, 3, 0, -4):
            same((cname, "is_on_curve int-ish", t), ncur.is_on_curve, ocur.is_on_curve, (t, bb))
    # is_on_curve against every b constant, b of the wrong class, int b
    for F, base in ((FQ, ncur.G1), (FQ2, ncur.G2), (FQ12, ncur.G12)):
        pool = point_pool(ocur, F, base, None)
        for name, pt in pool.items():
            for bb in (ncur.b, ncur.b2, ncur.b12, 3, 4, 0, -1, None, "b", F.zero(), rand_elt(F)):
                same((cname, F.__name__, "is_on_curve b-variants", name), ncur.is_on_curve, ocur.is_on_curve, (pt, bb))

# ------------------------------------------------------------------ secp256k1
import importlib.util  # noqa: E402
from fractions import Fraction  # noqa: E402

import py_ecc.secp256k1.secp256k1 as nsec  # noqa: E402

spec = importlib.util.spec_from_file_location(
    "pristine_secp256k1", os.path.join(PRISTINE, "secp256k1", "secp256k1.py")
)
osec = importlib.util.module_from_spec(spec)
sys.modules["pristine_secp256k1"] = osec
spec.loader.exec_module(osec)
assert osec.__file__ != nsec.__file__ and nsec.__file__.startswith(os.getcwd() + os.sep)
for const in ("P", "N", "A", "B", "Gx", "Gy", "G"):
    assert getattr(nsec, const) == getattr(osec, const)

SP, SN = osec.P, osec.N


def jscale(pt, lam):
    return (pt[0] * lam * lam, pt[1] * lam**3, pt[2] * lam)


def unreduce(pt):
    return tuple(c + rng.randrange(-3, 4) * SP for c in pt)


def secp_pool():
    G = (osec.Gx, osec.Gy, 1)
    d = {}
    d["G"] = G
    d["2G"] = osec.jacobian_double(G)
    d["3G"] = osec.jacobian_add(d["2G"], G)
    d["7G"] = osec.jacobian_multiply(G, 7)
    d["kG"] = osec.jacobian_multiply(G, rng.randrange(1, SN))
    d["(N-1)G"] = osec.jacobian_multiply(G, SN - 1)
    d["-G"] = (osec.Gx, SP - osec.Gy, 1)
    d["-G negative y"] = (osec.Gx, -osec.Gy, 1)
    d["G*lam"] = tuple(c % SP for c in jscale(G, rng.randrange(1, SP)))
    d["G*lam unreduced"] = jscale(G, rng.randrange(1, SP))
    d["G*(-1)"] = jscale(G, -1)
    d["G*(-lam)"] = jscale(G, -rng.randrange(1, 2**64))
    d["-G*lam"] = tuple(c % SP for c in jscale(d["-G"], rng.randrange(1, SP)))
    d["2G*lam"] = tuple(c % SP for c in jscale(d["2G"], rng.randrange(1, SP)))
    d["-2G*lam"] = tuple(c % SP for c in jscale((d["2G"][0], -d["2G"][1], d["2G"][2]), rng.randrange(1, SP)))
    d["3G unreduced"] = unreduce(d["3G"])
    d["G unreduced"] = unreduce(G)
    d["G + P everywhere"] = tuple(c + SP for c in G)
    # identity markers (y == 0) and near misses
    d["id(0,0,0)"] = (0, 0, 0)
    d["id(0,0,1)"] = (0, 0, 1)
    d["id(x,0,z)"] = (rng.randrange(SP), 0, rng.randrange(1, SP))
    d["id(5,0,0)"] = (5, 0, 0)
    d["id False y"] = (3, False, 1)
    d["y=P (zero mod P, truthy)"] = (rng.randrange(SP), SP, 1)
    d["y=-P"] = (rng.randrange(SP), -SP, 7)
    d["z=0 y!=0"] = (rng.randrange(SP), rng.randrange(1, SP), 0)
    d["z=P"] = (osec.Gx, osec.Gy, SP)
    d["x=0"] = (0, rng.randrange(1, SP), rng.randrange(1, SP))
    d["all ones"] = (1, 1, 1)
    d["bools"] = (True, True, True)
    d["small neg"] = (-3, -2, -1)
    d["rand"] = (rng.randrange(SP), rng.randrange(1, SP), rng.randrange(1, SP))
    d["rand'"] = (rng.randrange(SP), rng.randrange(1, SP), rng.randrange(1, SP))
    d["rand*lam"] = tuple(c % SP for c in jscale(d["rand"], rng.randrange(1, SP)))
    d["rand negy*lam"] = tuple(
        c % SP for c in jscale((d["rand"][0], -d["rand"][1], d["rand"][2]), rng.randrange(1, SP))
    )
    d["huge"] = tuple(rng.randrange(-(2**700), 2**700) | 1 for _ in range(3))
    d["list"] = [osec.Gx, osec.Gy, 1]
    d["long tuple"] = (osec.Gx, osec.Gy, 1, 99)
    d["fractions"] = (Fraction(1, 3), Fraction(2, 5), Fraction(7, 2))
    d["fraction z"] = (osec.Gx, osec.Gy, Fraction(3, 1))
    return d


def secp_bad():
    G = (osec.Gx, osec.Gy, 1)
    d = {}
    d["short"] = (osec.Gx, osec.Gy)
    d["short y0"] = (osec.Gx, 0)
    d["one"] = (osec.Gx,)
    d["empty"] = ()
    d["None"] = None
    d["None x"] = (None, osec.Gy, 1)
    d["None y"] = (osec.Gx, None, 1)
    d["None z"] = (osec.Gx, osec.Gy, None)
    d["str x"] = ("a", osec.Gy, 1)
    d["str y"] = (osec.Gx, "b", 1)
    d["str z"] = (osec.Gx, osec.Gy, "c")
    d["fmt str"] = ("%d", "%d", 1)
    d["str pair"] = ("a", "b")
    d["bytes"] = b"\x01\x02\x03"
    d["bytes y0"] = b"\x01\x00\x03"
    d["list coord"] = (osec.Gx, [1], 1)
    d["complex"] = (1j, 2j, 1)
    d["bn FQ"] = (optimized_bn128_FQ(3), optimized_bn128_FQ(4), optimized_bn128_FQ(1))
    d["bn FQ z"] = (3, 4, optimized_bn128_FQ(1))
    d["FQ2"] = tuple(NEW["bn128"][0].G2)
    d["dict"] = {0: 1, 1: 2, 2: 3}
    d["dict short"] = {1: 2}
    return d


sp = secp_pool()
sb = secp_bad()
names = list(sp)
for a in names:
    same(("secp jacobian_double", a), nsec.jacobian_double, osec.jacobian_double, (sp[a],))
    same(("secp from_jacobian", a), nsec.from_jacobian, osec.from_jacobian, (sp[a],))
    for n in (0, 1, 2, 3, 5, -1, -7, SN - 1, SN, SN + 2, 2**256 + 1, rng.randrange(SN)):
        if a == "fractions" and not 0 <= n <= 5:
            continue  # exact rationals: denominators square at every doubling
        same(("secp jacobian_multiply", a, n), nsec.jacobian_multiply, osec.jacobian_multiply, (sp[a], n))
for a, b_ in itertools.product(names, names):
    same(("secp jacobian_add", a, b_), nsec.jacobian_add, osec.jacobian_add, (sp[a], sp[b_]))
for bk, bv in sb.items():
    same(("secp jacobian_double bad", bk), nsec.jacobian_double, osec.jacobian_double, (bv,))
    same(("secp jacobian_add bad,bad", bk), nsec.jacobian_add, osec.jacobian_add, (bv, bv))
    for gk in ("G", "2G*lam", "-G*lam", "id(0,0,0)", "id(x,0,z)", "rand", "fractions"):
        same(("secp jacobian_add bad,good", bk, gk), nsec.jacobian_add, osec.jacobian_add, (bv, sp[gk]))
        same(("secp jacobian_add good,bad", gk, bk), nsec.jacobian_add, osec.jacobian_add, (sp[gk], bv))
    for bk2, bv2 in sb.items():
        same(("secp jacobian_add bad,bad'", bk, bk2), nsec.jacobian_add, osec.jacobian_add, (bv, bv2))
    for n in (0, 1, 2, 3):
        same(("secp jacobian_multiply bad", bk, n), nsec.jacobian_multiply, osec.jacobian_multiply, (bv, n))

# random Jacobian triples (formal identity: any triple, any scaling), incl. forced equal/inverse
for _ in range(3000):
    bits = rng.choice([8, 64, 256, 300])
    p = tuple(rng.randrange(-(2**bits), 2**bits) for _ in range(3))
    mode = rng.randrange(4)
    if mode == 0:
        q = tuple(rng.randrange(-(2**bits), 2**bits) for _ in range(3))
    elif mode == 1:
        q = jscale(p, rng.randrange(1, 2**bits))
    elif mode == 2:
        q = jscale((p[0], -p[1], p[2]), rng.randrange(1, 2**bits))
    else:
        q = (p[0] + rng.randrange(-2, 3) * SP, p[1] + rng.randrange(-2, 3) * SP, p[2] + rng.randrange(-2, 3) * SP)
    same(("secp rand add", p, q), nsec.jacobian_add, osec.jacobian_add, (p, q))
    same(("secp rand add swapped", q, p), nsec.jacobian_add, osec.jacobian_add, (q, p))
    same(("secp rand double", p), nsec.jacobian_double, osec.jacobian_double, (p,))

# affine API and ECDSA on top
aff = [osec.G, osec.multiply(osec.G, 2), osec.multiply(osec.G, 12345), (osec.Gx, SP - osec.Gy), (0, 0), (5, 0), (1, 2)]
for a, b_ in itertools.product(aff, aff):
    same(("secp add", a, b_), nsec.add, osec.add, (a, b_))
for a in aff:
    for n in (0, 1, 2, 3, SN - 1, SN, rng.randrange(SN), -5):
        same(("secp multiply", a, n), nsec.multiply, osec.multiply, (a, n))
for i in range(25):
    priv = rng.randrange(1, SN).to_bytes(32, "big")
    msg = rng.randrange(2**256).to_bytes(32, "big")
    same(("secp privtopub", i), nsec.privtopub, osec.privtopub, (priv,))
    r = same(("secp sign", i), nsec.ecdsa_raw_sign, osec.ecdsa_raw_sign, (msg, priv))
    vrs = osec.ecdsa_raw_sign(msg, priv)
    same(("secp recover", i), nsec.ecdsa_raw_recover, osec.ecdsa_raw_recover, (msg, vrs))
    bad_vrs = (vrs[0], (vrs[1] + i) % SN, vrs[2])
    same(("secp recover tampered", i), nsec.ecdsa_raw_recover, osec.ecdsa_raw_recover, (msg, bad_vrs))
    assert nsec.ecdsa_raw_recover(msg, vrs) == osec.privtopub(priv)

# interleaved call history on secp (results fed back, repeated calls give equal results)
live_n = [sp[k] for k in ("G", "2G", "id(0,0,1)", "-G*lam", "rand")]
live_o = list(live_n)
for step in range(1500):
    i, j = rng.randrange(len(live_n)), rng.randrange(len(live_n))
    op = rng.choice(["add", "add", "double", "scale", "repeat"])
    if op == "add":
        rn, ro = nsec.jacobian_add(live_n[i], live_n[j]), osec.jacobian_add(live_o[i], live_o[j])
    elif op == "double":
        rn, ro = nsec.jacobian_double(live_n[i]), osec.jacobian_double(live_o[i])
    elif op == "scale":
        lam = rng.randrange(1, SP)
        rn, ro = jscale(live_n[i], lam), jscale(live_o[i], lam)
    else:
        assert nsec.jacobian_add(live_n[i], live_n[j]) == nsec.jacobian_add(live_n[i], live_n[j])
        continue
    assert rn == ro and [type(c) for c in rn] == [type(c) for c in ro], ("secp walk", step, op)
    N_CHECKS += 1
    live_n.append(rn)
    live_o.append(ro)
    if len(live_n) > 12:
        k = rng.randrange(len(live_n))
        live_n.pop(k)
        live_o.pop(k)

print("t2 equivalence: %d comparisons identical, %.1fs" % (N_CHECKS, time.time() - T0))
sys.exit(0)
