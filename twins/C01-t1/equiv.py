import os, sys; sys.path.insert(0, os.getcwd())  # noqa: E702
"""
Equivalence demonstration for t1 (ciphersuites.py validation / try-except restructuring).

Loads the pristine py_ecc/bls/ciphersuites.py (saved next to this script) under a
second module name inside the same package and compares it with the edited module on
valid, boundary and malformed inputs: return values (value and type) and exception
classes (and messages) must be identical.
"""
import importlib.util
import random
from fractions import Fraction

HERE = os.path.dirname(os.path.abspath(__file__))

import py_ecc.bls.ciphersuites as new  # noqa: E402

assert os.path.abspath(new.__file__).startswith(os.getcwd()), new.__file__

spec = importlib.util.spec_from_file_location(
    "py_ecc.bls.ciphersuites_pristine", os.path.join(HERE, "pristine", "ciphersuites.py")
)
old = importlib.util.module_from_spec(spec)
sys.modules[spec.name] = old
spec.loader.exec_module(old)
assert old.__package__ == "py_ecc.bls"

from py_ecc.optimized_bls12_381 import curve_order as r  # noqa: E402
from py_ecc.optimized_bls12_381 import G1, G2, Z1, Z2, multiply  # noqa: E402
from py_ecc.bls.g2_primitives import G1_to_pubkey, G2_to_signature  # noqa: E402

SUITES = ["G2Basic", "G2MessageAugmentation", "G2ProofOfPossession"]
rng = random.Random(0xC01)
n_checks = 0


def outcome(fn, *args):
    try:
        v = fn(*args)
        return ("ok", type(v), v)
    except BaseException as e:  # noqa: B902
        return ("exc", type(e), str(e))


def same(label, name, meth, *args):
    """call old.<name>.<meth>(*args) and new.<name>.<meth>(*args) and compare"""
    global n_checks
    a = outcome(getattr(getattr(old, name), meth), *args)
    b = outcome(getattr(getattr(new, name), meth), *args)
    if a != b:
        print("MISMATCH", label, name, meth, repr(args)[:200], a, b)
        sys.exit(1)
    n_checks += 1
    return b


class MyInt(int):
    pass


class OddInt(int):
    # an int subclass with its own ordering, to exercise the comparison dispatch
    def __gt__(self, other):
        return False

    def __lt__(self, other):
        return True


# ---------------------------------------------------------------- secret keys
good_sks = [1, 2, 3, r - 2, r - 1, True, MyInt(5), MyInt(r - 1)]
good_sks += [1 << k for k in range(255)]
good_sks += [(1 << k) - 1 for k in range(2, 255, 7)]
good_sks += [rng.randrange(1 << 254, r) for _ in range(10)]
good_sks = [s for s in good_sks if 0 < s < r]
bad_sks = [
    0, r, r + 1, -1, -r, 2**255, 2**256, 2**400, -(2**255), False, MyInt(0), MyInt(r),
    OddInt(5), 1.0, 5.5, float("nan"), float("inf"), "1", b"\x01", None, [1], (1,),
    Fraction(3, 1), 1 + 0j, object(),
]

for name in SUITES + ["BaseG2Ciphersuite"]:
    for sk in good_sks + bad_sks:
        res = same("privkey", name, "_is_valid_privkey", sk)
        assert res[0] == "ok" and res[1] is bool, res

for name in SUITES:
    for sk in bad_sks:
        res = same("SkToPk-bad", name, "SkToPk", sk)
        assert res[0] == "exc" and res[1] is new.ValidationError, (sk, res)
        res = same("Sign-bad", name, "Sign", sk, b"msg")
        assert res[0] == "exc" and res[1] is new.ValidationError, (sk, res)
        res = same("CoreSign-bad", name, "_CoreSign", sk, b"msg", b"DST")
        assert res[0] == "exc" and res[1] is new.ValidationError, (sk, res)
    for sk in bad_sks:
        res = same("PopProve-bad", "G2ProofOfPossession", "PopProve", sk)
        assert res[0] == "exc" and res[1] is new.ValidationError, (sk, res)
    # bad message types (valid key)
    for m in ["str", None, 5, bytearray(b"ab"), memoryview(b"ab"), [1, 2]]:
        same("Sign-badmsg", name, "Sign", 7, m)
        same("CoreSign-badmsg", name, "_CoreSign", 7, m, b"DST")
        # bad key AND bad message: the key is reported first in both versions
        same("Sign-badboth", name, "_CoreSign", 0, m, b"DST")

# SkToPk on every bit length (cheap), one suite is enough for all 255, others sampled
for i, sk in enumerate(good_sks):
    for j, name in enumerate(SUITES):
        if j == 0 or i % 16 == 0:
            res = same("SkToPk", name, "SkToPk", sk)
            assert res[0] == "ok" and len(res[2]) == 48

# ---------------------------------------------------------------- KeyGen
for name in SUITES:
    for ikm in [b"", b"\x00" * 32, bytes(range(32)), rng.randbytes(64)]:
        for info in [b"", b"info"]:
            res = same("KeyGen", name, "KeyGen", ikm, info)
            assert res[0] == "ok" and 0 < res[2] < r
    same("KeyGen-bad", name, "KeyGen", "notbytes")

# ---------------------------------------------------------------- sign / verify round trips
msgs = {
    0: b"", 1: b"\x00", 55: b"a" * 55, 56: b"b" * 56, 63: b"c" * 63, 64: b"d" * 64,
    65: b"e" * 65, "bin": bytes(range(256)), "big": rng.randbytes(5000),
}
rt_sks = [1, 2, r - 2, r - 1, 1 << 128, (1 << 200) - 1, rng.randrange(1 << 254, r),
          rng.randrange(1 << 254, r), rng.randrange(1, r)]
mkeys = list(msgs)
sig_store = {}
for si, name in enumerate(SUITES):
    for k in range(9):
        sk = rt_sks[(k + si) % len(rt_sks)]
        m = msgs[mkeys[(k + 2 * si) % len(mkeys)]]
        pk = same("rt-pk", name, "SkToPk", sk)[2]
        sig = same("rt-sign", name, "Sign", sk, m)
        assert sig[0] == "ok" and sig[1] is bytes and len(sig[2]) == 96, sig
        sig = sig[2]
        if k < 5:
            res = same("rt-verify", name, "Verify", pk, m, sig)
            assert res == ("ok", bool, True), (name, sk, res)
        sig_store[name] = (sk, pk, m, sig)
    # repeat a call after the others: still the same answer
    sk, pk, m, sig = sig_store[name]
    assert same("rt-sign-again", name, "Sign", sk, m)[2] == sig

P = "G2ProofOfPossession"
pop_store = None
for sk in [1, r - 1, 2, rng.randrange(1 << 254, r), 1 << 77]:
    pk = same("pop-pk", P, "SkToPk", sk)[2]
    proof = same("pop-prove", P, "PopProve", sk)
    assert proof[0] == "ok" and len(proof[2]) == 96
    res = same("pop-verify", P, "PopVerify", pk, proof[2])
    assert res == ("ok", bool, True), (sk, res)
    pop_store = (sk, pk, proof[2])

# ---------------------------------------------------------------- failing / malformed verification
INF_PK = G1_to_pubkey(Z1)
INF_SIG = G2_to_signature(Z2)
for name in SUITES:
    sk, pk, m, sig = sig_store[name]
    other_pk = getattr(new, name).SkToPk(sk % (r - 2) + 1)
    tampered = bytes(sig[:-1]) + bytes([sig[-1] ^ 1])
    bad_cases = [
        (pk, m + b"x", sig),                # wrong message (full pairing path)
        (other_pk, m, sig),                 # wrong key (full pairing path)
        (pk, m, tampered),                  # damaged signature
        (pk, m, G2_to_signature(G2)),       # valid point, wrong signature
        (pk, m, INF_SIG),                   # infinity signature
        (INF_PK, m, sig),                   # infinity public key
        (INF_PK, m, INF_SIG),
        (pk[:47], m, sig), (pk + b"\x00", m, sig), (b"", m, sig),
        (b"\x00" * 48, m, sig), (b"\xff" * 48, m, sig), (b"\xc0" + b"\x00" * 46 + b"\x01", m, sig),
        (b"\xe0" + b"\x00" * 47, m, sig),
        (bytearray(pk), m, sig), (list(pk), m, sig), (None, m, sig), (5, m, sig), ("x" * 48, m, sig),
        (pk, m, sig[:95]), (pk, m, sig + b"\x00"), (pk, m, b""), (pk, m, b"\x00" * 96),
        (pk, m, b"\xff" * 96), (pk, m, b"\xc0" + b"\x00" * 94 + b"\x01"),
        (pk, m, bytearray(sig)), (pk, m, None), (pk, m, 7), (pk, m, "s" * 96),
        (None, None, None), (pk, None, None), (None, m, None),
    ]
    if name != "G2MessageAugmentation":
        # (for message augmentation PK + message raises TypeError before any check)
        bad_cases += [(pk, "str", sig), (pk, None, sig), (pk, 5, sig), (pk, bytearray(m), sig)]
    for args in bad_cases:
        res = same("verify-bad", name, "Verify", *args)
        if res[0] == "ok":
            assert res == ("ok", bool, False), (name, args, res)
    for args in [(pk, "str", sig), (pk, None, sig), (pk, bytearray(m), sig), (None, b"", sig)]:
        same("verify-bad-aug", name, "Verify", *args)
        same("coreverify-bad", name, "_CoreVerify", *args, b"DST")
    # x-coordinate on the curve but outside the subgroup / not on the curve
    for x in range(1, 12):
        cand = bytes([0x80]) + (x).to_bytes(47, "big")
        same("keyvalidate-small-x", name, "KeyValidate", cand)
        same("is_valid_pubkey-small-x", name, "_is_valid_pubkey", cand)
    for cand in [pk, other_pk, INF_PK, pk[:47], pk + b"\x00", b"", None, 5, bytearray(pk),
                 b"\x00" * 48, b"\xff" * 48, G1_to_pubkey(G1), G1_to_pubkey(multiply(G1, r - 1))]:
        res = same("keyvalidate", name, "KeyValidate", cand)
        assert res[0] == "ok" and res[1] is bool, res
        same("is_valid_pubkey", name, "_is_valid_pubkey", cand)
    # the verification still succeeds after all the failing calls
    if name == "G2Basic":
        assert same("verify-again", name, "Verify", pk, m, sig) == ("ok", bool, True)

sk, pk, proof = pop_store
for args in [(pk, proof[:95]), (pk[:47], proof), (INF_PK, INF_SIG), (INF_PK, proof), (pk, INF_SIG),
             (None, proof), (pk, None), (pk, G2_to_signature(G2)),
             (new.G2ProofOfPossession.SkToPk(2 if sk != 2 else 3), proof)]:
    res = same("popverify-bad", P, "PopVerify", *args)
    if res[0] == "ok":
        assert res == ("ok", bool, False), (args, res)

# ---------------------------------------------------------------- aggregate paths (share the helpers)
sks = [3, r - 5, 1 << 100]
for name in SUITES:
    cls = getattr(new, name)
    pks = [cls.SkToPk(s) for s in sks]
    ms = [b"m0", b"", b"m2" * 40]
    sigs = [cls.Sign(s, m) for s, m in zip(sks, ms)]
    agg = same("aggregate", name, "Aggregate", sigs)[2]
    same("aggregate-empty", name, "Aggregate", [])
    same("aggregate-bad", name, "Aggregate", [sigs[0], b"short"])
    res = same("aggverify", name, "AggregateVerify", pks, ms, agg)
    assert res == ("ok", bool, True), res
    same("aggverify-bad-len", name, "AggregateVerify", pks[:2], ms, agg)
    same("aggverify-bad-pk", name, "AggregateVerify", [pks[0], INF_PK, pks[2]], ms, agg)
    same("aggverify-empty", name, "AggregateVerify", [], [], agg)
cls = new.G2ProofOfPossession
pks = [cls.SkToPk(s) for s in sks]
sigs = [cls.Sign(s, b"common") for s in sks]
agg = cls.Aggregate(sigs)
assert same("fastagg", P, "FastAggregateVerify", pks, b"common", agg) == ("ok", bool, True)
same("fastagg-bad", P, "FastAggregateVerify", pks[:2], b"common", agg)
same("fastagg-empty", P, "FastAggregateVerify", [], b"common", agg)
same("fastagg-badpk", P, "FastAggregateVerify", [pks[0], INF_PK], b"common", agg)
same("fastagg-badmsg", P, "FastAggregateVerify", pks, "common", agg)

print("t1 equivalence: %d paired checks identical" % n_checks)
sys.exit(0)
