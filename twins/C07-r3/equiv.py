import os, sys; sys.path.insert(0, os.getcwd())  # noqa: E401,E702
"""
Equivalence demonstration for a behaviour-preserving refactoring of the py_ecc
curve modules (property C07).

Run as:  cd /tmp/wt2/C07 && /venv/bin/python /tmp/twin/C07/<rN>/equiv.py

For every file saved under <this dir>/pristine/py_ecc/... the pristine copy is
loaded with importlib under another module name and compared against the module
of the same path imported from the current working tree.  All public curve
functions (add, double, neg, multiply, twist, eq, is_inf, is_on_curve,
normalize) are called with identical arguments in both versions; the results
(canonicalised down to class names and integers) or the raised exception class
must be identical, and the arguments must not be mutated.
"""
import importlib
import importlib.util
import itertools
import random
import time

HERE = os.path.dirname(os.path.abspath(__file__))
PRISTINE = os.path.join(HERE, "pristine")
T0 = time.time()

from py_ecc.fields import field_elements as ref_fe  # noqa: E402
from py_ecc.fields import optimized_field_elements as opt_fe  # noqa: E402

rng = random.Random(0xC07)
N_CHECKS = 0
MISMATCHES = []


# --------------------------------------------------------------------------
# canonical form / calling
# --------------------------------------------------------------------------
def canon(v):
    if v is None:
        return None
    if isinstance(v, (ref_fe.FQ, opt_fe.FQ)):
        return ("FQ", type(v).__module__, type(v).__name__, v.n)
    if isinstance(v, (ref_fe.FQP, opt_fe.FQP)):
        return (
            "FQP",
            type(v).__module__,
            type(v).__name__,
            tuple(int(c) for c in v.coeffs),
        )
    if isinstance(v, tuple):
        return ("tuple",) + tuple(canon(e) for e in v)
    if isinstance(v, list):
        return ("list",) + tuple(canon(e) for e in v)
    if isinstance(v, (bool, int, float, str, bytes)):
        return (type(v).__name__, repr(v))
    return ("other", type(v).__name__, repr(v))


def call(f, args):
    try:
        return ("ok", canon(f(*args)))
    except Exception as e:  # RecursionError, TypeError, ValueError, ...
        return ("exc", type(e).__name__)


def stamp(msg):
    print("    [%6.1fs] %s" % (time.time() - T0, msg))


def _depth():
    n, f = 0, sys._getframe()
    while f is not None:
        n, f = n + 1, f.f_back
    return n


def check(label, fname, old_mod, new_mod, args):
    """Call fname(*args) in both modules and compare."""
    global N_CHECKS
    # py_ecc raises the interpreter recursion limit to 100000 on import; a negative
    # scalar makes multiply() recurse without end, so bound the depth for those calls
    # (identically for both versions) to keep the RecursionError cheap.
    if fname == "multiply" and isinstance(args[1], int) and args[1] < 0:
        saved = sys.getrecursionlimit()
        sys.setrecursionlimit(_depth() + 150)
        try:
            return _check(label, fname, old_mod, new_mod, args)
        finally:
            sys.setrecursionlimit(saved)
    return _check(label, fname, old_mod, new_mod, args)


def _check(label, fname, old_mod, new_mod, args):
    global N_CHECKS
    N_CHECKS += 1
    before = canon(tuple(args))
    r_old = call(getattr(old_mod, fname), args)
    mid = canon(tuple(args))
    r_new = call(getattr(new_mod, fname), args)
    after = canon(tuple(args))
    if r_old != r_new or before != mid or before != after:
        MISMATCHES.append((label, fname, before, r_old, r_new))
        if len(MISMATCHES) <= 10:
            print("MISMATCH", label, fname, str(before)[:300], str(r_old)[:300],
                  str(r_new)[:300])
    return r_old


# --------------------------------------------------------------------------
# helpers for building inputs
# --------------------------------------------------------------------------
def fq_sqrt(a):
    """square root in a prime field with p = 3 mod 4, or None"""
    p = type(a).field_modulus
    assert p % 4 == 3
    r = a ** ((p + 1) // 4)
    return r if r * r == a else None


def fq2_sqrt(a, FQ2):
    """square root in Fp[i]/(i^2+1), p = 3 mod 4, or None"""
    p = FQ2.field_modulus
    assert p % 4 == 3
    if a == FQ2.zero():
        return a
    a1 = a ** ((p - 3) // 4)
    alpha = a1 * a1 * a
    x0 = a1 * a
    if alpha == FQ2([p - 1, 0]):
        x = FQ2([0, 1]) * x0
    else:
        bb = (FQ2.one() + alpha) ** ((p - 1) // 2)
        x = bb * x0
    return x if x * x == a else None


def find_affine_points(FQx, b, sqrt, count, mk):
    """some affine points (x, y) on y^2 = x^3 + b, not restricted to a subgroup"""
    pts = []
    tries = 0
    while len(pts) < count and tries < 200:
        tries += 1
        x = mk()
        y = sqrt(x * x * x + b)
        if y is not None:
            pts.append((x, y))
    return pts


def small_scalars():
    return [0, 1, 2, 3, 4, 5, 7, 8, rng.getrandbits(16), rng.getrandbits(64)]


def big_scalars(r, p):
    return [r - 1, r, r + 1, 2 * p - r, rng.getrandbits(255), rng.getrandbits(256)]


def scalars(r, p):
    return small_scalars() + big_scalars(r, p)


BIG_SCALARS = [rng.getrandbits(640) | (1 << 639), rng.getrandbits(400)]

MALFORMED_SCALARS = [True, False, -1, -2, 2.0, 3.0, 6.5, "3", None, 1 + 0j]


# --------------------------------------------------------------------------
# tests for one (pristine, refactored) module pair
# --------------------------------------------------------------------------
def test_reference(old, new, label, deadline):
    FQ, FQ2, FQ12 = old.FQ, old.FQ2, old.FQ12
    assert (FQ, FQ2, FQ12) == (new.FQ, new.FQ2, new.FQ12)
    p, r = old.field_modulus, old.curve_order

    # constants
    for name in ("field_modulus", "curve_order", "b", "b2", "b12", "G1", "G2",
                 "G12", "Z1", "Z2", "w"):
        assert canon(getattr(old, name)) == canon(getattr(new, name)), name

    def lift12(pt):
        if pt is None:
            return None
        return tuple(FQ12([c.n] + [0] * 11) for c in pt)

    # ---------------- group element sets
    mul = old.multiply
    g1 = [None, old.G1] + [mul(old.G1, k) for k in (2, 3, 5, r - 1, r - 2)]
    g1 += [old.neg(old.G1), mul(old.G1, rng.randrange(r))]
    g1 += find_affine_points(
        FQ, old.b, fq_sqrt, 4, lambda: FQ(rng.randrange(p))
    )  # (for bls12-381 these are outside the prime-order subgroup)
    g2 = [None, old.G2] + [mul(old.G2, k) for k in (2, 3, 5, r - 1)]
    g2 += [old.neg(old.G2), mul(old.G2, rng.randrange(r))]
    off2 = find_affine_points(
        FQ2,
        old.b2,
        lambda a: fq2_sqrt(a, FQ2),
        3,
        lambda: FQ2([rng.randrange(p), rng.randrange(p)]),
    )
    assert off2
    g2 += off2
    G12 = old.G12
    g12 = [None, G12, mul(G12, 2), old.neg(G12), mul(G12, 3)]
    g12 += [old.twist(off2[0]), lift12(old.G1), old.add(lift12(old.G1), G12)]

    groups = [("G1", g1, old.b), ("G2", g2, old.b2), ("G12", g12, old.b12)]
    for gname, pts, bcoef in groups:
        lab = label + ":" + gname
        for P in pts:
            assert old.is_on_curve(P, bcoef)
            for fn in ("double", "neg", "is_inf"):
                check(lab, fn, old, new, (P,))
            check(lab, "is_on_curve", old, new, (P, bcoef))
        for P, Q in itertools.product(pts, repeat=2):
            check(lab, "add", old, new, (P, Q))
            check(lab, "eq", old, new, (P, Q))
        # off-curve / mismatched y with equal x  (the "Point addition is incorrect"
        # and x1 == x2 paths with arbitrary coordinates)
        for P in pts[1:4]:
            x, y = P
            bad = (x, y + type(y).one())
            check(lab, "add", old, new, (P, bad))
            check(lab, "add", old, new, (bad, P))
            check(lab, "add", old, new, (bad, bad))
            check(lab, "double", old, new, (bad,))
            check(lab, "is_on_curve", old, new, (bad, bcoef))
            zy = (x, type(y).zero())
            check(lab, "double", old, new, (zy,))
            check(lab, "add", old, new, (zy, zy))
            check(lab, "add", old, new, (zy, P))
            check(lab, "multiply", old, new, (zy, 6))
            check(lab, "multiply", old, new, (bad, 11))

    stamp("group laws on G1/G2/G12 done")
    # ---------------- twist
    for P in g2:
        check(label, "twist", old, new, (P,))
    for P in g2[1:4]:
        x, y = P
        check(label, "twist", old, new, ((x, y + FQ2.one()),))
    # twist is a coordinate-wise formula: arbitrary (also off-curve) FQ2 coordinates
    special = [FQ2.zero(), FQ2.one(), FQ2([0, 1]), FQ2([p - 1, p - 1]), FQ2([9, 1])]
    for _ in range(12):
        special.append(FQ2([rng.randrange(p), rng.randrange(p)]))
    for x, y in zip(special, special[1:] + special[:1]):
        check(label, "twist", old, new, ((x, y),))
        check(label, "twist", old, new, ((y, y),))
    for bad in ((1, 2), old.G1, G12, (old.G2[0],), old.G2 + (FQ2.one(),), 5, "ab",
                (None, None), (old.G2[0], None), (old.G2[0], 7)):
        check(label + ":malformed", "twist", old, new, (bad,))

    stamp("twist done")
    # ---------------- multiply
    for gname, base in (("G1", g1), ("G2", g2)):
        for P in (base[0], base[1], base[3], base[-1]):
            for n in small_scalars():
                check(label + ":" + gname, "multiply", old, new, (P, n))
        for P in (base[0], base[1], base[3], base[-1]) if gname == "G1" else (base[1],):
            for n in big_scalars(r, p):
                check(label + ":" + gname, "multiply", old, new, (P, n))
        for n in (r, 2 * p - r):
            check(label + ":" + gname, "multiply", old, new, (base[-1], n))
        for n in BIG_SCALARS if gname == "G1" else BIG_SCALARS[:1]:
            check(label + ":" + gname, "multiply", old, new, (base[1], n))
        for n in MALFORMED_SCALARS:
            check(label + ":" + gname, "multiply", old, new, (base[1], n))
            check(label + ":" + gname, "multiply", old, new, (None, n))
    for n in (0, 1, 2, 3, 6, 7, 0x1F3, rng.getrandbits(40)):
        for P in (None, G12, g12[-1]):
            check(label + ":G12", "multiply", old, new, (P, n))
    for n in (r, r - 1, 2 * p - r, r + 1, BIG_SCALARS[0]):
        if n != r and time.time() > deadline:
            print("  (time budget: skipping remaining big G12 scalars)")
            break
        check(label + ":G12", "multiply", old, new, (G12, n))

    stamp("multiply done")
    # ---------------- malformed points
    mal = [
        (1, 2), (1.5, 2.5), (old.G1[0],), old.G1 + (FQ(1),), (old.G1[0], old.G2[1]),
        (old.G2[0], old.G1[1]), "ab", 7, (None, None), [old.G1[0], old.G1[1]],
        (old.G1[0], 2), (1, old.G1[1]), (), (old.G1[0], None),
    ]
    others = [None, old.G1, old.G2, G12]
    for M in mal:
        for fn in ("double", "neg", "is_inf", "twist"):
            check(label + ":malformed", fn, old, new, (M,))
        check(label + ":malformed", "is_on_curve", old, new, (M, old.b))
        for n in (0, 1, 2, 3, 5):
            check(label + ":malformed", "multiply", old, new, (M, n))
        for O in others + [M]:
            check(label + ":malformed", "add", old, new, (M, O))
            check(label + ":malformed", "add", old, new, (O, M))
            check(label + ":malformed", "eq", old, new, (M, O))
    for P, Q in itertools.permutations([old.G1, old.G2, G12], 2):
        check(label + ":mixed", "add", old, new, (P, Q))
    stamp("malformed inputs done")
    small_curves(old, new, label, optimized=False)


def test_optimized(old, new, label, deadline):
    FQ, FQ2, FQ12 = old.FQ, old.FQ2, old.FQ12
    assert (FQ, FQ2, FQ12) == (new.FQ, new.FQ2, new.FQ12)
    p, r = old.field_modulus, old.curve_order
    for name in ("field_modulus", "curve_order", "b", "b2", "b12", "G1", "G2",
                 "G12", "Z1", "Z2", "w"):
        assert canon(getattr(old, name)) == canon(getattr(new, name)), name

    def rescale(pt, lam):
        return tuple(c * lam for c in pt)

    def lift12(pt):
        return tuple(FQ12([c.n] + [0] * 11) for c in pt)

    def rnd(F):
        if F is FQ:
            return FQ(rng.randrange(1, p))
        return F([rng.randrange(1, p) for _ in range(F.degree)])

    mul = old.multiply

    def mkset(F, G, b, extra):
        pts = [G] + [mul(G, k) for k in (2, 3, r - 1)]
        pts += [old.neg(G), rescale(G, rnd(F)), rescale(mul(G, 2), rnd(F))]
        pts += [rescale(old.neg(G), rnd(F))]
        pts += extra
        one, zero = F.one(), F.zero()
        infs = [(one, one, zero), (zero, one, zero), (zero, zero, zero),
                (G[0], G[1], zero), mul(G, r)]
        return infs + pts

    off1 = [
        (x, y, FQ.one())
        for x, y in find_affine_points(
            FQ, old.b, fq_sqrt, 3, lambda: FQ(rng.randrange(p))
        )
    ]
    off2 = [
        (x, y, FQ2.one())
        for x, y in find_affine_points(
            FQ2,
            old.b2,
            lambda a: fq2_sqrt(a, FQ2),
            3,
            lambda: FQ2([rng.randrange(p), rng.randrange(p)]),
        )
    ]
    assert off2
    g1 = mkset(FQ, old.G1, old.b, off1 + [mul(old.G1, rng.randrange(r))])
    g2 = mkset(FQ2, old.G2, old.b2, off2 + [rescale(off2[0], rnd(FQ2))])
    G12 = old.G12
    one12, zero12 = FQ12.one(), FQ12.zero()
    g12 = [(one12, one12, zero12), (zero12, zero12, zero12), G12, mul(G12, 2),
           old.neg(G12), rescale(G12, rnd(FQ12)), old.twist(off2[0]),
           lift12(old.G1), old.add(lift12(old.G1), G12)]

    groups = [("G1", g1, old.b), ("G2", g2, old.b2), ("G12", g12, old.b12)]
    for gname, pts, bcoef in groups:
        lab = label + ":" + gname
        for P in pts:
            assert old.is_on_curve(P, bcoef)
            for fn in ("double", "neg", "is_inf"):
                check(lab, fn, old, new, (P,))
            if not old.is_inf(P):
                check(lab, "normalize", old, new, (P,))
            check(lab, "is_on_curve", old, new, (P, bcoef))
        check(lab, "normalize", old, new, (pts[0],))  # division by zero path
        for P, Q in itertools.product(pts, repeat=2):
            check(lab, "add", old, new, (P, Q))
            check(lab, "eq", old, new, (P, Q))
        for P in pts[5:8]:
            x, y, z = P
            bad = (x, y + type(y).one(), z)
            check(lab, "add", old, new, (P, bad))
            check(lab, "add", old, new, (bad, P))
            check(lab, "add", old, new, (bad, bad))
            check(lab, "double", old, new, (bad,))
            check(lab, "is_on_curve", old, new, (bad, bcoef))
            zy = (x, type(y).zero(), z)
            check(lab, "double", old, new, (zy,))
            check(lab, "add", old, new, (zy, zy))
            check(lab, "add", old, new, (zy, P))
            check(lab, "multiply", old, new, (zy, 6))
            check(lab, "multiply", old, new, (bad, 11))

    for P in g2:
        check(label, "twist", old, new, (P,))
    for P in g2[5:8]:
        x, y, z = P
        check(label, "twist", old, new, ((x, y + FQ2.one(), z),))
    special = [FQ2.zero(), FQ2.one(), FQ2([0, 1]), FQ2([p - 1, p - 1]), FQ2([9, 1])]
    for _ in range(12):
        special.append(FQ2([rng.randrange(p), rng.randrange(p)]))
    for x, y in zip(special, special[1:] + special[:1]):
        check(label, "twist", old, new, ((x, y, FQ2.one()),))
        check(label, "twist", old, new, ((y, y, x),))
    for bad in ((1, 2, 1), old.G1, G12, old.G2[:2], old.G2 + (FQ2.one(),), 5, "abc",
                (None, None, None), (old.G2[0], None, old.G2[2]), None,
                (old.G2[0], 7, old.G2[2])):
        check(label + ":malformed", "twist", old, new, (bad,))

    for gname, base in (("G1", g1), ("G2", g2)):
        for P in (base[0], base[2], base[5], base[7], base[10], base[-1]):
            for n in scalars(r, p):
                check(label + ":" + gname, "multiply", old, new, (P, n))
        for n in BIG_SCALARS:
            check(label + ":" + gname, "multiply", old, new, (base[5], n))
        for n in MALFORMED_SCALARS:
            check(label + ":" + gname, "multiply", old, new, (base[5], n))
            check(label + ":" + gname, "multiply", old, new, (base[0], n))
    for n in (0, 1, 2, 3, 6, 7, 0x1F3, rng.getrandbits(40)):
        for P in (g12[0], G12, g12[-1]):
            check(label + ":G12", "multiply", old, new, (P, n))
    for n in (r, r - 1, r + 1, 2 * p - r, BIG_SCALARS[0]):
        if n != r and time.time() > deadline:
            print("  (time budget: skipping remaining big G12 scalars)")
            break
        check(label + ":G12", "multiply", old, new, (G12, n))

    mal = [
        None, (1, 2, 1), (1, 2, 0), (1.5, 2.5, 1.0), old.G1[:2], old.G1 + (FQ(1),),
        (old.G1[0], old.G2[1], old.G1[2]), (old.G2[0], old.G1[1], old.G2[2]),
        (old.G1[0], old.G1[1], old.G2[2]), "abc", 7, (None, None, None),
        list(old.G1), (old.G1[0], 2, 1), (old.G1[0], old.G1[1], 1),
        (old.G1[0], old.G1[1], 0), (), (old.G1[0], None, old.G1[2]),
    ]
    others = [old.Z1, old.G1, old.G2, G12]
    for M in mal:
        for fn in ("double", "neg", "is_inf", "twist", "normalize"):
            check(label + ":malformed", fn, old, new, (M,))
        check(label + ":malformed", "is_on_curve", old, new, (M, old.b))
        for n in (0, 1, 2, 3, 5):
            check(label + ":malformed", "multiply", old, new, (M, n))
        for O in others + [M]:
            check(label + ":malformed", "add", old, new, (M, O))
            check(label + ":malformed", "add", old, new, (O, M))
            check(label + ":malformed", "eq", old, new, (M, O))
    for P, Q in itertools.permutations([old.G1, old.G2, G12], 2):
        check(label + ":mixed", "add", old, new, (P, Q))
    stamp("malformed inputs done")
    small_curves(old, new, label, optimized=True)


# --------------------------------------------------------------------------
# exhaustive small curves y^2 = x^3 + b over F_p and F_p^2
# --------------------------------------------------------------------------
_small_cache = {}


def small_fields(optimized, p):
    key = (optimized, p)
    if key not in _small_cache:
        fe = opt_fe if optimized else ref_fe
        FQs = type("FQ_%d" % p, (fe.FQ,), {"field_modulus": p})
        FQ2s = type(
            "FQ2_%d" % p,
            (fe.FQ2,),
            {"field_modulus": p, "FQ2_MODULUS_COEFFS": (1, 0)},
        )
        _small_cache[key] = (FQs, FQ2s)
    return _small_cache[key]


def small_curves(old, new, label, optimized):
    cases = []
    for p, bs in ((7, (1, 3)), (11, (1,)), (13, (2,)), (23, (5,))):
        FQs, _ = small_fields(optimized, p)
        for bv in bs:
            elems = [FQs(i) for i in range(p)]
            cases.append(("Fp%d,b=%d" % (p, bv), FQs(bv), elems, FQs))
    for p, bv2 in ((3, (1, 1)), (7, (3, 1))):
        _, FQ2s = small_fields(optimized, p)
        elems = [FQ2s([i, j]) for i in range(p) for j in range(p)]
        cases.append(("Fp%d^2,b=%r" % (p, bv2), FQ2s(list(bv2)), elems, FQ2s))

    for cname, bcoef, elems, F in cases:
        lab = label + ":small:" + cname
        one, zero = F.one(), F.zero()
        aff = [(x, y) for x in elems for y in elems if y * y - x * x * x == bcoef]
        order = len(aff) + 1
        if optimized:
            nz = [e for e in elems if e != zero]
            pts = [(one, one, zero), (zero, zero, zero)]
            for x, y in aff:
                lam = rng.choice(nz)
                pts.append((x * lam, y * lam, lam))
        else:
            pts = [None] + aff
        for P in pts:
            assert old.is_on_curve(P, bcoef)
            for fn in ("double", "neg", "is_inf"):
                check(lab, fn, old, new, (P,))
            check(lab, "is_on_curve", old, new, (P, bcoef))
            if optimized:
                check(lab, "normalize", old, new, (P,))
        pair_pts = pts if len(pts) <= 40 else pts[:4] + rng.sample(pts[4:], 36)
        for P, Q in itertools.product(pair_pts, repeat=2):
            check(lab, "add", old, new, (P, Q))
            check(lab, "eq", old, new, (P, Q))
        mul_pts = pts if len(pts) <= 14 else pts[:3] + rng.sample(pts[3:], 11)
        for P in mul_pts:
            for n in list(range(0, min(order, 36) + 3)) + [order, order + 1]:
                check(lab, "multiply", old, new, (P, n))
        for n in (2 * order + 1, 10 ** 30 + 7):
            check(lab, "multiply", old, new, (pts[-1], n))
        for n in (-1, -7, 2.0, 5.0, True, "x", None):
            check(lab, "multiply", old, new, (pts[-1], n))
        # off-curve inputs: every function is still a deterministic formula
        sample = rng.sample(elems, min(len(elems), 6))
        for x, y in itertools.product(sample, repeat=2):
            if optimized:
                for z in (one, zero, sample[0]):
                    M = (x, y, z)
                    check(lab, "double", old, new, (M,))
                    check(lab, "is_on_curve", old, new, (M, bcoef))
                    check(lab, "multiply", old, new, (M, 13))
                    for Q in pts[:6]:
                        check(lab, "add", old, new, (M, Q))
                        check(lab, "add", old, new, (Q, M))
                        check(lab, "eq", old, new, (Q, M))
            else:
                M = (x, y)
                check(lab, "double", old, new, (M,))
                check(lab, "is_on_curve", old, new, (M, bcoef))
                check(lab, "multiply", old, new, (M, 13))
                for Q in pts[:6]:
                    check(lab, "add", old, new, (M, Q))
                    check(lab, "add", old, new, (Q, M))
                    check(lab, "eq", old, new, (Q, M))


# --------------------------------------------------------------------------
# import-time sanity checks: execute both sources with a corrupted curve order
# --------------------------------------------------------------------------
def import_time_checks(old_path, new_path, label):
    import re

    global N_CHECKS
    pat = re.compile(r"curve_order = \(\n    (\d+)\n\)")

    def run(path, value):
        with open(path) as fh:
            src = fh.read()
        m = pat.search(src)
        assert m, "curve_order literal not found in " + path
        src = src[: m.start(1)] + str(value) + src[m.end(1):]
        try:
            exec(compile(src, path, "exec"), {"__name__": "mutated_curve_module"})
            return ("ok",)
        except Exception as e:
            return ("exc", type(e).__name__)

    with open(old_path) as fh:
        r = int(pat.search(fh.read()).group(1))
    # composite, small primes (dividing / not dividing p**12 - 1), the true order
    for value in (r + 2, r * 3, 2, 3, 7, 13, 101, 65537, r):
        N_CHECKS += 1
        a, b = run(old_path, value), run(new_path, value)
        if a != b:
            MISMATCHES.append((label, "import", value, a, b))
            print("MISMATCH import-time", label, value, a, b)


# --------------------------------------------------------------------------
def main():
    touched = []
    for root, _dirs, files in os.walk(PRISTINE):
        for fn in files:
            if fn.endswith(".py"):
                full = os.path.join(root, fn)
                touched.append(os.path.relpath(full, PRISTINE))
    touched.sort()
    assert touched, "no pristine files saved"
    budget = 90.0 / len(touched)
    for i, rel in enumerate(touched):
        modname = rel[:-3].replace(os.sep, ".")
        new = importlib.import_module(modname)
        assert os.path.realpath(new.__file__) == os.path.realpath(
            os.path.join(os.getcwd(), rel)
        ), "refactored module not imported from the working tree: " + new.__file__
        spec = importlib.util.spec_from_file_location(
            "pristine_" + modname.replace(".", "_"), os.path.join(PRISTINE, rel)
        )
        old = importlib.util.module_from_spec(spec)
        spec.loader.exec_module(old)
        with open(os.path.join(PRISTINE, rel)) as f1, open(rel) as f2:
            differs = f1.read() != f2.read()
        print("%s: comparing pristine copy against working tree (source differs: %s)"
              % (rel, differs))
        before = N_CHECKS
        import_time_checks(os.path.join(PRISTINE, rel), rel, modname)
        stamp("import-time sanity checks done")
        deadline = time.time() + 0.45 * budget
        if hasattr(old, "normalize"):
            test_optimized(old, new, modname, deadline)
        else:
            test_reference(old, new, modname, deadline)
        print("  %d comparisons, elapsed %.1fs" % (N_CHECKS - before, time.time() - T0))
    print("total comparisons:", N_CHECKS, "mismatches:", len(MISMATCHES))
    if MISMATCHES:
        sys.exit(1)
    print("EQUIVALENT")


if __name__ == "__main__":
    main()
