import os, sys; sys.path.insert(0, os.getcwd())  # noqa: E401,E702

"""
Equivalence demonstration for C09/p2 (AUG Sign and PopProve share
_sign_with_pubkey_prefix).

Loads the pristine py_ecc/bls/ciphersuites.py next to the edited one and checks
that every suite's SkToPk / Sign / PopProve / Aggregate (and Verify / PopVerify on
the produced values) give identical bytes or raise identical exception classes,
on valid, boundary and malformed inputs, in two differently ordered passes, and
that the overridable hooks (SkToPk, _CoreSign) see the very same calls.
"""
import importlib.util
import random
import time

HERE = os.path.dirname(os.path.abspath(__file__))
T0 = time.time()


def load(name, path):
    spec = importlib.util.spec_from_file_location(name, path)
    mod = importlib.util.module_from_spec(spec)
    sys.modules[name] = mod
    spec.loader.exec_module(mod)
    return mod


import py_ecc.bls.ciphersuites as new  # noqa: E402

assert os.path.abspath(new.__file__).startswith(os.getcwd()), new.__file__
old = load(
    "py_ecc.bls._pristine_ciphersuites",
    os.path.join(HERE, "pristine", "ciphersuites.py"),
)
assert hasattr(new.BaseG2Ciphersuite, "_sign_with_pubkey_prefix")
assert not hasattr(old.BaseG2Ciphersuite, "_sign_with_pubkey_prefix")

from py_ecc.bls.g2_primitives import G1_to_pubkey, G2_to_signature  # noqa: E402
from py_ecc.bls.hash_to_curve import hash_to_G2  # noqa: E402
from py_ecc.optimized_bls12_381 import G1, curve_order, multiply  # noqa: E402
from hashlib import sha256  # noqa: E402
from eth_utils import ValidationError  # noqa: E402

SUITES = ["G2Basic", "G2MessageAugmentation", "G2ProofOfPossession"]

# constants and public surface unchanged
for name in SUITES:
    o, n = getattr(old, name), getattr(new, name)
    assert o.DST == n.DST and o.xmd_hash_function is n.xmd_hash_function
    assert set(dir(n)) - set(dir(o)) == {"_sign_with_pubkey_prefix"}, name
    assert set(dir(o)) - set(dir(n)) == set(), name
assert old.G2ProofOfPossession.POP_TAG == new.G2ProofOfPossession.POP_TAG
assert new.G2Basic.DST == b"BLS_SIG_BLS12381G2_XMD:SHA-256_SSWU_RO_NUL_"
assert new.G2MessageAugmentation.DST == b"BLS_SIG_BLS12381G2_XMD:SHA-256_SSWU_RO_AUG_"
assert new.G2ProofOfPossession.DST == b"BLS_SIG_BLS12381G2_XMD:SHA-256_SSWU_RO_POP_"
assert new.G2ProofOfPossession.POP_TAG == b"BLS_POP_BLS12381G2_XMD:SHA-256_SSWU_RO_POP_"


def outcome(fn, *args):
    try:
        r = fn(*args)
        return ("ok", type(r), r)
    except BaseException as e:  # noqa: B902
        return ("exc", type(e))


class MyBytes(bytes):
    pass


class MyInt(int):
    pass


rng = random.Random(0xC092)
good_sks = [1, 2, curve_order - 1, rng.randrange(1, curve_order), True, MyInt(5)]
bad_sks = [
    0,
    curve_order,
    curve_order + 1,
    -1,
    2**255,
    2**384,
    False,
    1.0,
    None,
    "1",
    b"\x01",
    [1],
]
pk1 = G1_to_pubkey(multiply(G1, 1))
good_msgs = [b"", b"abc", pk1, rng.randbytes(100)]
# not ``bytes`` -- Basic/POP refuse them, AUG's ``PK + message`` accepts some
odd_msgs = [
    bytearray(b"abc"),
    memoryview(b"abc"),
    MyBytes(b"abc"),
    "abc",
    None,
    7,
    [97],
    (b"abc",),
]

results = {}
n_cmp = 0


def check(label, attr, *args, expect=None):
    """Same outcome from the pristine and the edited class; remember it."""
    global n_cmp
    suite = label[0]
    o = outcome(getattr(getattr(old, suite), attr), *args)
    n = outcome(getattr(getattr(new, suite), attr), *args)
    assert o == n, (label, attr, args, o, n)
    if expect is not None:
        assert o[0] == expect or (o[0] == "exc" and o[1] is expect), (label, o)
    n_cmp += 1
    if label in results:  # second pass: history independence
        assert results[label] == n, (label, results[label], n)
    results[label] = n
    return n


def sign_jobs():
    jobs = []
    for suite in SUITES:
        for i, sk in enumerate(good_sks):
            # full grid for the edited AUG path, a thinner one for the untouched ones
            msgs = good_msgs if suite == "G2MessageAugmentation" or i < 2 else [b"abc"]
            for j, m in enumerate(msgs):
                jobs.append(((suite, "Sign", i, j), "Sign", (sk, m)))
        for j, m in enumerate(odd_msgs):
            jobs.append(((suite, "SignOdd", 0, j), "Sign", (good_sks[3], m)))
        for i, sk in enumerate(bad_sks):
            jobs.append(((suite, "SignBadSK", i, 0), "Sign", (sk, b"abc")))
            jobs.append(((suite, "SignBadBoth", i, 0), "Sign", (sk, "abc")))
            jobs.append(((suite, "SkToPkBad", i), "SkToPk", (sk,)))
        for i, sk in enumerate(good_sks):
            jobs.append(((suite, "SkToPk", i), "SkToPk", (sk,)))
    for i, sk in enumerate(good_sks):
        jobs.append((("G2ProofOfPossession", "PopProve", i), "PopProve", (sk,)))
    for i, sk in enumerate(bad_sks):
        jobs.append((("G2ProofOfPossession", "PopProveBad", i), "PopProve", (sk,)))
    return jobs


jobs = sign_jobs()
for label, attr, args in jobs:
    check(label, attr, *args)
print("pass 1:", n_cmp, "comparisons", round(time.time() - T0, 1), "s")

# ---- the results are the mandated byte strings (independent of both class trees)
for i, sk in enumerate(good_sks):
    pk = G1_to_pubkey(multiply(G1, int(sk)))
    assert results[("G2MessageAugmentation", "SkToPk", i)] == ("ok", bytes, pk)
    for j, m in enumerate(good_msgs):
        want = G2_to_signature(
            multiply(hash_to_G2(pk + m, new.G2MessageAugmentation.DST, sha256), int(sk))
        )
        assert results[("G2MessageAugmentation", "Sign", i, j)] == ("ok", bytes, want)
    want = G2_to_signature(
        multiply(hash_to_G2(pk, new.G2ProofOfPossession.POP_TAG, sha256), int(sk))
    )
    assert results[("G2ProofOfPossession", "PopProve", i)] == ("ok", bytes, want)
# expected refusals
for suite in SUITES:
    for i in range(len(bad_sks)):
        assert results[(suite, "SignBadSK", i, 0)] == ("exc", ValidationError)
        assert results[(suite, "SignBadBoth", i, 0)] == ("exc", ValidationError)
        assert results[(suite, "SkToPkBad", i)] == ("exc", ValidationError)
for i in range(len(bad_sks)):
    assert results[("G2ProofOfPossession", "PopProveBad", i)] == (
        "exc",
        ValidationError,
    )
aug_odd = [results[("G2MessageAugmentation", "SignOdd", 0, j)][:2] for j in range(8)]
assert aug_odd == [
    ("ok", bytes),  # PK + bytearray -> bytes
    ("ok", bytes),  # PK + memoryview -> bytes
    ("ok", bytes),  # PK + bytes subclass -> bytes
    ("exc", TypeError),
    ("exc", TypeError),
    ("exc", TypeError),
    ("exc", TypeError),
    ("exc", TypeError),
], aug_odd
for j in range(8):
    want = ("ok", bytes) if j == 2 else ("exc", ValidationError)
    assert results[("G2Basic", "SignOdd", 0, j)][:2] == want, j
print("byte strings and refusals as mandated", round(time.time() - T0, 1), "s")

# ---- pass 2: a sample of the same calls in another order, interleaved with refusals
sample = [job for job in jobs if job[0][1] not in ("Sign", "PopProve", "SignOdd")]
sample += rng.sample([job for job in jobs if job[0][1] in ("Sign", "SignOdd")], 12)
sample += [job for job in jobs if job[0][1] == "PopProve"][:3]
rng.shuffle(sample)
for label, attr, args in sample:
    check(label, attr, *args)
print("pass 2:", n_cmp, "comparisons", round(time.time() - T0, 1), "s")

# ---- Aggregate and verification on the produced values
for suite in SUITES:
    # first signature of secret keys 1, 2 and r-1 (whatever message that grid row used)
    sigs = [results[(suite, "Sign", i, 0)][2] for i in range(3)]
    for k, batch in enumerate(
        [
            sigs,
            sigs[:1],
            sigs + sigs,
            tuple(sigs),
            [],
            (),
            [b""],
            [sigs[0][:95]],
            [sigs[0] + b"\x00"],
            [bytearray(sigs[0])],
            [sigs[0], None],
            [b"\x00" * 96],
            [b"\xc0" + b"\x00" * 95],
            [b"\xc0" + b"\x00" * 95, sigs[1]],
            None,
            5,
        ]
    ):
        check((suite, "Aggregate", k), "Aggregate", batch)
sk = good_sks[3]
pk = results[("G2Basic", "SkToPk", 3)][2]
for suite in SUITES:
    sig = results[(suite, "Sign", 3, 0)]
    # row 3 is in the thin grid for Basic/POP (signed b"abc"); AUG signed good_msgs[0]
    msg = b"" if suite == "G2MessageAugmentation" else b"abc"
    check((suite, "Verify", 0), "Verify", pk, msg, sig[2], expect="ok")
    assert results[(suite, "Verify", 0)][2] is True, suite
    check((suite, "Verify", 1), "Verify", pk, msg + b"x", sig[2])
    assert results[(suite, "Verify", 1)][2] is False
proof = results[("G2ProofOfPossession", "PopProve", 3)][2]
check(("G2ProofOfPossession", "PopVerify", 0), "PopVerify", pk, proof)
assert results[("G2ProofOfPossession", "PopVerify", 0)][2] is True
check(("G2ProofOfPossession", "PopVerify", 1), "PopVerify", pk1, proof)
assert results[("G2ProofOfPossession", "PopVerify", 1)][2] is False
# a POP proof is not a POP-suite signature of the key and vice versa
assert proof != new.G2ProofOfPossession.Sign(sk, pk)
print("aggregate / verify:", n_cmp, "comparisons", round(time.time() - T0, 1), "s")

# ---- overridable hooks see the very same calls in the same order


def recording(base):
    log = []

    class Rec(base):
        @classmethod
        def SkToPk(cls, privkey):
            log.append(("SkToPk", privkey))
            return super().SkToPk(privkey)

        @classmethod
        def _CoreSign(cls, SK, message, DST):
            log.append(("_CoreSign", SK, type(message), message, DST))
            return super()._CoreSign(SK, message, DST)

    return Rec, log


for suite in ("G2MessageAugmentation", "G2ProofOfPossession"):
    RO, lo = recording(getattr(old, suite))
    RN, ln = recording(getattr(new, suite))
    calls = [("Sign", (7, b"hooked")), ("Sign", (0, b"hooked")), ("Sign", (7, "str"))]
    calls += [("Sign", (7, bytearray(b"hooked")))]
    if suite == "G2ProofOfPossession":
        calls += [("PopProve", (7,)), ("PopProve", (curve_order,)), ("PopProve", (None,))]
    for attr, args in calls:
        assert outcome(getattr(RO, attr), *args) == outcome(getattr(RN, attr), *args)
    assert lo == ln and len(lo) >= 5, (lo, ln)

# arguments are not mutated
ba = bytearray(b"keep me")
new.G2MessageAugmentation.Sign(3, ba)
assert ba == bytearray(b"keep me")

print("OK: p2 equivalent;", n_cmp, "comparisons;", round(time.time() - T0, 1), "s")
