import os, sys; sys.path.insert(0, os.getcwd())
"""
Equivalence demonstration for the C17 twin edit in this directory.

Loads BOTH complete versions of the py_ecc package into this one process:
  * the edited tree, from the current working directory (/tmp/wt2/C17), and
  * the pristine tree, from <this dir>/pristine/py_ecc,
each imported under the name ``py_ecc`` and then detached from ``sys.modules`` so
that the two sets of module objects coexist.  Every probe is executed against both
trees and the outcomes (values as nested ints, result identity w.r.t. the arguments,
exception classes) are compared.  Exits 0 iff everything is identical.
"""
import importlib
import random
from fractions import Fraction

HERE = os.path.dirname(os.path.abspath(__file__))
PRISTINE_ROOT = os.path.join(HERE, "pristine")
EDITED_ROOT = os.getcwd()

MODS = [
    "py_ecc",
    "py_ecc.fields",
    "py_ecc.optimized_bls12_381",
    "py_ecc.optimized_bls12_381.optimized_curve",
    "py_ecc.optimized_bls12_381.optimized_clear_cofactor",
    "py_ecc.optimized_bls12_381.constants",
    "py_ecc.bls.constants",
    "py_ecc.bls.g2_primitives",
    "py_ecc.bls.hash_to_curve",
    "py_ecc.bls.point_compression",
    "py_ecc.bls",
]


class Tree:
    pass


def purge():
    for k in [k for k in sys.modules if k == "py_ecc" or k.startswith("py_ecc.")]:
        del sys.modules[k]


def load_tree(root):
    purge()
    sys.path.insert(0, root)
    try:
        t = Tree()
        t.root = root
        t.m = {name: importlib.import_module(name) for name in MODS}
        f = os.path.realpath(t.m["py_ecc"].__file__)
        assert f.startswith(os.path.realpath(root) + os.sep), (f, root)
    finally:
        sys.path.remove(root)
        purge()
    return t


NEW = load_tree(EDITED_ROOT)
OLD = load_tree(PRISTINE_ROOT)
assert NEW.m["py_ecc"] is not OLD.m["py_ecc"]
assert os.path.realpath(NEW.m["py_ecc"].__file__) != os.path.realpath(
    OLD.m["py_ecc"].__file__
)

# --------------------------------------------------------------------------
# tree-independent encodings of inputs and outputs
# --------------------------------------------------------------------------
# A "spec" is a pure-python description of an argument; ``build`` turns it into an
# object of the given tree (so each tree gets objects of its own field classes).


def build(t, spec):
    F = t.m["py_ecc.fields"]
    if isinstance(spec, tuple) and spec and spec[0] == "FQ":
        return F.optimized_bls12_381_FQ(spec[1])
    if isinstance(spec, tuple) and spec and spec[0] == "FQ2":
        return F.optimized_bls12_381_FQ2(list(spec[1]))
    if isinstance(spec, tuple) and spec and spec[0] == "FQ12":
        return F.optimized_bls12_381_FQ12(list(spec[1]))
    if isinstance(spec, tuple) and spec and spec[0] == "bn128FQ":
        return F.optimized_bn128_FQ(spec[1])
    if isinstance(spec, tuple) and spec and spec[0] == "T":  # a tuple
        return tuple(build(t, s) for s in spec[1])
    if isinstance(spec, tuple) and spec and spec[0] == "L":  # a list
        return [build(t, s) for s in spec[1]]
    if isinstance(spec, tuple) and spec and spec[0] == "RAW":
        return spec[1]
    raise AssertionError(spec)


def enc(v, args=()):
    """Encode a result as plain python data (class names + ints)."""
    cn = type(v).__name__
    mod = type(v).__module__
    if mod.startswith("py_ecc.fields"):
        if hasattr(v, "coeffs"):
            return (cn, tuple(enc(c) for c in v.coeffs))
        return (cn, v.n)
    if isinstance(v, bool) or v is None:
        return (cn, v)
    if isinstance(v, int):
        return (cn, int(v))
    if isinstance(v, (tuple, list)):
        return (cn, tuple(enc(x) for x in v))
    if isinstance(v, (bytes, str, float)):
        return (cn, v)
    return (cn, repr(v))


def identity_map(v, args):
    """Which argument objects (or their elements) is the result identical to?"""
    out = []
    for i, a in enumerate(args):
        if v is a:
            out.append(("arg", i))
        if isinstance(a, (tuple, list)) and isinstance(v, (tuple, list)):
            for j, e in enumerate(v):
                for k, ae in enumerate(a):
                    if e is ae:
                        out.append(("elem", j, i, k))
    return tuple(out)


def run(t, modname, fname, arg_specs, kw_specs=None):
    f = getattr(t.m[modname], fname)
    args = [build(t, s) for s in arg_specs]
    kwargs = {k: build(t, s) for k, s in (kw_specs or {}).items()}
    before = enc(args) + (enc(sorted(kwargs.items())),)
    try:
        r = f(*args, **kwargs)
        out = ("ok", enc(r), identity_map(r, args))
    except RecursionError:
        out = ("exc", "RecursionError")
    except BaseException as e:  # noqa
        out = ("exc", type(e).__name__, type(e).__mro__[1].__name__)
    after = enc(args) + (enc(sorted(kwargs.items())),)
    assert before == after, ("argument mutated", modname, fname)
    return out


N_PROBES = 0
FAILS = []
import time
_T0 = [time.time()]


def lap(label):
    now = time.time()
    print("  [%6.1fs] %s" % (now - _T0[0], label))
    _T0[0] = now


def probe(modname, fname, *arg_specs, **kw_specs):
    global N_PROBES
    N_PROBES += 1
    a = run(NEW, modname, fname, arg_specs, kw_specs)
    b = run(OLD, modname, fname, arg_specs, kw_specs)
    if a != b:
        FAILS.append((modname, fname, arg_specs, kw_specs, a, b))
        print("MISMATCH", modname, fname, str(arg_specs)[:200], a, b)
    return b


CURVE = "py_ecc.optimized_bls12_381.optimized_curve"
PKG = "py_ecc.optimized_bls12_381"
CC = "py_ecc.optimized_bls12_381.optimized_clear_cofactor"
G2P = "py_ecc.bls.g2_primitives"
H2C = "py_ecc.bls.hash_to_curve"

# --------------------------------------------------------------------------
# input generation (done once, with the pristine tree, then turned into specs)
# --------------------------------------------------------------------------
rng = random.Random(0xC17)
oc = OLD.m[CURVE]
FQ = OLD.m["py_ecc.fields"].optimized_bls12_381_FQ
FQ2 = OLD.m["py_ecc.fields"].optimized_bls12_381_FQ2
p = oc.field_modulus
r = oc.curve_order
sqrt_fq2 = OLD.m["py_ecc.bls.point_compression"].modular_squareroot_in_FQ2

H1 = 0x396C8C005555E1568C00AAAB0000AAAB  # cofactor of E(Fp)
H2 = OLD.m["py_ecc.bls.constants"].G2_COFACTOR  # cofactor of E'(Fp2)
assert (p + 1 - (-0xD201000000010000 + 1)) == H1 * r  # #E(Fp) = p + 1 - t, t = x + 1


def spec_of(v):
    if isinstance(v, (tuple, list)):
        return ("T", tuple(spec_of(x) for x in v))
    if hasattr(v, "coeffs"):
        return ({2: "FQ2", 12: "FQ12"}[len(v.coeffs)], tuple(int(c) for c in v.coeffs))
    return ("FQ", v.n)


def rand_g1_curve_point():
    while True:
        x = rng.randrange(p)
        y2 = (x**3 + 4) % p
        y = pow(y2, (p + 1) // 4, p)
        if y * y % p == y2:
            if rng.random() < 0.5:
                y = p - y
            return (FQ(x), FQ(y), FQ(1))


def rand_g2_curve_point():
    while True:
        x = FQ2([rng.randrange(p), rng.randrange(p)])
        y = sqrt_fq2(x**3 + oc.b2)
        if y is not None:
            if rng.random() < 0.5:
                y = -y
            return (x, y, FQ2.one())


def scale(pt, lam):
    return tuple(c * lam for c in pt)


def rand_scalar_fq():
    return FQ(rng.randrange(1, p))


def rand_scalar_fq2():
    return FQ2([rng.randrange(p), rng.randrange(1, p)])


g1_points = {}
g2_points = {}
EXPECT_NONTRIVIAL = {}  # name -> the point has a non-trivial cofactor component

# identity in several representations
g1_points["Z1"] = oc.Z1
g1_points["inf_000"] = (FQ(0), FQ(0), FQ(0))
g1_points["inf_xy0"] = (FQ(5), FQ(7), FQ(0))
g2_points["Z2"] = oc.Z2
g2_points["inf_000"] = (FQ2.zero(), FQ2.zero(), FQ2.zero())
g2_points["inf_xy0"] = (FQ2([3, 4]), FQ2([5, 6]), FQ2.zero())

# multiples of the generators
for k in (1, 2, 3, r - 1, r + 1, rng.randrange(r), rng.randrange(r)):
    g1_points["G1*%d" % k] = oc.multiply(oc.G1, k)
    g2_points["G2*%d" % k] = oc.multiply(oc.G2, k)
g1_points["G1*r"] = oc.multiply(oc.G1, r)
g2_points["G2*r"] = oc.multiply(oc.G2, r)

# random curve points (almost surely with a full cofactor component), pure cofactor
# torsion points T = r * P, small prime order torsion, and kG + T
for i in range(2):
    P1 = rand_g1_curve_point()
    assert oc.is_on_curve(P1, oc.b)
    g1_points["rand%d" % i] = P1
    T = oc.multiply(P1, r)
    g1_points["tors%d" % i] = T
    g1_points["kG+T%d" % i] = oc.add(oc.multiply(oc.G1, rng.randrange(1, r)), T)
    for q in (3, 11, 10177, 859267, 52437899):
        qe = q
        while H1 % (qe * q) == 0:
            qe *= q
        Tq = oc.multiply(T, H1 // qe)  # order divides q**e, the q-part of H1
        g1_points["ord|%d_%d" % (q, i)] = Tq
        g1_points["xkG+ord|%d_%d" % (q, i)] = oc.add(
            oc.multiply(oc.G1, rng.randrange(1, r)), Tq
        )
        EXPECT_NONTRIVIAL["g1:ord|%d_%d" % (q, i)] = not oc.is_inf(Tq)
        EXPECT_NONTRIVIAL["g1:xkG+ord|%d_%d" % (q, i)] = not oc.is_inf(Tq)
for i in range(1):
    P2 = rand_g2_curve_point()
    assert oc.is_on_curve(P2, oc.b2)
    g2_points["rand%d" % i] = P2
    T = oc.multiply(P2, r)
    g2_points["tors%d" % i] = T
    g2_points["kG+T%d" % i] = oc.add(oc.multiply(oc.G2, rng.randrange(1, r)), T)
    for q in (13, 23, 2713, 11953, 262069):
        assert H2 % q == 0
        qe = q
        while H2 % (qe * q) == 0:
            qe *= q
        Tq = oc.multiply(T, H2 // qe)  # order divides q**e, the q-part of H2
        g2_points["ord|%d_%d" % (q, i)] = Tq
        g2_points["xkG+ord|%d_%d" % (q, i)] = oc.add(
            oc.multiply(oc.G2, rng.randrange(1, r)), Tq
        )
        EXPECT_NONTRIVIAL["g2:ord|%d_%d" % (q, i)] = not oc.is_inf(Tq)
        EXPECT_NONTRIVIAL["g2:xkG+ord|%d_%d" % (q, i)] = not oc.is_inf(Tq)

# other projective representatives of everything
for name, pt in list(g1_points.items()):
    g1_points[name + "~"] = scale(pt, rand_scalar_fq())
for name, pt in list(g2_points.items()):
    g2_points[name + "~"] = scale(pt, rand_scalar_fq2())
g1_points["G1_neg_scaled"] = scale(oc.G1, FQ(p - 1))
g2_points["G2_neg_scaled"] = scale(oc.G2, FQ2([p - 1, 0]))

# points NOT on the curve (the arithmetic is still deterministic on them)
g1_points["offcurve"] = (FQ(1), FQ(1), FQ(1))
g1_points["offcurve2"] = (FQ(0), FQ(0), FQ(1))
g2_points["offcurve"] = (FQ2([1, 2]), FQ2([3, 4]), FQ2([5, 6]))
# a G1 point given as a list instead of a tuple
list_specs = {"G1_list": ("L", spec_of(oc.G1)[1]), "G2_list": ("L", spec_of(oc.G2)[1])}

g1_specs = {k: spec_of(v) for k, v in g1_points.items()}
g2_specs = {k: spec_of(v) for k, v in g2_points.items()}
all_specs = {}
all_specs.update({"g1:" + k: v for k, v in g1_specs.items()})
all_specs.update({"g2:" + k: v for k, v in g2_specs.items()})
all_specs.update(list_specs)

malformed_specs = {
    "empty": ("T", ()),
    "len1": ("T", (("FQ", 1),)),
    "len2": ("T", (("FQ", 1), ("FQ", 2))),
    "len4": ("T", (("FQ", 1), ("FQ", 2), ("FQ", 3), ("FQ", 4))),
    "ints": ("T", (("RAW", 1), ("RAW", 2), ("RAW", 3))),
    "none": ("RAW", None),
    "int": ("RAW", 7),
    "str": ("RAW", "abc"),
    "mixed": ("T", (("FQ", 1), ("FQ2", (1, 2)), ("FQ", 1))),
    "mixed2": ("T", (("FQ2", (1, 2)), ("FQ2", (1, 2)), ("FQ", 1))),
    "z_none": ("T", (("FQ", 1), ("FQ", 2), ("RAW", None))),
    "z_int0": ("T", (("FQ", 1), ("FQ", 2), ("RAW", 0))),
    "x_int": ("T", (("RAW", 1), ("FQ", 2), ("FQ", 1))),
    "bn128": ("T", (("bn128FQ", 1), ("bn128FQ", 2), ("bn128FQ", 1))),
    "fq12": spec_of(oc.G12),
}

lap("load+inputs")
# --------------------------------------------------------------------------
# 1. module-level constants
# --------------------------------------------------------------------------
for modname, names in [
    ("py_ecc.optimized_bls12_381.constants", None),
    ("py_ecc.bls.constants", None),
    (CURVE, None),
    (PKG, None),
]:
    mo, mn = OLD.m[modname], NEW.m[modname]
    pub_o = sorted(
        k for k, v in vars(mo).items() if not k.startswith("__") and not callable(v)
        and type(v).__name__ != "module"
    )
    for k in pub_o:
        assert hasattr(mn, k), (modname, k)
        assert enc(getattr(mo, k)) == enc(getattr(mn, k)), (modname, k)
    # public callables that existed before still exist
    for k, v in vars(mo).items():
        if callable(v) and not k.startswith("_"):
            assert callable(getattr(mn, k)), (modname, k)
for t in (OLD, NEW):
    c = t.m["py_ecc.optimized_bls12_381.constants"]
    assert c.H_EFF_G1 == 0xD201000000010001 and type(c.H_EFF_G1) is int
    assert type(c.H_EFF_G2) is int
    assert t.m["py_ecc.bls.constants"].G2_COFACTOR == H2
    x = -0xD201000000010000
    h2 = (x**8 - 4 * x**7 + 5 * x**6 - 4 * x**4 + 6 * x**3 - 4 * x**2 - 4 * x + 13)
    assert h2 % 9 == 0 and h2 // 9 == H2
    assert c.H_EFF_G2 == H2 * (3 * x * x - 3)
    assert c.H_EFF_G1 == 1 - x
    assert t.m[CURVE].curve_order == x**4 - x**2 + 1 == r
# q2 specific: the derived constants of the edited tree are plain ints equal to the
# literals of the pristine tree, and the new helper names are ints too
_oc, _nc = (t.m["py_ecc.optimized_bls12_381.constants"] for t in (OLD, NEW))
for k in ("H_EFF_G1", "H_EFF_G2"):
    assert type(getattr(_nc, k)) is int and type(getattr(_oc, k)) is int
    assert getattr(_nc, k) == getattr(_oc, k)
    assert repr(getattr(_nc, k)) == repr(getattr(_oc, k))
assert _nc.BLS_X == -0xD201000000010000 and type(_nc.BLS_X) is int
assert _nc.H2_COFACTOR == H2 and type(_nc.H2_COFACTOR) is int
assert not hasattr(_oc, "BLS_X") and not hasattr(_oc, "H2_COFACTOR")
# the clear-cofactor module of each tree sees the same two ints
for t in (OLD, NEW):
    assert t.m[CC].H_EFF_G1 == _oc.H_EFF_G1 and t.m[CC].H_EFF_G2 == _oc.H_EFF_G2

lap("constants")
# --------------------------------------------------------------------------
# 2. the anchor functions on every well-formed input
# --------------------------------------------------------------------------
summary = {"sub_true": 0, "sub_false": 0}
N_SEEN = {}
for name, spec in all_specs.items():
    out = probe(G2P, "subgroup_check", spec)
    assert out[0] == "ok", (name, out)
    summary["sub_true" if out[1][1] else "sub_false"] += 1
    # semantic sanity (on the pristine answer): multiples of generators and
    # infinity are accepted, anything with a cofactor component is rejected
    base = name.split(":")[-1].rstrip("~")
    if base.startswith(("G1", "G2", "Z", "inf")):
        assert out[1] == ("bool", True), (name, out)
    if base.startswith(("rand", "tors", "kG+")):
        assert out[1] == ("bool", False), (name, out)
    if name.rstrip("~") in EXPECT_NONTRIVIAL:
        # small-order cofactor component: rejected iff that component is non-trivial
        nontrivial = EXPECT_NONTRIVIAL[name.rstrip("~")]
        assert out[1] == ("bool", not nontrivial), (name, out)
        summary["small_order_rejected"] = summary.get("small_order_rejected", 0) + (
            1 if nontrivial else 0
        )
    probe(CURVE, "is_inf", spec)
    is_g1 = name.startswith(("g1", "G1"))
    own = "multiply_clear_cofactor_G1" if is_g1 else "multiply_clear_cofactor_G2"
    cleared = probe(CC, own, spec)
    probe(CC, "multiply_clear_cofactor_G1", spec)
    if is_g1 and "~" not in name:
        # the (slow) G2 effective cofactor applied to E(Fp) points as well
        probe(CC, "multiply_clear_cofactor_G2", spec)
    N_SEEN[is_g1] = N_SEEN.get(is_g1, 0) + 1
    if "~" not in name and (is_g1 or N_SEEN[is_g1] % 4 == 1):
        probe(H2C, "clear_cofactor_G1" if is_g1 else "clear_cofactor_G2", spec)
        probe(G2P, "subgroup_check", P=spec)
        probe(CC, own, p=spec)
    # cofactor clearing lands in the subgroup (pristine answer; the edited answer
    # was just checked to be identical)
    if "offcurve" not in name and "list" not in name:
        assert cleared[0] == "ok"
        cl = tuple(
            FQ(c[1]) if c[0].endswith("_FQ") else FQ2([k[1] for k in c[1]])
            for c in cleared[1][1]
        )
        assert OLD.m[G2P].subgroup_check(cl) is True, name
        summary["cleared_in_subgroup"] = summary.get("cleared_in_subgroup", 0) + 1
    probe(CURVE, "double", spec)
    probe(CURVE, "neg", spec)
    for n in (0, 1, 2, 3, 4, 5, 6, 7, 8, 255, 256, 2**64 - 1, r):
        probe(CURVE, "multiply", spec, ("RAW", n))
    if is_g1 or "~" not in name:
        probe(CURVE, "multiply", spec, ("RAW", r + 1))
        probe(CURVE, "multiply", spec, ("RAW", rng.randrange(2**300)))
    probe(CURVE, "multiply", pt=spec, n=("RAW", 11))

for fn in ("multiply_clear_cofactor_G1", "multiply_clear_cofactor_G2"):
    for t in (OLD, NEW):  # the package re-exports the very same function objects
        assert getattr(t.m[PKG], fn) is getattr(t.m[CC], fn)

lap("anchors-per-point")
# add / eq / is_on_curve over pairs (same group), including equal, opposite, infinity
for specs, bname in ((g1_specs, "b"), (g2_specs, "b2")):
    names = sorted(specs)
    pairs = [(a, b) for a in names[:6] for b in names[:6]]
    pairs += [(rng.choice(names), rng.choice(names)) for _ in range(120)]
    pairs += [(a, a) for a in names] + [(a, a + "~") for a in names if a + "~" in specs]
    for a, b in pairs:
        probe(CURVE, "add", specs[a], specs[b])
        probe(CURVE, "eq", specs[a], specs[b])
    for a in names:
        probe(CURVE, "add", specs[a], spec_of(oc.neg(build(OLD, specs[a]))))
        bval = spec_of(getattr(oc, bname))
        probe(CURVE, "is_on_curve", specs[a], bval)
        probe(CURVE, "normalize", specs[a])
# list-shaped points and points whose z has another type, in both positions of add
for la in (list_specs["G1_list"], ("L", spec_of(oc.Z1)[1]),
           ("L", (("FQ", 1), ("FQ", 2), ("FQ", 0), ("FQ", 9))),
           ("T", (("FQ", 1), ("FQ", 2), ("FQ", 3), ("FQ", 0))),
           ("T", (("FQ", 0),)), ("T", (("FQ2", (0, 0)),)), ("T", (("RAW", 0),)),
           ("T", (("FQ", 1), ("FQ", 2), ("FQ2", (0, 0)))),
           ("T", (("FQ2", (1, 1)), ("FQ2", (1, 2)), ("FQ", 0)))):
    probe(CURVE, "is_inf", la)
    probe(CURVE, "multiply", la, ("RAW", 0))
    probe(CURVE, "multiply", la, ("RAW", 5))
    for other in (g1_specs["G1*1"], g1_specs["Z1"], g1_specs["inf_000"],
                  g2_specs["Z2"], g2_specs["G2*1"], la):
        probe(CURVE, "add", la, other)
        probe(CURVE, "add", other, la)
# cross-field pairs (malformed use, must fail/behave the same way)
probe(CURVE, "add", g1_specs["G1*1"], g2_specs["G2*1"])
probe(CURVE, "add", g2_specs["G2*1"], g1_specs["G1*1"])
probe(CURVE, "add", g1_specs["Z1"], g2_specs["G2*1"])
probe(CURVE, "add", g1_specs["G1*1"], g2_specs["Z2"])
probe(CURVE, "add", g2_specs["Z2"], g1_specs["Z1"])
probe(CURVE, "twist", g2_specs["G2*2"])

lap("anchors")
# --------------------------------------------------------------------------
# 3. unusual scalars for multiply (same values / same exception classes)
# --------------------------------------------------------------------------
odd_scalars = [
    True, False, 0.0, 1.0, 2.0, 3.0, 4.0, 5.0, 6.5, 2.5, 0.5, 1e3, 1e300,
    float("inf"), float("nan"), -0.0, Fraction(7, 2), Fraction(8, 1),
    Fraction(1, 3), "a", "", b"x", None, (), [1], 2 + 0j, 1 + 0j, 0j, 3j,
    2**2000, 2**3000 + 1,
]
saved_limit = sys.getrecursionlimit()
for sc in odd_scalars:
    for spec in (g1_specs["G1*1"], g2_specs["G2*3~"], g1_specs["Z1"],
                 malformed_specs["empty"], malformed_specs["z_none"]):
        probe(CURVE, "multiply", spec, ("RAW", sc))
# Negative scalars never reach a base case: RecursionError in both trees.  py_ecc sets
# the recursion limit to 100000 which makes each such call take seconds, so most of
# them are run under a temporarily lowered limit, and one at the real limit.
sys.setrecursionlimit(4000)
try:
    for sc in (-1, -2, -r, -3.0, -2.5, Fraction(-7, 2)):
        for spec in (g1_specs["G1*1"], g2_specs["G2*3~"], g1_specs["Z1"],
                     malformed_specs["empty"], malformed_specs["z_none"]):
            out = probe(CURVE, "multiply", spec, ("RAW", sc))
            assert out[0] == "exc", out
finally:
    sys.setrecursionlimit(saved_limit)
assert probe(CURVE, "multiply", g1_specs["G1*1"], ("RAW", -1)) == (
    "exc", "RecursionError")
# NOTE: plain-int coordinates make double/add work on unreduced integers whose size
# explodes with the scalar, so that malformed shape is only exercised with tiny scalars
for sc in (0, 1, 2, 3, 4, 5, 6, 7, 0.0, 1.0, 2.0, 3.0, True, False, "a", None):
    probe(CURVE, "multiply", malformed_specs["ints"], ("RAW", sc))

lap("scalars")
# --------------------------------------------------------------------------
# 4. malformed points through every anchor function
# --------------------------------------------------------------------------
for name, spec in malformed_specs.items():
    if name == "ints":
        for fn in ("is_inf", "double"):
            probe(CURVE, fn, spec)
        for other in (g1_specs["G1*1"], g1_specs["Z1"], spec):
            for fn in ("add", "eq"):
                probe(CURVE, fn, spec, other)
                probe(CURVE, fn, other, spec)
        continue
    probe(G2P, "subgroup_check", spec)
    probe(CURVE, "is_inf", spec)
    probe(CURVE, "double", spec)
    for n in (0, 1, 2, 3, r, "a", None, 2.0):
        probe(CURVE, "multiply", spec, ("RAW", n))
    probe(CC, "multiply_clear_cofactor_G1", spec)
    probe(CC, "multiply_clear_cofactor_G2", spec)
    probe(H2C, "clear_cofactor_G1", spec)
    probe(H2C, "clear_cofactor_G2", spec)
    for other in (g1_specs["G1*1"], g1_specs["Z1"], g2_specs["Z2"], spec):
        probe(CURVE, "add", spec, other)
        probe(CURVE, "add", other, spec)
        probe(CURVE, "eq", spec, other)
        probe(CURVE, "eq", other, spec)
# wrong arity / wrong keywords
for fn, mod in (("subgroup_check", G2P), ("multiply_clear_cofactor_G1", CC),
                ("multiply_clear_cofactor_G2", CC), ("multiply", CURVE),
                ("is_inf", CURVE), ("add", CURVE), ("double", CURVE)):
    probe(mod, fn)
    probe(mod, fn, g1_specs["G1*1"], ("RAW", 2), ("RAW", 3))
    probe(mod, fn, point=g1_specs["G1*1"])
    probe(mod, fn, g1_specs["G1*1"], h_eff=("RAW", 3))

lap("malformed")
# --------------------------------------------------------------------------
# 5. call histories: repeat and interleave calls, answers never change
# --------------------------------------------------------------------------
history_keys = [k for k in all_specs if "~" not in k][::2][:24]
first = {}
seq = []
for _ in range(3):
    ks = history_keys[:]
    rng.shuffle(ks)
    seq += ks
for k in seq:
    spec = all_specs[k]
    outs = (
        probe(G2P, "subgroup_check", spec),
        probe(CC, "multiply_clear_cofactor_G1", spec),
        probe(CURVE, "multiply", spec, ("RAW", 12345)),
    )
    if k in first:
        assert first[k] == outs, ("history dependent", k)
    first[k] = outs
# constants are still the same after all the calls
for t in (OLD, NEW):
    c = t.m["py_ecc.optimized_bls12_381.constants"]
    assert c.H_EFF_G1 == 0xD201000000010001
    assert c.H_EFF_G2 == H2 * (3 * 0xD201000000010000**2 - 3)
    assert enc(t.m[CURVE].G1) == enc(oc.G1) and enc(t.m[CURVE].Z2) == enc(oc.Z2)
    assert t.m[CURVE].curve_order == r

lap("histories")
# --------------------------------------------------------------------------
# 6. BLS API smoke comparison (the consumers of subgroup_check / hash_to_curve)
# --------------------------------------------------------------------------
def api(t):
    bls = t.m["py_ecc.bls"]
    out = []
    for suite in (bls.G2Basic, bls.G2ProofOfPossession):
        sk = 0x1234567
        pk = suite.SkToPk(sk)
        sig = suite.Sign(sk, b"msg")
        out.append((pk, sig, suite.Verify(pk, b"msg", sig), suite.Verify(pk, b"x", sig)))
        out.append(suite.KeyValidate(pk))
        out.append(suite.KeyValidate(b"\xc0" + b"\x00" * 47))
        out.append(suite.KeyValidate(b"\x00" * 48))
        # x = 4 decompresses to a curve point outside the r-torsion? compare anyway
        for xval in (0, 1, 2, 3, 4, 5, 6, 7, 8, 9, 10):
            z = (1 << 383) | xval
            try:
                out.append(suite.KeyValidate(z.to_bytes(48, "big")))
            except BaseException as e:  # noqa
                out.append(type(e).__name__)
    h2c = t.m[H2C]
    import hashlib
    out.append(enc(h2c.hash_to_G2(b"abc", b"DST-TEST", hashlib.sha256)))
    out.append(enc(h2c.hash_to_G1(b"abc", b"DST-TEST", hashlib.sha256)))
    return out


assert api(OLD) == api(NEW)

lap("api")
assert sys.getrecursionlimit() == saved_limit
print("probes:", N_PROBES, "inputs:", len(all_specs), summary)
if FAILS:
    print("FAILED:", len(FAILS))
    sys.exit(1)
print("EQUIVALENT")
sys.exit(0)
