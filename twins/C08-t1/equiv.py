import os, sys; sys.path.insert(0, os.getcwd())  # noqa: E401,E702

# Equivalence demonstration for t1: shared operand validator of the reference FQ operators
# in py_ecc/fields/field_elements.py.
#
# Loads the pristine copy of the module (saved next to this script under pristine/)
# under another module name and the edited module from the current directory, builds
# the same field classes on top of both and checks that every operation gives the
# same value, the same result type, the same exception class and message, leaves its
# operands unchanged, and gives the same answer again when repeated after other calls.
import importlib.util
import itertools
import operator
import random
import time

HERE = os.path.dirname(os.path.abspath(__file__))
T0 = time.time()


def load(name, path):
    spec = importlib.util.spec_from_file_location(name, path)
    mod = importlib.util.module_from_spec(spec)
    sys.modules[name] = mod
    spec.loader.exec_module(mod)
    return mod


OLD = load(
    "pristine_field_elements", os.path.join(HERE, "pristine", "field_elements.py")
)
import py_ecc.fields.field_elements as NEW  # noqa: E402
import py_ecc.fields.optimized_field_elements as OPT  # noqa: E402

assert os.path.abspath(NEW.__file__).startswith(os.getcwd()), NEW.__file__
with open(NEW.__file__) as fh, open(OLD.__file__) as fh2:
    print("edited module differs from pristine copy:", fh.read() != fh2.read())

BN_P = 21888242871839275222246405745257275088696311157297823662689037894645226208583
BLS_P = 4002409555221667393417789825735904156556882819939007885332058136124031650490837864442687629129015664037894272559787  # noqa: E501
M127 = 2**127 - 1

# (name, p, FQ2 modulus coeffs, FQ12 modulus coeffs); all moduli irreducible
# (the small ones were found with Rabin's test)
FIELDS = [
    ("bn", BN_P, (1, 0), (82, 0, 0, 0, 0, 0, -18, 0, 0, 0, 0, 0)),
    ("bls", BLS_P, (1, 0), (2, 0, 0, 0, 0, 0, -2, 0, 0, 0, 0, 0)),
    ("m127", M127, (1, 0), (82, 0, 0, 0, 0, 0, -18, 0, 0, 0, 0, 0)),
    ("p2", 2, (1, 1), (1, 0, 0, 0, 0, 1, 0, 0, 0, 0, 0, 0)),
    ("p3", 3, (1, 0), (2, 0, 0, 0, 0, 0, 1, 0, 0, 0, 1, 0)),
    ("p5", 5, (3, 2), (1, 0, 4, 0, 0, 0, 0, 0, 0, 3, 0, 0)),
    ("p7", 7, (4, 0), (6, 6, 0, 0, 0, 0, 0, 0, 0, 0, 3, 0)),
    ("p11", 11, (2, 4), (1, 0, 0, 3, 0, 0, 0, 0, 0, 0, 7, 0)),
]
SMALL = ("p2", "p3", "p5", "p7", "p11")


class Universe:
    """The same family of field classes, built on one version of the module."""

    def __init__(self, M):
        self.M = M
        self.F = {}
        self.F2 = {}
        self.F12 = {}
        self.p = {}
        for name, p, m2, m12 in FIELDS:
            self.p[name] = p
            self.F[name] = type("FQ_" + name, (M.FQ,), {"field_modulus": p})
            self.F2[name] = type(
                "FQ2_" + name,
                (M.FQ2,),
                {"field_modulus": p, "FQ2_MODULUS_COEFFS": m2},
            )
            self.F12[name] = type(
                "FQ12_" + name,
                (M.FQ12,),
                {"field_modulus": p, "FQ12_MODULUS_COEFFS": m12},
            )
        # unusual instantiations sharing the code
        self.F["one"] = type("FQ_mod1", (M.FQ,), {"field_modulus": 1})
        self.F["comp"] = type("FQ_mod15", (M.FQ,), {"field_modulus": 15})
        self.p["one"] = 1
        self.p["comp"] = 15
        self.Fnomod = M.FQ

        def ext(clsname, p, mc):
            def __init__(self, coeffs):
                M.FQP.__init__(self, coeffs, mc)

            return type(
                clsname,
                (M.FQP,),
                {"field_modulus": p, "__init__": __init__, "degree": len(mc)},
            )

        self.ext = {
            "deg1": ext("Ext_deg1", 7, (3,)),
            "deg3": ext("Ext_deg3", 7, (2, 0, 6)),  # x^3 - x^2 + 2
            "deg3_red": ext("Ext_deg3_red", 5, (0, 0, 0)),  # reducible: x^3
            "deg1_bad": ext("Ext_deg1_bad", 7, (1.5,)),
            "deg2_bad0": ext("Ext_deg2_bad0", 7, ("x", 1)),
            "deg2_bad1": ext("Ext_deg2_bad1", 7, (1, None)),
            "deg2_fqmc": ext("Ext_deg2_fqmc", 7, (self.F["p11"](9), self.F["p7"](1))),
            "deg3_bn": ext("Ext_deg3_bn", BN_P, (3, 0, 0)),
        }
        self.ext_deg = {k: len(v([0] * v.degree).modulus_coeffs) for k, v in self.ext.items()}


UO, UN = Universe(OLD), Universe(NEW)
OPT_FQ = type("OptFQ_p7", (OPT.FQ,), {"field_modulus": 7})
OPT_FQ2 = type(
    "OptFQ2_p7", (OPT.FQ2,), {"field_modulus": 7, "FQ2_MODULUS_COEFFS": (4, 0)}
)


class Weird(int):
    pass


MALFORMED = [
    1.5,
    2.0,
    "3",
    None,
    [1],
    (1, 2),
    b"\x01",
    1 + 2j,
    object,
    OPT_FQ(3),
    OPT_FQ2([1, 2]),
]
INTLIKE = [True, False, Weird(5), Weird(-3)]


def norm(v):
    """A comparable description of a result: value, type and representation."""
    for M in (OLD, NEW):
        if isinstance(v, M.FQ):
            return (
                "FQ",
                type(v).__name__,
                type(v).__mro__[1].__name__,
                type(v.n).__name__,
                v.n,
                v.field_modulus,
                sorted(vars(v)),
            )
        if isinstance(v, M.FQP):
            return (
                "FQP",
                type(v).__name__,
                tuple(norm(c) for c in v.coeffs),
                tuple(norm(c) for c in v.modulus_coeffs),
                v.degree,
                type(v.coeffs).__name__,
                sorted(vars(v)),
            )
    if isinstance(v, (list, tuple)):
        return (type(v).__name__, tuple(norm(c) for c in v))
    if isinstance(v, (bool, int, float, str, bytes, complex, type(None))):
        return (type(v).__name__, repr(v))
    if v is NotImplemented:
        return ("NotImplemented",)
    return (type(v).__name__, repr(v).replace("pristine_field_elements", "X"))


def outcome(thunk, operands):
    try:
        r = ("ok", norm(thunk()))
    except RecursionError:
        raise
    except Exception as e:
        msg = str(e).replace("pristine_field_elements", "py_ecc.fields.field_elements")
        r = ("exc", type(e).__name__, msg)
    return r, tuple(norm(x) for x in operands)


BINOPS = [
    ("add", operator.add),
    ("sub", operator.sub),
    ("mul", operator.mul),
    ("truediv", operator.truediv),
    ("eq", operator.eq),
    ("ne", operator.ne),
    ("lt", operator.lt),
    ("le", operator.le),
    ("gt", operator.gt),
    ("ge", operator.ge),
    ("pow", operator.pow),
    ("floordiv", operator.floordiv),
    ("mod", operator.mod),
]
DUNDERS = [
    "__add__",
    "__radd__",
    "__sub__",
    "__rsub__",
    "__mul__",
    "__rmul__",
    "__div__",
    "__rdiv__",
    "__truediv__",
    "__rtruediv__",
    "__eq__",
    "__ne__",
    "__lt__",
    "__le__",
    "__gt__",
    "__ge__",
]
UNOPS = [
    ("neg", operator.neg),
    ("int", int),
    ("repr", repr),
    ("hash", hash),
    ("bool", bool),
    ("inv", lambda x: x.inv()),
    ("index", operator.index),
]


def int_samples(p, rng, k):
    base = [0, 1, -1, 2, p - 1, p, p + 1, -p, 2 * p + 3, -p - 5, p // 2, 2**600 + 7]
    return base + [rng.randrange(p) for _ in range(k)] + [rng.randrange(-(p**3), p**3)]


def cases(U, seed):
    """
    Deterministic stream of (label, thunk, operands); the two universes yield
    structurally identical streams.
    """
    rng = random.Random(seed)
    M = U.M

    # ---------------------------------------------------------------- prime fields
    for name in ["bn", "bls", "m127", "one", "comp"] + list(SMALL):
        F, p = U.F[name], U.p[name]
        other_F = U.F["p7" if name != "p7" else "p11"]
        small = name in SMALL
        ints = (
            list(range(-p - 1, 2 * p + 2)) if small else int_samples(p, rng, 6)
        ) + INTLIKE
        elems = [F(v) for v in (range(p) if small else ints)]
        rights = (
            elems
            + ints
            + [other_F(3), other_F(0), F(F(2)), F(other_F(6))]
            + MALFORMED
            + [U.F2["p7"]([1, 2]), U.F12[name if name in U.F12 else "p7"]([1] * 12)]
        )
        for v in ints + MALFORMED + [other_F(5), F(1)]:
            yield f"FQ[{name}] ctor {v!r}", (lambda v=v: F(v)), (v,)
        yield f"FQ[{name}] one", F.one, ()
        yield f"FQ[{name}] zero", F.zero, ()
        if not small:
            elems = elems[:14]
        for a in elems:
            for uname, uf in UNOPS:
                yield f"FQ[{name}] {uname} {a!r}", (lambda a=a, uf=uf: uf(a)), (a,)
            for b in rights:
                for oname, op in BINOPS:
                    if oname in ("pow", "floordiv", "mod"):
                        continue
                    yield (
                        f"FQ[{name}] {a!r} {oname} {b!r}",
                        (lambda a=a, b=b, op=op: op(a, b)),
                        (a, b),
                    )
                    if not isinstance(b, M.FQ):
                        yield (
                            f"FQ[{name}] {b!r} r{oname} {a!r}",
                            (lambda a=a, b=b, op=op: op(b, a)),
                            (a, b),
                        )
                if small or rng.random() < 0.15:
                    for d in DUNDERS:
                        yield (
                            f"FQ[{name}] {a!r}.{d}({b!r})",
                            (lambda a=a, b=b, d=d: getattr(a, d)(b)),
                            (a, b),
                        )
            exps = [0, 1, 2, 3, 5, p - 1, p, p + 1, True, -1, -7, 0.0, 2.0, "2", None]
            exps += list(range(2 * p + 3)) if small else [p**12, 2**3000 + 1, p**2 - 1]
            for e in exps:
                yield f"FQ[{name}] {a!r} ** {e!r}", (lambda a=a, e=e: a**e), (a,)
            for b in [2, a]:
                yield f"FQ[{name}] {b!r} ** {a!r}", (lambda a=a, b=b: b**a), (a,)
    yield "FQ without modulus", (lambda: U.Fnomod(3)), ()
    yield "FQP without modulus", (lambda: M.FQP([1], [1])), ()
    yield "FQ2 without modulus", (lambda: M.FQ2([1, 1])), ()
    yield "FQ12 without modulus", (lambda: M.FQ12([1] * 12)), ()
    yield (
        "FQ2 without coeffs",
        (lambda: type("X", (M.FQ2,), {"field_modulus": 7})([1, 1])),
        (),
    )
    yield (
        "FQ12 without coeffs",
        (lambda: type("X", (M.FQ12,), {"field_modulus": 7})([1] * 12)),
        (),
    )

    # ------------------------------------------------------------ extension fields
    def coeff_vectors(p, n, k):
        vs = [
            [0] * n,
            [1] + [0] * (n - 1),
            [-1] + [0] * (n - 1),
            [p - 1] * n,
            [0] * (n - 1) + [1],
            [0] * (n - 1) + [p - 1],
            [1] * n,
            [p, -p, 2 * p + 1, -1, p + 1, 2**300][:n] + [0] * (n - 6),
            [True] + [False] * (n - 1),
        ]
        for _ in range(k):
            vs.append([rng.randrange(p) for _ in range(n)])
        sp = [0] * n
        sp[rng.randrange(n)] = rng.randrange(p)
        sp[rng.randrange(n)] = rng.randrange(1, p) if p > 1 else 0
        vs.append(sp)
        vs.append([rng.randrange(-(p**2), p**2) for _ in range(n)])
        return vs

    def ext_cases(tag, E, n, p, Fp, vectors, others, exps, full_pairs, pow_elems=None):
        yield f"{tag} one", E.one, ()
        yield f"{tag} zero", E.zero, ()
        for bad in ([], [1] * (n + 1), [1] * (n - 1), None, 5, "ab"[:n], [1.5] * n):
            yield f"{tag} ctor {bad!r}", (lambda bad=bad: E(bad)), (bad,)
        elems = [E(v) for v in vectors]
        elems.append(E([Fp(3 + i) for i in range(n)]))
        elems.append(E(tuple(range(n))))
        for a in elems:
            for uname, uf in UNOPS:
                yield f"{tag} {uname} {a!r}", (lambda a=a, uf=uf: uf(a)), (a,)
            yield f"{tag} a*inv(a) {a!r}", (lambda a=a: a * a.inv()), (a,)
            yield f"{tag} inv(a)*a {a!r}", (lambda a=a: a.inv() * a), (a,)
        for a in elems if pow_elems is None else elems[:pow_elems] + elems[-2:]:
            for e in exps:
                yield f"{tag} {a!r} ** {e!r}", (lambda a=a, e=e: a**e), (a,)
        pairs = (
            list(itertools.product(elems, elems))
            if full_pairs is True
            else [(rng.choice(elems), rng.choice(elems)) for _ in range(full_pairs or 12)]
            + [(elems[0], elems[1]), (elems[1], elems[0]), (elems[3], elems[3])]
        )
        for a, b in pairs:
            for oname, op in BINOPS[:6]:
                yield (
                    f"{tag} {a!r} {oname} {b!r}",
                    (lambda a=a, b=b, op=op: op(a, b)),
                    (a, b),
                )
            yield f"{tag} (a/b)*b", (lambda a=a, b=b: (a / b) * b), (a, b)
        scal = [0, 1, -1, 2, p - 1, p, p + 3, -p - 2, True, Weird(4)]
        scal += [Fp(0), Fp(1), Fp(p - 1), Fp(2)]
        for a in elems[:3] + elems[-2:]:
            for b in scal + others + MALFORMED:
                for oname, op in BINOPS:
                    if oname == "pow":
                        continue
                    yield (
                        f"{tag} {a!r} {oname} {b!r}",
                        (lambda a=a, b=b, op=op: op(a, b)),
                        (a, b),
                    )
                    yield (
                        f"{tag} {b!r} r{oname} {a!r}",
                        (lambda a=a, b=b, op=op: op(b, a)),
                        (a, b),
                    )
                for d in ("__mul__", "__rmul__", "__div__", "__truediv__", "__add__"):
                    yield (
                        f"{tag} {a!r}.{d}({b!r})",
                        (lambda a=a, b=b, d=d: getattr(a, d)(b)),
                        (a, b),
                    )

    for name, p, m2, m12 in FIELDS:
        small = name in SMALL
        Fp = U.F[name]
        foreign = [
            U.F2["p7" if name != "p7" else "p11"]([1, 2]),
            U.F12["p3" if name != "p3" else "p5"]([2] * 12),
            U.ext["deg3"]([1, 2, 3]),
            U.ext["deg1"]([4]),
            U.F["p5" if name != "p5" else "p3"](2),
        ]
        # quadratic extension
        E2 = U.F2[name]
        if small and p <= 7:
            vec2 = [list(c) for c in itertools.product(range(p), repeat=2)]
            full = True
        else:
            vec2 = coeff_vectors(p, 2, 4)
            full = True if small else 0
        big = [p**12, p**2 - 1, p**2 - 2, 2**2100 + 3]
        exps2 = [0, 1, 2, 3, p, p - 1, p * p, p * p - 1, -1, True, 0.0, "1"]
        exps2 += list(range(4, 12)) if small else big[:2]
        yield from ext_cases(
            f"FQ2[{name}]", E2, 2, p, Fp, vec2, foreign + [U.F12[name]([1] * 12)], exps2, full,
            None if small else 3,
        )
        # degree-12 extension
        E12 = U.F12[name]
        vec12 = coeff_vectors(p, 12, 2 if not small else 4)
        exps12 = [0, 1, 2, 3, 7, p, True, -2]
        if small:
            exps12 += [p**12 - 1, p**12, p**6 + 1]
        elif name == "bn":
            exps12 += [p + 1]
        yield from ext_cases(
            f"FQ12[{name}]", E12, 12, p, Fp, vec12, foreign + [E2([1, 1])], exps12,
            10 if small else 4,
            None if small else 2,
        )
    # one very large exponent in the 254-bit degree-12 field (p^12 and beyond)
    a = U.F12["bn"]([3, 1, 4, 1, 5, 9, 2, 6, 5, 3, 5, 8])
    yield "FQ12[bn] a ** p^12", (lambda: a ** (BN_P**12)), (a,)
    a2 = U.F2["bls"]([BLS_P - 1, 5])
    yield "FQ2[bls] a ** p^12", (lambda: a2 ** (BLS_P**12)), (a2,)
    yield "FQ2[bls] a ** (p^2-1)", (lambda: a2 ** (BLS_P**2 - 1)), (a2,)

    # other extensions sharing FQP (degree 1, degree 3, reducible, malformed moduli)
    for key, E in U.ext.items():
        n = U.ext_deg[key]
        p = E.field_modulus
        Fp = type("FQ_ext", (M.FQ,), {"field_modulus": p})
        vecs = (
            [list(c) for c in itertools.product(range(p), repeat=n)]
            if p**n <= 49
            else coeff_vectors(p, max(n, 6), 4)
        )
        vecs = [v[:n] for v in vecs]
        foreign = [U.F2["p7"]([1, 2]), U.ext["deg3"]([1, 2, 3]), U.ext["deg1"]([4])]
        yield from ext_cases(
            f"Ext[{key}]", E, n, p, Fp, vecs, foreign, [0, 1, 2, 3, p, p**n - 1, -1],
            True if p**n <= 7 else (150 if p**n <= 49 else 20),
        )


COST = {}


def compare(seed, shuffle_seed=None, only=None):
    """Run both streams in lockstep; return {index: outcome} of the edited module."""
    co, cn = list(cases(UO, seed)), list(cases(UN, seed))
    assert len(co) == len(cn) and len(co) > 1000, (len(co), len(cn))
    order = list(range(len(co))) if only is None else sorted(only)
    if shuffle_seed is not None:
        random.Random(shuffle_seed).shuffle(order)
    seen = {}
    stats = {"ok": 0, "exc": {}}
    for k in order:
        (lo, to, ao), (ln, tn, an) = co[k], cn[k]
        assert lo == ln, (lo, ln)
        t_case = time.time()
        ro, rn = outcome(to, ao), outcome(tn, an)
        COST[k] = time.time() - t_case
        if ro != rn:
            print("MISMATCH", lo)
            print("  pristine:", ro)
            print("  edited  :", rn)
            sys.exit(1)
        seen[k] = rn
        if rn[0][0] == "ok":
            stats["ok"] += 1
        else:
            stats["exc"][rn[0][1]] = stats["exc"].get(rn[0][1], 0) + 1
    return seen, stats, [c[0] for c in cn]


first, stats, labels = compare(seed=20240611)
print(f"{len(first)} cases identical; results ok={stats['ok']} exceptions={stats['exc']}")
print(f"  elapsed {time.time() - T0:.1f}s")

# Call histories: a random quarter of the (cheap) cases again (fresh but equal
# arguments) in a different, shuffled order -- every case must still agree between the two versions and must
# give what it gave the first time.
pick = random.Random(7)
subset = [k for k in first if COST[k] < 0.02 and pick.random() < 0.25]
second, stats2, labels2 = compare(seed=20240611, shuffle_seed=99, only=subset)
assert labels == labels2
for k in second:
    if first[k] != second[k]:
        print("HISTORY DEPENDENCE", labels[k], first[k], second[k])
        sys.exit(1)
print(f"repeat in shuffled order: {len(second)} cases identical and history independent")

# The same objects reused across interleaved calls.
res = []
for U in (UO, UN):
    F, E2, E12 = U.F["bn"], U.F2["bn"], U.F12["p5"]
    x, y = F(5), F(BN_P - 2)
    u, v = E2([3, 4]), E2([BN_P - 1, 7])
    s, t = E12(list(range(12))), E12([4] * 12)
    log = []
    for rnd in range(3):
        log.append(norm(x + y))
        log.append(norm(u * v))
        log.append(norm(x - 7))
        log.append(norm(s * t))
        log.append(norm(9 - x))
        log.append(norm(u * v))
        log.append(norm(x * y))
        log.append(norm((s * t) / t))
        log.append(norm(v * u))
        log.append(norm(x + y))
        log.append(norm([x, y, u, v, s, t]))
    assert log[: len(log) // 3] == log[len(log) // 3 : 2 * len(log) // 3] == log[2 * len(log) // 3 :]
    res.append(log)
assert res[0] == res[1]
print("interleaved reuse of the same objects: identical")
print(f"total elapsed {time.time() - T0:.1f}s")
print("EQUIVALENT")
