import os, sys; sys.path.insert(0, os.getcwd())  # noqa: E401,E702

"""
Equivalence demonstration for refactoring r1 (property C17).

Loads the pristine py_ecc/optimized_bls12_381/optimized_curve.py (saved next to this
script) under another module name and compares add / multiply / the subgroup test
built from them against the refactored module of the current working tree, on
subgroup points, points with cofactor components, random curve points, every
representation of infinity, rescaled representatives and malformed inputs.
"""

import importlib.util
import random

HERE = os.path.dirname(os.path.abspath(__file__))


def load(name, path):
    spec = importlib.util.spec_from_file_location(name, path)
    mod = importlib.util.module_from_spec(spec)
    sys.modules[name] = mod
    spec.loader.exec_module(mod)
    return mod


import py_ecc.optimized_bls12_381.optimized_curve as new  # noqa: E402

assert os.path.abspath(new.__file__).startswith(os.getcwd()), new.__file__
old = load(
    "py_ecc.optimized_bls12_381.optimized_curve_pristine",
    os.path.join(HERE, "pristine", "optimized_curve.py"),
)
assert old is not new and old.multiply is not new.multiply

from py_ecc.bls.constants import G2_COFACTOR  # noqa: E402
from py_ecc.bls.point_compression import modular_squareroot_in_FQ2  # noqa: E402
from py_ecc.fields import (  # noqa: E402
    optimized_bls12_381_FQ as FQ,
    optimized_bls12_381_FQ2 as FQ2,
    optimized_bls12_381_FQ12 as FQ12,
)
from py_ecc.optimized_bls12_381.constants import H_EFF_G1, H_EFF_G2  # noqa: E402

rng = random.Random(0xC17)
q = old.field_modulus
r = old.curve_order
G1_COFACTOR = 0x396C8C005555E1568C00AAAB0000AAAB
assert (q + 1 - (-0xD201000000010000 + 1)) == G1_COFACTOR * r  # #E(Fp) = h1 * r


# ---------------------------------------------------------------- canonical forms
def canon(v):
    """Structural, class-sensitive rendering of a value (or of a raised exception)."""
    if isinstance(v, (FQ,)):
        return (type(v).__name__, v.n)
    if hasattr(v, "coeffs"):
        return (type(v).__name__, tuple(canon(c) for c in v.coeffs))
    if isinstance(v, tuple):
        return ("tuple",) + tuple(canon(c) for c in v)
    if isinstance(v, list):
        return ("list",) + tuple(canon(c) for c in v)
    if isinstance(v, bool) or v is None or isinstance(v, (int, float, str, bytes)):
        return (type(v).__name__, v)
    return ("obj", type(v).__name__, repr(v))


def run(f, *args):
    """-> (status, canonical value or exception class name, raw value)"""
    try:
        v = f(*args)
        return ("ok", canon(v), v)
    except RecursionError:
        return ("exc", "RecursionError", None)
    except Exception as e:  # noqa: BLE001
        return ("exc", type(e).__name__, None)


checked = 0


def same(fname, *args, identity_of=None):
    """Both versions agree on value / exception class (and on returning an operand)."""
    global checked
    fo, fn = getattr(old, fname), getattr(new, fname)
    a, b = run(fo, *args), run(fn, *args)
    assert a[:2] == b[:2], (fname, args, a[:2], b[:2])
    if identity_of is not None and a[0] == "ok":
        for cand in identity_of:
            assert (a[2] is cand) == (b[2] is cand), (fname, "identity", args)
    checked += 1
    return a[2], b[2]


# ---------------------------------------------------------------- point factories
def rand_g1_curve_point():
    while True:
        x = FQ(rng.randrange(q))
        y2 = x * x * x + old.b
        y = y2 ** ((q + 1) // 4)
        if y * y == y2:
            if rng.random() < 0.5:
                y = -y
            return (x, y, FQ(1))


def rand_g2_curve_point():
    while True:
        x = FQ2([rng.randrange(q), rng.randrange(q)])
        y = modular_squareroot_in_FQ2(x * x * x + old.b2)
        if y is not None:
            if rng.random() < 0.5:
                y = -y
            return (x, y, FQ2.one())


def rescale(pt, lam):
    return tuple(c * lam for c in pt)


def rand_scalar_like(pt):
    if isinstance(pt[0], FQ2):
        return FQ2([rng.randrange(1, q), rng.randrange(q)])
    return FQ(rng.randrange(1, q))


def torsion(pt, group_order_cofactor, ell):
    """Component of order dividing ell of a curve point (may be infinity)."""
    return old.multiply(pt, (group_order_cofactor // ell) * r)


points = []  # (label, point, b)

# subgroup points
for k in [1, 2, r - 1, rng.randrange(r)]:
    points.append((f"{k}G1", old.multiply(old.G1, k), old.b))
    points.append((f"{k}G2", old.multiply(old.G2, k), old.b2))

# random curve points (carry a cofactor component with overwhelming probability)
R1 = [rand_g1_curve_point() for _ in range(3)]
R2 = [rand_g2_curve_point() for _ in range(3)]
for i, p in enumerate(R1):
    points.append((f"R1_{i}", p, old.b))
for i, p in enumerate(R2):
    points.append((f"R2_{i}", p, old.b2))

# pure cofactor components, full and of small prime order, and kG + T
T1_full = old.multiply(R1[0], r)
T2_full = old.multiply(R2[0], r)
assert not old.is_inf(T1_full) and not old.is_inf(T2_full)
points.append(("T1_full", T1_full, old.b))
points.append(("T2_full", T2_full, old.b2))
small1, small2 = [], []
for ell in (3, 11, 10177):
    assert G1_COFACTOR % ell == 0
    for R in R1:
        T = torsion(R, G1_COFACTOR, ell)
        if not old.is_inf(T):
            assert old.is_inf(old.multiply(T, ell))
            small1.append((ell, T))
            break
for ell in (13, 23, 2713, 11953):
    assert G2_COFACTOR % ell == 0
    for R in R2:
        T = torsion(R, G2_COFACTOR, ell)
        if not old.is_inf(T):
            assert old.is_inf(old.multiply(T, ell))
            small2.append((ell, T))
            break
assert small1 and small2
for ell, T in small1:
    points.append((f"T1_{ell}", T, old.b))
    k = rng.randrange(1, r)
    points.append((f"kG1+T1_{ell}", old.add(old.multiply(old.G1, k), T), old.b))
for ell, T in small2:
    points.append((f"T2_{ell}", T, old.b2))
    k = rng.randrange(1, r)
    points.append((f"kG2+T2_{ell}", old.add(old.multiply(old.G2, k), T), old.b2))
points.append(("kG1+T1_full", old.add(old.multiply(old.G1, 77), T1_full), old.b))
points.append(("kG2+T2_full", old.add(old.multiply(old.G2, 77), T2_full), old.b2))

for label, p, b in points:
    assert old.is_on_curve(p, b), label

# representations of infinity
infs1 = [old.Z1, (FQ(0), FQ(0), FQ(0)), (FQ(5), FQ(7), FQ(0)), (FQ(0), FQ(1), FQ(0))]
infs2 = [
    old.Z2,
    (FQ2.zero(), FQ2.zero(), FQ2.zero()),
    (FQ2([5, 1]), FQ2([7, 2]), FQ2.zero()),
]
for i, z in enumerate(infs1):
    points.append((f"inf1_{i}", z, old.b))
for i, z in enumerate(infs2):
    points.append((f"inf2_{i}", z, old.b2))

# rescaled representatives of everything
scaled = []
for label, p, b in points:
    scaled.append((label + "*lam", rescale(p, rand_scalar_like(p)), b))
points += scaled

# ---------------------------------------------------------------- the comparisons
scalars_full = [0, 1, 2, 3, 5, 8, r - 1, r + 1, 2 * r]
scalars_g2_extra = [G2_COFACTOR]
n_accept = n_reject = 0
for label, p, b in points:
    is_g2 = isinstance(p[0], FQ2)
    ns = scalars_full + (scalars_g2_extra if is_g2 else [G1_COFACTOR])
    ns = ns + [rng.randrange(r)]
    for n in ns:
        same("multiply", p, n, identity_of=[p])
    # the subgroup test as composed in py_ecc.bls.g2_primitives
    mo, mn = same("multiply", p, r, identity_of=[p])
    so, sn = old.is_inf(mo), new.is_inf(mn)
    assert so is sn and isinstance(sn, bool), label
    n_accept += so
    n_reject += not so
    # cofactor clearing: identical result, and it lands in the subgroup
    h = H_EFF_G2 if is_g2 else H_EFF_G1
    co, cn = same("multiply", p, h, identity_of=[p])
    lo, ln = same("multiply", cn, r)
    assert new.is_inf(ln) and old.is_inf(lo), label
    same("double", p)
assert n_accept and n_reject, (n_accept, n_reject)

# add: every branch (neutral operands, doubling, opposite points, generic), both orders
g1_like = [(lbl, p) for lbl, p, b in points if isinstance(p[0], FQ)]
g2_like = [(lbl, p) for lbl, p, b in points if isinstance(p[0], FQ2)]
for fam in (g1_like, g2_like):
    for i, (la, a) in enumerate(fam):
        partners = [a, old.neg(a), rescale(a, rand_scalar_like(a))]
        partners.append(rescale(old.neg(a), rand_scalar_like(a)))
        partners += [fam[(i + 1) % len(fam)][1], fam[(i * 7 + 3) % len(fam)][1]]
        partners += [p for lbl, p in fam if lbl.startswith("inf")][:4]
        for bpt in partners:
            same("add", a, bpt, identity_of=[a, bpt])
            same("add", bpt, a, identity_of=[a, bpt])

# FQ12 points go through the same code
P12 = old.twist(old.G2)
for n in (0, 1, 2, 3, 10, 11):
    same("multiply", P12, n, identity_of=[P12])
same("add", P12, P12)
same("add", P12, old.neg(P12))
same("add", P12, (FQ12.one(), FQ12.one(), FQ12.zero()))
same("add", (FQ12.one(), FQ12.one(), FQ12.zero()), P12)

# malformed scalars / points: same exception classes (or same values)
G1, G2 = old.G1, old.G2
lim = sys.getrecursionlimit()
sys.setrecursionlimit(400)  # keep the diverging negative-scalar recursion cheap
try:
    bad_scalars = [-1, -2, -r, True, False, 2.0, 3.0, 5.5, 2.5, 0.0, 1.0, 0.5, 1e30,
                   float("inf"), float("nan"), "3", "", None, b"\x01", [1], (2,), 1 + 0j,
                   FQ(3), FQ(1), FQ(0), 2 ** 500]
    for P in (G1, G2, old.Z1, (FQ(0), FQ(0), FQ(0))):
        for n in bad_scalars:
            same("multiply", P, n, identity_of=[P])
    bad_points = [
        None, (), (FQ(1),), (FQ(1), FQ(2)), (FQ(1), FQ(2), FQ(3), FQ(4)),
        (1, 2, 3), (1, 2, 0), (FQ(1), FQ(2), 1), (FQ(1), FQ(2), 0), (FQ(1), 2, FQ(1)),
        (FQ(1), FQ(2), FQ2.one()), (FQ2.one(), FQ2.one(), FQ(1)), (FQ(1), FQ(2), None),
        [G1[0], G1[1], G1[2]], "abc", (G1[0], G1[1]), (FQ(1), FQ(2), FQ(0), FQ(9)),
        (None, None, None), (FQ(1), None, FQ(0)),
    ]
    good = [G1, G2, old.Z1, old.Z2, (FQ(0), FQ(0), FQ(0))]
    for bp in bad_points:
        # raw-int coordinates are never reduced, so keep their scalars tiny
        raw_ints = isinstance(bp, tuple) and any(type(c) is int for c in bp)
        for n in (0, 1, 2, 3, 6, 7, "x", None, 2.0) + (() if raw_ints else (r, -1)):
            same("multiply", bp, n, identity_of=[bp])
        same("double", bp)
        for g in good + bad_points:
            same("add", bp, g, identity_of=[bp, g])
            same("add", g, bp, identity_of=[bp, g])
    # mixing the two groups
    same("add", G1, G2)
    same("add", G2, G1)
    same("add", old.Z1, G2)
    same("add", G2, old.Z1)
    same("add", old.Z2, G1)
finally:
    sys.setrecursionlimit(lim)

# purity: arguments are never mutated
P = (FQ(G1[0].n), FQ(G1[1].n), FQ(G1[2].n))
before = canon(P)
new.multiply(P, r)
new.add(P, new.double(P))
assert canon(P) == before

# module-level data unchanged
for name in ("field_modulus", "curve_order", "b", "b2", "b12", "G1", "G2", "G12", "Z1",
             "Z2", "w"):
    assert canon(getattr(old, name)) == canon(getattr(new, name)), name
assert sorted(n for n in dir(old) if not n.startswith("__")) == sorted(
    n for n in dir(new) if not n.startswith("__")
)

print(f"r1 equivalence OK: {checked} call comparisons, "
      f"{n_accept} accepted / {n_reject} rejected by the subgroup test")
