import os, sys; sys.path.insert(0, os.getcwd())  # noqa: E702
"""
Equivalence demonstration for a refactoring of py_ecc/bls/point_compression.py
and py_ecc/bls/g2_primitives.py (C04).

Run as:  cd /tmp/wt2/C04 && /venv/bin/python /tmp/twin/C04/r3/equiv.py

The pristine point_compression.py and g2_primitives.py (saved next to this
script under pristine/) are loaded with importlib under other module names,
and a second copy of the (untouched) ciphersuites.py is loaded on top of them,
so that a complete pristine decoding chain and the refactored one live side by
side in one process.

Part 1 compares the decoders / encoders function by function on many integers
and byte strings (value, type and exception class + message).
Part 2 runs the five verification entry points of all three suites on a corpus
of well-formed, malformed and unsafe keys / signatures and compares outcomes
and the sequence of arguments that reach `pairing`.
"""
import importlib
import importlib.util
import random
import time

HERE = os.path.dirname(os.path.abspath(__file__))
T0 = time.time()


def load_as(name, path, overrides=None):
    """Load the source file `path` as module `name` (inside package py_ecc.bls)."""
    overrides = overrides or {}
    saved = {k: sys.modules.get(k) for k in overrides}
    sys.modules.update(overrides)
    try:
        spec = importlib.util.spec_from_file_location(name, path)
        mod = importlib.util.module_from_spec(spec)
        sys.modules[name] = mod
        spec.loader.exec_module(mod)
    finally:
        for k, v in saved.items():
            if v is None:
                sys.modules.pop(k, None)
            else:
                sys.modules[k] = v
    return mod


import py_ecc  # noqa: E402

assert os.path.realpath(py_ecc.__file__).startswith(
    os.path.realpath(os.getcwd()) + os.sep
), "run me with the worktree as current directory"

import py_ecc.bls.ciphersuites as NEW  # noqa: E402
from py_ecc.bls import g2_primitives as G2P_NEW  # noqa: E402
from py_ecc.bls import point_compression as PC_NEW  # noqa: E402

PC_OLD = load_as(
    "py_ecc.bls.point_compression_pristine",
    os.path.join(HERE, "pristine", "point_compression.py"),
)
G2P_OLD = load_as(
    "py_ecc.bls.g2_primitives_pristine",
    os.path.join(HERE, "pristine", "g2_primitives.py"),
    overrides={"py_ecc.bls.point_compression": PC_OLD},
)
OLD = load_as(
    "py_ecc.bls.ciphersuites_pristine",
    NEW.__file__,
    overrides={"py_ecc.bls.g2_primitives": G2P_OLD},
)
# the two chains really are disjoint
assert G2P_OLD.decompress_G1 is PC_OLD.decompress_G1
assert G2P_OLD.decompress_G2 is PC_OLD.decompress_G2
assert OLD.pubkey_to_G1 is G2P_OLD.pubkey_to_G1
assert OLD.signature_to_G2 is G2P_OLD.signature_to_G2
assert NEW.pubkey_to_G1 is G2P_NEW.pubkey_to_G1
assert G2P_NEW.decompress_G2 is PC_NEW.decompress_G2
assert PC_NEW.decompress_G1 is not PC_OLD.decompress_G1
assert sys.modules["py_ecc.bls.point_compression"] is PC_NEW
assert sys.modules["py_ecc.bls.g2_primitives"] is G2P_NEW

# the corpus is generated with the pristine chain
g2p = G2P_OLD
pc = PC_OLD
from py_ecc.bls.constants import POW_2_381, POW_2_382, POW_2_383  # noqa: E402
from py_ecc.optimized_bls12_381 import (  # noqa: E402
    G1,
    G2,
    add,
    b,
    b2,
    curve_order,
    field_modulus as q,
    is_inf,
    is_on_curve,
    multiply,
    normalize,
    pairing as real_pairing,
)

SUITES = ["G2Basic", "G2MessageAugmentation", "G2ProofOfPossession"]

# --------------------------------------------------------------------------
# pairing recorder (shared memo: pairing itself is untouched and pure)
# --------------------------------------------------------------------------
_memo = {}
UNSAFE = []


def _key(pt):
    if is_inf(pt):
        return "inf"
    x, y = normalize(pt)
    cx = tuple(x.coeffs) if hasattr(x, "coeffs") else (x.n,)
    cy = tuple(y.coeffs) if hasattr(y, "coeffs") else (y.n,)
    return (cx, cy)


def make_recorder(log):
    def recorder(Q, P, final_exponentiate=True):
        k = (_key(Q), _key(P), final_exponentiate)
        log.append(k)
        if k not in _memo:
            ok = (
                is_on_curve(Q, b2)
                and is_on_curve(P, b)
                and is_inf(multiply(Q, curve_order))
                and is_inf(multiply(P, curve_order))
                and not is_inf(P)
            )
            if not ok:
                UNSAFE.append(k)
            _memo[k] = real_pairing(Q, P, final_exponentiate=final_exponentiate)
        return _memo[k]

    return recorder


LOG_OLD, LOG_NEW = [], []
OLD.pairing = make_recorder(LOG_OLD)
NEW.pairing = make_recorder(LOG_NEW)

# hash_to_G2 is untouched and pure as well: share a memo to save time
_h2c_memo = {}
_real_hash_to_G2 = NEW.hash_to_G2
assert OLD.hash_to_G2 is _real_hash_to_G2


def hash_to_G2_memo(message, DST, hash_function):
    k = (message, DST, hash_function)
    if k not in _h2c_memo:
        _h2c_memo[k] = _real_hash_to_G2(message, DST, hash_function)
    return _h2c_memo[k]


OLD.hash_to_G2 = hash_to_G2_memo
NEW.hash_to_G2 = hash_to_G2_memo

# --------------------------------------------------------------------------
# corpus
# --------------------------------------------------------------------------
rng = random.Random(0xC04)
B = NEW.G2Basic
MSG = b"message-0"
SKS = [1, 2, 123456789, curve_order - 1]
PKS = [B.SkToPk(sk) for sk in SKS]


def enc48(z):
    return (z % (1 << 384)).to_bytes(48, "big")


def with_flags(z, c, bb, a):
    return (z % POW_2_381) + a * POW_2_381 + bb * POW_2_382 + c * POW_2_383


def g1_x_candidates():
    on, off = [], []
    x = 1
    while len(on) < 3 or len(off) < 2:
        rhs = (x**3 + 4) % q
        y = pow(rhs, (q + 1) // 4, q)
        (on if y * y % q == rhs else off).append(x)
        x += 1
    return on[:3], off[:2]


def bad_keys():
    out = {}
    pk = PKS[2]
    z = int.from_bytes(pk, "big")
    x = z % POW_2_381
    out["empty"] = b""
    out["lead0"] = b"\x00" + pk
    out["lead_ff"] = b"\xff" + pk
    out["trail0"] = pk + b"\x00"
    out["trail_pk"] = pk + pk
    out["trunc_front"] = pk[1:]
    out["trunc_back"] = pk[:-1]
    out["trunc_1"] = pk[:1]
    out["pad96_left"] = b"\x00" * 48 + pk
    out["pad96_right"] = pk + b"\x00" * 48
    out["pad200"] = pk + b"\x00" * 152
    out["zeros48"] = b"\x00" * 48
    out["ff48"] = b"\xff" * 48
    for c in (0, 1):
        for bb in (0, 1):
            for a in (0, 1):
                out[f"flags{c}{bb}{a}"] = enc48(with_flags(x, c, bb, a))
                out[f"x0_flags{c}{bb}{a}"] = enc48(with_flags(0, c, bb, a))
    for name, xv in [
        ("pm1", q - 1),
        ("p", q),
        ("pp1", q + 1),
        ("max", POW_2_381 - 1),
        ("one", 1),
    ]:
        for a in (0, 1):
            out[f"x_{name}_a{a}"] = enc48(with_flags(xv, 1, 0, a))
    on, off = g1_x_candidates()
    for xv in off:
        out[f"offcurve_{xv}"] = enc48(with_flags(xv, 1, 0, 0))
    for xv in on:
        for a in (0, 1):
            out[f"oncurve_cofactor_{xv}_a{a}"] = enc48(with_flags(xv, 1, 0, a))
    # subgroup point + point of the cofactor torsion
    R = g2p.pubkey_to_G1(enc48(with_flags(on[0], 1, 0, 0)))
    T = multiply(R, curve_order)
    assert not is_inf(T)
    mixed = add(g2p.pubkey_to_G1(pk), T)
    out["sub_plus_torsion"] = g2p.G1_to_pubkey(mixed)
    out["pure_torsion"] = g2p.G1_to_pubkey(T)
    for n in [0, 1, 2, 31, 47, 48, 49, 95, 96, 97, 144, 199, 200] + [
        rng.randrange(0, 201) for _ in range(12)
    ]:
        out[f"rand_len{n}_{len(out)}"] = bytes(rng.randrange(256) for _ in range(n))
    for i in range(12):
        r = bytearray(rng.randrange(256) for _ in range(48))
        r[0] = (r[0] & 0x1F) | 0x80 | (0x20 if i % 2 else 0)
        out[f"rand48_c1_{i}"] = bytes(r)
    return out


def g2_candidates():
    """Encodings (z1, z2) with c_flag=1 that decode / fail to decode."""
    on, off = [], []
    k = 0
    while len(on) < 2 or len(off) < 2:
        z1, z2 = with_flags(k % 3, 1, 0, 0), k
        try:
            pc.decompress_G2((z1, z2))
            on.append((z1, z2))
        except ValueError:
            off.append((z1, z2))
        k += 1
    return on[:2], off[:2]


def enc96(z1, z2):
    return enc48(z1) + enc48(z2)


def bad_sigs(sig):
    out = {}
    z1 = int.from_bytes(sig[:48], "big")
    z2 = int.from_bytes(sig[48:], "big")
    out["empty"] = b""
    out["lead0"] = b"\x00" + sig
    out["trail0"] = sig + b"\x00"
    out["trunc_front"] = sig[1:]
    out["trunc_back"] = sig[:-1]
    out["half"] = sig[:48]
    out["second_half"] = sig[48:]
    out["pad200"] = sig + b"\x00" * 104
    out["pad192_left"] = b"\x00" * 96 + sig
    out["zeros96"] = b"\x00" * 96
    out["ff96"] = b"\xff" * 96
    out["swapped"] = sig[48:] + sig[:48]
    for c in (0, 1):
        for bb in (0, 1):
            for a in (0, 1):
                out[f"flags{c}{bb}{a}"] = enc96(with_flags(z1, c, bb, a), z2)
                out[f"inf_flags{c}{bb}{a}"] = enc96(with_flags(0, c, bb, a), 0)
                out[f"z2flags{c}{bb}{a}"] = enc96(z1, with_flags(z2, c, bb, a))
    out["inf_z2_one"] = enc96(with_flags(0, 1, 1, 0), 1)
    for name, xv in [("pm1", q - 1), ("p", q), ("pp1", q + 1), ("max", POW_2_381 - 1)]:
        out[f"x1_{name}"] = enc96(with_flags(xv, 1, 0, 0), z2)
        out[f"x2_{name}"] = enc96(z1, xv)
        out[f"both_{name}"] = enc96(with_flags(xv, 1, 0, 1), xv)
    out["x1_0_x2_0_noinf"] = enc96(with_flags(0, 1, 0, 0), 0)
    on, off = g2_candidates()
    for i, (a1, a2) in enumerate(off):
        out[f"offcurve_{i}"] = enc96(a1, a2)
    for i, (a1, a2) in enumerate(on):
        out[f"oncurve_cofactor_{i}_a0"] = enc96(a1, a2)
        out[f"oncurve_cofactor_{i}_a1"] = enc96(a1 + POW_2_381, a2)
    R = pc.decompress_G2(on[0])
    T = multiply(R, curve_order)
    assert not is_inf(T)
    out["sub_plus_torsion"] = g2p.G2_to_signature(add(g2p.signature_to_G2(sig), T))
    out["pure_torsion"] = g2p.G2_to_signature(T)
    for n in [0, 1, 47, 48, 95, 96, 97, 192, 200] + [
        rng.randrange(0, 201) for _ in range(8)
    ]:
        out[f"rand_len{n}_{len(out)}"] = bytes(rng.randrange(256) for _ in range(n))
    for i in range(10):
        r = bytearray(rng.randrange(256) for _ in range(96))
        r[0] = (r[0] & 0x1F) | 0x80 | (0x20 if i % 2 else 0)
        r[48] &= 0x1F
        out[f"rand96_c1_{i}"] = bytes(r)
    return out


NONBYTES = [None, "00" * 48, 7, bytearray(48), [1, 2], memoryview(PKS[0])]

# --------------------------------------------------------------------------
# running both versions
# --------------------------------------------------------------------------
N_CASES = 0
MISMATCH = []


def outcome(fn, *args):
    try:
        r = fn(*args)
        return ("ret", type(r).__name__, repr(r))
    except BaseException as e:  # noqa: B902
        return ("exc", type(e).__name__)


def both(label, suite, meth, *args, total=True):
    """Call suite.meth(*args) in both versions and compare everything observable."""
    global N_CASES
    N_CASES += 1
    n_old, n_new = len(LOG_OLD), len(LOG_NEW)
    o = outcome(getattr(getattr(OLD, suite), meth), *args)
    n = outcome(getattr(getattr(NEW, suite), meth), *args)
    po, pn = LOG_OLD[n_old:], LOG_NEW[n_new:]
    if o != n or po != pn:
        MISMATCH.append((label, suite, meth, o, n, len(po), len(pn)))
    if total and all(isinstance(a, (bytes, list, tuple)) for a in args):
        # the property itself: a bool, never an exception
        if n[0] != "ret" or n[1] != "bool":
            MISMATCH.append(("NOT-TOTAL", label, suite, meth, n))
    return n


def show(v):
    """Structural description of a result: types and canonical integer contents."""
    if isinstance(v, (tuple, list)):
        return (type(v).__name__,) + tuple(show(e) for e in v)
    if hasattr(v, "coeffs"):
        return (type(v).__name__, tuple((type(c).__name__, int(c)) for c in v.coeffs))
    if hasattr(v, "n"):
        return (type(v).__name__, type(v.n).__name__, int(v.n))
    return (type(v).__name__, repr(v))


def outcome_full(fn, *args):
    try:
        return ("ret", show(fn(*args)))
    except BaseException as e:  # noqa: B902
        return ("exc", type(e).__name__, str(e))


N_FUNC = 0


def same(label, f_old, f_new, *args):
    global N_FUNC
    N_FUNC += 1
    o, n = outcome_full(f_old, *args), outcome_full(f_new, *args)
    if o != n:
        MISMATCH.append((label, [repr(a)[:80] for a in args], o, n))
    return n


def original_needs_negation(y, a_flag1):
    """Verbatim copy of the pristine sign-selection condition of decompress_G2."""
    y_re, y_im = y.coeffs
    return (y_im > 0 and (int(y_im) * 2) // q != int(a_flag1)) or (
        y_im == 0 and (int(y_re) * 2) // q != int(a_flag1)
    )


def function_level(keys, sigs):
    from py_ecc.fields import optimized_bls12_381_FQ as FQ
    from py_ecc.fields import optimized_bls12_381_FQ2 as FQ2

    # ---- G1 decoder ------------------------------------------------------
    zs = []
    xs = list(range(0, 130)) + [q - 2, q - 1, q, q + 1, POW_2_381 - 1, (q - 1) // 2,
                                (q + 1) // 2]
    xs += [int.from_bytes(p, "big") % POW_2_381 for p in PKS]
    for x in xs:
        for f in range(8):
            zs.append(x + f * POW_2_381)
    zs += [rng.getrandbits(384) for _ in range(1500)]
    zs += [rng.getrandbits(381) % q + POW_2_383 + (i % 2) * POW_2_381 for i in range(1500)]
    zs += [rng.getrandbits(n) for n in (0, 1, 8, 380, 385, 400, 768, 1600) for _ in range(5)]
    zs += [z + (1 << 384) for z in zs[:64]]
    n_ok = 0
    for z in zs:
        r = same("decompress_G1", PC_OLD.decompress_G1, PC_NEW.decompress_G1, z)
        n_ok += r[0] == "ret"
    print(f"decompress_G1: {len(zs)} integers ({n_ok} decode)", flush=True)
    for bad in [None, "1", 1.5, b"\x00", -1, -(1 << 383), True]:
        same("decompress_G1 odd", PC_OLD.decompress_G1, PC_NEW.decompress_G1, bad)

    # ---- pubkey_to_G1 on byte strings ------------------------------------
    bs = list(keys.values()) + PKS
    bs += [bytes(rng.randrange(256) for _ in range(n)) for n in range(0, 201, 3)]
    for bts in bs:
        same("pubkey_to_G1", G2P_OLD.pubkey_to_G1, G2P_NEW.pubkey_to_G1, bts)
    for bad in [None, "00" * 48, 5, bytearray(PKS[0]), list(PKS[0]), memoryview(PKS[0])]:
        same("pubkey_to_G1 odd", G2P_OLD.pubkey_to_G1, G2P_NEW.pubkey_to_G1, bad)
    print(f"pubkey_to_G1: {len(bs)} byte strings  {time.time() - T0:.1f}s", flush=True)

    # ---- G2 decoder ------------------------------------------------------
    pairs = []
    for k in range(0, 40):
        for f in (4, 5):
            pairs.append((k % 5 + f * POW_2_381, k))
    for x1 in (0, 1, q - 1, q, q + 1, POW_2_381 - 1):
        for x2 in (0, 1, q - 1, q, q + 1, POW_2_381 - 1, POW_2_383, 1 << 384):
            for f in range(8):
                pairs.append((x1 + f * POW_2_381, x2))
    for s_ in sigs.values():
        if len(s_) == 96:
            pairs.append((int.from_bytes(s_[:48], "big"), int.from_bytes(s_[48:], "big")))
    for i in range(150):
        pairs.append((rng.getrandbits(381) % q + POW_2_383 + (i % 2) * POW_2_381,
                      rng.getrandbits(381) % q))
    pairs += [(rng.getrandbits(384), rng.getrandbits(384)) for _ in range(100)]
    n_ok = 0
    for pr in pairs:
        r = same("decompress_G2", PC_OLD.decompress_G2, PC_NEW.decompress_G2, pr)
        n_ok += r[0] == "ret"
    print(f"decompress_G2: {len(pairs)} pairs ({n_ok} decode)  {time.time() - T0:.1f}s",
          flush=True)
    for bad in [None, 5, (1,), (1, 2, 3), (None, 0), (POW_2_383 + 1, None), ("a", "b")]:
        same("decompress_G2 odd", PC_OLD.decompress_G2, PC_NEW.decompress_G2, bad)

    # ---- signature_to_G2 on byte strings ---------------------------------
    bs = list(sigs.values())
    bs += [bytes(rng.randrange(256) for _ in range(n)) for n in range(0, 201, 5)]
    for bts in bs:
        same("signature_to_G2", G2P_OLD.signature_to_G2, G2P_NEW.signature_to_G2, bts)
    for bad in [None, "00" * 96, 5, bytearray(96), list(range(96))]:
        same("signature_to_G2 odd", G2P_OLD.signature_to_G2, G2P_NEW.signature_to_G2, bad)
    print(f"signature_to_G2: {len(bs)} byte strings  {time.time() - T0:.1f}s", flush=True)

    # ---- sign selection, including a zero imaginary part -----------------
    edge = [0, 1, 2, (q - 1) // 2, (q + 1) // 2, q - 2, q - 1]
    ys = [FQ2([re, im]) for re in edge for im in edge]
    ys += [FQ2([rng.randrange(q), rng.randrange(q)]) for _ in range(200)]
    for y in ys:
        for a in (False, True, 0, 1):
            want = bool(original_needs_negation(y, a))
            got = PC_NEW._sign_bit_FQ2(y) != int(a)
            if want is not got:
                MISMATCH.append(("sign selection", y.coeffs, a, want, got))
        o, n = show(FQ2((y * -1).coeffs)), show(-y)
        if o != n:
            MISMATCH.append(("negation", y.coeffs, o, n))
    assert show(FQ2([1, 0])) == show(FQ2.one())

    # ---- encoders (compress_G2 shares the extracted helper) --------------
    from py_ecc.optimized_bls12_381 import Z1, Z2, double
    pts1 = [Z1, G1, double(G1), multiply(G1, 7), multiply(G1, curve_order - 1),
            (FQ(1), FQ(1), FQ(0)), (FQ(3), FQ(5), FQ(1))]
    pts1 += [PC_OLD.decompress_G1(z) for z in zs[:1000:7]
             if outcome_full(PC_OLD.decompress_G1, z)[0] == "ret"]
    pts2 = [Z2, G2, double(G2), multiply(G2, 7), multiply(G2, curve_order - 1),
            (FQ2([1, 0]), FQ2([1, 0]), FQ2([0, 0])), (FQ2([3, 1]), FQ2([5, 0]), FQ2([1, 0]))]
    pts2 += [PC_OLD.decompress_G2(pr) for pr in pairs[:80]
             if outcome_full(PC_OLD.decompress_G2, pr)[0] == "ret"]
    pts2 += [multiply(pt, 3) for pt in pts2[7:27]]  # non-normalised representatives
    for pt in pts1:
        same("compress_G1", PC_OLD.compress_G1, PC_NEW.compress_G1, pt)
        same("G1_to_pubkey", G2P_OLD.G1_to_pubkey, G2P_NEW.G1_to_pubkey, pt)
    for pt in pts2:
        same("compress_G2", PC_OLD.compress_G2, PC_NEW.compress_G2, pt)
        same("G2_to_signature", G2P_OLD.G2_to_signature, G2P_NEW.G2_to_signature, pt)
    # round trips through the refactored chain
    for pt in pts2[:5] + pts2[7:20]:
        if is_on_curve(pt, b2):
            back = PC_NEW.decompress_G2(PC_NEW.compress_G2(pt))
            assert _key(back) == _key(pt)
    print(f"encoders: {len(pts1)} G1 / {len(pts2)} G2 points; function-level checks: "
          f"{N_FUNC}; mismatches so far: {len(MISMATCH)}  {time.time() - T0:.1f}s", flush=True)


def main():
    keys = bad_keys()
    print(f"{len(keys)} malformed/unsafe keys", flush=True)
    function_level(keys, bad_sigs(NEW.G2Basic.Sign(SKS[2], MSG)))

    # ---- length/type gates and KeyValidate ------------------------------
    for suite in SUITES:
        for name, k in list(keys.items()) + [(f"valid{i}", p) for i, p in enumerate(PKS)]:
            r = both(f"key:{name}", suite, "KeyValidate", k)
            expect = name.startswith("valid") or name in ("flags100", "flags101")
            assert (r == ("ret", "bool", "True")) == expect, (name, r)
            both(f"key:{name}", suite, "_is_valid_pubkey", k)
        for nb in NONBYTES:
            both(f"nonbytes:{type(nb).__name__}", suite, "KeyValidate", nb, total=False)
            both(f"nonbytes:{type(nb).__name__}", suite, "_is_valid_pubkey", nb, total=False)
            both(f"nonbytes:{type(nb).__name__}", suite, "_is_valid_signature", nb, total=False)
            both(f"nonbytes:{type(nb).__name__}", suite, "_is_valid_message", nb, total=False)
    print(f"gates/KeyValidate done {time.time() - T0:.1f}s", flush=True)

    for suite in SUITES:
        S = getattr(NEW, suite)
        sk, pk = SKS[2], PKS[2]
        sig = S.Sign(sk, MSG)
        sigs = bad_sigs(sig)
        for name, s in sigs.items():
            both(f"sig:{name}", suite, "_is_valid_signature", s)

        # ---- Verify ------------------------------------------------------
        r = both("valid", suite, "Verify", pk, MSG, sig)
        assert r == ("ret", "bool", "True"), r
        r = both("wrong key", suite, "Verify", PKS[1], MSG, sig)
        assert r == ("ret", "bool", "False"), r
        if suite == "G2Basic":
            r = both("wrong msg", suite, "Verify", pk, b"other", sig)
            assert r == ("ret", "bool", "False"), r
        for name, k in keys.items():
            r = both(f"key:{name}", suite, "Verify", k, MSG, sig)
            assert r == ("ret", "bool", str(k == pk)), (name, r)
        for name, s in sigs.items():
            r = both(f"sig:{name}", suite, "Verify", pk, MSG, s)
            assert r == ("ret", "bool", str(s == sig)), (name, r)
        for name in ["empty", "identityish", "oncurve"]:
            k = {
                "empty": keys["empty"],
                "identityish": keys["x0_flags110"],
                "oncurve": keys["sub_plus_torsion"],
            }[name]
            for sname in ["inf_flags110", "sub_plus_torsion", "trunc_back"]:
                both(f"key:{name}+sig:{sname}", suite, "Verify", k, MSG, sigs[sname])
        for nb in NONBYTES:
            both("nonbytes pk", suite, "Verify", nb, MSG, sig, total=False)
            both("nonbytes sig", suite, "Verify", pk, MSG, nb, total=False)
            both("nonbytes msg", suite, "Verify", pk, nb, sig, total=False)
        print(f"{suite}: Verify done {time.time() - T0:.1f}s", flush=True)

        # ---- AggregateVerify --------------------------------------------
        msgs = [b"m-%d" % i for i in range(3)]
        agg = S.Aggregate([S.Sign(s_, m) for s_, m in zip(SKS[:3], msgs)])
        good = list(PKS[:3])
        r = both("valid", suite, "AggregateVerify", good, msgs, agg)
        assert r == ("ret", "bool", "True"), r
        cheap = ["empty", "lead0", "trail0", "trunc_back", "pad96_left", "rand_len200"]
        cheap = [n for n in keys if any(n.startswith(c) for c in cheap)]
        deep = ["x0_flags110", "sub_plus_torsion", "offcurve_", "flags000", "x_p_a0"]
        deep = [n for n in keys if any(n.startswith(d) for d in deep)]
        for pos in range(3):
            for name in cheap + deep:
                # In the non-PoP suites a 48-byte bad key in position i is only
                # found after i pairings; keep those to one position-2 case.
                if suite != "G2ProofOfPossession" and name in deep and pos == 2:
                    if name != "sub_plus_torsion":
                        continue
                lst = list(good)
                lst[pos] = keys[name]
                r = both(f"key:{name}@{pos}", suite, "AggregateVerify", lst, msgs, agg)
                assert r == ("ret", "bool", str(lst == good)), (name, pos, r)
        for sname in ["inf_flags110", "sub_plus_torsion", "trunc_back", "lead0",
                      "offcurve_0", "flags000", "x2_p", "oncurve_cofactor_0_a0"]:
            r = both(f"sig:{sname}", suite, "AggregateVerify", good, msgs, sigs_for(S, agg)[sname])
            assert r == ("ret", "bool", "False"), (sname, r)
        both("no keys", suite, "AggregateVerify", [], [], agg)
        both("len mismatch", suite, "AggregateVerify", good, msgs[:2], agg)
        both("len mismatch2", suite, "AggregateVerify", good[:2], msgs, agg)
        both("dup msgs", suite, "AggregateVerify", good, [msgs[0]] * 3, agg)
        both("tuple", suite, "AggregateVerify", tuple(good), tuple(msgs), agg)
        for nb in NONBYTES:
            both("nonbytes in list", suite, "AggregateVerify", [good[0], nb, good[2]], msgs, agg, total=False)
            both("nonbytes sig", suite, "AggregateVerify", good, msgs, nb, total=False)
            both("nonbytes list", suite, "AggregateVerify", nb, msgs, agg, total=False)
        print(f"{suite}: AggregateVerify done {time.time() - T0:.1f}s", flush=True)

    # ---- PoP-only entry points ------------------------------------------
    suite = "G2ProofOfPossession"
    S = NEW.G2ProofOfPossession
    sk, pk = SKS[2], PKS[2]
    proof = S.PopProve(sk)
    psigs = bad_sigs(proof)
    r = both("valid", suite, "PopVerify", pk, proof)
    assert r == ("ret", "bool", "True"), r
    r = both("wrong key", suite, "PopVerify", PKS[0], proof)
    assert r == ("ret", "bool", "False"), r
    for name, k in keys.items():
        if not name.startswith(KEY_SUBSET):
            continue
        r = both(f"key:{name}", suite, "PopVerify", k, proof)
        assert r == ("ret", "bool", str(k == pk)), (name, r)
    for name, s in psigs.items():
        if not name.startswith(SIG_SUBSET):
            continue
        r = both(f"sig:{name}", suite, "PopVerify", pk, s)
        assert r == ("ret", "bool", str(s == proof)), (name, r)
    for nb in NONBYTES:
        both("nonbytes pk", suite, "PopVerify", nb, proof, total=False)
        both("nonbytes proof", suite, "PopVerify", pk, nb, total=False)
    print(f"PopVerify done {time.time() - T0:.1f}s", flush=True)

    fsig = S.Aggregate([S.Sign(s_, MSG) for s_ in SKS[:3]])
    fsigs = bad_sigs(fsig)
    good = list(PKS[:3])
    r = both("valid", suite, "FastAggregateVerify", good, MSG, fsig)
    assert r == ("ret", "bool", "True"), r
    r = both("missing key", suite, "FastAggregateVerify", good[:2], MSG, fsig)
    assert r == ("ret", "bool", "False"), r
    for pos in range(3):
        for name, k in keys.items():
            # a representative subset in the middle position, a few elsewhere
            if not name.startswith(KEY_SUBSET if pos == 1 else KEY_FEW):
                continue
            lst = list(good)
            lst[pos] = k
            r = both(f"key:{name}@{pos}", suite, "FastAggregateVerify", lst, MSG, fsig)
            assert r == ("ret", "bool", str(lst == good)), (name, pos, r)
    for name, s in fsigs.items():
        if not name.startswith(SIG_SUBSET):
            continue
        r = both(f"sig:{name}", suite, "FastAggregateVerify", good, MSG, s)
        assert r == ("ret", "bool", str(s == fsig)), (name, r)
    both("no keys", suite, "FastAggregateVerify", [], MSG, fsig)
    # keys that cancel: aggregate public key is the identity
    both("cancelling", suite, "FastAggregateVerify", [PKS[0], PKS[3]], MSG, fsig)
    for nb in NONBYTES:
        both("nonbytes in list", suite, "FastAggregateVerify", [good[0], nb], MSG, fsig, total=False)
        both("nonbytes sig", suite, "FastAggregateVerify", good, MSG, nb, total=False)
        both("nonbytes msg", suite, "FastAggregateVerify", good, nb, fsig, total=False)
        both("nonbytes list", suite, "FastAggregateVerify", nb, MSG, fsig, total=False)
    print(f"FastAggregateVerify done {time.time() - T0:.1f}s", flush=True)

    # ---- signing side shares the gates: keep it identical too -----------
    for suite in SUITES:
        for sk_ in [0, 1, curve_order - 1, curve_order, -1, "1", None, 2.0]:
            both("SkToPk", suite, "SkToPk", sk_, total=False)
        both("Aggregate empty", suite, "Aggregate", [], total=False)
        both("Aggregate bad", suite, "Aggregate", [b"\x00" * 95], total=False)
        both("Aggregate inf", suite, "Aggregate", [b"\xc0" + b"\x00" * 95] * 2, total=False)

    print(f"cases: {N_CASES}; pairing calls old/new: {len(LOG_OLD)}/{len(LOG_NEW)}; "
          f"distinct pairings: {len(_memo)}; unsafe pairing arguments: {len(UNSAFE)}")
    assert LOG_OLD == LOG_NEW
    assert not UNSAFE, UNSAFE[:3]
    if MISMATCH:
        for m in MISMATCH[:20]:
            print("MISMATCH", m)
        sys.exit(1)
    print(f"EQUIVALENT ({time.time() - T0:.1f}s)")


SIG_SUBSET = (
    "empty", "lead0", "trail0", "trunc_back", "half", "pad200", "zeros96",
    "flags", "inf_flags110", "inf_flags111", "z2flags100", "inf_z2_one",
    "x1_p", "x2_p", "offcurve_0", "oncurve_cofactor_0", "sub_plus_torsion",
    "pure_torsion", "rand_len96", "rand96_c1_0",
)
KEY_SUBSET = (
    "empty", "lead0", "trail0", "trunc_back", "pad96_left", "pad200", "zeros48",
    "flags", "x0_flags110", "x0_flags111", "x_p_a0", "x_max_a1", "offcurve_",
    "oncurve_cofactor_", "sub_plus_torsion", "pure_torsion", "rand_len48",
    "rand48_c1_0",
)
KEY_FEW = ("trail0", "trunc_back", "x0_flags110", "offcurve_", "sub_plus_torsion",
           "flags000")
_sig_cache = {}


def sigs_for(S, sig):
    k = (S.__name__, sig)
    if k not in _sig_cache:
        _sig_cache[k] = bad_sigs(sig)
    return _sig_cache[k]


if __name__ == "__main__":
    main()
