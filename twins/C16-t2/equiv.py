import os, sys; sys.path.insert(0, os.getcwd())

# Equivalence demonstration for property C16 (HKDF / KeyGen).
# Loads the pristine hash.py / ciphersuites.py (saved next to this script)
# under other module names and compares them with the edited modules of the
# working tree on a broad set of well-formed, boundary and malformed inputs.

import decimal
import fractions
import hashlib
import hmac
import importlib
import importlib.util
import random
import time

HERE = os.path.dirname(os.path.abspath(__file__))
PRISTINE = os.path.join(HERE, "pristine")

T0 = time.time()

import py_ecc.bls  # noqa: E402  (the edited package of the cwd)
import py_ecc.bls.hash as new_hash  # noqa: E402
import py_ecc.bls.ciphersuites as new_cs  # noqa: E402

assert os.path.abspath(new_hash.__file__).startswith(os.getcwd()), new_hash.__file__


def load(name, path):
    spec = importlib.util.spec_from_file_location(name, path)
    mod = importlib.util.module_from_spec(spec)
    sys.modules[name] = mod
    spec.loader.exec_module(mod)
    return mod


old_hash = load("py_ecc.bls._pristine_hash", os.path.join(PRISTINE, "hash.py"))
old_cs = load(
    "py_ecc.bls._pristine_ciphersuites", os.path.join(PRISTINE, "ciphersuites.py")
)
# the pristine ciphersuites module did `from .hash import ...`, which resolved to
# the edited hash module; rebind to the pristine functions so it is fully pristine
for _n in ("hkdf_expand", "hkdf_extract", "i2osp", "os2ip"):
    setattr(old_cs, _n, getattr(old_hash, _n))
    assert getattr(new_cs, _n) is getattr(new_hash, _n)

assert old_hash.hkdf_expand is not new_hash.hkdf_expand
assert old_cs.G2Basic is not new_cs.G2Basic
EDITED = [
    f for f, m in (("hash.py", new_hash), ("ciphersuites.py", new_cs))
    if open(m.__file__).read() != open(os.path.join(PRISTINE, f)).read()
]
print("edited files under test:", EDITED)
assert EDITED, "the working tree is pristine: nothing to compare"

CHECKS = 0
FAIL = []


def outcome(f, *a, **k):
    try:
        r = f(*a, **k)
    except BaseException as e:  # noqa: B902
        return ("raise", type(e))
    return ("ok", type(r), r)


def snap(a):
    return [bytes(x) if isinstance(x, (bytearray, memoryview)) else repr(x) for x in a]


def same(label, fo, fn, *a, **k):
    global CHECKS
    CHECKS += 1
    before = snap(a)
    o = outcome(fo, *a, **k)
    mid = snap(a)
    n = outcome(fn, *a, **k)
    after = snap(a)
    if not (before == mid == after):
        FAIL.append((label + " [argument mutated]", a, k))
    if o != n:
        FAIL.append((label, a, k, o, n))
        return None
    return n


# ---------------------------------------------------------------- reference
def ref_extract(salt, ikm):
    return hmac.new(bytes(salt), bytes(ikm), hashlib.sha256).digest()


def ref_expand(prk, info, length):
    t = b""
    okm = b""
    i = 0
    while len(okm) < length:
        i += 1
        t = hmac.new(bytes(prk), t + bytes(info) + bytes([i]), hashlib.sha256).digest()
        okm += t
    return okm[:length]


R = 52435875175126190479447740508185965837690552500527637822603658699938581184513


def ref_keygen(ikm, key_info=b""):
    salt = b"BLS-SIG-KEYGEN-SALT-"
    sk = 0
    while sk == 0:
        salt = hashlib.sha256(salt).digest()
        prk = ref_extract(salt, bytes(ikm) + b"\x00")
        okm = ref_expand(prk, bytes(key_info) + (48).to_bytes(2, "big"), 48)
        sk = int.from_bytes(okm, "big") % R
    return sk


# ---------------------------------------------------------------- RFC 5869 vectors
RFC = [
    (
        "0b0b0b0b0b0b0b0b0b0b0b0b0b0b0b0b0b0b0b0b0b0b",
        "000102030405060708090a0b0c",
        "f0f1f2f3f4f5f6f7f8f9",
        42,
        "077709362c2e32df0ddc3f0dc47bba6390b6c73bb50f9c3122ec844ad7c2b3e5",
        "3cb25f25faacd57a90434f64d0362f2a2d2d0a90cf1a5a4c5db02d56ecc4c5bf"
        "34007208d5b887185865",
    ),
    (
        "0b0b0b0b0b0b0b0b0b0b0b0b0b0b0b0b0b0b0b0b0b0b",
        "",
        "",
        42,
        "19ef24a32c717b167f33a91d6f648bdf96596776afdb6377ac434c1c293ccb04",
        "8da4e775a563c18f715f802a063c5a31b8a11f5c5ee1879ec3454e5f3c738d2d"
        "9d201395faa4b61a96c8",
    ),
]
for ikm, salt, info, L, prk, okm in RFC:
    ikm, salt, info, prk, okm = (bytes.fromhex(x) for x in (ikm, salt, info, prk, okm))
    for h in (old_hash, new_hash):
        assert h.hkdf_extract(salt, ikm) == prk
        assert h.hkdf_expand(prk, info, L) == okm
    assert ref_extract(salt, ikm) == prk and ref_expand(prk, info, L) == okm

rng = random.Random(0xC16)


def rb(n):
    return bytes(rng.getrandbits(8) for _ in range(n))


# ---------------------------------------------------------------- hkdf_extract
lens = sorted(set(list(range(0, 70)) + [63, 64, 65, 127, 128, 129, 255, 256, 299, 300]))
for ls in lens:
    for li in (0, 1, 31, 32, 33, 64, 65, 300, rng.randrange(0, 301)):
        salt, ikm = rb(ls), rb(li)
        r = same("extract", old_hash.hkdf_extract, new_hash.hkdf_extract, salt, ikm)
        assert r is None or (r[1] is bytes and r[2] == ref_extract(salt, ikm))
        same("extract/ba", old_hash.hkdf_extract, new_hash.hkdf_extract,
             bytearray(salt), bytearray(ikm))
for _ in range(3000):
    salt, ikm = rb(rng.randrange(0, 301)), rb(rng.randrange(0, 301))
    r = same("extract/rnd", old_hash.hkdf_extract, new_hash.hkdf_extract, salt, ikm)
    assert r is None or (r[1] is bytes and r[2] == ref_extract(salt, ikm))

MALFORMED = [None, "abc", "", 5, 0, 1.5, [1, 2], (1, 2), memoryview(b"abc"), b"ok",
             bytearray(b"ok"), object, {1: 2}]
for a in MALFORMED:
    for b in MALFORMED:
        same("extract/malformed", old_hash.hkdf_extract, new_hash.hkdf_extract, a, b)

# ---------------------------------------------------------------- hkdf_expand
# every output length 0..8160 (and the first ones beyond), a few prk/info shapes
fixed = [(rb(32), b""), (rb(32), rb(10)), (b"", rb(3)), (rb(300), rb(300))]
for L in range(0, 8160 + 1):
    prk, info = fixed[L % len(fixed)]
    r = same("expand/all-L", old_hash.hkdf_expand, new_hash.hkdf_expand, prk, info, L)
    if L % 97 == 0 or L < 100 or L > 8100:
        assert r is None or (r[1] is bytearray and r[2] == ref_expand(prk, info, L)), L
for L in [8161, 8162, 8191, 8192, 8193, 10000, 2 ** 16, 2 ** 20]:
    for prk, info in fixed[:2]:
        same("expand/too-long", old_hash.hkdf_expand, new_hash.hkdf_expand, prk, info, L)
# all prk / info lengths 0..300 on interesting output lengths
for n in range(0, 301):
    for L in (0, 1, 31, 32, 33, 48, 64, 65, 255, rng.randrange(0, 8161)):
        same("expand/prk-len", old_hash.hkdf_expand, new_hash.hkdf_expand,
             rb(n), rb(rng.randrange(0, 301)), L)
        same("expand/info-len", old_hash.hkdf_expand, new_hash.hkdf_expand,
             rb(rng.randrange(0, 301)), rb(n), L)
for _ in range(1500):
    prk, info, L = rb(rng.randrange(0, 301)), rb(rng.randrange(0, 301)), rng.randrange(0, 8161)
    r = same("expand/rnd", old_hash.hkdf_expand, new_hash.hkdf_expand, prk, info, L)
    assert r is None or r[2] == ref_expand(prk, info, L)
    same("expand/rnd-ba", old_hash.hkdf_expand, new_hash.hkdf_expand,
         bytearray(prk), bytearray(info), L)
    same("expand/rnd-mv-info", old_hash.hkdf_expand, new_hash.hkdf_expand,
         prk, memoryview(info), L)

# malformed / boundary lengths and argument types (every combination)
BAD_LEN = [0, -1, -31, -32, -33, -64, -10 ** 6, 1, 32, 33, 8160, 8161, True, False,
           0.0, -0.0, 0.5, -0.5, 1.0, 31.9, 32.0, 33.5, -40.0, float("inf"),
           float("-inf"), float("nan"), 10 ** 400, -(10 ** 400), 2 ** 53 + 1,
           None, "32", b"32", [32], 3 + 0j, fractions.Fraction(65, 2),
           fractions.Fraction(0), fractions.Fraction(-1, 3), decimal.Decimal(33),
           decimal.Decimal(0), decimal.Decimal("-7.5")]
BAD_ARG = [b"", b"k" * 32, bytearray(b"k" * 32), memoryview(b"k" * 32), "str", "", None,
           7, 0, 2.5, [1, 2], (3,), object(), {1}]
for L in BAD_LEN:
    for prk in BAD_ARG:
        for info in BAD_ARG:
            same("expand/malformed", old_hash.hkdf_expand, new_hash.hkdf_expand,
                 prk, info, L)

# call histories: repeat and interleave equal / different arguments
hist = [(rb(32), rb(rng.randrange(0, 20)), rng.choice([0, 1, 32, 33, 48, 255, 8160, 8161, -5]))
        for _ in range(12)]
seq = [rng.choice(hist) for _ in range(400)]
first = {}
for k, (prk, info, L) in enumerate(seq):
    o = outcome(old_hash.hkdf_expand, prk, info, L)
    n1 = outcome(new_hash.hkdf_expand, prk, info, L)
    n2 = outcome(new_hash.hkdf_expand, bytes(prk), bytes(info), L)
    CHECKS += 1
    if not (o == n1 == n2):
        FAIL.append(("expand/history", k, o, n1, n2))
    key = (prk, info, L)
    frozen = (n1[0], n1[1], bytes(n1[2])) if n1[0] == "ok" else n1
    if first.setdefault(key, frozen) != frozen:
        FAIL.append(("expand/history-not-stable", k))
    if n1[0] == "ok":
        n1[2][:0] = b"\xff\xff"  # caller scribbles on the returned bytearray
        n1[2].extend(b"junk")

# ---------------------------------------------------------------- KeyGen
from py_ecc.bls import G2Basic, G2MessageAugmentation, G2ProofOfPossession  # noqa: E402

assert G2Basic.__module__ == "py_ecc.bls.ciphersuites"
SUITES = ["BaseG2Ciphersuite", "G2Basic", "G2MessageAugmentation", "G2ProofOfPossession"]
assert new_cs.curve_order == old_cs.curve_order == R

for li in range(0, 129):
    ikm = rb(li)
    for lk in (0, 1, 2, 31, 32, 33, 64, rng.randrange(0, 65)):
        info = rb(lk)
        r = same("KeyGen", old_cs.G2ProofOfPossession.KeyGen,
                 new_cs.G2ProofOfPossession.KeyGen, ikm, info)
        assert r is None or (r[1] is int and r[2] == ref_keygen(ikm, info) and 1 <= r[2] < R)
    r = same("KeyGen/default-info", old_cs.G2Basic.KeyGen, new_cs.G2Basic.KeyGen, ikm)
    assert r is None or r[2] == ref_keygen(ikm)
for lk in range(0, 65):
    for li in (0, 1, 31, 32, 33, 128):
        ikm, info = rb(li), rb(lk)
        for s in SUITES:
            r = same("KeyGen/" + s, getattr(old_cs, s).KeyGen, getattr(new_cs, s).KeyGen,
                     ikm, info)
            assert r is None or (r[1] is int and r[2] == ref_keygen(ikm, info))
for _ in range(1500):
    ikm, info = rb(rng.randrange(0, 129)), rb(rng.randrange(0, 65))
    same("KeyGen/rnd", old_cs.G2Basic.KeyGen, new_cs.G2Basic.KeyGen, ikm, info)
    same("KeyGen/rnd-kw", old_cs.G2Basic.KeyGen, new_cs.G2Basic.KeyGen, ikm, key_info=info)
    same("KeyGen/rnd-ba", old_cs.G2Basic.KeyGen, new_cs.G2Basic.KeyGen,
         bytearray(ikm), bytearray(info))
# the instance API used by the test-suite
assert new_cs.G2Basic().KeyGen(b"\x01" * 32) == old_cs.G2Basic().KeyGen(b"\x01" * 32)

KG_BAD = [b"", b"a" * 32, bytearray(b"a" * 32), memoryview(b"a" * 32), "str", "", None, 3,
          0, 1.5, [1], (1,), object(), {2}]
for a in KG_BAD:
    for b in KG_BAD:
        for s in ("G2Basic", "G2ProofOfPossession"):
            same("KeyGen/malformed", getattr(old_cs, s).KeyGen, getattr(new_cs, s).KeyGen, a, b)
    same("KeyGen/malformed-1arg", old_cs.G2Basic.KeyGen, new_cs.G2Basic.KeyGen, a)
same("KeyGen/noargs", old_cs.G2Basic.KeyGen, new_cs.G2Basic.KeyGen)


# a subclass with another xmd hash function shares the code
def subclass(mod):
    class Sha512Suite(mod.G2Basic):
        xmd_hash_function = hashlib.sha512

    return Sha512Suite


So, Sn = subclass(old_cs), subclass(new_cs)
for _ in range(200):
    ikm, info = rb(rng.randrange(0, 129)), rb(rng.randrange(0, 65))
    same("KeyGen/sha512-subclass", So.KeyGen, Sn.KeyGen, ikm, info)


# the retry branch (SK == 0) cannot be reached with real HKDF output in practice;
# exercise it in both versions by making hkdf_expand return zero / r / 2r for the
# first k attempts, recording the (prk, info, length) each attempt was made with
def with_forced_retries(mod, k, forced, ikm, info):
    real = mod.hkdf_expand
    calls = []

    def fake(prk, inf, length):
        calls.append((bytes(prk), bytes(inf), length))
        if len(calls) <= k:
            return forced
        return real(prk, inf, length)

    mod.hkdf_expand = fake
    try:
        res = outcome(mod.G2ProofOfPossession.KeyGen, ikm, info)
    finally:
        mod.hkdf_expand = real
    return res, calls


for k in (0, 1, 2, 3, 7):
    for forced in (bytes(48), bytearray(48), R.to_bytes(48, "big"), (2 * R).to_bytes(48, "big")):
        for _ in range(6):
            ikm, info = rb(rng.randrange(0, 129)), rb(rng.randrange(0, 65))
            o = with_forced_retries(old_cs, k, forced, ikm, info)
            n = with_forced_retries(new_cs, k, forced, ikm, info)
            CHECKS += 1
            if o != n or len(n[1]) != k + 1:
                FAIL.append(("KeyGen/forced-retry", k, o, n))
            # salts of successive attempts: H(salt), H(H(salt)), ...
            salt = b"BLS-SIG-KEYGEN-SALT-"
            for prk, inf, length in n[1]:
                salt = hashlib.sha256(salt).digest()
                assert prk == ref_extract(salt, ikm + b"\x00")
                assert inf == info + b"\x00\x30" and length == 48

# KeyGen call histories (determinism, interleaving with other public calls)
hist = [(rb(rng.randrange(0, 129)), rb(rng.randrange(0, 65))) for _ in range(10)]
first = {}
for k in range(300):
    ikm, info = rng.choice(hist)
    s = rng.choice(SUITES)
    o = outcome(getattr(old_cs, s).KeyGen, ikm, info)
    n = outcome(getattr(new_cs, s).KeyGen, ikm, info)
    CHECKS += 1
    if o != n or first.setdefault((ikm, info), n) != n:
        FAIL.append(("KeyGen/history", k, o, n))
    if k % 3 == 0:
        new_hash.hkdf_expand(rb(32), rb(5), rng.randrange(0, 200))
        new_hash.hkdf_extract(rb(5), rb(7))
    if k % 50 == 0:
        sk = n[2]
        assert new_cs.G2Basic.SkToPk(sk) == old_cs.G2Basic.SkToPk(sk)

# module constants untouched
assert new_cs.curve_order == R and old_cs.curve_order == R

# the other helpers of hash.py that were not edited still agree
for _ in range(300):
    x = rng.getrandbits(rng.randrange(1, 400))
    same("i2osp", old_hash.i2osp, new_hash.i2osp, x, rng.randrange(0, 60))
    b = rb(rng.randrange(0, 60))
    same("os2ip", old_hash.os2ip, new_hash.os2ip, b)
    same("xmd", old_hash.expand_message_xmd, new_hash.expand_message_xmd,
         b, rb(rng.randrange(0, 260)), rng.randrange(0, 300), hashlib.sha256)

print("checks: %d, failures: %d, %.1fs" % (CHECKS, len(FAIL), time.time() - T0))
for f in FAIL[:20]:
    print("FAIL", f)
sys.exit(1 if FAIL else 0)
