import hashlib
import hmac
import math
from typing import (
    Union,
)

from _hashlib import (
    HASH,
)


def hkdf_extract(salt: Union[bytes, bytearray], ikm: Union[bytes, bytearray]) -> bytes:
    """
    HKDF-Extract

    https://tools.ietf.org/html/rfc5869
    """
    return hmac.new(salt, ikm, hashlib.sha256).digest()


def hkdf_expand(
    prk: Union[bytes, bytearray], info: Union[bytes, bytearray], length: int
) -> bytes:
    """
    HKDF-Expand

    https://tools.ietf.org/html/rfc5869
    """
    n = math.ceil(length / 32)

    # okm = T(1) || T(2) || T(3) || ... || T(n)
    okm = bytearray(0)
    previous = bytearray(0)

    for i in range(0, n):
        # Concatenate (T(i) || info || i)
        text = previous + info + bytes([i + 1])

        # T(i + 1) = HMAC(T(i) || info || i)
        previous = bytearray(hmac.new(prk, text, hashlib.sha256).digest())
        okm.extend(previous)

    # Return first `length` bytes.
    return okm[:length]


def i2osp(x: int, xlen: int) -> bytes:
    """
    Convert a nonnegative integer `x` to an octet string of a specified length `xlen`.
    https://tools.ietf.org/html/rfc8017#section-4.1
    """
    return x.to_bytes(xlen, byteorder="big", signed=False)


def os2ip(x: bytes) -> int:
    """
    Convert an octet string `x` to a nonnegative integer.
    https://tools.ietf.org/html/rfc8017#section-4.2
    """
    return int.from_bytes(x, byteorder="big", signed=False)


def sha256(x: bytes) -> bytes:
    return hashlib.sha256(x).digest()


def xor(a: bytes, b: bytes) -> bytes:
    return bytes(_a ^ _b for _a, _b in zip(a, b))


def expand_message_xmd(
    msg: bytes, DST: bytes, len_in_bytes: int, hash_function: HASH
) -> bytes:
    b_in_bytes = hash_function().digest_size
    r_in_bytes = hash_function().block_size
    if len(DST) > 255:
        raise ValueError("DST must be <= 255 bytes")
    ell = math.ceil(len_in_bytes / b_in_bytes)
    if ell > 255:
        raise ValueError("invalid len in bytes for hash function")
    DST_prime = DST + i2osp(
        len(DST), 1
    )  # Append the length of the DST as a single byte
    Z_pad = b"\x00" * r_in_bytes
    l_i_b_str = i2osp(len_in_bytes, 2)
    b_0 = hash_function(Z_pad + msg + l_i_b_str + b"\x00" + DST_prime).digest()
    b = [hash_function(b_0 + b"\x01" + DST_prime).digest()]
    for i in range(2, ell + 1):
        b.append(hash_function(xor(b_0, b[i - 2]) + i2osp(i, 1) + DST_prime).digest())
    pseudo_random_bytes = b"".join(b)
    return pseudo_random_bytes[:len_in_bytes]
