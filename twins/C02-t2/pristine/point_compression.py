from typing import (
    Optional,
    Tuple,
)

from py_ecc.fields import (
    optimized_bls12_381_FQ as FQ,
    optimized_bls12_381_FQ2 as FQ2,
)
from py_ecc.optimized_bls12_381 import (
    Z1,
    Z2,
    b,
    b2,
    field_modulus as q,
    is_inf,
    is_on_curve,
    normalize,
)

from .constants import (
    EIGHTH_ROOTS_OF_UNITY,
    FQ2_ORDER,
    POW_2_381,
    POW_2_382,
    POW_2_383,
)
from .typing import (
    G1Compressed,
    G1Uncompressed,
    G2Compressed,
    G2Uncompressed,
)


#
# The most-significant three bits of a G1 or G2 encoding should be masked away before
# the coordinate(s) are interpreted.
# These bits are used to unambiguously represent the underlying element
# The format: (c_flag, b_flag, a_flag, x)
# https://github.com/zcash/librustzcash/blob/6e0364cd42a2b3d2b958a54771ef51a8db79dd29/pairing/src/bls12_381/README.md#bls12-381-instantiation  # noqa: E501
#
def get_flags(z: int) -> Tuple[bool, bool, bool]:
    c_flag = bool((z >> 383) & 1)  # The most significant bit.
    b_flag = bool((z >> 382) & 1)  # The second-most significant bit.
    a_flag = bool((z >> 381) & 1)  # The third-most significant bit.
    return c_flag, b_flag, a_flag


def is_point_at_infinity(z1: int, z2: Optional[int] = None) -> bool:
    """
    If z2 is None, the given z1 is a G1 point.
    Else, (z1, z2) is a G2 point.
    """
    return (z1 % POW_2_381 == 0) and (z2 is None or z2 == 0)


#
# G1
#
def compress_G1(pt: G1Uncompressed) -> G1Compressed:
    """
    A compressed point is a 384-bit integer with the bit order
    (c_flag, b_flag, a_flag, x), where the c_flag bit is always set to 1,
    the b_flag bit indicates infinity when set to 1,
    the a_flag bit helps determine the y-coordinate when decompressing,
    and the 381-bit integer x is the x-coordinate of the point.
    """
    if is_inf(pt):
        # Set c_flag = 1 and b_flag = 1. leave a_flag = x = 0
        return G1Compressed(POW_2_383 + POW_2_382)
    else:
        x, y = normalize(pt)
        # Record y's leftmost bit to the a_flag
        a_flag = (y.n * 2) // q
        # Set c_flag = 1 and b_flag = 0
        return G1Compressed(x.n + a_flag * POW_2_381 + POW_2_383)


def decompress_G1(z: G1Compressed) -> G1Uncompressed:
    """
    Recovers x and y coordinates from the compressed point.
    """
    c_flag, b_flag, a_flag = get_flags(z)

    # c_flag == 1 indicates the compressed form
    # MSB should be 1
    if not c_flag:
        raise ValueError("c_flag should be 1")

    is_inf_pt = is_point_at_infinity(z)

    if b_flag != is_inf_pt:
        raise ValueError(f"b_flag should be {int(is_inf_pt)}")

    if is_inf_pt:
        # 3 MSBs should be 110
        if a_flag:
            raise ValueError("a point at infinity should have a_flag == 0")
        return Z1

    # Else, not point at infinity
    # 3 MSBs should be 100 or 101
    x = z % POW_2_381
    if x >= q:
        raise ValueError(f"Point value should be less than field modulus. Got {x}")

    # Try solving y coordinate from the equation Y^2 = X^3 + b
    # using quadratic residue
    y = pow((x**3 + b.n) % q, (q + 1) // 4, q)

    if pow(y, 2, q) != (x**3 + b.n) % q:
        raise ValueError("The given point is not on G1: y**2 = x**3 + b")
    # Choose the y whose leftmost bit is equal to the a_flag
    if (y * 2) // q != int(a_flag):
        y = q - y
    return (FQ(x), FQ(y), FQ(1))


#
# G2
#
def modular_squareroot_in_FQ2(value: FQ2) -> Optional[FQ2]:
    """
    Given value=``x``, returns the value ``y`` such that ``y**2 % q == x``,
    and None if this is not possible. In cases where there are two solutions,
    the value with higher imaginary component is favored;
    if both solutions have equal imaginary component the value with higher real
    component is favored.
    """
    candidate_squareroot = value ** ((FQ2_ORDER + 8) // 16)
    check = candidate_squareroot**2 / value
    if check in EIGHTH_ROOTS_OF_UNITY[::2]:
        x1 = (
            candidate_squareroot
            / EIGHTH_ROOTS_OF_UNITY[EIGHTH_ROOTS_OF_UNITY.index(check) // 2]
        )
        x2 = -x1
        x1_re, x1_im = x1.coeffs
        x2_re, x2_im = x2.coeffs
        return x1 if (x1_im > x2_im or (x1_im == x2_im and x1_re > x2_re)) else x2
    return None


def compress_G2(pt: G2Uncompressed) -> G2Compressed:
    """
    The compressed point (z1, z2) has the bit order:
    z1: (c_flag1, b_flag1, a_flag1, x1)
    z2: (c_flag2, b_flag2, a_flag2, x2)
    where
    - c_flag1 is always set to 1
    - b_flag1 indicates infinity when set to 1
    - a_flag1 helps determine the y-coordinate when decompressing,
    - a_flag2, b_flag2, and c_flag2 are always set to 0
    """
    if not is_on_curve(pt, b2):
        raise ValueError("The given point is not on the twisted curve over FQ**2")
    if is_inf(pt):
        return G2Compressed((POW_2_383 + POW_2_382, 0))
    x, y = normalize(pt)
    x_re, x_im = x.coeffs
    y_re, y_im = y.coeffs
    # Record the leftmost bit of y_im to the a_flag1
    # If y_im happens to be zero, then use the bit of y_re
    a_flag1 = (int(y_im) * 2) // q if y_im > 0 else (int(y_re) * 2) // q

    # Imaginary part of x goes to z1, real part goes to z2
    # c_flag1 = 1, b_flag1 = 0
    z1 = x_im + a_flag1 * POW_2_381 + POW_2_383
    # a_flag2 = b_flag2 = c_flag2 = 0
    z2 = x_re
    return G2Compressed((int(z1), int(z2)))


def decompress_G2(p: G2Compressed) -> G2Uncompressed:
    """
    Recovers x and y coordinates from the compressed point (z1, z2).
    """
    z1, z2 = p
    c_flag1, b_flag1, a_flag1 = get_flags(z1)

    # c_flag == 1 indicates the compressed form
    # MSB should be 1
    if not c_flag1:
        raise ValueError("c_flag should be 1")

    is_inf_pt = is_point_at_infinity(z1, z2)

    if b_flag1 != is_inf_pt:
        raise ValueError(f"b_flag should be {int(is_inf_pt)}")

    if is_inf_pt:
        # 3 MSBs should be 110
        if a_flag1:
            raise ValueError("a point at infinity should have a_flag == 0")
        return Z2

    # Else, not point at infinity
    # 3 MSBs should be 100 or 101
    x1 = z1 % POW_2_381
    # Ensure that x1 is less than the field modulus.
    if x1 >= q:
        raise ValueError(f"x1 value should be less than field modulus. Got {x1}")

    # Ensure that z2 is less than the field modulus.
    if z2 >= q:
        raise ValueError(f"z2 point value should be less than field modulus. Got {z2}")

    x2 = z2
    # x1 is the imaginary part, x2 is the real part
    x = FQ2([x2, x1])
    y = modular_squareroot_in_FQ2(x**3 + b2)
    if y is None:
        raise ValueError("Failed to find a modular squareroot")

    # Choose the y whose leftmost bit of the imaginary part is equal to the a_flag1
    # If y_im happens to be zero, then use the bit of y_re
    y_re, y_im = y.coeffs
    if (y_im > 0 and (int(y_im) * 2) // q != int(a_flag1)) or (
        y_im == 0 and (int(y_re) * 2) // q != int(a_flag1)
    ):
        y = FQ2((y * -1).coeffs)

    if not is_on_curve((x, y, FQ2([1, 0])), b2):
        raise ValueError("The given point is not on the twisted curve over FQ**2")
    return (x, y, FQ2([1, 0]))
