import os, sys; sys.path.insert(0, os.getcwd())  # noqa: E401,E702

"""
Equivalence demonstration for a behaviour-preserving refactoring of
py_ecc/fields/optimized_field_elements.py (property C14).

Loads the pristine copy of the module (saved next to this script under
pristine/) with importlib under another module name and the refactored module
from the current working directory, builds identical families of field classes
on top of both (both real curves plus small-field / odd-modulus
instantiations), then checks that

  * random straight-line programs (expression trees of depth <= 8 over
    + - * / ** neg with int mixing, plus == != < sgn0 observations),
  * an exhaustive operator x operand matrix including boundary values and
    malformed operands (None, str, float, list, bool, wrong-class elements,
    FQ objects handed to FQP, wrong-length coefficient lists, ...),
  * constructors, inv(), optimized_poly_rounded_div(), one(), zero(), mod_int()

give identical results (value, result class name, coefficient types, instance
attributes) or raise an exception of the identical class in both versions,
and that operands are left unmodified (same purity).

Run as:  cd /tmp/wt2/C14 && /venv/bin/python /tmp/twin/C14/<rN>/equiv.py
"""

import importlib
import importlib.util
import random
import time

HERE = os.path.dirname(os.path.abspath(__file__))
PRISTINE = os.path.join(HERE, "pristine", "optimized_field_elements.py")
T0 = time.time()


def load_pristine():
    spec = importlib.util.spec_from_file_location("pristine_ofe", PRISTINE)
    mod = importlib.util.module_from_spec(spec)
    sys.modules["pristine_ofe"] = mod
    spec.loader.exec_module(mod)
    return mod


OLD = load_pristine()
NEW = importlib.import_module("py_ecc.fields.optimized_field_elements")

assert os.path.abspath(NEW.__file__).startswith(os.getcwd() + os.sep), NEW.__file__
with open(PRISTINE) as fh_a, open(NEW.__file__) as fh_b:
    SAME_SOURCE = fh_a.read() == fh_b.read()
if SAME_SOURCE:
    print("NOTE: working-tree module is textually identical to the pristine copy")

BN_P = 21888242871839275222246405745257275088696311157297823662689037894645226208583
BLS_P = 4002409555221667393417789825735904156556882819939007885332058136124031650490837864442687629129015664037894272559787  # noqa: E501

# (name, p, fq2 modulus coeffs, fq12 modulus coeffs, fq3 modulus coeffs)
CONFIGS = [
    ("bn128", BN_P, (1, 0), (82, 0, 0, 0, 0, 0, -18, 0, 0, 0, 0, 0), (3, 0, 0)),
    ("bls12_381", BLS_P, (1, 0), (2, 0, 0, 0, 0, 0, -2, 0, 0, 0, 0, 0), (2, 0, 1)),
    ("p7", 7, (1, 0), (82, 0, 0, 0, 0, 0, -18, 0, 0, 0, 0, 0), (2, 0, 1)),
    ("p11", 11, (1, 0), (2, 0, 0, 0, 0, 0, -2, 0, 0, 0, 0, 0), (4, 1, 0)),
    # dense / unusual moduli (every coefficient non-zero, reducible ones too)
    ("p13", 13, (2, 5), (1, 2, 3, 4, 5, 6, 7, 8, 9, 10, 11, 12), (1, 1, 1)),
    ("p2", 2, (1, 1), (1, 0, 0, 1, 0, 0, 0, 0, 0, 0, 0, 1), (1, 1, 0)),
    ("p3", 3, (-1, 0), (0, 0, 0, 0, 0, 0, 0, 0, 0, 0, 0, 0), (0, 0, 0)),
    ("p101", 101, (100, 0), (5, 0, 0, 0, 0, 0, 0, 0, 0, 0, 0, 1), (99, 98, 97)),
]


def build_family(M, name, p, m2, m12, m3):
    class F_FQ(M.FQ):
        field_modulus = p

    class F_FQP(M.FQP):
        field_modulus = p

    class F_FQ2(M.FQ2, F_FQP):
        field_modulus = p
        FQ2_MODULUS_COEFFS = m2

    class F_FQ12(M.FQ12, F_FQP):
        field_modulus = p
        FQ12_MODULUS_COEFFS = m12

    class F_FQ3(F_FQP):
        # a direct user-level FQP instantiation of another degree
        degree = 3
        MC = m3

        def __init__(self, coeffs):
            self.mc_tuples = [(i, c) for i, c in enumerate(self.MC) if c]
            super().__init__(coeffs, self.MC)

    class F_NOMOD_FQ2(M.FQ2):
        FQ2_MODULUS_COEFFS = m2

    class F_NOCOEFF_FQ2(M.FQ2):
        field_modulus = p

    class F_NOCOEFF_FQ12(M.FQ12):
        field_modulus = p

    return {
        "M": M,
        "name": name,
        "p": p,
        "FQ": F_FQ,
        "FQP": F_FQP,
        "FQ2": F_FQ2,
        "FQ12": F_FQ12,
        "FQ3": F_FQ3,
        "NOMOD_FQ2": F_NOMOD_FQ2,
        "NOCOEFF_FQ2": F_NOCOEFF_FQ2,
        "NOCOEFF_FQ12": F_NOCOEFF_FQ12,
    }


DEG = {"FQ2": 2, "FQ12": 12, "FQ3": 3}


# ---------------------------------------------------------------------------
# canonical description of a result
# ---------------------------------------------------------------------------
def canon(x, fam):
    M = fam["M"]
    if isinstance(x, M.FQ):
        return (
            "FQ",
            type(x).__name__,
            type(x.n).__name__,
            x.n,
            tuple(sorted(vars(x))),
        )
    if isinstance(x, M.FQP):
        d = vars(x)
        return (
            "FQP",
            type(x).__name__,
            tuple(canon(c, fam) for c in x.coeffs),
            type(x.coeffs).__name__,
            tuple(canon(c, fam) for c in x.modulus_coeffs),
            x.degree,
            tuple(getattr(x, "mc_tuples", ("<none>",))),
            tuple(sorted(d)),
        )
    if isinstance(x, (list, tuple)):
        return (type(x).__name__, tuple(canon(c, fam) for c in x))
    if x is None or isinstance(x, (bool, int, float, str)):
        return (type(x).__name__, x)
    if x is NotImplemented:
        return ("NotImplemented",)
    return ("other", type(x).__name__, repr(x))


def outcome(fn, fam):
    try:
        r = fn()
    except RecursionError:
        return ("exc", "RecursionError")
    except Exception as e:  # noqa: BLE001
        return ("exc", type(e).__name__)
    return ("ok", canon(r, fam))


CHECKS = 0
FAILS = []


def same(label, f_old, f_new, fo, fn):
    global CHECKS
    CHECKS += 1
    a = outcome(f_old, fo)
    b = outcome(f_new, fn)
    if a != b:
        FAILS.append((label, a, b))
        if len(FAILS) <= 20:
            print("MISMATCH", label, "\n   old:", a, "\n   new:", b)
    return a


# ---------------------------------------------------------------------------
# element descriptions -> concrete elements in a family
# ---------------------------------------------------------------------------
def mk(fam, d):
    """d is a description: ("int", v) | ("FQ", v) | ("FQ2"|"FQ12"|"FQ3", coeffs) |
    ("FQ2fq", coeffs) coefficient list given as FQ objects | ("raw", obj)"""
    k = d[0]
    if k == "int":
        return d[1]
    if k == "raw":
        return d[1]
    if k == "FQ":
        return fam["FQ"](d[1])
    if k in DEG:
        return fam[k](list(d[1]))
    if k.endswith("fq"):
        kk = k[:-2]
        return fam[kk]([fam["FQ"](c) for c in d[1]])
    raise AssertionError(d)


def boundary_ints(p, rng):
    vals = [0, 1, 2, 3, p - 1, p, p + 1, -1, -2, -p, 2 * p, p // 2, p // 2 + 1]
    vals += [rng.randrange(p) for _ in range(3)]
    vals += [rng.randrange(-(p**2) - 5, p**2 + 5)]
    return vals


def rand_coeffs(p, n, rng, style=None):
    style = style or rng.choice(["rand", "rand", "rand", "sparse", "zero", "one", "edge"])
    if style == "rand":
        return [rng.randrange(p) for _ in range(n)]
    if style == "sparse":
        c = [0] * n
        c[rng.randrange(n)] = rng.randrange(p)
        return c
    if style == "zero":
        return [0] * n
    if style == "one":
        return [1] + [0] * (n - 1)
    return [rng.choice([0, 1, p - 1, p, -1, 2, p + 1, -p]) for _ in range(n)]


# ---------------------------------------------------------------------------
# random straight-line programs
# ---------------------------------------------------------------------------
BINOPS = ["+", "-", "*", "/"]


def gen_tree(kind, p, depth, rng):
    """tree over elements of `kind` (FQ / FQ2 / FQ12 / FQ3)."""
    if depth == 0 or rng.random() < 0.12:
        if kind == "FQ":
            return ("leaf", ("FQ", rng.choice(boundary_ints(p, rng))))
        if rng.random() < 0.1:
            return ("leaf", (kind + "fq", rand_coeffs(p, DEG[kind], rng)))
        return ("leaf", (kind, rand_coeffs(p, DEG[kind], rng)))
    r = rng.random()
    if r < 0.12:
        return ("neg", gen_tree(kind, p, depth - 1, rng))
    if r < 0.24:
        e = rng.choice(
            [0, 1, 2, 3, 5, 7, 16, -1, p, p - 1, p - 2, rng.randrange(1 << 64)]
        )
        if kind != "FQ" and e > 1 << 20:
            e = rng.choice([e % 1024, e]) if rng.random() < 0.85 else e
        return ("pow", gen_tree(kind, p, depth - 1, rng), e)
    op = rng.choice(BINOPS)
    r2 = rng.random()
    if kind != "FQ" and rng.random() < 0.9:
        # extension fields only define  elem * int,  int * elem  and  elem / int;
        # mostly keep programs well-typed so that they run to completion
        if r2 < 0.34 and op in "+-":
            r2 = 1.0
        elif 0.22 <= r2 < 0.34 and op == "/":
            r2 = 0.0
    if r2 < 0.22:
        # int mixing: element (op) int
        return (
            "bin",
            op,
            gen_tree(kind, p, depth - 1, rng),
            ("leaf", ("int", rng.choice(boundary_ints(p, rng)))),
        )
    if r2 < 0.34:
        # int (op) element (reflected operators)
        return (
            "bin",
            op,
            ("leaf", ("int", rng.choice(boundary_ints(p, rng)))),
            gen_tree(kind, p, depth - 1, rng),
        )
    return (
        "bin",
        op,
        gen_tree(kind, p, depth - 1, rng),
        gen_tree(kind, p, depth - 1, rng),
    )


def ev(tree, fam):
    t = tree[0]
    if t == "leaf":
        return mk(fam, tree[1])
    if t == "neg":
        return -ev(tree[1], fam)
    if t == "pow":
        return ev(tree[1], fam) ** tree[2]
    a = ev(tree[2], fam)
    b = ev(tree[3], fam)
    op = tree[1]
    if op == "+":
        return a + b
    if op == "-":
        return a - b
    if op == "*":
        return a * b
    return a / b


def tree_size(tree):
    t = tree[0]
    if t == "leaf":
        return 1
    if t == "neg" or t == "pow":
        return 1 + tree_size(tree[1])
    return 1 + tree_size(tree[2]) + tree_size(tree[3])


def observe(x, y, fam):
    """evaluate both trees and observe value, sgn0, comparisons."""
    a = ev(x, fam)
    b = ev(y, fam)
    obs = [a, b]
    for f in (
        lambda: a == b,
        lambda: a != b,
        lambda: a == a,
        lambda: a.sgn0,
        lambda: b.sgn0,
        lambda: a.sgn0,  # cached second access
        lambda: a < b,
        lambda: a >= b,
        lambda: int(a),
        lambda: repr(a),
    ):
        obs.append(outcome(f, fam))
    obs.append(a)  # after sgn0: instance dict now holds the cached value
    return obs


def run_programs():
    rng = random.Random(0xC14)
    budget = {
        "FQ": (400, 8),
        "FQ2": (400, 8),
        "FQ3": (150, 8),
        "FQ12": (60, 8),
    }
    stats = {"ok": 0, "exc": 0, "nodes": 0}
    for cfg in CONFIGS:
        fo = build_family(OLD, *cfg)
        fn = build_family(NEW, *cfg)
        p = cfg[1]
        big = p > 1 << 64
        for kind, (count, depth) in budget.items():
            n = count
            if kind == "FQ12":
                n = 25 if big else count
            for i in range(n):
                d = rng.randrange(1, depth + 1) if i % 3 else depth
                while True:
                    x = gen_tree(kind, p, d, rng)
                    y = gen_tree(kind, p, min(d, 3), rng)
                    cap = 70 if (kind == "FQ12" and big) else 160
                    if tree_size(x) <= cap:
                        break
                res = same(
                    f"prog/{cfg[0]}/{kind}/{i}",
                    lambda: observe(x, y, fo),
                    lambda: observe(x, y, fn),
                    fo,
                    fn,
                )
                stats[res[0]] += 1
                stats["nodes"] += tree_size(x) + tree_size(y)
        print(
            f"  programs {cfg[0]:10s} done  {stats}  t={time.time() - T0:.1f}s",
            flush=True,
        )


# ---------------------------------------------------------------------------
# operator x operand matrix, incl. malformed operands
# ---------------------------------------------------------------------------
class Weird:
    pass


class IntSub(int):
    pass


def operand_descs(p, rng):
    other_p = 5 if p != 5 else 7
    ds = []
    for v in [0, 1, 2, p - 1, p, -1, -p - 3, rng.randrange(p), p * p + 1]:
        ds.append(("int", v))
    for v in [0, 1, p - 1, rng.randrange(p)]:
        ds.append(("FQ", v))
    for kind in ("FQ2", "FQ3", "FQ12"):
        n = DEG[kind]
        for style in ("zero", "rand", "sparse", "edge"):
            ds.append((kind, rand_coeffs(p, n, rng, style)))
        ds.append((kind + "fq", rand_coeffs(p, n, rng, "rand")))
        ds.append((kind + "fq", [0] * n))
        # constant polynomial (degree-0 element), useful for inv / division
        ds.append((kind, [rng.randrange(1, p) if p > 1 else 0] + [0] * (n - 1)))
        # leading-coefficient-only element
        ds.append((kind, [0] * (n - 1) + [1]))
    # malformed / foreign operands
    for obj in (
        None,
        "1",
        1.5,
        [1, 2],
        (1, 0),
        True,
        IntSub(3),
        Weird(),
    ):
        ds.append(("raw", obj))
    ds.append(("foreign", other_p))
    return ds


def mk2(fam, d, foreign):
    if d[0] == "foreign":
        return foreign
    return mk(fam, d)


BIN = {
    "add": lambda a, b: a + b,
    "sub": lambda a, b: a - b,
    "mul": lambda a, b: a * b,
    "truediv": lambda a, b: a / b,
    "mod": lambda a, b: a % b,
    "eq": lambda a, b: a == b,
    "ne": lambda a, b: a != b,
    "lt": lambda a, b: a < b,
    "le": lambda a, b: a <= b,
    "gt": lambda a, b: a > b,
    "ge": lambda a, b: a >= b,
    "pow": lambda a, b: a**b if not isinstance(b, int) or abs(b) < (1 << 600) else None,
    "__div__": lambda a, b: a.__div__(b),
    "__rdiv__": lambda a, b: a.__rdiv__(b),
    "__rmul__": lambda a, b: a.__rmul__(b),
    "__radd__": lambda a, b: a.__radd__(b),
    "__rsub__": lambda a, b: a.__rsub__(b),
    "__rtruediv__": lambda a, b: a.__rtruediv__(b),
}
UN = {
    "neg": lambda a: -a,
    "sgn0": lambda a: a.sgn0,
    "inv": lambda a: a.inv(),
    "repr": lambda a: repr(a),
    "int": lambda a: int(a),
    "one": lambda a: type(a).one(),
    "zero": lambda a: type(a).zero(),
    "sq": lambda a: a * a,
    "self_div": lambda a: a / a,
    "inv_mul": lambda a: a * a.inv(),
    "hash": lambda a: isinstance(hash(a), int),
    "bool": lambda a: bool(a),
    "pos_degree": lambda a: a.degree,
}


def snapshot(x, fam):
    return canon(x, fam)


def run_matrix():
    rng = random.Random(1414)
    for cfg in CONFIGS:
        fo = build_family(OLD, *cfg)
        fn = build_family(NEW, *cfg)
        p = cfg[1]
        descs = operand_descs(p, rng)
        # a "foreign" element: FQ2 of another prime built on the same module
        foreign_cfg = ("foreign", 5 if p != 5 else 7, (1, 0), cfg[3], cfg[4])
        ffo = build_family(OLD, *foreign_cfg)["FQ2"]([1, 2])
        ffn = build_family(NEW, *foreign_cfg)["FQ2"]([1, 2])
        big12 = p > 1 << 64
        for da in descs:
            if da[0] in ("raw", "foreign", "int"):
                continue
            # unary
            for name, f in UN.items():
                same(
                    f"un/{cfg[0]}/{name}/{da[0]}",
                    lambda: f(mk(fo, da)),
                    lambda: f(mk(fn, da)),
                    fo,
                    fn,
                )
            for db in descs:
                if big12 and da[0].startswith("FQ12") and db[0].startswith("FQ12"):
                    if rng.random() < 0.5:
                        continue
                for name, f in BIN.items():

                    def run(fam, foreign):
                        a = mk(fam, da)
                        b = mk2(fam, db, foreign)
                        sa, sb = snapshot(a, fam), snapshot(b, fam)
                        try:
                            r = ("ok", canon(f(a, b), fam))
                        except Exception as e:  # noqa: BLE001
                            r = ("exc", type(e).__name__)
                        # purity: operands unchanged
                        pure = (snapshot(a, fam) == sa, snapshot(b, fam) == sb)
                        return [("raw", repr(r)), ("raw", repr(pure))]

                    if name == "pow" and db[0] != "int" and db[0] != "raw":
                        continue
                    same(
                        f"bin/{cfg[0]}/{name}/{da}/{db}",
                        lambda: run(fo, ffo),
                        lambda: run(fn, ffn),
                        fo,
                        fn,
                    )
        print(f"  matrix   {cfg[0]:10s} done  t={time.time() - T0:.1f}s", flush=True)


# ---------------------------------------------------------------------------
# constructors, helpers, module-level functions
# ---------------------------------------------------------------------------
def run_misc():
    rng = random.Random(77)
    for cfg in CONFIGS:
        fo = build_family(OLD, *cfg)
        fn = build_family(NEW, *cfg)
        p = cfg[1]
        ctor_args = [
            [],
            [1],
            [1, 2],
            [1, 2, 3],
            list(range(12)),
            list(range(13)),
            (1, 2),
            (p, -1),
            "ab",
            None,
            5,
            [None, None],
            ["a", "b"],
            [1.5, 2.5],
            [True, False],
            [1, "x"],
            ["x", 1],
            [[1], [2]],
            range(2),
            range(12),
            iter([1, 2]),
        ]
        for cls in (
            "FQ2",
            "FQ12",
            "FQ3",
            "FQP",
            "NOMOD_FQ2",
            "NOCOEFF_FQ2",
            "NOCOEFF_FQ12",
        ):
            for a in ctor_args:
                same(
                    f"ctor/{cfg[0]}/{cls}/{a!r}",
                    lambda: fo[cls](a),
                    lambda: fn[cls](a),
                    fo,
                    fn,
                )
            same(
                f"ctor2/{cfg[0]}/{cls}",
                lambda: fo[cls]([fo["FQ"](1), fo["FQ"](2)]),
                lambda: fn[cls]([fn["FQ"](1), fn["FQ"](2)]),
                fo,
                fn,
            )
        # FQP base class with explicit modulus coefficients
        for coeffs, mc in (([1, 2], (1, 0)), ([1, 2], (1,)), ([1, 2, 3], (1, 0, 2))):
            same(
                f"ctorP/{cfg[0]}/{coeffs}/{mc}",
                lambda: fo["FQP"](coeffs, mc),
                lambda: fn["FQP"](coeffs, mc),
                fo,
                fn,
            )
            # arithmetic on a bare FQP (no mc_tuples attribute)
            for name in ("add", "sub", "mul", "truediv", "eq"):
                same(
                    f"bareP/{cfg[0]}/{name}/{coeffs}/{mc}",
                    lambda: BIN[name](fo["FQP"](coeffs, mc), fo["FQP"](coeffs, mc)),
                    lambda: BIN[name](fn["FQP"](coeffs, mc), fn["FQP"](coeffs, mc)),
                    fo,
                    fn,
                )
            for name in ("neg", "sgn0", "inv", "one", "zero"):
                same(
                    f"barePu/{cfg[0]}/{name}/{coeffs}/{mc}",
                    lambda: UN[name](fo["FQP"](coeffs, mc)),
                    lambda: UN[name](fn["FQP"](coeffs, mc)),
                    fo,
                    fn,
                )
        for v in (0, 1, p, -1, None, "1", 1.5, True, [1], IntSub(4)):
            same(
                f"ctorFQ/{cfg[0]}/{v!r}",
                lambda: fo["FQ"](v),
                lambda: fn["FQ"](v),
                fo,
                fn,
            )
        same("ctorFQ/nomod", lambda: OLD.FQ(1), lambda: NEW.FQ(1), fo, fn)
        same("ctorFQ2/nomod", lambda: OLD.FQ2([1, 2]), lambda: NEW.FQ2([1, 2]), fo, fn)
        same(
            "ctorFQ12/nomod",
            lambda: OLD.FQ12([0] * 12),
            lambda: NEW.FQ12([0] * 12),
            fo,
            fn,
        )
        same("ctorFQP/nomod", lambda: OLD.FQP([1], [1]), lambda: NEW.FQP([1], [1]), fo, fn)
        same(
            f"ctorFQ/fromFQ/{cfg[0]}",
            lambda: fo["FQ"](fo["FQ"](3)),
            lambda: fn["FQ"](fn["FQ"](3)),
            fo,
            fn,
        )
        # class-level one()/zero()
        for cls in ("FQ", "FQ2", "FQ12", "FQ3", "FQP"):
            for nm in ("one", "zero"):
                same(
                    f"cls/{cfg[0]}/{cls}.{nm}",
                    lambda: getattr(fo[cls], nm)(),
                    lambda: getattr(fn[cls], nm)(),
                    fo,
                    fn,
                )
        # optimized_poly_rounded_div called directly
        for kind in ("FQ2", "FQ3", "FQ12"):
            n = DEG[kind]
            for _ in range(12):
                la = rng.choice([n + 1, n + 1, n, 2, 1])
                lb = rng.choice([n + 1, n, 2, 1, la])
                a = rand_coeffs(p, la, rng)
                b = rand_coeffs(p, lb, rng)
                same(
                    f"prd/{cfg[0]}/{kind}/{a}/{b}",
                    lambda: fo[kind].zero().optimized_poly_rounded_div(a, b),
                    lambda: fn[kind].zero().optimized_poly_rounded_div(a, b),
                    fo,
                    fn,
                )
            for a, b in (([], [1]), ([1], []), ([1, 2], "ab"), (None, [1]), ([1, 2], [0, 0])):
                same(
                    f"prdbad/{cfg[0]}/{kind}/{a}/{b}",
                    lambda: fo[kind].zero().optimized_poly_rounded_div(a, b),
                    lambda: fn[kind].zero().optimized_poly_rounded_div(a, b),
                    fo,
                    fn,
                )
        # mod_int
        for x in (0, 1, 5, -3, p, True, None, "3", 2.5):
            for n in (2, 3, p):
                same(
                    f"mod_int/{x!r}/{n}",
                    lambda: OLD.mod_int(x, n),
                    lambda: NEW.mod_int(x, n),
                    fo,
                    fn,
                )
            same(
                f"mod_int/FQ/{x!r}",
                lambda: OLD.mod_int(fo["FQ"](x), 2),
                lambda: NEW.mod_int(fn["FQ"](x), 2),
                fo,
                fn,
            )
        # exhaustive sgn0 / inverse on the tiny fields
        if p <= 13:
            for a in range(p):
                for b in range(p):
                    for nm in ("sgn0", "inv", "neg", "sq", "self_div"):
                        same(
                            f"exh2/{cfg[0]}/{nm}/{a},{b}",
                            lambda: UN[nm](fo["FQ2"]([a, b])),
                            lambda: UN[nm](fn["FQ2"]([a, b])),
                            fo,
                            fn,
                        )
                    for c in range(min(p, 5)):
                        for nm in ("sgn0", "inv"):
                            same(
                                f"exh3/{cfg[0]}/{nm}/{a},{b},{c}",
                                lambda: UN[nm](fo["FQ3"]([a, b, c])),
                                lambda: UN[nm](fn["FQ3"]([a, b, c])),
                                fo,
                                fn,
                            )
        # deep exponents (iterative pow: no recursion) and a huge one
        for kind, base in (("FQ", 3), ("FQ2", [3, 4]), ("FQ12", list(range(1, 13)))):
            for e in (p, p - 1, (p * p - 1), 1 << 200, (1 << 3000) + 1 if kind == "FQ" else 77):
                same(
                    f"bigpow/{cfg[0]}/{kind}/{e.bit_length()}",
                    lambda: (fo[kind](base) ** e),
                    lambda: (fn[kind](base) ** e),
                    fo,
                    fn,
                )
    print(f"  misc done  t={time.time() - T0:.1f}s", flush=True)


def run_against_package():
    """the shipped field classes (py_ecc.fields) still behave like pristine-built ones"""
    import py_ecc.fields as F

    rng = random.Random(5)
    for curve, cfg in (("bn128", CONFIGS[0]), ("bls12_381", CONFIGS[1])):
        fo = build_family(OLD, *cfg)
        fn = {
            "M": NEW,
            "FQ": getattr(F, f"optimized_{curve}_FQ"),
            "FQ2": getattr(F, f"optimized_{curve}_FQ2"),
            "FQ12": getattr(F, f"optimized_{curve}_FQ12"),
        }
        p = cfg[1]

        def strip(o):
            # class names differ (F_FQ2 vs optimized_bn128_FQ2): compare values only
            if o[0] != "ok":
                return o
            return repr(o).replace(f"optimized_{curve}_", "F_")

        for kind in ("FQ", "FQ2", "FQ12"):
            for i in range(12 if kind != "FQ12" else 4):
                x = gen_tree(kind, p, 5, rng)
                while tree_size(x) > 40:
                    x = gen_tree(kind, p, 5, rng)
                y = gen_tree(kind, p, 2, rng)
                global CHECKS
                CHECKS += 1
                a = strip(outcome(lambda: observe(x, y, fo), fo))
                b = strip(outcome(lambda: observe(x, y, fn), fn))
                if a != b:
                    FAILS.append((f"pkg/{curve}/{kind}/{i}", a, b))
                    print("MISMATCH pkg", curve, kind, i)
    print(f"  package classes done  t={time.time() - T0:.1f}s", flush=True)


def run_odd_modulus_coeffs():
    """FQ2 / FQ12 subclasses whose *_MODULUS_COEFFS attribute is unusual or malformed"""

    def fams(M):
        fq = type("OFQ", (M.FQ,), {"field_modulus": 13})
        return M, fq

    cases2 = [
        (0, 0),
        [1, 0],
        (True, False),
        (1, 0, 3),
        (),
        None,
        5,
        "ab",
        (None, 1),
        (1.0, 0.0),
        ("fq", 1, 0),
        ("fq", 0, 0),
        ("fq", 5, 7),
    ]
    for case in cases2:
        for deg_name, base_n in (("FQ2", 2), ("FQ12", 12)):

            def run(M):
                M, fq = fams(M)
                mc = case
                if isinstance(case, tuple) and case and case[0] == "fq":
                    mc = tuple(fq(v) for v in case[1:])
                if deg_name == "FQ12" and isinstance(mc, (tuple, list)):
                    mc = type(mc)(list(mc) + [0] * (12 - len(mc)))
                cls = type(
                    "O" + deg_name,
                    (getattr(M, deg_name),),
                    {"field_modulus": 13, deg_name + "_MODULUS_COEFFS": mc},
                )
                fam = {"M": M}
                out = []
                for f in (
                    lambda: cls(list(range(1, base_n + 1))),
                    lambda: cls(list(range(1, base_n + 1))).mc_tuples,
                    lambda: cls(list(range(1, base_n + 1))) * cls([3] * base_n),
                    lambda: cls(list(range(1, base_n + 1))) ** 5,
                    lambda: cls(list(range(1, base_n + 1))).inv(),
                    lambda: cls([2] * base_n) / cls(list(range(1, base_n + 1))),
                    lambda: cls(list(range(1, base_n + 1))).sgn0,
                ):
                    out.append(("raw", repr(outcome(f, fam))))
                return out

            same(f"oddmc/{deg_name}/{case!r}", lambda: run(OLD), lambda: run(NEW), {"M": OLD}, {"M": NEW})
    print(f"  odd modulus coeffs done  t={time.time() - T0:.1f}s", flush=True)


if __name__ == "__main__":
    run_misc()
    run_odd_modulus_coeffs()
    run_matrix()
    run_programs()
    run_against_package()
    print(f"checks: {CHECKS}   mismatches: {len(FAILS)}   time: {time.time() - T0:.1f}s")
    if FAILS:
        sys.exit(1)
    print("EQUIVALENT")
    sys.exit(0)
