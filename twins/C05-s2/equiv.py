import os, sys; sys.path.insert(0, os.getcwd())  # noqa: E401,E702

# Equivalence demonstration for C05/s2 (how the pairing constants are written):
#   * ate_loop_count written as 6u+2 (BN), as a grouped hex literal (bls12_381) and
#     as a sum of powers of two (optimized bls12_381), asserted equal to the old int;
#   * log_ate_loop_count derived as ate_loop_count.bit_length() - 2;
#   * the final exponent (field_modulus**12 - 1) // curve_order named once per module;
#   * optimized: the magic slice start 62/63 replaced by log_ate_loop_count, and
#     (optimized_bn128) the never-mutated NAF table turned from a list into a tuple.
# The four pristine pairing modules are loaded with importlib under another name inside
# their own package (so relative imports bind the same curve/field modules) and
# compared with the edited ones.
import importlib.util
import random
import time

T0 = time.time()
HERE = os.path.dirname(os.path.abspath(__file__))

import py_ecc  # noqa: E402

assert os.path.realpath(py_ecc.__file__).startswith(os.path.realpath(os.getcwd())), (
    "must be run with the edited worktree as cwd"
)

from py_ecc.bn128 import bn128_curve, bn128_pairing  # noqa: E402
from py_ecc.bls12_381 import bls12_381_curve, bls12_381_pairing  # noqa: E402
from py_ecc.optimized_bn128 import (  # noqa: E402
    optimized_curve as obn_curve,
    optimized_pairing as obn_pairing,
)
from py_ecc.optimized_bls12_381 import (  # noqa: E402
    optimized_curve as obls_curve,
    optimized_pairing as obls_pairing,
)
from py_ecc.fields.field_elements import FQ as RFQ, FQP as RFQP  # noqa: E402
from py_ecc.fields.optimized_field_elements import FQ as OFQ, FQP as OFQP  # noqa: E402


def load_pristine(pkg, fname):
    name = pkg + "._pristine_" + fname[:-3]
    spec = importlib.util.spec_from_file_location(
        name, os.path.join(HERE, "pristine", fname)
    )
    mod = importlib.util.module_from_spec(spec)
    sys.modules[name] = mod
    spec.loader.exec_module(mod)
    return mod


IMPLS = {
    # name: (curve module, new pairing module, pristine pairing module, optimized?)
    "bn128": (
        bn128_curve,
        bn128_pairing,
        load_pristine("py_ecc.bn128", "bn128_pairing.py"),
        False,
    ),
    "bls12_381": (
        bls12_381_curve,
        bls12_381_pairing,
        load_pristine("py_ecc.bls12_381", "bls12_381_pairing.py"),
        False,
    ),
    "optimized_bn128": (
        obn_curve,
        obn_pairing,
        load_pristine("py_ecc.optimized_bn128", "optimized_bn128_pairing.py"),
        True,
    ),
    "optimized_bls12_381": (
        obls_curve,
        obls_pairing,
        load_pristine("py_ecc.optimized_bls12_381", "optimized_bls12_381_pairing.py"),
        True,
    ),
}

rng = random.Random(0xC0552)


def canon(v):
    """Canonical, comparable description of a result (value AND type)."""
    if v is None:
        return ("None",)
    if isinstance(v, tuple):
        return ("tuple",) + tuple(canon(x) for x in v)
    if isinstance(v, (RFQP, OFQP)):
        cs = tuple(v.coeffs)
        if isinstance(v, RFQP):  # reference coefficients are FQ objects
            cs = tuple(int(c.n) if hasattr(c, "n") else int(c) for c in cs)
        else:
            assert all(type(c) is int for c in cs)
        return (type(v).__module__, type(v).__name__, cs)
    if isinstance(v, (RFQ, OFQ)):
        assert type(v.n) is int
        return (type(v).__module__, type(v).__name__, v.n)
    if type(v) in (int, bool):
        return (type(v).__name__, v)
    raise TypeError("unexpected result type %r" % type(v))


def run(f, *args, **kw):
    try:
        return ("ok", canon(f(*args, **kw)))
    except Exception as e:  # noqa: BLE001
        return ("exc", type(e).__name__)


# --------------------------------------------------------------------------
# 1. constants: same value, same type, everything that was public still is
# --------------------------------------------------------------------------
for name, (curve, new, old, optimized) in IMPLS.items():
    missing = [n for n in vars(old) if not n.startswith("__") and not hasattr(new, n)]
    assert not missing, (name, missing)
    for n in ("ate_loop_count", "log_ate_loop_count", "field_modulus"):
        a, b_ = getattr(old, n), getattr(new, n)
        assert type(a) is int and type(b_) is int and a == b_, (name, n)
    assert type(new.final_exponent) is int
    assert new.final_exponent == (old.field_modulus**12 - 1) // old.curve_order
    assert new.final_exponent * curve.curve_order == curve.field_modulus**12 - 1
    assert new.curve_order is curve.curve_order or new.curve_order == curve.curve_order
    assert old.conditions == new.conditions and all(new.conditions)
    if optimized:
        enc_o, enc_n = old.pseudo_binary_encoding, new.pseudo_binary_encoding
        assert list(enc_o) == list(enc_n) and len(enc_o) == len(enc_n)
        assert all(type(e) is int for e in enc_n)
        start_old = {"optimized_bn128": 63, "optimized_bls12_381": 62}[name]
        assert new.log_ate_loop_count == start_old
        assert list(enc_o[start_old::-1]) == list(enc_n[new.log_ate_loop_count :: -1])
        assert len(enc_n[new.log_ate_loop_count :: -1]) == start_old + 1
        assert sum(e * 2**i for i, e in enumerate(enc_n)) == new.ate_loop_count
        assert old.miller_loop.__defaults__ == new.miller_loop.__defaults__
        assert old.pairing.__defaults__ == new.pairing.__defaults__
    for fn in ("linefunc", "cast_point_to_fq12", "pairing"):  # untouched functions
        assert getattr(old, fn).__code__.co_code == getattr(new, fn).__code__.co_code
assert type(obn_pairing.pseudo_binary_encoding) is tuple
assert type(obls_pairing.pseudo_binary_encoding) is list  # unchanged there
assert bn128_pairing.curve_parameter_u == obn_pairing.curve_parameter_u
# the module constants cannot be changed by calling the functions (checked at the end)
SNAP = {
    name: (new.ate_loop_count, new.log_ate_loop_count, new.final_exponent,
           tuple(getattr(new, "pseudo_binary_encoding", ())))
    for name, (curve, new, old, optimized) in IMPLS.items()
}

# --------------------------------------------------------------------------
# 2. optimized implementations: many pairings, both versions, interleaved
# --------------------------------------------------------------------------
n_opt = 0
for name in ("optimized_bn128", "optimized_bls12_381"):
    curve, new, old, _ = IMPLS[name]
    r, G1, G2 = curve.curve_order, curve.G1, curve.G2
    FQ, FQ2, FQ12 = new.FQ, new.FQ2, new.FQ12
    p = curve.field_modulus

    def rescale1(P, k):
        return (P[0] * k, P[1] * k, P[2] * k)

    def rescale2(Q, k):
        return (Q[0] * k, Q[1] * k, Q[2] * k)

    a_r, b_r = rng.randrange(1, r), rng.randrange(1, r)
    cases = []
    for b_s, a_s in [(1, 1), (1, 2), (2, 1), (r - 1, 1), (1, r - 1), (b_r, a_r),
                     (0, 1), (1, 0), (r, 1), (1, r), (0, 0), (r, r)]:
        cases.append((curve.multiply(G2, b_s), curve.multiply(G1, a_s), (b_s, a_s)))
    # other projective representatives of the same points
    P7, Q5 = curve.multiply(G1, 7), curve.multiply(G2, 5)
    cases.append((Q5, P7, "base"))
    cases.append((rescale2(Q5, FQ2([3, 4])), rescale1(P7, FQ(p - 2)), "rescaled"))
    n5 = curve.normalize(Q5)
    n7 = curve.normalize(P7)
    cases.append(((n5[0], n5[1], FQ2.one()), (n7[0], n7[1], FQ.one()), "normalized"))
    # sums
    cases.append((curve.add(Q5, G2), curve.add(P7, curve.double(G1)), "sums"))
    # infinity representatives
    cases.append((curve.Z2, G1, "Z2"))
    cases.append((G2, curve.Z1, "Z1"))
    cases.append((curve.Z2, curve.Z1, "Z2Z1"))
    cases.append((G2, (FQ(5), FQ(9), FQ(0)), "inf-other-rep"))
    cases.append(((FQ2([1, 2]), FQ2([3, 4]), FQ2.zero()), G1, "inf2-other-rep"))
    cases.append((G2, (FQ(0), FQ(0), FQ(0)), "000"))
    cases.append(((FQ2.zero(), FQ2.zero(), FQ2.zero()), G1, "000-2"))
    # off-curve and malformed
    cases.append((G2, (FQ(1), FQ(3), FQ(1)), "offP"))
    cases.append(((G2[0], G2[1] + FQ2.one(), G2[2]), G1, "offQ"))
    cases.append(((G2[0], G2[1] + FQ2.one(), G2[2]), (FQ(1), FQ(3), FQ(1)), "offboth"))
    cases.append((G1, G1, "G1G1"))
    cases.append((G2, G2, "G2G2"))
    cases.append((G2, (FQ(1), FQ(2)), "2-tuple"))
    cases.append((None, G1, "NoneQ"))
    cases.append((G2, None, "NoneP"))
    cases.append((G2, 5, "intP"))
    cases.append((G2, (1, 2, 1), "int-coords"))

    results = {}
    for Q, P, tag in cases:
        try:
            before = (canon(Q), canon(P))
        except TypeError:
            before = None
        vo = run(old.pairing, Q, P)
        vn = run(new.pairing, Q, P)
        assert vo == vn, (name, tag, vo, vn)
        if before is not None:
            assert (canon(Q), canon(P)) == before  # arguments not mutated
        results[tag] = vn
        n_opt += 1
    # a subset without the final exponentiation + the stand-alone final_exponentiate
    for Q, P, tag in [cases[0], cases[5], cases[13], cases[16], cases[23]]:
        vo = run(old.pairing, Q, P, final_exponentiate=False)
        vn = run(new.pairing, Q, P, False)
        assert vo == vn, (name, tag, "nofinal")
        n_opt += 1
    mo = old.pairing(G2, G1, final_exponentiate=False)
    mn = new.pairing(G2, G1, final_exponentiate=False)
    assert canon(mo) == canon(mn)
    fo, fn_ = run(old.final_exponentiate, mo), run(new.final_exponentiate, mn)
    assert fo == fn_ == results[(1, 1)], name
    # miller_loop called directly (same calling convention per module)
    if name == "optimized_bn128":
        args = (curve.twist(Q5), new.cast_point_to_fq12(P7))
    else:
        args = (Q5, P7)
    assert run(old.miller_loop, *args, final_exponentiate=False) == run(
        new.miller_loop, *args, final_exponentiate=False
    )
    assert run(old.miller_loop, *args) == run(new.miller_loop, *args) == results["base"]
    assert run(old.miller_loop, None, args[1]) == run(new.miller_loop, None, args[1])
    # call history: repeat earlier calls after everything above
    for Q, P, tag in [cases[0], cases[5], cases[16], cases[23]]:
        assert run(new.pairing, Q, P) == results[tag], (name, tag, "repeat")
    # the property on the edited tree
    one = ("ok", canon(FQ12.one()))
    e = new.pairing(G2, G1)
    assert e != FQ12.one() and e**r == FQ12.one()
    assert results[(1, 2)] == results[(2, 1)] == ("ok", canon(e * e))
    assert results[(r - 1, 1)] == results[(1, r - 1)] == ("ok", canon(FQ12.one() / e))
    assert results[(b_r, a_r)] == ("ok", canon(e ** (a_r * b_r % r)))
    assert results["base"] == results["rescaled"] == results["normalized"]
    assert results["base"] == ("ok", canon(e**35))
    assert results["sums"] == ("ok", canon(e**54))
    for tag in [(0, 1), (1, 0), (r, 1), (1, r), (0, 0), (r, r), "Z2", "Z1", "Z2Z1",
                "inf-other-rep", "inf2-other-rep"]:
        assert results[tag] == one, (name, tag)
    for tag in ("offP", "offQ", "offboth"):
        assert results[tag] == ("exc", "ValueError"), (name, tag, results[tag])
    print("%-20s optimized cases ok   (%.0f s)" % (name, time.time() - T0), flush=True)

# --------------------------------------------------------------------------
# 3. reference implementations (~8 s per pairing): cheap cases + one full pairing each
# --------------------------------------------------------------------------
n_ref = 0
for name in ("bn128", "bls12_381"):
    curve, new, old, _ = IMPLS[name]
    r, G1, G2 = curve.curve_order, curve.G1, curve.G2
    FQ, FQ2, FQ12 = new.FQ, new.FQ2, new.FQ12
    cheap = [
        (None, G1), (G2, None), (None, None),
        (G2, curve.multiply(G1, r)), (curve.multiply(G2, r), G1),
        (curve.multiply(G2, 0), curve.multiply(G1, 0)),
        (G2, (FQ(1), FQ(3))),
        ((G2[0], G2[1] + FQ2.one()), G1),
        (G1, G1), (G2, G2), (G2, (FQ(1), FQ(2), FQ(1))), (G2, 5), (G2, (1, 2)),
    ]
    for Q, P in cheap + cheap[::-1]:
        vo, vn = run(old.pairing, Q, P), run(new.pairing, Q, P)
        assert vo == vn, (name, Q, P, vo, vn)
        n_ref += 1
    assert run(new.pairing, None, G1) == ("ok", canon(FQ12.one()))
    assert run(new.pairing, G2, (FQ(1), FQ(3))) == ("exc", "ValueError")
    for x in (1, 0, None):
        assert run(old.final_exponentiate, x) == run(new.final_exponentiate, x)
    assert run(old.miller_loop, None, G1) == run(new.miller_loop, None, G1)
    # full pairing, full-width scalars, both versions
    a_r, b_r = rng.randrange(1, r), rng.randrange(1, r)
    Q, P = curve.multiply(G2, b_r), curve.multiply(G1, a_r)
    vo = run(old.pairing, Q, P)
    vn = run(new.pairing, Q, P)
    assert vo == vn and vo[0] == "ok", name
    n_ref += 1
    # cross-check against the optimized implementation of the same curve
    ocurve, onew = IMPLS["optimized_" + name][0], IMPLS["optimized_" + name][1]
    ov = onew.pairing(ocurve.G2, ocurve.G1) ** (a_r * b_r % r)
    assert tuple(int(c) for c in ov.coeffs) == vn[1][2], name
    print("%-20s reference cases ok   (%.0f s)" % (name, time.time() - T0), flush=True)

for name, (curve, new, old, optimized) in IMPLS.items():
    assert SNAP[name] == (
        new.ate_loop_count, new.log_ate_loop_count, new.final_exponent,
        tuple(getattr(new, "pseudo_binary_encoding", ())),
    )

print("s2 equivalent: %d optimized pairing cases, %d reference pairing cases, %.0f s"
      % (n_opt, n_ref, time.time() - T0))
sys.exit(0)
