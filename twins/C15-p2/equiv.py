import os, sys; sys.path.insert(0, os.getcwd())  # noqa: E401,E702

import functools
import hashlib
import importlib.util
import random

HERE = os.path.dirname(os.path.abspath(__file__))


def load(name, path):
    spec = importlib.util.spec_from_file_location(name, path)
    mod = importlib.util.module_from_spec(spec)
    sys.modules[name] = mod
    spec.loader.exec_module(mod)
    return mod


import py_ecc.bls.hash as new_hash  # noqa: E402
import py_ecc.bls.hash_to_curve as new_htc  # noqa: E402
from py_ecc.fields import (  # noqa: E402
    optimized_bls12_381_FQ as FQ,
    optimized_bls12_381_FQ2 as FQ2,
)
from py_ecc.optimized_bls12_381 import field_modulus as P  # noqa: E402

assert os.path.realpath(new_htc.__file__).startswith(os.path.realpath(os.getcwd()))
old_hash = load("pristine_hash", os.path.join(HERE, "pristine", "hash.py"))
# pristine hash_to_curve (relative imports resolve inside package py_ecc.bls),
# wired to the pristine hash helpers
old_htc = load(
    "py_ecc.bls._pristine_hash_to_curve",
    os.path.join(HERE, "pristine", "hash_to_curve.py"),
)
old_htc.expand_message_xmd = old_hash.expand_message_xmd
old_htc.os2ip = old_hash.os2ip
assert not hasattr(old_htc, "_hash_to_field_coeffs")
assert hasattr(new_htc, "_hash_to_field_coeffs")

rng = random.Random(1502)


def rb(n):
    return bytes(rng.getrandbits(8) for _ in range(n))


def rfc_xmd(msg, dst, n, H):
    """Independent transcription of RFC 9380 section 5.3.1."""
    b_len, s_len = H().digest_size, H().block_size
    ell = -(-n // b_len)
    if ell > 255 or n > 65535 or len(dst) > 255:
        raise ValueError
    dst_prime = dst + bytes([len(dst)])
    b0 = H(bytes(s_len) + msg + n.to_bytes(2, "big") + b"\x00" + dst_prime).digest()
    bs = [H(b0 + b"\x01" + dst_prime).digest()]
    for i in range(2, ell + 1):
        x = bytes(p ^ q for p, q in zip(b0, bs[-1]))
        bs.append(H(x + bytes([i]) + dst_prime).digest())
    return b"".join(bs)[:n]


def describe(r):
    """Exact structural description of a hash_to_field result."""
    elems = []
    for e in r:
        if isinstance(e, FQ2):
            assert type(e) is FQ2
            cs = tuple(e.coeffs)
            assert all(type(c) is int for c in cs), [type(c) for c in cs]
            elems.append(("FQ2", type(e.coeffs), cs))
        else:
            assert type(e) is FQ
            assert type(e.n) is int
            elems.append(("FQ", e.n))
    return (type(r), tuple(elems))


def outcome(f, *a):
    try:
        r = f(*a)
    except BaseException as e:  # noqa: B902
        return ("exc", type(e))
    return ("ok", describe(r))


blake2b_32 = functools.partial(hashlib.blake2b, digest_size=32)
HASHES = [
    hashlib.sha256,
    hashlib.sha512,
    hashlib.sha384,
    hashlib.sha3_256,
    hashlib.blake2b,
    blake2b_32,
    hashlib.sha1,
    hashlib.md5,
]
FUNCS = (("hash_to_field_FQ", 1), ("hash_to_field_FQ2", 2))
checked = 0
calls = []

# ---- 1. grid over hashes, counts, tags, message lengths ----
COUNTS = list(range(0, 9)) + [15, 16, 31, 32, 63, 64, 127, 128, 255, 256, 512, -1, -2]
for H in HASHES:
    r = H().block_size
    for count in COUNTS:
        for dl in (0, 1, 43, 254, 255, 256):
            ml = rng.choice([0, 1, r - 9, r - 1, r, r + 1, 2 * r, 2 * r + 1, 777, 2048])
            msg, dst = rb(ml), rb(dl)
            for name, m in FUNCS:
                a = (msg, count, dst, H)
                o = outcome(getattr(old_htc, name), *a)
                n = outcome(getattr(new_htc, name), *a)
                assert o == n, (name, count, dl, H, o[0], n[0])
                checked += 1
                calls.append((name, a, n))
                # against the RFC: 64 bytes per coordinate, big-endian, mod p
                try:
                    u = rfc_xmd(msg, dst, count * m * 64, H)
                except (ValueError, OverflowError):
                    assert n[0] == "exc" and n[1] in (ValueError, OverflowError)
                    continue
                want = tuple(
                    tuple(
                        int.from_bytes(u[64 * (j + i * m): 64 * (j + i * m + 1)], "big") % P
                        for j in range(m)
                    )
                    for i in range(count)
                )
                got = tuple(
                    e[2] if e[0] == "FQ2" else (e[1],) for e in n[1][1]
                )
                assert n[0] == "ok" and got == want

# ---- 2. repeat / interleave the two siblings in shuffled order ----
for rnd in range(2):
    sample = rng.sample(calls, 400)
    for name, a, first in sample:
        assert outcome(getattr(new_htc, name), *a) == first
        assert outcome(getattr(old_htc, name), *a) == first
        checked += 1

# ---- 3. malformed / unusual arguments: identical exception classes ----
bad = [
    (b"m", 2.0, b"d", hashlib.sha256),
    (b"m", 0.5, b"d", hashlib.sha256),
    (b"m", None, b"d", hashlib.sha256),
    (b"m", "2", b"d", hashlib.sha256),
    (b"m", True, b"d", hashlib.sha256),
    (b"m", False, b"d", hashlib.sha256),
    (b"m", [1], b"d", hashlib.sha256),
    (b"m", b"\x02", b"d", hashlib.sha256),
    (b"m", float("nan"), b"d", hashlib.sha256),
    (b"m", 10**6, b"d", hashlib.sha256),
    (b"m", -(10**6), b"d", hashlib.sha256),
    ("m", 2, b"d", hashlib.sha256),
    (None, 2, b"d", hashlib.sha256),
    (bytearray(b"m"), 2, b"d", hashlib.sha256),
    (memoryview(b"m"), 2, b"d", hashlib.sha256),
    (b"m", 2, "d", hashlib.sha256),
    (b"m", 2, None, hashlib.sha256),
    (b"m", 2, bytearray(b"d"), hashlib.sha256),
    (b"m", 2, bytearray(b"d" * 256), hashlib.sha256),
    (b"m", 2, b"d", None),
    (b"m", 2, b"d", "sha256"),
    (b"m", 2, b"d", hashlib.sha256()),
    (b"m", 2, b"d", hashlib.shake_128),
    (b"m", 0, b"d" * 256, hashlib.sha256),
    (b"m", 0, "d", hashlib.sha256),
    ("m", 0, b"d", hashlib.sha256),
]
for a in bad:
    for name, _ in FUNCS:
        o = outcome(getattr(old_htc, name), *a)
        n = outcome(getattr(new_htc, name), *a)
        assert o == n, (name, [repr(x)[:30] for x in a], o, n)
        checked += 1

# ---- 4. arguments are not mutated; results are fresh, independent objects ----
msg, dst = bytearray(b"abc" * 50), bytearray(b"tag")
m0, d0 = bytes(msg), bytes(dst)
r1 = new_htc.hash_to_field_FQ2(msg, 3, dst, hashlib.sha256)
r2 = new_htc.hash_to_field_FQ2(msg, 3, dst, hashlib.sha256)
assert bytes(msg) == m0 and bytes(dst) == d0
assert describe(r1) == describe(r2) == describe(old_htc.hash_to_field_FQ2(m0, 3, d0, hashlib.sha256))
assert all(x is not y for x, y in zip(r1, r2))

# ---- 5. downstream hash_to_G1 / hash_to_G2 (use the edited siblings) ----
DST_G2 = b"BLS_SIG_BLS12381G2_XMD:SHA-256_SSWU_RO_POP_"
DST_G1 = b"BLS_SIG_BLS12381G1_XMD:SHA-256_SSWU_RO_POP_"
for msg in (b"", b"abc", rb(64), rb(200)):
    assert new_htc.hash_to_G2(msg, DST_G2, hashlib.sha256) == old_htc.hash_to_G2(
        msg, DST_G2, hashlib.sha256
    )
    assert new_htc.hash_to_G1(msg, DST_G1, hashlib.sha256) == old_htc.hash_to_G1(
        msg, DST_G1, hashlib.sha256
    )
    checked += 2

# ---- 6. expand_message_xmd is untouched by this edit ----
with open(os.path.join(HERE, "pristine", "hash.py"), "rb") as f1, open(new_hash.__file__, "rb") as f2:
    assert f1.read() == f2.read()

print("p2 equivalence OK, comparisons:", checked)
