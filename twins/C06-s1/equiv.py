import os, sys; sys.path.insert(0, os.getcwd())  # noqa: E401,E702

"""
Equivalence demonstration for twin C06 (secp256k1 ECDSA).

Loads the pristine py_ecc/secp256k1/secp256k1.py (saved next to this script under
pristine/) under another module name and compares it with the edited module of the
worktree in the current directory, on boundary, random and malformed inputs and on
repeated / interleaved call sequences.  Exits 0 iff everything is identical.
"""
import importlib
import importlib.util
import random
import types

HERE = os.path.dirname(os.path.abspath(__file__))


def load_pristine():
    path = os.path.join(HERE, "pristine", "secp256k1.py")
    spec = importlib.util.spec_from_file_location("pristine_secp256k1", path)
    mod = importlib.util.module_from_spec(spec)
    sys.modules["pristine_secp256k1"] = mod
    spec.loader.exec_module(mod)
    return mod


OLD = load_pristine()
NEW = importlib.import_module("py_ecc.secp256k1.secp256k1")
PKG = importlib.import_module("py_ecc.secp256k1")
assert os.path.abspath(NEW.__file__).startswith(os.getcwd()), NEW.__file__
assert os.path.abspath(OLD.__file__).startswith(HERE), OLD.__file__

FAILS = []
COUNT = [0]


def tagged(x):
    """repr that also records the exact type of every element."""
    if isinstance(x, tuple):
        return ("tuple", tuple(tagged(e) for e in x))
    if isinstance(x, list):
        return ("list", tuple(tagged(e) for e in x))
    return (type(x).__name__, repr(x))


def run(f, *args):
    try:
        return ("ok", tagged(f(*args)))
    except RecursionError:
        return ("exc", "RecursionError", "")
    except Exception as e:  # noqa: BLE001
        return ("exc", type(e).__name__, str(e))


def both(name, *args):
    COUNT[0] += 1
    a = run(getattr(OLD, name), *args)
    b = run(getattr(NEW, name), *args)
    if a != b:
        FAILS.append((name, args, a, b))
    return a


# ---------------------------------------------------------------- namespace
IGNORED = {"hashlib", "hmac", "Any"}  # stdlib imports, not part of the API
for nm, ov in vars(OLD).items():
    if nm.startswith("__") or nm in IGNORED:
        continue
    if not hasattr(NEW, nm):
        FAILS.append(("missing name", nm))
        continue
    nv = getattr(NEW, nm)
    if isinstance(ov, (types.FunctionType, types.ModuleType)) or nm in (
        "TYPE_CHECKING",
        "Tuple",
        "cast",
    ):
        if type(ov) is not type(nv) and nm not in ("Tuple",):
            FAILS.append(("kind differs", nm))
        continue
    if tagged(ov) != tagged(nv):
        FAILS.append(("constant differs", nm, ov, nv))

for nm in ("G", "N", "P", "ecdsa_raw_recover", "ecdsa_raw_sign", "privtopub"):
    if getattr(PKG, nm) is not getattr(NEW, nm):
        FAILS.append(("package re-export is not the same object", nm))

# if the edited tree has the helper module, the old names must bind the same objects
try:
    RFC = importlib.import_module("py_ecc.secp256k1.rfc6979")
except ImportError:
    RFC = None
if RFC is not None:
    for nm in ("safe_ord", "bytes_to_int", "deterministic_generate_k"):
        if getattr(RFC, nm) is not getattr(NEW, nm):
            FAILS.append(("module re-export is not the same object", nm))

N, P = OLD.N, OLD.P
rng = random.Random(0xC06)


def b32(i):
    return i.to_bytes(32, "big")


# ---------------------------------------------------------------- helpers
for v in (0, 1, 255, 256, -1, True, "a", "\x00", "\xff", "ሴ", b"a", b"\x00",
          bytearray(b"z"), "", "ab", b"", b"ab", None, 1.5, [1], (2,)):
    both("safe_ord", v)

for v in (b"", b"\x00", b"\x01", b"\xff" * 32, b"\x00" * 31 + b"\x01", b"abc" * 30,
          bytearray(b"\x01\x02"), "abc", "ሴx", [1, 2, 3], [256, -1], (7, 8),
          ["a", 1], [b"a", "b"], memoryview(b"\x05\x06"), None, 5, [1.5], ["ab"],
          range(4)):
    both("bytes_to_int", v)
for _ in range(200):
    both("bytes_to_int", rng.randbytes(rng.randrange(0, 70)))

for a, n in ((0, N), (1, N), (N - 1, N), (N, N), (N + 1, N), (-1, N), (2, P), (P - 1, P),
             (P, P), (3, 7), (6, 9), (5, 1), (5, 0), (0, 0), (7, -5), (1.0, 7), ("a", 7)):
    both("inv", a, n)
for _ in range(200):
    both("inv", rng.randrange(-N, 2 * N), rng.choice((N, P)))

# ---------------------------------------------------------------- inputs
keys_int = [1, 2, 3, 7, 0xFFFF, N // 2, N // 2 + 1, N - 2, N - 1] + [
    rng.randrange(1, N) for _ in range(7)
]
keys = [b32(k) for k in keys_int]
hashes = [b"\x00" * 32, b"\xff" * 32, b32(N - 1), b32(N), b32(N + 1), b32(1), b32(P),
          b32(P - 1), b32(N // 2), b32(2**255)] + [rng.randbytes(32) for _ in range(5)]
odd_hashes = [rng.randbytes(n) for n in range(0, 65)]
# out-of-contract keys: zero, N, > N, short, long, empty, str / list / None
bad_keys = [b32(0), b32(N), b32(N + 1), b"\xff" * 32, b"\x01", b"", b"\x01" * 33,
            b"\x00" * 64, bytearray(b32(5))]
weird_keys = ["\x01" * 32, [1] * 32, None, 5]
weird_hashes = ["h" * 32, None, 7, [1, 2]]

# ---------------------------------------------------------------- nonce
for k in keys + bad_keys:
    for h in hashes[:6] + odd_hashes[::8]:
        both("deterministic_generate_k", h, k)
for k in weird_keys:
    both("deterministic_generate_k", hashes[0], k)
for h in weird_hashes:
    both("deterministic_generate_k", h, keys[0])

# ---------------------------------------------------------------- privtopub
for k in keys + bad_keys + weird_keys:
    both("privtopub", k)

# ---------------------------------------------------------------- sign + recover
sigs = []


def sign_and_recover(h, k):
    a = both("ecdsa_raw_sign", h, k)
    if a[0] != "ok":
        return
    sig_old = OLD.ecdsa_raw_sign(h, k)
    sig_new = NEW.ecdsa_raw_sign(h, k)
    assert sig_old == sig_new or FAILS
    v, r, s = sig_old
    sigs.append((h, sig_old))
    both("ecdsa_raw_recover", h, (v, r, s))
    both("ecdsa_raw_recover", h, (55 - v, r, s))  # the other parity
    both("ecdsa_raw_recover", h, (v, r, N - s))  # high-s twin
    both("ecdsa_raw_recover", h, [v, r, s])  # list instead of tuple


for k in keys:
    for h in hashes:
        sign_and_recover(h, k)
for k in keys[:1] + keys[-2:]:
    for h in odd_hashes:
        sign_and_recover(h, k)
for k in bad_keys:
    for h in hashes[:4] + odd_hashes[:3]:
        sign_and_recover(h, k)
for k in weird_keys:
    both("ecdsa_raw_sign", hashes[0], k)
for h in weird_hashes:
    both("ecdsa_raw_sign", h, keys[0])

# the property itself, on the edited module (and on the pristine one)
for M in (OLD, NEW):
    for k in keys[:6] + keys[-4:]:
        pub = M.privtopub(k)
        for h in hashes[:8] + odd_hashes[::16]:
            v, r, s = M.ecdsa_raw_sign(h, k)
            assert v in (27, 28) and 1 <= r < N and 1 <= s <= N // 2
            assert type(v) is int and type(r) is int and type(s) is int
            assert M.ecdsa_raw_recover(h, (v, r, s)) == pub
            try:
                other = M.ecdsa_raw_recover(h, (55 - v, r, s))
            except ValueError:
                other = None
            assert other != pub

# ---------------------------------------------------------------- malformed signatures
h0, (v0, r0, s0) = sigs[0]
# an x with no point on the curve
x_bad = next(x for x in range(1, 100) if pow(x**3 + 7, (P - 1) // 2, P) != 1)
x_ok = next(x for x in range(1, 100) if pow(x**3 + 7, (P - 1) // 2, P) == 1)
for v in (27, 28, 26, 29, 0, 1, -1, 27.0, 28.0, True, "27", None, 27 + 2**64):
    for r in (r0, 0, 1, x_bad, x_ok, N - 1, N, N + 1, P - 1, P, P + 1, 2 * N, -1, -r0, 2**256,
              2**256 + x_ok):
        for s in (s0, 0, 1, N - 1, N, N + 1, 2 * N, -1, -s0):
            both("ecdsa_raw_recover", h0, (v, r, s))
for vrs in ((), (27,), (27, r0), (27, r0, s0, 1), None, 27, "abc", (27, "1", 1), (27, 1, "1"),
            (27, 1.0, 1), (27, 1, 1.0), (27, None, 1)):
    both("ecdsa_raw_recover", h0, vrs)
for h in weird_hashes + [b"", b"\x01", b"\xff" * 64]:
    both("ecdsa_raw_recover", h, (v0, r0, s0))

# ---------------------------------------------------------------- group arithmetic
G = OLD.G
pts = [G, OLD.multiply(G, 2), OLD.multiply(G, N - 1), OLD.multiply(G, 12345), (0, 0),
       OLD.multiply(G, N // 2)]
for a in pts:
    for n in (0, 1, 2, 3, N - 1, N, N + 1, -1, -2, 2 * N + 5, 2**300 + 3, rng.randrange(N)):
        both("multiply", a, n)
        both("jacobian_multiply", (a[0], a[1], 1), n)
    for b in pts:
        both("add", a, b)
        both("jacobian_add", (a[0], a[1], 1), (b[0], b[1], 1))
    both("to_jacobian", a)
    both("jacobian_double", (a[0], a[1], 1))
    both("jacobian_double", (a[0] * 4 % P, a[1] * 8 % P, 2))
    both("from_jacobian", (a[0] * 4 % P, a[1] * 8 % P, 2))
    both("from_jacobian", (a[0], a[1], 0))
for z in ((0, 0, 0), (0, 0, 1), (1, 0, 1), (0, 1, 0)):
    both("jacobian_double", z)
    both("from_jacobian", z)
    both("jacobian_multiply", z, 5)
    both("jacobian_add", z, (G[0], G[1], 1))
    both("jacobian_add", (G[0], G[1], 1), z)
both("multiply", G, 1.0)
both("multiply", G, "3")
both("multiply", None, 3)

# ---------------------------------------------------------------- call histories
# repeat and interleave calls with equal and different arguments in a shuffled order;
# every call must still agree with the pristine module and with the first answer.
first = {}
calls = []
for k in keys[:5] + bad_keys[:2]:
    for h in hashes[:4] + odd_hashes[:2]:
        calls.append(("ecdsa_raw_sign", (h, k)))
        calls.append(("deterministic_generate_k", (h, k)))
    calls.append(("privtopub", (k,)))
for h, sig in sigs[:25]:
    calls.append(("ecdsa_raw_recover", (h, sig)))
    calls.append(("ecdsa_raw_recover", (h, (55 - sig[0], sig[1], sig[2]))))
calls.append(("ecdsa_raw_recover", (h0, (26, r0, s0))))
calls.append(("ecdsa_raw_recover", (h0, (27, x_bad, s0))))
calls = calls * 3
rng.shuffle(calls)
for name, args in calls:
    res = both(name, *args)
    key = (name, repr(args))
    if first.setdefault(key, res) != res:
        FAILS.append(("history changed a result", name, args))

# constants and arguments must not have been mutated
for nm in ("P", "N", "A", "B", "Gx", "Gy", "G"):
    if tagged(getattr(OLD, nm)) != tagged(getattr(NEW, nm)):
        FAILS.append(("constant differs after calls", nm))
assert NEW.G == (NEW.Gx, NEW.Gy) and type(NEW.G) is tuple
assert keys == [b32(k) for k in keys_int]

print("comparisons:", COUNT[0], "failures:", len(FAILS))
for f in FAILS[:20]:
    print("FAIL", f)
sys.exit(1 if FAILS else 0)
