from .secp256k1 import (
    G,
    N,
    P,
    ecdsa_raw_recover,
    ecdsa_raw_sign,
    privtopub,
)
