from eth_typing import (
    BLSPubkey,
    BLSSignature,
)

from py_ecc.optimized_bls12_381 import (
    curve_order,
    is_inf,
    multiply,
)
from py_ecc.typing import (
    Optimized_Field,
    Optimized_Point3D,
)

from .hash import (
    i2osp,
    os2ip,
)
from .point_compression import (
    compress_G1,
    compress_G2,
    decompress_G1,
    decompress_G2,
)
from .typing import (
    G1Compressed,
    G1Uncompressed,
    G2Compressed,
    G2Uncompressed,
)


def subgroup_check(P: Optimized_Point3D[Optimized_Field]) -> bool:
    return is_inf(multiply(P, curve_order))


def G2_to_signature(pt: G2Uncompressed) -> BLSSignature:
    z1, z2 = compress_G2(pt)
    return BLSSignature(i2osp(z1, 48) + i2osp(z2, 48))


def signature_to_G2(signature: BLSSignature) -> G2Uncompressed:
    p = G2Compressed((os2ip(signature[:48]), os2ip(signature[48:])))
    signature_point = decompress_G2(p)
    return signature_point


def G1_to_pubkey(pt: G1Uncompressed) -> BLSPubkey:
    z = compress_G1(pt)
    return BLSPubkey(i2osp(z, 48))


def pubkey_to_G1(pubkey: BLSPubkey) -> G1Uncompressed:
    z = os2ip(pubkey)
    return decompress_G1(G1Compressed(z))
