from typing import (
    Tuple,
)

from _hashlib import (
    HASH,
)

from py_ecc.fields import (
    optimized_bls12_381_FQ as FQ,
    optimized_bls12_381_FQ2 as FQ2,
)
from py_ecc.optimized_bls12_381 import (
    add,
    field_modulus,
    iso_map_G1,
    iso_map_G2,
    multiply_clear_cofactor_G1,
    multiply_clear_cofactor_G2,
    optimized_swu_G1,
    optimized_swu_G2,
)

from .constants import (
    HASH_TO_FIELD_L,
)
from .hash import (
    expand_message_xmd,
    os2ip,
)
from .typing import (
    G1Uncompressed,
    G2Uncompressed,
)


# Hash to G2
def hash_to_G2(message: bytes, DST: bytes, hash_function: HASH) -> G2Uncompressed:
    """
    Convert a message to a point on G2 as defined here:
    https://tools.ietf.org/html/draft-irtf-cfrg-hash-to-curve-09#section-6.6.3

    The idea is to first hash into FQ2 and then use SSWU to map the result into G2.

    Contents and inputs follow the ciphersuite ``BLS12381G2_XMD:SHA-256_SSWU_RO_``
    defined here:
    https://tools.ietf.org/html/draft-irtf-cfrg-hash-to-curve-09#section-8.8.2
    """
    u0, u1 = hash_to_field_FQ2(message, 2, DST, hash_function)
    q0 = map_to_curve_G2(u0)
    q1 = map_to_curve_G2(u1)
    r = add(q0, q1)
    p = clear_cofactor_G2(r)
    return p


def hash_to_field_FQ2(
    message: bytes, count: int, DST: bytes, hash_function: HASH
) -> Tuple[FQ2, ...]:
    """
    Hash To Base Field for FQ2

    Convert a message to a point in the finite field as defined here:
    https://tools.ietf.org/html/draft-irtf-cfrg-hash-to-curve-09#section-5.3
    """
    M = 2  # m is the extension degree of FQ2
    len_in_bytes = count * M * HASH_TO_FIELD_L
    pseudo_random_bytes = expand_message_xmd(message, DST, len_in_bytes, hash_function)
    u = []
    for i in range(0, count):
        e = []
        for j in range(0, M):
            elem_offset = HASH_TO_FIELD_L * (j + i * M)
            tv = pseudo_random_bytes[elem_offset : elem_offset + HASH_TO_FIELD_L]
            e.append(os2ip(tv) % field_modulus)
        u.append(FQ2(e))
    return tuple(u)


def map_to_curve_G2(u: FQ2) -> G2Uncompressed:
    """
    Map To Curve for G2

    First, convert FQ2 point to a point on the 3-Isogeny curve.
    SWU Map: https://tools.ietf.org/html/draft-irtf-cfrg-hash-to-curve-09#section-6.6.3

    Second, map 3-Isogeny curve to BLS12-381-G2 curve.
    3-Isogeny Map:
    https://tools.ietf.org/html/draft-irtf-cfrg-hash-to-curve-09#appendix-C.3
    """
    (x, y, z) = optimized_swu_G2(u)
    return iso_map_G2(x, y, z)


def clear_cofactor_G2(p: G2Uncompressed) -> G2Uncompressed:
    """
    Clear Cofactor via Multiplication

    Ensure a point falls in the correct sub group of the curve.
    """
    return multiply_clear_cofactor_G2(p)


# --- G1 ---


def hash_to_G1(message: bytes, DST: bytes, hash_function: HASH) -> G1Uncompressed:
    """
    Convert a message to a point on G1 as defined here:
    https://tools.ietf.org/html/draft-irtf-cfrg-hash-to-curve-09#section-6.6.3

    The idea is to first hash into FQ and then use SSWU to map the result into G1.

    Contents and inputs follow the ciphersuite ``BLS12381G1_XMD:SHA-256_SSWU_RO_``
    defined here:
    https://datatracker.ietf.org/doc/html/draft-irtf-cfrg-hash-to-curve-09#section-8.8.1
    """
    u0, u1 = hash_to_field_FQ(message, 2, DST, hash_function)
    q0 = map_to_curve_G1(u0)
    q1 = map_to_curve_G1(u1)
    r = add(q0, q1)
    p = clear_cofactor_G1(r)
    return p


def hash_to_field_FQ(
    message: bytes, count: int, DST: bytes, hash_function: HASH
) -> Tuple[FQ, ...]:
    """
    Hash To Base Field for FQ

    Convert a message to a point in the finite field as defined here:
    https://tools.ietf.org/html/draft-irtf-cfrg-hash-to-curve-09#section-5.3
    """
    M = 1  # m is the extension degree of FQ
    len_in_bytes = count * M * HASH_TO_FIELD_L
    pseudo_random_bytes = expand_message_xmd(message, DST, len_in_bytes, hash_function)
    u = []
    for i in range(0, count):
        elem_offset = HASH_TO_FIELD_L * (i * M)
        tv = pseudo_random_bytes[elem_offset : elem_offset + HASH_TO_FIELD_L]
        u.append(FQ(os2ip(tv) % field_modulus))
    return tuple(u)


def map_to_curve_G1(u: FQ) -> G1Uncompressed:
    """
    Map To Curve for G1

    First, convert FQ point to a point on the 11-Isogeny curve.
    SWU Map: https://tools.ietf.org/html/draft-irtf-cfrg-hash-to-curve-09#section-6.6.3

    Second, map 11-Isogeny curve to BLS12-381-G1 curve.
    11-Isogeny Map:
    https://datatracker.ietf.org/doc/html/draft-irtf-cfrg-hash-to-curve-09#name-11-isogeny-map-for-bls12-38
    """
    (x, y, z) = optimized_swu_G1(u)
    return iso_map_G1(x, y, z)


def clear_cofactor_G1(p: G1Uncompressed) -> G1Uncompressed:
    """
    Clear Cofactor via Multiplication

    Ensure a point falls in the correct subgroup of the curve.
    """
    return multiply_clear_cofactor_G1(p)
