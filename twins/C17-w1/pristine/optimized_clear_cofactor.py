from py_ecc.typing import (
    Optimized_Field,
    Optimized_Point3D,
)

from .constants import (
    H_EFF_G1,
    H_EFF_G2,
)
from .optimized_curve import (
    multiply,
)


def multiply_clear_cofactor_G1(
    p: Optimized_Point3D[Optimized_Field],
) -> Optimized_Point3D[Optimized_Field]:
    return multiply(p, H_EFF_G1)


# Cofactor Clearing Method by Multiplication
# There is an optimization based on this Section 4.1 of https://eprint.iacr.org/2017/419
# However there is a patent `US patent 7110538` so I'm not sure if it can be used.
def multiply_clear_cofactor_G2(
    p: Optimized_Point3D[Optimized_Field],
) -> Optimized_Point3D[Optimized_Field]:
    return multiply(p, H_EFF_G2)
