import os, sys; sys.path.insert(0, os.getcwd())  # noqa: E401,E702

"""
Equivalence demonstration for twin w1 (property C17).

Loads the pristine copies of
    py_ecc/bls/g2_primitives.py
    py_ecc/bls/hash_to_curve.py
    py_ecc/optimized_bls12_381/optimized_clear_cofactor.py
(saved under /tmp/twin6/C17/w1/pristine/) next to the edited modules of the
current working tree and checks that subgroup_check, the cofactor clearing
functions and hash_to_G1/G2 return identical values / raise identical exception
classes on a broad set of inputs and call sequences.
"""

import hashlib
import importlib.util
import random
import time

T0 = time.time()
HERE = os.path.dirname(os.path.abspath(__file__))
PRISTINE = os.path.join(HERE, "pristine")

import py_ecc  # noqa: E402

assert os.path.abspath(py_ecc.__file__).startswith(os.getcwd()), py_ecc.__file__

from py_ecc.bls import g2_primitives as new_g2p  # noqa: E402
from py_ecc.bls import hash_to_curve as new_h2c  # noqa: E402
from py_ecc.bls.constants import G2_COFACTOR  # noqa: E402
from py_ecc.bls.point_compression import modular_squareroot_in_FQ2  # noqa: E402
from py_ecc.fields import (  # noqa: E402
    optimized_bls12_381_FQ as FQ,
    optimized_bls12_381_FQ2 as FQ2,
    optimized_bls12_381_FQ12 as FQ12,
)
from py_ecc.optimized_bls12_381 import (  # noqa: E402
    G1,
    G2,
    G12,
    Z1,
    Z2,
    add,
    b,
    b2,
    curve_order,
    field_modulus as q,
    is_inf,
    is_on_curve,
    multiply,
    neg,
    normalize,
    twist,
)
from py_ecc.optimized_bls12_381 import constants as new_consts  # noqa: E402
from py_ecc.optimized_bls12_381 import optimized_clear_cofactor as new_occ  # noqa: E402


def load(name, filename):
    spec = importlib.util.spec_from_file_location(
        name, os.path.join(PRISTINE, filename)
    )
    mod = importlib.util.module_from_spec(spec)
    sys.modules[name] = mod
    spec.loader.exec_module(mod)
    return mod


old_occ = load(
    "py_ecc.optimized_bls12_381._pristine_optimized_clear_cofactor",
    "optimized_clear_cofactor.py",
)
old_g2p = load("py_ecc.bls._pristine_g2_primitives", "g2_primitives.py")
old_h2c = load("py_ecc.bls._pristine_hash_to_curve", "hash_to_curve.py")
# the pristine hash_to_curve must use the pristine clearing functions
old_h2c.multiply_clear_cofactor_G1 = old_occ.multiply_clear_cofactor_G1
old_h2c.multiply_clear_cofactor_G2 = old_occ.multiply_clear_cofactor_G2

# sanity: the "new" modules really are the edited ones, the "old" the pristine
assert hasattr(new_occ, "_multiply_clear_cofactor")
assert not hasattr(old_occ, "_multiply_clear_cofactor")
assert hasattr(new_g2p, "_is_killed_by") and not hasattr(old_g2p, "_is_killed_by")
assert new_h2c.multiply_clear_cofactor_G1 is new_occ.multiply_clear_cofactor_G1
assert new_h2c.multiply_clear_cofactor_G2 is new_occ.multiply_clear_cofactor_G2

CHECKS = 0


def same(a, c):
    """Exact sameness: same types, same structure, same field values."""
    if type(a) is not type(c):
        return False
    if isinstance(a, (tuple, list)):
        return len(a) == len(c) and all(same(x, y) for x, y in zip(a, c))
    return a == c


def outcome(f, *args):
    try:
        return ("ok", f(*args))
    except RecursionError:
        return ("exc", RecursionError)
    except Exception as e:  # noqa: BLE001
        return ("exc", type(e))


def check(label, f_old, f_new, *args):
    global CHECKS
    o = outcome(f_old, *args)
    n = outcome(f_new, *args)
    if o[0] != n[0] or not (same(o[1], n[1]) if o[0] == "ok" else o[1] is n[1]):
        print("MISMATCH", label, o, n)
        sys.exit(1)
    CHECKS += 1
    return n


# ---------------------------------------------------------------- constants
X = -0xD201000000010000  # BLS12-381 curve parameter
assert curve_order == X**4 - X**2 + 1
assert q == (X - 1) ** 2 * curve_order // 3 + X
H1 = (X - 1) ** 2 // 3
H2 = (X**8 - 4 * X**7 + 5 * X**6 - 4 * X**4 + 6 * X**3 - 4 * X**2 - 4 * X + 13) // 9
assert G2_COFACTOR == H2
assert new_consts.H_EFF_G1 == 1 - X == 0xD201000000010001
assert new_consts.H_EFF_G2 == H2 * (3 * X**2 - 3)
for m in (old_occ, new_occ):
    assert m.H_EFF_G1 == new_consts.H_EFF_G1 and m.H_EFF_G2 == new_consts.H_EFF_G2
    assert m.multiply is multiply
for m in (old_g2p, new_g2p):
    assert m.curve_order == curve_order and m.multiply is multiply
    assert m.is_inf is is_inf

H1_FACTORS = [(3, 1), (11, 2), (10177, 2), (859267, 2), (52437899, 2)]
_t = 1
for p_, e_ in H1_FACTORS:
    _t *= p_**e_
assert _t == H1
H2_SMALL = [(13, 2), (23, 2), (2713, 1), (11953, 1), (262069, 1)]
_t = 1
for p_, e_ in H2_SMALL:
    _t *= p_**e_
assert H2 % _t == 0
H2_BIG = H2 // _t
H2_FACTORS = H2_SMALL + [(H2_BIG, 1)]

# ---------------------------------------------------------------- inputs
rng = random.Random(0xC17)


def rand_E1():
    while True:
        x = FQ(rng.randrange(q))
        rhs = x**3 + b
        y = rhs ** ((q + 1) // 4)
        if y * y == rhs:
            if rng.random() < 0.5:
                y = -y
            pt = (x, y, FQ(1))
            assert is_on_curve(pt, b)
            return pt


def rand_E2():
    while True:
        x = FQ2((rng.randrange(q), rng.randrange(q)))
        y = modular_squareroot_in_FQ2(x**3 + b2)
        if y is not None:
            if rng.random() < 0.5:
                y = -y
            pt = (x, y, FQ2.one())
            assert is_on_curve(pt, b2)
            return pt


def rescale(pt, lam):
    return tuple(c * lam for c in pt)


def torsion(rand_pt, h, factors):
    """Points whose order divides a prime-power factor of the cofactor."""
    out = []
    for p_, e_ in factors:
        R = rand_pt()
        T = multiply(R, curve_order * (h // p_**e_))
        out.append(("ord|%d^%d" % (p_ if p_ < 10**9 else 0, e_), T))
    R = rand_pt()
    out.append(("full-cofactor", multiply(R, curve_order)))
    return out


SCALARS = [1, 2, 3, 7, curve_order - 1, curve_order + 1, rng.randrange(curve_order)]

points_1 = [("Z1", Z1), ("Z1-000", (FQ(0), FQ(0), FQ(0))), ("Z1-x", (FQ(5), FQ(0), FQ(0)))]
points_2 = [
    ("Z2", Z2),
    ("Z2-000", (FQ2.zero(), FQ2.zero(), FQ2.zero())),
    ("Z2-x", (FQ2((5, 1)), FQ2.zero(), FQ2.zero())),
]
for k in SCALARS:
    points_1.append(("%d*G1" % k, multiply(G1, k)))
    points_2.append(("%d*G2" % k, multiply(G2, k)))
points_1.append(("-G1", neg(G1)))
points_2.append(("-G2", neg(G2)))
tors_1 = torsion(rand_E1, H1, H1_FACTORS)
tors_2 = torsion(rand_E2, H2, H2_FACTORS)
points_1 += tors_1
points_2 += tors_2
for name, T in tors_1:
    points_1.append(("kG1+" + name, add(multiply(G1, rng.randrange(1, curve_order)), T)))
for name, T in tors_2:
    points_2.append(("kG2+" + name, add(multiply(G2, rng.randrange(1, curve_order)), T)))
for i in range(4):
    points_1.append(("rand1-%d" % i, rand_E1()))
    points_2.append(("rand2-%d" % i, rand_E2()))
# other projective representatives of every point so far
points_1 += [
    (n + "*lam", rescale(p, FQ(rng.randrange(1, q)))) for n, p in list(points_1)[::2]
]
points_2 += [
    (n + "*lam", rescale(p, FQ2((rng.randrange(q), rng.randrange(1, q)))))
    for n, p in list(points_2)[::2]
]
# normalised (z == 1) representatives of some
points_1.append(("norm", normalize(points_1[8][1]) + (FQ(1),)))
points_2.append(("norm", normalize(points_2[8][1]) + (FQ2.one(),)))
# points that are NOT on the curve (garbage in, same garbage out)
off_1 = [("off1", (FQ(1), FQ(2), FQ(1))), ("off1b", (FQ(0), FQ(0), FQ(1)))]
off_2 = [("off2", (FQ2((1, 2)), FQ2((3, 4)), FQ2.one()))]
# lists instead of tuples, int z
odd_repr = [
    ("list-G1", list(G1)),
    ("list-G2", list(G2)),
    ("G1-intz", (G1[0], G1[1], 1)),
]

malformed = [
    None,
    (),
    (FQ(1),),
    (FQ(1), FQ(2)),
    (FQ(1), FQ(2), FQ(1), FQ(1)),
    # NB: no all-int tuples with z != 0 here -- on plain ints the projective
    # formulas never reduce, the coordinates double in length with every
    # doubling and neither version finishes
    "abc",
    b"\x00" * 48,
    5,
    (G1[0], G1[1], None),
    (G1[0], G2[1], G1[2]),
    (G2[0], G1[1], G2[2]),
    (G2[0], G2[1], FQ(1)),
    (G1[0], G1[1], FQ2.one()),
    (None, None, FQ(0)),
    (1.5, 2.5, 1.0),
]

# ---------------------------------------------------------------- checks
names_1 = {n for n, _ in points_1}
names_2 = {n for n, _ in points_2}
seen_true = seen_false = 0
all_valid = points_1 + points_2 + off_1 + off_2 + odd_repr
for name, P in all_valid:
    r = check("subgroup_check " + name, old_g2p.subgroup_check, new_g2p.subgroup_check, P)
    if r == ("ok", True):
        seen_true += 1
    elif r == ("ok", False):
        seen_false += 1
assert seen_true >= 20 and seen_false >= 20, (seen_true, seen_false)

for name, P in points_1 + off_1 + odd_repr:
    check("mcc_G1 " + name, old_occ.multiply_clear_cofactor_G1, new_occ.multiply_clear_cofactor_G1, P)
    r = check("cc_G1 " + name, old_h2c.clear_cofactor_G1, new_h2c.clear_cofactor_G1, P)
    if name in names_1:
        assert r[0] == "ok" and new_g2p.subgroup_check(r[1]), name
for name, P in points_2 + off_2 + odd_repr:
    check("mcc_G2 " + name, old_occ.multiply_clear_cofactor_G2, new_occ.multiply_clear_cofactor_G2, P)
    r = check("cc_G2 " + name, old_h2c.clear_cofactor_G2, new_h2c.clear_cofactor_G2, P)
    if name in names_2:
        assert r[0] == "ok" and new_g2p.subgroup_check(r[1]), name
# wrong-group arguments (the functions are generic in the field): G1 function on
# E2 points and vice versa
for name, P in points_2[:6]:
    check("mcc_G1 on E2 " + name, old_occ.multiply_clear_cofactor_G1, new_occ.multiply_clear_cofactor_G1, P)
for name, P in points_1[:6]:
    check("mcc_G2 on E1 " + name, old_occ.multiply_clear_cofactor_G2, new_occ.multiply_clear_cofactor_G2, P)

# FQ12 points (the functions share the generic curve arithmetic)
P12 = twist(multiply(G2, 5))
check("subgroup_check G12", old_g2p.subgroup_check, new_g2p.subgroup_check, G12)
check("subgroup_check 5*G12", old_g2p.subgroup_check, new_g2p.subgroup_check, P12)
check("subgroup_check twist(tors)", old_g2p.subgroup_check, new_g2p.subgroup_check, twist(tors_2[0][1]))
check("mcc_G1 G12", old_occ.multiply_clear_cofactor_G1, new_occ.multiply_clear_cofactor_G1, G12)
assert isinstance(P12[0], FQ12)

for i, bad in enumerate(malformed):
    for fo, fn, nm in [
        (old_g2p.subgroup_check, new_g2p.subgroup_check, "subgroup_check"),
        (old_occ.multiply_clear_cofactor_G1, new_occ.multiply_clear_cofactor_G1, "mcc_G1"),
        (old_occ.multiply_clear_cofactor_G2, new_occ.multiply_clear_cofactor_G2, "mcc_G2"),
        (old_h2c.clear_cofactor_G1, new_h2c.clear_cofactor_G1, "cc_G1"),
        (old_h2c.clear_cofactor_G2, new_h2c.clear_cofactor_G2, "cc_G2"),
    ]:
        r = check("%s malformed#%d" % (nm, i), fo, fn, bad)
# wrong arity
for fo, fn in [
    (old_g2p.subgroup_check, new_g2p.subgroup_check),
    (old_occ.multiply_clear_cofactor_G1, new_occ.multiply_clear_cofactor_G1),
    (old_h2c.clear_cofactor_G2, new_h2c.clear_cofactor_G2),
]:
    check("no-args", fo, fn)
    check("two-args", fo, fn, G1, 3)

# arguments are not mutated
snap = [list(G1), list(G2)]
lst1, lst2 = list(G1), list(G2)
new_g2p.subgroup_check(lst1), new_occ.multiply_clear_cofactor_G2(lst2)
assert same([lst1, lst2], snap)

# end-to-end: hash_to_G1 / hash_to_G2, incl. empty message / empty DST
msgs = [b"", b"abc", b"\x00" * 64, bytes(range(256))]
dsts = [b"QUUX-V01-CS02-with-BLS12381G2_XMD:SHA-256_SSWU_RO_", b"", b"x" * 255, b"y" * 256]
for m in msgs[:3]:
    for d in dsts:
        check("hash_to_G2", old_h2c.hash_to_G2, new_h2c.hash_to_G2, m, d, hashlib.sha256)
        check("hash_to_G1", old_h2c.hash_to_G1, new_h2c.hash_to_G1, m, d, hashlib.sha256)
check("hash_to_G2 sha512", old_h2c.hash_to_G2, new_h2c.hash_to_G2, msgs[3], dsts[0], hashlib.sha512)
check("hash_to_G2 bad msg", old_h2c.hash_to_G2, new_h2c.hash_to_G2, "str", dsts[0], hashlib.sha256)
check("hash_to_G1 bad hash", old_h2c.hash_to_G1, new_h2c.hash_to_G1, b"m", dsts[0], None)

# call histories: repeat and interleave calls with equal and different
# arguments, in a random order, and compare every result with the first one
pool = [points_1[3], points_1[-3], tors_1[0], points_2[4], tors_2[1], ("Z1", Z1), ("Z2", Z2)]
first = {}
for step in range(60):
    name, P = pool[rng.randrange(len(pool))]
    which = rng.randrange(3)
    if which == 0:
        fo, fn, key = old_g2p.subgroup_check, new_g2p.subgroup_check, "sc"
    elif which == 1:
        fo, fn, key = old_occ.multiply_clear_cofactor_G1, new_occ.multiply_clear_cofactor_G1, "c1"
    else:
        fo, fn, key = old_h2c.clear_cofactor_G2, new_h2c.clear_cofactor_G2, "c2"
    r = check("history %s %s" % (key, name), fo, fn, P)
    k = (key, name)
    if k in first:
        assert r[0] == first[k][0] and (same(r[1], first[k][1]) if r[0] == "ok" else r[1] is first[k][1])
    else:
        first[k] = r

# module-level constants untouched by all of the above
assert new_consts.H_EFF_G1 == 0xD201000000010001
assert new_consts.H_EFF_G2 == H2 * (3 * X**2 - 3)
assert new_occ.H_EFF_G1 == new_consts.H_EFF_G1 and new_occ.H_EFF_G2 == new_consts.H_EFF_G2
assert new_g2p.curve_order == curve_order == X**4 - X**2 + 1
assert same(Z1, (FQ.one(), FQ.one(), FQ.zero())) and same(Z2, (FQ2.one(), FQ2.one(), FQ2.zero()))

# the constants are read at call time from the module namespace in both
# versions (a patched module attribute is honoured identically)
for m in (old_occ, new_occ):
    m.H_EFF_G1 = 6
try:
    check("patched H_EFF_G1", old_occ.multiply_clear_cofactor_G1, new_occ.multiply_clear_cofactor_G1, G1)
    assert same(new_occ.multiply_clear_cofactor_G1(G1), multiply(G1, 6))
finally:
    for m in (old_occ, new_occ):
        m.H_EFF_G1 = new_consts.H_EFF_G1

print("w1 equivalence OK: %d comparisons, subgroup_check True/False seen %d/%d, %.1fs"
      % (CHECKS, seen_true, seen_false, time.time() - T0))
