import os, sys; sys.path.insert(0, os.getcwd())  # noqa: E401,E702

# Equivalence demonstration for a refactoring of py_ecc/bls/hash.py
# (expand_message_xmd).  Loads the pristine copy of the module saved next to
# this script under another module name and compares it with the module of
# the working tree (cwd) on a broad grid of inputs: return values (type and
# content) and exception classes must be identical.
import hashlib
import importlib.util
import itertools
import random

HERE = os.path.dirname(os.path.abspath(__file__))


def load(name, path):
    spec = importlib.util.spec_from_file_location(name, path)
    mod = importlib.util.module_from_spec(spec)
    sys.modules[name] = mod
    spec.loader.exec_module(mod)
    return mod


import py_ecc.bls.hash as new_hash  # noqa: E402
import py_ecc.bls.hash_to_curve as h2c  # noqa: E402

assert os.path.abspath(new_hash.__file__).startswith(os.getcwd()), new_hash.__file__
old_hash = load("py_ecc.bls._pristine_hash", os.path.join(HERE, "pristine", "hash.py"))
assert old_hash.expand_message_xmd is not new_hash.expand_message_xmd

n_checked = 0
n_raised = 0


def outcome(fn, *args):
    try:
        r = fn(*args)
    except BaseException as e:  # noqa: B902
        return ("exc", type(e))
    return ("ok", type(r), r)


def same(label, f_old, f_new, *args):
    global n_checked, n_raised
    a = outcome(f_old, *args)
    b = outcome(f_new, *args)
    if a != b:
        print("MISMATCH", label, [repr(x)[:80] for x in args], a[:2], b[:2])
        sys.exit(1)
    n_checked += 1
    if a[0] == "exc":
        n_raised += 1
    return a


rnd = random.Random(15)


def rb(n):
    return bytes(rnd.getrandbits(8) for _ in range(n))


HASHES = [
    hashlib.sha256,
    hashlib.sha512,
    hashlib.sha384,
    hashlib.sha3_256,
    hashlib.blake2b,
    hashlib.sha224,
    hashlib.sha1,
    hashlib.md5,
    hashlib.sha3_512,
    hashlib.blake2s,
    hashlib.sha512_256 if hasattr(hashlib, "sha512_256") else hashlib.sha3_384,
]

MSG_LENS = [0, 1, 31, 32, 33, 55, 56, 63, 64, 65, 71, 72, 73, 111, 112, 119, 120,
            127, 128, 129, 135, 136, 137, 143, 144, 145, 1023, 1024, 1025, 4096]
TAG_LENS = [0, 1, 2, 16, 43, 254, 255, 256, 257, 1000]

# 1. full grid over hash x tag length x output length, a few messages each
for h in HASHES:
    b = h().digest_size
    out_lens = [0, 1, 31, 32, 33, 64, b - 1, b, b + 1, 2 * b, 2 * b + 1, 128, 256,
                254 * b, 255 * b - 1, 255 * b, 255 * b + 1, 256 * b, 65535, 65536,
                65537, 100000, -1, -b, -b - 1, -65536]
    for tl in TAG_LENS:
        tag = rb(tl)
        for ol in out_lens:
            for ml in (0, 3, h().block_size, 200):
                same("grid", old_hash.expand_message_xmd, new_hash.expand_message_xmd,
                     rb(ml), tag, ol, h)

# 2. message lengths around block boundaries, up to KiB
for h in HASHES:
    b = h().digest_size
    for ml in MSG_LENS:
        msg = rb(ml)
        for tl in (0, 1, 254, 255, 256):
            tag = rb(tl)
            for ol in (0, 1, 32, 33, 3 * b + 5, 256):
                same("msg", old_hash.expand_message_xmd, new_hash.expand_message_xmd,
                     msg, tag, ol, h)

# 3. every output length 0 .. 4*b+2 for the five property hashes
for h in HASHES[:5]:
    b = h().digest_size
    msg, tag = rb(17), b"QUUX-V01-CS02-with-expander-" + h().name.encode()
    for ol in range(0, 4 * b + 3):
        same("len", old_hash.expand_message_xmd, new_hash.expand_message_xmd,
             msg, tag, ol, h)

# 4. random sampling
for _ in range(1500):
    h = rnd.choice(HASHES)
    b = h().digest_size
    ol = rnd.choice([rnd.randrange(0, 300), rnd.randrange(0, 255 * b + 40),
                     rnd.randrange(65000, 66000)])
    same("rand", old_hash.expand_message_xmd, new_hash.expand_message_xmd,
         rb(rnd.randrange(0, 300)), rb(rnd.choice([0, 5, 40, 254, 255, 256])), ol, h)

# 5. malformed arguments: the exception classes must agree as well
MALFORMED = [
    ("abc", b"tag", 32, hashlib.sha256),           # str message
    (b"abc", "tag", 32, hashlib.sha256),           # str tag
    (b"abc", "t" * 300, 32, hashlib.sha256),       # long str tag
    (b"abc", b"tag", "32", hashlib.sha256),        # str length
    (b"abc", b"tag", None, hashlib.sha256),        # None length
    (b"abc", b"tag", 32.0, hashlib.sha256),        # float length
    (b"abc", b"tag", 32.5, hashlib.sha256),
    (b"abc", b"tag", 1e9, hashlib.sha256),
    (b"abc", b"tag", True, hashlib.sha256),        # bool length
    (b"abc", None, 32, hashlib.sha256),            # None tag
    (None, b"tag", 32, hashlib.sha256),            # None message
    (b"abc", b"tag", 32, None),                    # no hash
    (b"abc", b"tag", 32, "sha256"),                # hash name instead of constructor
    (b"abc", b"tag", 32, hashlib.shake_128),       # XOF: digest_size == 0
    (b"abc", b"t" * 256, 32, hashlib.shake_128),
    (b"abc", b"t" * 256, 10**6, hashlib.sha256),   # both guards violated
    (b"abc", b"t" * 256, "x", hashlib.sha256),     # long tag and bad length
    (bytearray(b"abc"), b"tag", 70, hashlib.sha256),
    (b"abc", bytearray(b"tag"), 70, hashlib.sha256),
    (memoryview(b"abc"), b"tag", 70, hashlib.sha256),
    (b"abc", b"tag", 2**64, hashlib.sha256),
    (b"abc", b"tag", 10**400, hashlib.sha256),     # float conversion overflows
    (b"abc", b"tag", -(10**400), hashlib.sha256),
    ([1, 2, 3], b"tag", 32, hashlib.sha256),
    (b"abc", [1, 2, 3], 32, hashlib.sha256),
]
for args in MALFORMED:
    same("malformed", old_hash.expand_message_xmd, new_hash.expand_message_xmd, *args)

# 6. the other public helpers of the module are untouched but compared anyway
for _ in range(300):
    x, y = rb(rnd.randrange(0, 70)), rb(rnd.randrange(0, 70))
    same("xor", old_hash.xor, new_hash.xor, x, y)
    same("os2ip", old_hash.os2ip, new_hash.os2ip, x)
    same("sha256", old_hash.sha256, new_hash.sha256, x)
    n = rnd.choice([0, 1, 255, 256, 65535, 65536, -1, rnd.getrandbits(100)])
    same("i2osp", old_hash.i2osp, new_hash.i2osp, n, rnd.choice([0, 1, 2, 3, 48]))
    same("hkdf_extract", old_hash.hkdf_extract, new_hash.hkdf_extract, x, y)
    same("hkdf_expand", old_hash.hkdf_expand, new_hash.hkdf_expand,
         x.ljust(32, b"\0"), y, rnd.randrange(0, 200))

# 7. hash_to_field on top of either expand_message_xmd
DST_G2 = b"BLS_SIG_BLS12381G2_XMD:SHA-256_SSWU_RO_POP_"


def with_expander(expander, fn):
    def run(*args):
        saved = h2c.expand_message_xmd
        h2c.expand_message_xmd = expander
        try:
            r = fn(*args)
        finally:
            h2c.expand_message_xmd = saved
        if isinstance(r, tuple):
            # compare integers held by the field elements
            return tuple(
                (type(e).__name__, tuple(int(c) for c in e.coeffs))
                if hasattr(e, "coeffs") else (type(e).__name__, int(e.n))
                for e in r
            )
        return r
    return run


for fn in (h2c.hash_to_field_FQ2, h2c.hash_to_field_FQ):
    f_old = with_expander(old_hash.expand_message_xmd, fn)
    f_new = with_expander(new_hash.expand_message_xmd, fn)
    for h in HASHES[:5]:
        for count in list(range(0, 9)) + [-1, 63, 64, 127, 128, 200]:
            for tag in (DST_G2, b"", rb(255), rb(256)):
                for msg in (b"", b"abc", rb(64), rb(1000)):
                    same(fn.__name__, f_old, f_new, msg, count, tag, h)

# 8. one RFC 9380 appendix K.1 vector as an anchor (both versions)
K1_DST = b"QUUX-V01-CS02-with-expander-SHA256-128"
K1 = bytes.fromhex("68a985b87eb6b46952128911f2a4412bbc302a9d759667f87f7a21d803f07235")
for m in (old_hash, new_hash):
    assert m.expand_message_xmd(b"", K1_DST, 0x20, hashlib.sha256) == K1

print("equivalent: %d comparisons (%d of them raised the same exception class)"
      % (n_checked, n_raised))
sys.exit(0)
