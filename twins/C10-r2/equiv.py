import os, sys; sys.path.insert(0, os.getcwd())
"""
r2 equivalence demonstration: iso_map_G1 / iso_map_G2 now share an extracted Horner
helper (_horner_eval_projective) and build z_powers with a comprehension.

Loads the pristine optimized_swu.py (saved next to this file) under another module name
inside the same package, and compares it with the working-tree version.
"""
import hashlib
import importlib.util
import random

HERE = os.path.dirname(os.path.abspath(__file__))


def load_pristine(filename, modname):
    spec = importlib.util.spec_from_file_location(
        modname, os.path.join(HERE, "pristine", filename)
    )
    mod = importlib.util.module_from_spec(spec)
    sys.modules[modname] = mod
    spec.loader.exec_module(mod)
    return mod


import py_ecc.optimized_bls12_381 as opt  # noqa: E402
import py_ecc.optimized_bls12_381.optimized_swu as new  # noqa: E402
import py_ecc.bls.hash_to_curve as h2c  # noqa: E402
from py_ecc.fields import (  # noqa: E402
    optimized_bls12_381_FQ as FQ,
    optimized_bls12_381_FQ2 as FQ2,
    optimized_bn128_FQ as BN_FQ,
    optimized_bn128_FQ2 as BN_FQ2,
)
from py_ecc.optimized_bls12_381.constants import (  # noqa: E402
    ISO_3_MAP_COEFFICIENTS,
    ISO_11_MAP_COEFFICIENTS,
    ISO_11_A,
    ISO_11_Z,
)

old = load_pristine(
    "optimized_swu.py", "py_ecc.optimized_bls12_381._pristine_optimized_swu"
)
assert os.path.realpath(new.__file__).startswith(os.path.realpath(os.getcwd())), new.__file__
assert old.__file__ != new.__file__
assert hasattr(new, "_horner_eval_projective") and not hasattr(old, "_horner_eval_projective")
assert h2c.iso_map_G1 is new.iso_map_G1 and h2c.iso_map_G2 is new.iso_map_G2

# the zip() in the helper never truncates: enough z powers for every polynomial
assert max(len(k) for k in ISO_3_MAP_COEFFICIENTS) - 1 <= 3
assert max(len(k) for k in ISO_11_MAP_COEFFICIENTS) - 1 <= 15

p = opt.field_modulus
rng = random.Random(0xC10_2)


def canon(v):
    if isinstance(v, (tuple, list)):
        return (type(v).__name__, tuple(canon(e) for e in v))
    if hasattr(v, "coeffs"):
        return (type(v).__module__, type(v).__name__, tuple(int(c) for c in v.coeffs))
    if hasattr(v, "n"):
        return (type(v).__module__, type(v).__name__, int(v.n))
    return (type(v).__name__, repr(v))


def outcome(f, *args):
    try:
        return ("ok", canon(f(*args)))
    except BaseException as e:  # noqa: B902
        return ("exc", type(e).__name__)


checked = 0


def same(fo, fn, *args):
    global checked
    a, b = outcome(fo, *args), outcome(fn, *args)
    assert a == b, (fo.__name__, args, a, b)
    checked += 1
    return a


special = [0, 1, 2, p - 1, p - 2, (p - 1) // 2, (p + 1) // 2]


def rfq():
    return FQ(rng.choice(special) if rng.random() < 0.25 else rng.randrange(p))


def rfq2():
    def c():
        return rng.choice(special) if rng.random() < 0.25 else rng.randrange(p)

    return FQ2([c(), c()])


# ---- iso maps on arbitrary projective triples (on the curve or not, z = 0 too) --
for _ in range(400):
    same(old.iso_map_G1, new.iso_map_G1, rfq(), rfq(), rfq())
for _ in range(400):
    same(old.iso_map_G2, new.iso_map_G2, rfq2(), rfq2(), rfq2())
for a in special:
    for b in special:
        for c in special:
            same(old.iso_map_G1, new.iso_map_G1, FQ(a), FQ(b), FQ(c))
            same(old.iso_map_G2, new.iso_map_G2, FQ2([a, b]), FQ2([b, c]), FQ2([c, a]))

# ---- map_to_curve for the quantified field elements (affine coordinates) ------
g1_us = [FQ(a) for a in special + [3, 4, 9, (p - 3) // 4]]
# exceptional inputs for G1: Z^2 u^4 + Z u^2 = 0 <=> u = 0 or u^2 = -1/Z
exc_sq = -(FQ.one() / ISO_11_Z)
root = exc_sq ** ((p + 1) // 4)
assert root * root == exc_sq, "-1/Z must be a square in FQ"
g1_us += [root, -root]
for r_ in (root, -root):
    z_u2 = ISO_11_Z * r_ * r_
    assert ISO_11_A * (z_u2 + z_u2 * z_u2) == FQ.zero()
g1_us += [FQ(rng.randrange(p)) for _ in range(200)]

g2_us = [FQ2([a, b]) for a in special for b in special]
g2_us += [FQ2([0, rng.randrange(p)]) for _ in range(20)]
g2_us += [FQ2([rng.randrange(p), 0]) for _ in range(20)]
g2_us += [FQ2([rng.randrange(p), rng.randrange(p)]) for _ in range(60)]


def map1_old(u):
    return opt.normalize(old.iso_map_G1(*old.optimized_swu_G1(u)))


def map1_new(u):
    return opt.normalize(h2c.map_to_curve_G1(u))


def map2_old(u):
    return opt.normalize(old.iso_map_G2(*old.optimized_swu_G2(u)))


def map2_new(u):
    return opt.normalize(h2c.map_to_curve_G2(u))


for u in g1_us:
    same(map1_old, map1_new, u)
    # un-normalised projective output is identical too
    same(lambda t: old.iso_map_G1(*old.optimized_swu_G1(t)), h2c.map_to_curve_G1, u)
for u in g2_us:
    same(map2_old, map2_new, u)
    same(lambda t: old.iso_map_G2(*old.optimized_swu_G2(t)), h2c.map_to_curve_G2, u)

# ---- malformed arguments: same exception classes / same values ----------------
class Weird:
    pass


bad = [None, 0, 1, 7, -3, 2.5, "abc", b"ab", [1, 2], (1,), {}, Weird(), True, 1 + 2j,
       FQ(5), FQ2([5, 6]), BN_FQ(5), BN_FQ2([5, 6])]
good1 = (FQ(11), FQ(12), FQ(13))
good2 = (FQ2([11, 1]), FQ2([12, 2]), FQ2([13, 3]))
kinds = set()
for m in bad:
    for pos in range(3):
        a1 = list(good1)
        a1[pos] = m
        kinds.add(same(old.iso_map_G1, new.iso_map_G1, *a1)[0])
        a2 = list(good2)
        a2[pos] = m
        kinds.add(same(old.iso_map_G2, new.iso_map_G2, *a2)[0])
    same(old.iso_map_G1, new.iso_map_G1, m, m, m)
    same(old.iso_map_G2, new.iso_map_G2, m, m, m)
same(old.iso_map_G1, new.iso_map_G1, FQ(1), FQ(2))  # missing argument
same(old.iso_map_G2, new.iso_map_G2)
assert kinds == {"ok", "exc"}, kinds

# ---- purity: module constants untouched, arguments untouched -------------------
snap3 = canon(ISO_3_MAP_COEFFICIENTS)
snap11 = canon(ISO_11_MAP_COEFFICIENTS)
x, y, z = rfq2(), rfq2(), rfq2()
before = canon((x, y, z))
new.iso_map_G2(x, y, z)
assert canon((x, y, z)) == before
assert canon(ISO_3_MAP_COEFFICIENTS) == snap3 and canon(ISO_11_MAP_COEFFICIENTS) == snap11

# ---- whole pipeline: hash_to_G1 / hash_to_G2 with pristine iso maps vs current --
def with_old(fn_name, iso_name):
    def run(msg, dst, hf):
        saved = getattr(h2c, iso_name)
        setattr(h2c, iso_name, getattr(old, iso_name))
        try:
            return opt.normalize(getattr(h2c, fn_name)(msg, dst, hf))
        finally:
            setattr(h2c, iso_name, saved)

    return run


def with_new(fn_name):
    def run(msg, dst, hf):
        return opt.normalize(getattr(h2c, fn_name)(msg, dst, hf))

    return run


cases = [
    (b"", b"QUUX-V01-CS02-with-BLS12381G1_XMD:SHA-256_SSWU_RO_", hashlib.sha256),
    (b"abc", b"QUUX-V01-CS02-with-BLS12381G2_XMD:SHA-256_SSWU_RO_", hashlib.sha256),
    (b"abcdef0123456789", b"", hashlib.sha256),
    (b"\x00" * 64, b"D" * 255, hashlib.sha256),
    (b"x", b"D" * 256, hashlib.sha256),  # tag too long
    (b"msg", b"tag", hashlib.sha512),
    (b"msg", b"tag", hashlib.sha3_256),
    (b"msg", b"tag", hashlib.blake2b),
    ("not-bytes", b"tag", hashlib.sha256),
    (b"msg", b"tag", None),
]
for i in range(4):
    cases.append((rng.randbytes(rng.randrange(0, 90)), rng.randbytes(rng.randrange(0, 60)), hashlib.sha256))
for c in cases:
    r1_ = same(with_old("hash_to_G1", "iso_map_G1"), with_new("hash_to_G1"), *c)
    r2_ = same(with_old("hash_to_G2", "iso_map_G2"), with_new("hash_to_G2"), *c)
    if r1_[0] == "ok":
        pt = h2c.hash_to_G1(*c)
        assert opt.is_on_curve(pt, opt.b) and opt.is_inf(opt.multiply(pt, opt.curve_order))
    if r2_[0] == "ok":
        pt = h2c.hash_to_G2(*c)
        assert opt.is_on_curve(pt, opt.b2) and opt.is_inf(opt.multiply(pt, opt.curve_order))

print(f"r2 equiv OK: {checked} comparisons")
