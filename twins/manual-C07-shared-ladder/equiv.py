import sys
from py_ecc.bn128 import bn128_curve as bn
from py_ecc.bls12_381 import bls12_381_curve as bl
def ref(mod, pt, n):
    # textbook double-and-add from the pristine tree
    if n == 0: return None
    if n == 1: return pt
    if not n % 2: return ref(mod, mod.double(pt), n // 2)
    return mod.add(ref(mod, mod.double(pt), n // 2), pt)
bad = 0
for mod in (bn, bl):
    for P in (mod.G1, mod.G2, mod.double(mod.G1)):
        for n in list(range(0, 40)) + [mod.curve_order - 1, mod.curve_order, mod.curve_order + 1, 2**200 + 12345]:
            if mod.multiply(P, n) != ref(mod, P, n):
                bad += 1; print("differs", mod.__name__, n)
print("checks done, differing:", bad); sys.exit(1 if bad else 0)
