import os, sys; sys.path.insert(0, os.getcwd())  # noqa: E702
import importlib
import importlib.util
import itertools
import random

HERE = os.path.dirname(os.path.abspath(__file__))
rng = random.Random(0xC13 + 2)

from py_ecc.fields.optimized_field_elements import FQ as BaseFQ, FQP as BaseFQP  # noqa: E402


def load_pristine(pkgname, fname):
    name = "py_ecc.%s._pristine_optimized_curve" % pkgname
    spec = importlib.util.spec_from_file_location(
        name, os.path.join(HERE, "pristine", fname)
    )
    mod = importlib.util.module_from_spec(spec)
    sys.modules[name] = mod
    spec.loader.exec_module(mod)
    return mod


def canon(v):
    if isinstance(v, tuple):
        return ("tuple",) + tuple(canon(e) for e in v)
    if isinstance(v, BaseFQ):
        return (type(v).__name__, v.n)
    if isinstance(v, BaseFQP):
        return (type(v).__name__, tuple(int(c) for c in v.coeffs))
    return (type(v).__name__, repr(v))


def run(f, *args):
    """outcome + which argument object (if any) was returned by identity"""
    try:
        r = f(*args)
    except Exception as e:  # noqa: BLE001
        return ("exc", type(e).__name__)
    ident = tuple(r is a for a in args)
    return ("ok", canon(r), ident)


total = 0


def fresh(v):
    return v() if callable(v) else v


def both(old, new, fname, *args):
    global total
    a = run(getattr(old, fname), *[fresh(x) for x in args])
    b = run(getattr(new, fname), *[fresh(x) for x in args])
    assert a == b, (old.__name__, fname, args, a, b)
    total += 1
    return a


def campaign(pkgname, fname):
    new = importlib.import_module("py_ecc.%s.optimized_curve" % pkgname)
    assert os.path.abspath(new.__file__).startswith(os.getcwd()), new.__file__
    old = load_pristine(pkgname, fname)
    src_new = open(new.__file__).read()
    assert "p1_is_inf" in src_new and "y**2 * z" not in src_new  # edited tree is loaded
    assert "p1_is_inf" not in open(old.__file__).read()
    p = new.field_modulus
    FQ, FQ2, FQ12 = new.FQ, new.FQ2, new.FQ12

    def rand_scalar(F):
        if F is FQ:
            return FQ(rng.randrange(1, p))
        deg = 2 if F is FQ2 else 12
        return F([rng.randrange(1, p)] + [rng.randrange(p) for _ in range(deg - 1)])

    def rescale(pt, lam):
        return tuple(c * lam for c in pt)

    def elem(F, small):
        deg = 1 if F is FQ else (2 if F is FQ2 else 12)
        cs = [
            rng.choice([0, 0, 1, 2, 3, p - 1]) if small else rng.randrange(p)
            for _ in range(deg)
        ]
        return FQ(cs[0]) if F is FQ else F(cs)

    fields = [(FQ, new.G1, new.b), (FQ2, new.G2, new.b2), (FQ12, new.G12, new.b12)]
    for F, G, bcoef in fields:
        ks = [1, 2, 3, 4, 7] if F is not FQ12 else [1, 2, 3]
        pts = [new.multiply(G, k) for k in ks]
        pts += [new.neg(q) for q in pts]
        infs = [
            (F.one(), F.one(), F.zero()),
            (F.zero(), F.one(), F.zero()),
            (F.zero(), F.zero(), F.zero()),
            (rand_scalar(F), rand_scalar(F), F.zero()),
        ]
        # points with y == 0 / x == 0 (order-2-like and boundary triples, off curve)
        odd = [
            (rand_scalar(F), F.zero(), F.one()),
            (F.zero(), rand_scalar(F), rand_scalar(F)),
            (F.zero(), F.zero(), F.one()),
        ]
        everything = pts + infs + odd
        scal = [lambda: F.one(), lambda: rand_scalar(F), lambda: F.one() * (p - 1)]
        seen = {"gen": 0, "dbl": 0, "inv": 0, "id": 0}
        for A, B in itertools.product(everything, everything):
            for _ in range(2 if F is not FQ12 else 1):
                A2 = rescale(A, rng.choice(scal)())
                B2 = rescale(B, rng.choice(scal)())
                r = both(old, new, "add", A2, B2)
                both(old, new, "eq", A2, B2)
                if r[0] == "ok":
                    if any(r[2]):
                        seen["id"] += 1
                    elif r[1][3][1] in (0, (0,) * 2, (0,) * 12):
                        seen["inv"] += 1
                    elif new.eq(A2, B2):
                        seen["dbl"] += 1
                    else:
                        seen["gen"] += 1
        assert all(seen.values()), seen
        for A in everything:
            for s in scal:
                A2 = rescale(A, s())
                both(old, new, "is_on_curve", A2, bcoef)
                both(old, new, "is_on_curve", A2, bcoef + F.one())
                both(old, new, "double", A2)
                both(old, new, "neg", A2)
                both(old, new, "is_inf", A2)
                both(old, new, "eq", A2, rescale(A2, rand_scalar(F)))
                both(old, new, "add", A2, rescale(A2, rand_scalar(F)))
                both(old, new, "add", A2, new.neg(rescale(A2, rand_scalar(F))))
        # is_on_curve with plain-int b and int x / y coordinates
        if F is FQ:
            both(old, new, "is_on_curve", new.G1, int(bcoef.n))
            both(old, new, "is_on_curve", (1, 2, FQ(1)), bcoef)
            both(old, new, "is_on_curve", (p + 1, -2, FQ(1)), 3)
            both(old, new, "is_on_curve", (True, 2, FQ(1)), bcoef)
        # random (mostly off-curve) triples, small and large coordinates
        reps = 300 if F is FQ else (150 if F is FQ2 else 25)
        for i in range(reps):
            small = i % 2 == 0
            A = tuple(elem(F, small) for _ in range(3))
            B = tuple(elem(F, small) for _ in range(3))
            lam = rand_scalar(F)
            for X, Y in [(A, B), (A, rescale(A, lam)), (A, new.neg(rescale(A, lam))),
                         (A, (A[0] * lam, (A[1] + F.one()) * lam, A[2] * lam))]:
                both(old, new, "add", X, Y)
                both(old, new, "eq", X, Y)
            both(old, new, "is_on_curve", A, bcoef)
            both(old, new, "is_on_curve", A, elem(F, small))
            # a triple made to satisfy the curve equation for some b' (true branch)
            x, y, z = A
            if z != F.zero():
                bprime = (y * y * z - x * x * x) / (z * z * z)
                r = both(old, new, "is_on_curve", A, bprime)
                assert r[1] == ("bool", "True"), r
                both(old, new, "is_on_curve", rescale(A, lam), bprime)
        # scalar multiplication goes through add/double
        for k in [0, 1, 2, 5, 0xC13, new.curve_order - 1, new.curve_order]:
            if F is FQ12 and k > 5:
                continue
            both(old, new, "multiply", rescale(G, rand_scalar(F)), k)

    # ---- malformed operands: identical exception classes ----------------------
    G1, G2 = new.G1, new.G2
    other_pkg = "optimized_bls12_381" if pkgname == "optimized_bn128" else "optimized_bn128"
    OG1 = importlib.import_module("py_ecc.%s.optimized_curve" % other_pkg).G1
    bads = [
        None, (), (FQ(1), FQ(2)), (FQ(1), FQ(2), FQ(1), FQ(1)), (1, 2, 1), (1, 2, 0),
        (FQ(1), None, FQ(1)), (None, FQ(2), FQ(1)), (FQ(1), FQ(2), None),
        (FQ(1), "a", FQ(1)), ("a", FQ(2), FQ(1)), ([1], FQ(2), FQ(1)),
        (1.5, 2.5, FQ(1)), (FQ(1), 2.5, FQ(1)), (FQ(1), FQ(2), 1.0),
        [FQ(1), FQ(2), FQ(1)], [FQ(1), FQ(2), FQ(0)], (FQ(1), 2, 1), (FQ(1), 2, 0),
        G2, OG1, (FQ(1), FQ2([1, 2]), FQ(1)), (FQ(1), FQ(2), FQ2([0, 0])),
        (FQ2([1, 1]), FQ(2), FQ(0)), (lambda: (x for x in G1)), "abc", 5,
        (FQ(0), FQ(0), FQ(0)), (FQ(1), FQ(1), FQ(0)),
    ]
    for A in [G1] + bads:
        for B in [G1] + bads:
            both(old, new, "add", A, B)
            both(old, new, "eq", A, B)
        for bb in [new.b, new.b2, 3, None, 1.5, "a", OG1[0]]:
            both(old, new, "is_on_curve", A, bb)

    # ---- call histories ---------------------------------------------------------
    args = [(G1, new.double(G1)), (G1, G1), (G1, new.neg(G1)), (new.Z1, G1),
            (G2, new.Z2), (new.G2, new.double(G2))]
    snap = canon(tuple(args))
    first = [(run(new.add, *a), run(new.eq, *a), run(new.is_on_curve, a[0], new.b)) for a in args]
    for _ in range(3):
        order = list(range(len(args)))
        rng.shuffle(order)
        for i in order + order:
            a = args[i]
            now = (run(new.add, *a), run(new.eq, *a), run(new.is_on_curve, a[0], new.b))
            ref = (run(old.add, *a), run(old.eq, *a), run(old.is_on_curve, a[0], old.b))
            assert now == first[i] == ref
    assert canon(tuple(args)) == snap
    # module-level constants identical
    for nm in ["b", "b2", "b12", "G1", "G2", "G12", "Z1", "Z2", "w", "curve_order", "field_modulus"]:
        assert canon(getattr(old, nm)) == canon(getattr(new, nm)), nm
    assert {k for k in vars(old) if not k.startswith("_")} == {k for k in vars(new) if not k.startswith("_")}


campaign("optimized_bn128", "bn128_optimized_curve.py")
campaign("optimized_bls12_381", "bls12_381_optimized_curve.py")
print("comparisons:", total)
print("OK")
