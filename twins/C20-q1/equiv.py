import os, sys; sys.path.insert(0, os.getcwd())  # noqa: E401,E702

# Equivalence demonstration for q1 (C20): the operand-unwrapping chain of the
# optimized FQ class is extracted to the private helper _operand_value.
# The pristine module is loaded next to the edited one and both are driven in
# lock-step over a broad set of operands (valid, boundary, malformed) and over
# random interleaved call histories.

import copy
import importlib.util
import random

HERE = os.path.dirname(os.path.abspath(__file__))

import py_ecc.fields.optimized_field_elements as new  # noqa: E402
from py_ecc.fields.field_properties import field_properties  # noqa: E402

assert os.path.abspath(new.__file__).startswith(os.getcwd()), new.__file__
assert hasattr(new, "_operand_value"), "edited tree expected"

spec = importlib.util.spec_from_file_location(
    "pristine_optimized_field_elements",
    os.path.join(HERE, "pristine", "optimized_field_elements.py"),
)
old = importlib.util.module_from_spec(spec)
sys.modules[spec.name] = old
spec.loader.exec_module(old)
assert not hasattr(old, "_operand_value")

BLS_P = field_properties["bls12_381"]["field_modulus"]
BN_P = field_properties["bn128"]["field_modulus"]


def make(mod, p, fq2c=None, fq12c=None):
    class F(mod.FQ):
        field_modulus = p

    class F2(mod.FQ2):
        field_modulus = p
        FQ2_MODULUS_COEFFS = fq2c

    class F12(mod.FQ12):
        field_modulus = p
        FQ12_MODULUS_COEFFS = fq12c

    return F, F2, F12


FIELDS = []
for name, p in (("bls12_381", BLS_P), ("bn128", BN_P)):
    props = field_properties[name]
    FIELDS.append(
        (
            name,
            p,
            make(old, p, props["fq2_modulus_coeffs"], props["fq12_modulus_coeffs"]),
            make(new, p, props["fq2_modulus_coeffs"], props["fq12_modulus_coeffs"]),
        )
    )
# ad-hoc small fields (x^2+1 irreducible for p = 3 mod 4)
for p in (2, 3, 7, 11, 103):
    FIELDS.append(
        (
            "small%d" % p,
            p,
            make(old, p, (1, 0), (1,) + (0,) * 11),
            make(new, p, (1, 0), (1,) + (0,) * 11),
        )
    )

count = 0


def norm(v):
    """Module-independent image of a result."""
    if isinstance(v, (old.FQ, new.FQ)):
        return ("FQ", type(v).__mro__[1].__name__, v.field_modulus, v.n)
    if isinstance(v, (old.FQP, new.FQP)):
        return (
            "FQP",
            v.degree,
            v.field_modulus,
            tuple(norm(c) for c in v.coeffs),
            tuple(v.modulus_coeffs),
            tuple(v.mc_tuples),
        )
    if isinstance(v, tuple):
        return tuple(norm(c) for c in v)
    if v is NotImplemented:
        return "NotImplemented"
    return (type(v).__name__, v)


def run(fn):
    try:
        return ("ok", norm(fn()))
    except BaseException as e:  # noqa: B902
        return ("exc", type(e).__name__, str(e))


def same(label, f_old, f_new):
    global count
    a, b = run(f_old), run(f_new)
    if a != b:
        print("MISMATCH", label, a, b)
        sys.exit(1)
    count += 1
    return a


BIN_OPS = {
    "add": lambda x, y: x + y,
    "radd": lambda x, y: y + x,
    "sub": lambda x, y: x - y,
    "rsub": lambda x, y: y - x,
    "mul": lambda x, y: x * y,
    "rmul": lambda x, y: y * x,
    "div": lambda x, y: x / y,
    "rdiv": lambda x, y: y / x,
    "d_add": lambda x, y: x.__add__(y),
    "d_radd": lambda x, y: x.__radd__(y),
    "d_sub": lambda x, y: x.__sub__(y),
    "d_rsub": lambda x, y: x.__rsub__(y),
    "d_mul": lambda x, y: x.__mul__(y),
    "d_rmul": lambda x, y: x.__rmul__(y),
    "d_div": lambda x, y: x.__div__(y),
    "d_rdiv": lambda x, y: x.__rdiv__(y),
    "d_rtruediv": lambda x, y: x.__rtruediv__(y),
    "lt": lambda x, y: x < y,
    "le": lambda x, y: x <= y,
    "gt": lambda x, y: x > y,
    "ge": lambda x, y: x >= y,
    "d_lt": lambda x, y: x.__lt__(y),
    "d_le": lambda x, y: x.__le__(y),
    "d_gt": lambda x, y: x.__gt__(y),
    "d_ge": lambda x, y: x.__ge__(y),
    "eq": lambda x, y: x == y,
    "ne": lambda x, y: x != y,
    "mod": lambda x, y: x % y,
}


class IntSub(int):
    pass


class Weird:
    """has .n but is neither an int nor an FQ"""

    n = 5


def scalar_operands(p):
    vals = [
        0, 1, 2, 3, -1, -2, p - 1, p, p + 1, 2 * p, -p, -p - 1, p // 2, p // 2 + 1,
        2**64, 2**381, 2**512 + 7, -(2**400), True, False, IntSub(5), IntSub(-p),
    ]
    return vals


MALFORMED = [None, "1", b"\x01", 1.0, 2.5, [1], (1,), {1: 2}, Weird(), object, 1j]


def snapshot(x):
    return copy.deepcopy(getattr(x, "__dict__", None))


rnd = random.Random(20)

for name, p, (OF, OF2, OF12), (NF, NF2, NF12) in FIELDS:
    elems = [0, 1, 2, p - 1, p - 2, p // 2, p // 2 + 1, p, p + 1, -1, 2**300 + 11]
    elems += [rnd.randrange(p) for _ in range(4)]
    for e in elems:
        same("ctor %s %r" % (name, e), lambda: OF(e), lambda: NF(e))
        xo, xn = OF(e), NF(e)
        so, sn = snapshot(xo), snapshot(xn)
        # int-like operands
        for y in scalar_operands(p):
            for opn, op in BIN_OPS.items():
                same(
                    "%s %s %r %r" % (name, opn, e, y),
                    lambda: op(xo, y),
                    lambda: op(xn, y),
                )
        # FQ operands of the same field, of another field, and subclass instances
        for e2 in elems[:9] + [rnd.randrange(p)]:
            yo, yn = OF(e2), NF(e2)
            syo, syn = snapshot(yo), snapshot(yn)
            for opn, op in BIN_OPS.items():
                same(
                    "%s %s FQ %r %r" % (name, opn, e, e2),
                    lambda: op(xo, yo),
                    lambda: op(xn, yn),
                )
            assert snapshot(yo) == syo and snapshot(yn) == syn
        # other-field FQ operand (isinstance FQ is true, modulus differs)
        for oname, op_, (OG, _, _), (NG, _, _) in FIELDS[:3]:
            yo, yn = OG(7), NG(7)
            for opn, op in BIN_OPS.items():
                same(
                    "%s %s crossFQ %r" % (name, opn, e),
                    lambda: op(xo, yo),
                    lambda: op(xn, yn),
                )
        # malformed operands; FQP operands; FQ of the *other* module copy is
        # "not an FQ" for either version (symmetric)
        bad_o = MALFORMED + [OF2([1, 2]), OF12([1] * 12), NF(3)]
        bad_n = MALFORMED + [NF2([1, 2]), NF12([1] * 12), OF(3)]
        for yo, yn in zip(bad_o, bad_n):
            for opn, op in BIN_OPS.items():
                same(
                    "%s %s bad %r %r" % (name, opn, e, type(yo)),
                    lambda: op(xo, yo),
                    lambda: op(xn, yn),
                )
        # unary things, cached sgn0 read twice, pow
        for k in (0, 1, 2, 3, 5, p - 2, p - 1, p, 2**70 + 1, -1, -5):
            same("%s pow %r %r" % (name, e, k), lambda: xo**k, lambda: xn**k)
        same("neg", lambda: -xo, lambda: -xn)
        same("int", lambda: int(xo), lambda: int(xn))
        same("repr", lambda: repr(xo), lambda: repr(xn))
        same("sgn0", lambda: xo.sgn0, lambda: xn.sgn0)
        same("sgn0 again", lambda: xo.sgn0, lambda: xn.sgn0)
        xo.__dict__.pop("sgn0", None)
        xn.__dict__.pop("sgn0", None)
        # operands were not mutated
        assert snapshot(xo) == so == {"n": e % p}, (snapshot(xo), so)
        assert snapshot(xn) == sn == {"n": e % p}, (snapshot(xn), sn)

    # the helper itself behaves like the inlined chain
    for y in scalar_operands(p) + MALFORMED + [NF(5), NF2([1, 2])]:
        def inline(o=y):
            if isinstance(o, new.FQ):
                return o.n
            elif isinstance(o, int):
                return o
            raise TypeError(
                f"Expected an int or FQ object, but got object of type {type(o)}"
            )
        same("helper %r" % (y,), inline, lambda: new._operand_value(y))

    # FQP arithmetic with FQ-typed coefficients goes through FQ.__add__/__mul__/...
    for cs in ([1, 2], [0, 0], [p - 1, 1], [rnd.randrange(p), rnd.randrange(p)]):
        ao, an = OF2([OF(c) for c in cs]), NF2([NF(c) for c in cs])
        bo, bn = OF2(cs[::-1]), NF2(cs[::-1])
        for opn in ("add", "sub", "mul", "div", "eq", "ne", "radd", "rmul"):
            op = BIN_OPS[opn]
            same("%s FQ2 %s" % (name, opn), lambda: op(ao, bo), lambda: op(an, bn))
            same("%s FQ2' %s" % (name, opn), lambda: op(bo, ao), lambda: op(bn, an))
            same("%s FQ2 int %s" % (name, opn), lambda: op(ao, 3), lambda: op(an, 3))
        same("FQ2 neg", lambda: -ao, lambda: -an)
        same("FQ2 sgn0", lambda: ao.sgn0, lambda: an.sgn0)
        same("FQ2 sgn0'", lambda: bo.sgn0, lambda: bn.sgn0)
        same("FQ2 pow", lambda: ao**5, lambda: an**5)
        same("FQ2 inv", lambda: ao.inv(), lambda: an.inv())
        same("FQ2 coeffs kept", lambda: ao.coeffs, lambda: an.coeffs)
    c12 = [rnd.randrange(p) for _ in range(12)]
    ao, an = OF12([OF(c) for c in c12]), NF12([NF(c) for c in c12])
    bo, bn = OF12(c12[::-1]), NF12(c12[::-1])
    same("FQ12 mul", lambda: ao * bo, lambda: an * bn)
    same("FQ12 add", lambda: ao + bo, lambda: an + bn)
    same("FQ12 sub", lambda: ao - bo, lambda: an - bn)
    same("FQ12 sgn0", lambda: ao.sgn0, lambda: an.sgn0)
    if p > 103:
        same("FQ12 div", lambda: ao / bo, lambda: an / bn)

# Random interleaved histories across all fields: the same random program is
# executed on both versions, every intermediate value is compared, and a fixed
# set of probe calls is repeated at several points of the history.
for seed in range(6):
    r = random.Random(seed)
    pool_o = {i: [f[2][0](3)] for i, f in enumerate(FIELDS)}
    pool_n = {i: [f[3][0](3)] for i, f in enumerate(FIELDS)}
    probes = {}
    for step in range(500):
        i = r.randrange(len(FIELDS))
        p = FIELDS[i][1]
        opn = r.choice(["add", "sub", "rsub", "mul", "radd", "rmul", "lt", "ge", "div"])
        op = BIN_OPS[opn]
        ia = r.randrange(len(pool_o[i]))
        kind = r.randrange(4)
        if kind == 0:
            y_o = y_n = r.choice([0, 1, -1, p, p - 1, r.randrange(-(2**400), 2**400)])
        elif kind == 1:
            ib = r.randrange(len(pool_o[i]))
            y_o, y_n = pool_o[i][ib], pool_n[i][ib]
        elif kind == 2:
            j = r.randrange(len(FIELDS))
            y_o, y_n = pool_o[j][-1], pool_n[j][-1]
        else:
            y_o = y_n = r.choice(MALFORMED)
        xo, xn = pool_o[i][ia], pool_n[i][ia]
        res = same(
            "hist %d %d %s" % (seed, step, opn), lambda: op(xo, y_o), lambda: op(xn, y_n)
        )
        if res[0] == "ok" and res[1][0] == "FQ":
            pool_o[i].append(op(xo, y_o))
            pool_n[i].append(op(xn, y_n))
        if step % 50 == 0:
            for k, f in enumerate(FIELDS):
                OF, NF = f[2][0], f[3][0]
                q = f[1]
                pr = (
                    same("probe", lambda: OF(q - 1) + OF(5) * 7 - 3, lambda: NF(q - 1) + NF(5) * 7 - 3),
                    same("probe", lambda: 9 - OF(4), lambda: 9 - NF(4)),
                    same("probe", lambda: OF(2) < OF(1), lambda: NF(2) < NF(1)),
                    same("probe", lambda: OF(2) + "x", lambda: NF(2) + "x"),
                )
                assert probes.setdefault(k, pr) == pr, "history dependence"

# The library built on the edited module: module constants are untouched by use.
from py_ecc.optimized_bls12_381 import (  # noqa: E402
    G1, G2, Z1, add, curve_order, double, is_on_curve, multiply, neg, normalize, b, b2,
)
from py_ecc.optimized_bn128 import G1 as BN_G1, multiply as bn_multiply  # noqa: E402

snap = (norm(G1), norm(G2), norm(b), norm(b2), norm(BN_G1))
pt = multiply(G1, 0xDEADBEEF)
assert is_on_curve(pt, b)
assert norm(normalize(add(pt, neg(pt)))) == norm(normalize(Z1)) or add(pt, neg(pt))[2] == 0
assert multiply(G1, curve_order)[2] == 0
assert normalize(double(G1)) == normalize(add(G1, G1))
assert is_on_curve(multiply(G2, 12345), b2)
assert norm(normalize(multiply(G1, 0xDEADBEEF))) == norm(normalize(pt))
# value computed independently with plain ints (affine double of bn128 G1 = (1, 2))
P_ = BN_P
lam = 3 * pow(4, -1, P_) % P_
x3 = (lam * lam - 2) % P_
y3 = (lam * (1 - x3) - 2) % P_
assert tuple(int(c) for c in normalize(bn_multiply(BN_G1, 2))) == (x3, y3)
assert snap == (norm(G1), norm(G2), norm(b), norm(b2), norm(BN_G1)), "constant mutated"

print("q1 equivalence OK: %d comparisons" % count)
