import os, sys; sys.path.insert(0, os.getcwd())  # noqa: E401,E702

# Equivalence demonstration for q2 (C20): optimized_bls12_381/optimized_pairing.py
# now reads the Miller-loop bit sequence and the two final-exponentiation
# exponents from module-level read-only constants instead of recomputing them on
# every call.  The pristine module is loaded as a sibling submodule of the same
# package (so it shares optimized_curve and the field classes) and both are
# driven in lock-step, over valid, boundary and malformed inputs and over
# repeated / reordered call histories.

import copy
import importlib.util
import random
import subprocess

HERE = os.path.dirname(os.path.abspath(__file__))

import py_ecc.optimized_bls12_381 as pkg  # noqa: E402
import py_ecc.optimized_bls12_381.optimized_pairing as new  # noqa: E402
from py_ecc.fields import (  # noqa: E402
    optimized_bls12_381_FQ as FQ,
    optimized_bls12_381_FQ2 as FQ2,
    optimized_bls12_381_FQ12 as FQ12,
)
from py_ecc.optimized_bls12_381.optimized_curve import (  # noqa: E402
    G1, G2, Z1, Z2, add, b, b2, curve_order, double, is_on_curve, multiply, neg,
)

assert os.path.abspath(new.__file__).startswith(os.getcwd()), new.__file__
assert hasattr(new, "FINAL_EXPONENT"), "edited tree expected"

spec = importlib.util.spec_from_file_location(
    "py_ecc.optimized_bls12_381._pristine_optimized_pairing",
    os.path.join(HERE, "pristine", "optimized_pairing.py"),
)
old = importlib.util.module_from_spec(spec)
sys.modules[spec.name] = old
spec.loader.exec_module(old)
assert not hasattr(old, "FINAL_EXPONENT")
assert old.FQ12 is new.FQ12 and old.twist is new.twist

P = new.field_modulus
count = 0


def norm(v):
    if isinstance(v, FQ):
        return ("FQ", v.n)
    if isinstance(v, (FQ2, FQ12)):
        return (type(v).__name__, tuple(norm(c) for c in v.coeffs))
    if isinstance(v, (tuple, list)):
        return (type(v).__name__,) + tuple(norm(c) for c in v)
    return (type(v).__name__, v)


def run(fn):
    try:
        return ("ok", norm(fn()))
    except BaseException as e:  # noqa: B902
        return ("exc", type(e).__name__, str(e))


def same(label, f_old, f_new):
    global count
    a_, b_ = run(f_old), run(f_new)
    if a_ != b_:
        print("MISMATCH", label, a_, b_)
        sys.exit(1)
    count += 1
    return a_


def constants_snapshot(mod):
    return (
        norm(mod.exptable), tuple(mod.pseudo_binary_encoding), mod.ate_loop_count,
        mod.log_ate_loop_count, mod.field_modulus, norm(G1), norm(G2), norm(Z1),
        norm(Z2), norm(b), norm(b2), curve_order,
    )


# --- the new constants are exactly the values that used to be recomputed ------
assert new.ATE_LOOP_BITS == tuple(old.pseudo_binary_encoding[62::-1])
assert list(new.ATE_LOOP_BITS) == new.pseudo_binary_encoding[62::-1]
assert len(new.ATE_LOOP_BITS) == 63 and type(new.ATE_LOOP_BITS) is tuple
assert all(type(x) is int for x in new.ATE_LOOP_BITS)
assert new.FINAL_EXPONENT == (old.field_modulus**12 - 1) // old.curve_order
assert new.FINAL_EXP_COFACTOR == (
    (old.field_modulus**4 - old.field_modulus**2 + 1) // old.curve_order
)
assert type(new.FINAL_EXPONENT) is int and type(new.FINAL_EXP_COFACTOR) is int
assert constants_snapshot(old) == constants_snapshot(new)
assert type(new.exptable) is list and type(new.pseudo_binary_encoding) is list
SNAP0 = constants_snapshot(new)
NEW_CONSTS0 = (new.ATE_LOOP_BITS, new.FINAL_EXPONENT, new.FINAL_EXP_COFACTOR)

rnd = random.Random(2020)


def rand_fq12():
    return FQ12([rnd.randrange(P) for _ in range(12)])


def scale(pt, k):
    """another projective representative of the same point"""
    return tuple(c * k for c in pt)


# --- exp_by_p / final_exponentiate -------------------------------------------
fq12_inputs = [
    FQ12.one(), FQ12.zero(), FQ12([P - 1] + [0] * 11), FQ12([0, 1] + [0] * 10),
    FQ12([0] * 11 + [1]), FQ12([FQ(3)] + [FQ(0)] * 11),
    FQ12([FQ(rnd.randrange(P)) for _ in range(12)]),
] + [rand_fq12() for _ in range(3)]
for i, x in enumerate(fq12_inputs):
    before = copy.deepcopy(x.__dict__)
    same("exp_by_p %d" % i, lambda: old.exp_by_p(x), lambda: new.exp_by_p(x))
    same(
        "final_exponentiate %d" % i,
        lambda: old.final_exponentiate(x),
        lambda: new.final_exponentiate(x),
    )
    # repeated call, same answer (no history dependence)
    r1 = run(lambda: new.final_exponentiate(x))
    r2 = run(lambda: new.final_exponentiate(x))
    assert r1 == r2
    assert norm(x) == norm(type(x)(list(before["coeffs"])))
    assert x.__dict__.keys() == before.keys()
for bad in (None, 5, "x", FQ(3), FQ2([1, 2]), (1, 2)):
    same("exp_by_p bad", lambda: old.exp_by_p(bad), lambda: new.exp_by_p(bad))
    same(
        "final_exponentiate bad",
        lambda: old.final_exponentiate(bad),
        lambda: new.final_exponentiate(bad),
    )

# --- pairing / miller_loop ----------------------------------------------------
g1_5, g1_7 = multiply(G1, 5), multiply(G1, 7)
g2_3, g2_11 = multiply(G2, 3), multiply(G2, 11)
# a G1-curve point outside the r-torsion subgroup and an E2 point outside G2
x_ = FQ(1)
while True:
    y2 = x_ * x_ * x_ + b
    y_ = y2 ** ((P + 1) // 4)
    if y_ * y_ == y2 and multiply((x_, y_, FQ(1)), curve_order)[2] != FQ(0):
        off_subgroup_g1 = (x_, y_, FQ(1))
        break
    x_ = x_ + 1
assert is_on_curve(off_subgroup_g1, b)

full = [  # (Q, P) pairs evaluated with final_exponentiate True and False
    (G2, G1),
    (g2_3, g1_5),
    (neg(G2), G1),
    (scale(g2_3, FQ2([5, 9])), scale(g1_5, FQ(123456789))),  # other representatives
    (G2, off_subgroup_g1),
]
cheap = [  # early exits and errors
    (G2, Z1), (Z2, G1), (Z2, Z1),
    (G2, (FQ(0), FQ(5), FQ(0))), ((FQ2([0, 0]), FQ2([7, 1]), FQ2([0, 0])), G1),
    (G2, (FQ(1), FQ(1), FQ(1))),  # P not on curve
    ((FQ2([1, 1]), FQ2([1, 1]), FQ2([1, 0])), G1),  # Q not on curve
    ((FQ2([1, 1]), FQ2([1, 1]), FQ2([1, 0])), (FQ(1), FQ(1), FQ(1))),  # both: Q first
    (G1, G2),  # swapped argument types
    (None, G1), (G2, None), (G2, (FQ(1), FQ(2))), ((), ()), (G2, "abc"),
]
for i, (q, p) in enumerate(cheap):
    for fe in (True, False):
        same(
            "pairing cheap %d %s" % (i, fe),
            lambda: old.pairing(q, p, final_exponentiate=fe),
            lambda: new.pairing(q, p, final_exponentiate=fe),
        )
for q, p in ((None, G1), (G2, None), (None, None)):
    for fe in (True, False):
        same(
            "miller None",
            lambda: old.miller_loop(q, p, final_exponentiate=fe),
            lambda: new.miller_loop(q, p, final_exponentiate=fe),
        )
for bad in ((G2, 5), ("x", G1), (G2, (FQ(1), FQ(2))), ((FQ2([1, 1]),) * 2, G1)):
    same("miller bad", lambda: old.miller_loop(*bad), lambda: new.miller_loop(*bad))

results = {}
for i, (q, p) in enumerate(full):
    sq, sp = norm(q), norm(p)
    a_ = same(
        "pairing %d raw" % i,
        lambda: old.pairing(q, p, final_exponentiate=False),
        lambda: new.pairing(q, p, final_exponentiate=False),
    )
    results[(i, False)] = a_
    if i in (0, 1, 3):
        results[(i, True)] = same(
            "pairing %d" % i, lambda: old.pairing(q, p), lambda: new.pairing(q, p)
        )
    assert (norm(q), norm(p)) == (sq, sp), "argument mutated"
    assert constants_snapshot(new) == SNAP0, "constant mutated"

# the two exponentiation routes agree with each other on both versions, and the
# projective representative does not matter
raw = new.pairing(g2_3, g1_5, final_exponentiate=False)
assert norm(new.final_exponentiate(raw)) == norm(old.final_exponentiate(raw))
assert results[(1, True)] == results[(3, True)]
assert results[(1, True)] == ("ok", norm(raw**new.FINAL_EXPONENT))
# bilinearity: e(3*G2, 5*G1) == e(G2, G1)^15
e11 = new.pairing(G2, G1)
assert results[(1, True)] == ("ok", norm(e11**15))

# --- call histories: same calls again after other calls, in another order ----
order = [(1, False), (0, False), (4, False), (1, False), (2, False), (0, False)]
for mod in (new, old, new):
    for i, fe in order:
        q, p = full[i]
        assert run(lambda: mod.pairing(q, p, final_exponentiate=fe)) == results[(i, fe)]
    # miller_loop directly on the same data (pairing delegates to it)
    assert run(lambda: mod.miller_loop(g2_3, g1_5, False)) == results[(1, False)]
    for i, x in enumerate(fq12_inputs[:4]):
        assert run(lambda: mod.exp_by_p(x)) == run(lambda: old.exp_by_p(x))
assert constants_snapshot(new) == SNAP0 == constants_snapshot(old)
assert NEW_CONSTS0 == (new.ATE_LOOP_BITS, new.FINAL_EXPONENT, new.FINAL_EXP_COFACTOR)
# package-level re-exports are the edited functions
assert pkg.pairing is new.pairing and pkg.final_exponentiate is new.final_exponentiate

# --- fresh interpreters, two different call orders ---------------------------
child = r"""
import os, sys; sys.path.insert(0, os.getcwd())
from py_ecc.optimized_bls12_381 import G1, G2, multiply, pairing, final_exponentiate
order = sys.argv[1]
out = {}
for c in order:
    if c == 'a':
        out['a'] = pairing(multiply(G2, 3), multiply(G1, 5)).coeffs
    elif c == 'b':
        out['b'] = final_exponentiate(pairing(G2, G1, final_exponentiate=False)).coeffs
    elif c == 'c':
        out['c'] = pairing(G2, multiply(G1, 0)).coeffs
print(sorted(out.items()))
"""
outs = [
    subprocess.run(
        [sys.executable, "-c", child, o], capture_output=True, text=True, check=True
    ).stdout
    for o in ("abc", "cbaab")
]
assert outs[0] == outs[1] and outs[0].strip(), outs
expected_a = tuple(int(c) for c in new.pairing(g2_3, g1_5).coeffs)
assert repr(expected_a) in outs[0]
count += 2

print("q2 equivalence OK: %d comparisons" % count)
