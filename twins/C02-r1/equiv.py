import os, sys; sys.path.insert(0, os.getcwd())  # noqa: E401,E702
"""
C02 / r1 equivalence demonstration.

Loads the pristine py_ecc/bls/ciphersuites.py (saved next to this script) as
py_ecc.bls._pristine_ciphersuites and compares it with the refactored module of the
working tree on Verify / PopVerify / _CoreVerify / AggregateVerify /
FastAggregateVerify: identical booleans, identical exception classes.
"""
import importlib.util
import multiprocessing as mp
import random
import time

HERE = os.path.dirname(os.path.abspath(__file__))
sys.path.insert(0, HERE)

import py_ecc.bls.ciphersuites as new_mod  # noqa: E402

assert os.path.abspath(new_mod.__file__).startswith(os.getcwd()), new_mod.__file__

spec = importlib.util.spec_from_file_location(
    "py_ecc.bls._pristine_ciphersuites", os.path.join(HERE, "pristine", "ciphersuites.py")
)
old_mod = importlib.util.module_from_spec(spec)
sys.modules[spec.name] = old_mod
spec.loader.exec_module(old_mod)

import c02_cases as C  # noqa: E402

SUITES = ["G2Basic", "G2MessageAugmentation", "G2ProofOfPossession"]

assert hasattr(new_mod.BaseG2Ciphersuite, "_pairing_equation_holds"), "refactoring not applied"
assert not hasattr(old_mod.BaseG2Ciphersuite, "_pairing_equation_holds")


def build_cases():
    rng = random.Random(0xC02)
    cases = []  # (label, suite, method, args)
    sks = [1, curve_order - 1, rng.randrange(2, curve_order - 1)]
    msgs = [b"", b"\x00", bytes(rng.randrange(256) for _ in range(40))]
    combos = [(sks[2], msgs[2]), (sks[0], msgs[0]), (sks[1], msgs[1])]
    combos = combos[:2]
    for ci, (sk, msg) in enumerate(combos):
        for sname in SUITES + ["POP"]:
            suite = getattr(new_mod, "G2ProofOfPossession" if sname == "POP" else sname)
            pk = suite.SkToPk(sk)
            sk2 = sk + 1 if sk + 1 < curve_order else sk - 2
            sk0 = sk - 1 if sk > 1 else sk + 2
            msg2 = msg + b"\x01"
            if sname == "POP":
                sign = lambda s, m, suite=suite: suite.PopProve(s)  # noqa: E731
                method = "PopVerify"
                mk = lambda cand, pk=pk: (pk, cand)  # noqa: E731
            else:
                sign = suite.Sign
                method = "Verify"
                mk = lambda cand, pk=pk, msg=msg: (pk, msg, cand)  # noqa: E731
            others = [("sk+1", lambda: sign(sk2, msg))]
            if sname == "G2Basic":
                others.append(("sk-1", lambda: sign(sk0, msg)))
                others.append(("msg'", lambda: sign(sk, msg2)))
                # other suites / other domain tags on the same (sk, msg)
                for o in SUITES[1:]:
                    others.append(("suite:" + o, lambda o=o: getattr(new_mod, o).Sign(sk, msg)))
                others.append(("pop-proof", lambda: new_mod.G2ProofOfPossession.PopProve(sk)))
            elif sname == "G2MessageAugmentation":
                # augmented signature without its key prefix
                others.append(("aug-core-dst", lambda: new_mod.G2MessageAugmentation._CoreSign(
                    sk, msg, new_mod.G2MessageAugmentation.DST)))
                others.append(("suite:G2Basic", lambda: new_mod.G2Basic.Sign(sk, msg)))
            elif sname == "G2ProofOfPossession":
                # a possession proof presented as a message signature (message = pk too)
                others.append(("pop-proof", lambda: new_mod.G2ProofOfPossession.PopProve(sk)))
            else:
                # a message signature on pk presented as a possession proof
                others.append(("pop-sign-pk", lambda: new_mod.G2ProofOfPossession.Sign(sk, pk)))
            if ci == 0:
                cands = C.signature_candidates(
                    sign, others, sk, msg, rng,
                    nflips=96 if sname == "G2Basic" else 6, lite=sname != "G2Basic")
            else:
                cands = C.signature_candidates(sign, [], sk, msg, rng, lite="min")
            real = "G2ProofOfPossession" if sname == "POP" else sname
            for label, cand in cands:
                cases.append(("%s/%d/%s" % (sname, ci, label), real, method, mk(cand)))
            # public-key side
            S = sign(sk, msg)
            if ci == 0 and sname in ("G2Basic", "POP"):
                for label, pkv in C.pubkey_variants(pk, rng):
                    args = (pkv, S) if sname == "POP" else (pkv, msg, S)
                    cases.append(("%s/%d/%s" % (sname, ci, label), real, method, args))
                # bad messages
                if sname != "POP":
                    for label, m in [("msg-none", None), ("msg-str", "abc"),
                                     ("msg-bytearray", bytearray(msg)), ("msg-int", 5)]:
                        cases.append(("%s/%d/%s" % (sname, ci, label), real, method, (pk, m, S)))
                # _CoreVerify directly with unusual DSTs
                for label, dst in [("dst-empty", b""), ("dst-255", b"d" * 255),
                                   ("dst-256", b"d" * 256), ("dst-none", None),
                                   ("dst-own", suite.DST)]:
                    cases.append(("%s/%d/core/%s" % (sname, ci, label), real, "_CoreVerify",
                                  (pk, msg, S, dst)))
    # aggregate APIs (share the touched code through Verify / validation helpers)
    P = new_mod.G2ProofOfPossession
    sk_a, sk_b = 7, 11
    pka, pkb = P.SkToPk(sk_a), P.SkToPk(sk_b)
    m = b"agg"
    agg = P.Aggregate([P.Sign(sk_a, m), P.Sign(sk_b, m)])
    cases.append(("fast/ok", "G2ProofOfPossession", "FastAggregateVerify", ([pka, pkb], m, agg)))
    cases.append(("fast/empty", "G2ProofOfPossession", "FastAggregateVerify", ([], m, agg)))
    cases.append(("fast/inf", "G2ProofOfPossession", "FastAggregateVerify", ([pka, C.INF_PK], m, agg)))
    for sname in SUITES[:1]:
        suite = getattr(new_mod, sname)
        s1, s2 = suite.Sign(sk_a, b"m1"), suite.Sign(sk_b, b"m2")
        ag = suite.Aggregate([s1, s2])
        cases.append((sname + "/aggv/ok", sname, "AggregateVerify", ([pka, pkb], [b"m1", b"m2"], ag)))
        if sname == "G2Basic":
            cases.append((sname + "/aggv/swap", sname, "AggregateVerify", ([pkb, pka], [b"m1", b"m2"], ag)))
        cases.append((sname + "/aggv/len", sname, "AggregateVerify", ([pka], [b"m1", b"m2"], ag)))
    return cases


from py_ecc.optimized_bls12_381 import curve_order  # noqa: E402

CASES = None


def run(i):
    label, sname, method, args = CASES[i]
    a = C.outcome(getattr(getattr(old_mod, sname), method), *args)
    b_ = C.outcome(getattr(getattr(new_mod, sname), method), *args)
    return i, a, b_


def main():
    global CASES
    t0 = time.time()
    CASES = build_cases()
    print("cases:", len(CASES), "built in %.1fs" % (time.time() - t0))
    ctx = mp.get_context("fork")
    with ctx.Pool(min(4, os.cpu_count() or 1)) as pool:
        results = pool.map(run, range(len(CASES)), chunksize=4)
    bad = 0
    stats = {}
    for i, a, b_ in results:
        stats[a[:2] if a[0] == "raise" else a] = stats.get(a[:2] if a[0] == "raise" else a, 0) + 1
        if a != b_:
            bad += 1
            print("MISMATCH", CASES[i][0], a, b_)
    print("outcome histogram (pristine):", stats)
    # sanity: the canonical signature is accepted, and nothing else among 96-byte candidates
    for i, a, b_ in results:
        label = CASES[i][0]
        if label.endswith("/canonical") or label.endswith("/ok"):
            assert a == ("ok", "bool", "True"), (label, a)
        elif CASES[i][2] in ("Verify", "PopVerify") and "/msg-" not in label:
            assert a[0] == "raise" or a == ("ok", "bool", "False"), (label, a)
    print("elapsed %.1fs" % (time.time() - t0))
    if bad:
        print("FAILED: %d mismatches" % bad)
        sys.exit(1)
    print("OK: pristine and refactored agree on all %d cases" % len(CASES))


if __name__ == "__main__":
    main()
