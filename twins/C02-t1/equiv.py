import os, sys; sys.path.insert(0, os.getcwd())  # noqa: E401,E702

"""
Equivalence demonstration for twin t1 (property C02).

Loads the pristine point_compression.py / ciphersuites.py (saved next to this
script) under other module names inside the py_ecc.bls package, wires the
pristine ciphersuites to a g2_primitives copy that uses the pristine
(de)compression, and compares them with the edited worktree modules on a broad
set of well-formed, boundary and malformed inputs: return values (including the
types of every component) and exception classes + messages must be identical.
"""
import importlib.util
import random
import time

HERE = os.path.dirname(os.path.abspath(__file__))
PRISTINE = os.path.join(HERE, "pristine")
T0 = time.time()

import py_ecc.bls  # noqa: E402  (the edited worktree copy)
import py_ecc.bls.ciphersuites as new_cs  # noqa: E402
import py_ecc.bls.g2_primitives as new_g2p  # noqa: E402
import py_ecc.bls.point_compression as new_pc  # noqa: E402

assert os.path.realpath(py_ecc.bls.__file__).startswith(
    os.path.realpath(os.getcwd())
), "must be run with the worktree as the current directory"


def load(name, path):
    spec = importlib.util.spec_from_file_location("py_ecc.bls." + name, path)
    mod = importlib.util.module_from_spec(spec)
    sys.modules["py_ecc.bls." + name] = mod
    spec.loader.exec_module(mod)
    return mod


old_pc = load("_pristine_point_compression", os.path.join(PRISTINE, "point_compression.py"))
# g2_primitives is untouched by the edit: load a second copy of it and bind it
# to the pristine (de)compression functions.
old_g2p = load("_pristine_g2_primitives", new_g2p.__file__)
for fn in ("compress_G1", "compress_G2", "decompress_G1", "decompress_G2"):
    setattr(old_g2p, fn, getattr(old_pc, fn))
old_cs = load("_pristine_ciphersuites", os.path.join(PRISTINE, "ciphersuites.py"))
for fn in (
    "G1_to_pubkey",
    "G2_to_signature",
    "is_inf",
    "pubkey_to_G1",
    "signature_to_G2",
    "subgroup_check",
):
    setattr(old_cs, fn, getattr(old_g2p, fn))

assert old_pc.decompress_G2 is not new_pc.decompress_G2
assert old_cs.G2Basic is not new_cs.G2Basic
assert old_cs.signature_to_G2.__globals__["decompress_G2"] is old_pc.decompress_G2
assert new_cs.signature_to_G2.__globals__["decompress_G2"] is new_pc.decompress_G2

from py_ecc.fields import (  # noqa: E402
    optimized_bls12_381_FQ as FQ,
    optimized_bls12_381_FQ2 as FQ2,
)
from py_ecc.optimized_bls12_381 import (  # noqa: E402
    G1,
    G2,
    Z1,
    Z2,
    add,
    b2,
    curve_order,
    double,
    field_modulus as q,
    is_on_curve,
    multiply,
    neg,
)

rnd = random.Random(0xC02)
N_CHECKS = 0


def canon(v):
    """A comparable description of a value: type names and contents."""
    if isinstance(v, (FQ,)):
        return ("FQ", type(v).__name__, type(v.n).__name__, v.n)
    if isinstance(v, FQ2):
        return (
            "FQ2",
            type(v).__name__,
            tuple((type(c).__name__, int(c)) for c in v.coeffs),
        )
    if isinstance(v, tuple):
        return ("tuple", type(v).__name__, tuple(canon(x) for x in v))
    if isinstance(v, list):
        return ("list", tuple(canon(x) for x in v))
    return (type(v).__name__, v)


def outcome(f, *args):
    try:
        return ("ok", canon(f(*args)))
    except BaseException as e:  # noqa: B902
        if isinstance(e, (KeyboardInterrupt, SystemExit, MemoryError)):
            raise
        return ("exc", type(e).__name__, str(e))


def same(label, f_old, f_new, *args):
    global N_CHECKS
    N_CHECKS += 1
    a = outcome(f_old, *args)
    b = outcome(f_new, *args)
    if a != b:
        print("MISMATCH", label, repr(args)[:300])
        print("  pristine:", a)
        print("  edited  :", b)
        sys.exit(1)
    return a


# --------------------------------------------------------------------------
# 1. decompress_G1 / decompress_G2 / _decode path: flags x payloads
# --------------------------------------------------------------------------
P381, P382, P383, P384 = 2**381, 2**382, 2**383, 2**384

valid_g1 = [new_pc.compress_G1(multiply(G1, k)) for k in (1, 2, 3, 5, 77, curve_order - 1)]
valid_g1 += [new_pc.compress_G1(multiply(G1, rnd.randrange(1, curve_order))) for _ in range(6)]
xs1 = [0, 1, 2, 3, 4, q - 2, q - 1, q, q + 1, P381 - 1, P381 - 2, (q + 1) // 2, (q - 1) // 2]
xs1 += [z % P381 for z in valid_g1]
xs1 += [rnd.randrange(q) for _ in range(40)]
xs1 += [rnd.randrange(q, P381) for _ in range(5)]

g1_inputs = []
for x in xs1:
    for flags in range(8):
        g1_inputs.append(x + flags * P381)
g1_inputs += [-1, -P381, -P383, -(P383 + 5), -q, P384, P384 + P383, P384 + P383 + P382,
              P384 + P383 + 3, 2**400 + P383 + 17, True, False]
g1_inputs += valid_g1
stats = {}
for z in g1_inputs:
    r = same("decompress_G1", old_pc.decompress_G1, new_pc.decompress_G1, z)
    stats[r[0] + ":" + (r[2][:24] if r[0] == "exc" else "")] = stats.get(
        r[0] + ":" + (r[2][:24] if r[0] == "exc" else ""), 0) + 1
for bad in (None, 1.5, "abc", b"\x00" * 48, (1, 2), [P383], 3 + 0j, float(P383)):
    same("decompress_G1/badtype", old_pc.decompress_G1, new_pc.decompress_G1, bad)
print("decompress_G1 outcomes:", stats)
assert any(k.startswith("ok") for k in stats) and len(stats) >= 5

# the identity must be the shared module constant in both versions
assert old_pc.decompress_G1(P383 + P382) is new_pc.decompress_G1(P383 + P382) is Z1
assert old_pc.decompress_G2((P383 + P382, 0)) is new_pc.decompress_G2((P383 + P382, 0)) is Z2

valid_g2_pts = [multiply(G2, k) for k in (1, 2, 3, 11, curve_order - 1)]
valid_g2_pts += [multiply(G2, rnd.randrange(1, curve_order)) for _ in range(5)]
valid_g2 = [new_pc.compress_G2(pt) for pt in valid_g2_pts]
for pt in valid_g2_pts:
    same("compress_G2", old_pc.compress_G2, new_pc.compress_G2, pt)
for pt in [multiply(G1, k) for k in (1, 2, 9)] + [Z1]:
    same("compress_G1", old_pc.compress_G1, new_pc.compress_G1, pt)
same("compress_G2/inf", old_pc.compress_G2, new_pc.compress_G2, Z2)

# payloads (x_im part goes to z1, x_re to z2)
z1_payloads = [0, 1, q - 1, q, q + 1, P381 - 1] + [z1 % P381 for z1, _ in valid_g2]
z1_payloads += [rnd.randrange(q) for _ in range(6)]
z2_values = [0, 1, 2, q - 1, q, q + 1, P381, P381 + 1, P382, P383, P383 + P382, P384 - 1, P384,
             -1, -q, None, True]
z2_values += [z2 for _, z2 in valid_g2[:4]] + [rnd.randrange(q) for _ in range(4)]
stats = {}
count = 0
for x1 in z1_payloads:
    for flags in range(8):
        for z2 in z2_values:
            # full square roots in FQ2 are the slow part; keep the cross product
            # exhaustive for the flag logic and sample the rest
            reaches_sqrt = flags in (4, 5) and x1 % P381 != 0 and x1 < q
            if reaches_sqrt and rnd.random() > 0.12:
                continue
            r = same("decompress_G2", old_pc.decompress_G2, new_pc.decompress_G2,
                     (x1 + flags * P381, z2))
            key = r[0] + ":" + (r[1] + " " + r[2][:24] if r[0] == "exc" else "")
            stats[key] = stats.get(key, 0) + 1
            count += 1
for z1, z2 in valid_g2:
    for flip in (0, P381, P382, P383, P382 + P381):
        same("decompress_G2/valid", old_pc.decompress_G2, new_pc.decompress_G2, (z1 ^ flip, z2))
        same("decompress_G2/valid-z2flags", old_pc.decompress_G2, new_pc.decompress_G2,
             (z1, z2 ^ flip))
for bad in (None, (), (P383,), (P383, 0, 0), [P383 + P382, 0], (None, 0), (1.5, 0), ("a", 0),
            (P383 + 1, 1.5), (P383 + 1, "x"), (-1, 0), (-P381, 0), (-P383, -1), 5, b"ab",
            (P384 + P383 + P382, 0), (P384 + P383 + 1, 1)):
    same("decompress_G2/bad", old_pc.decompress_G2, new_pc.decompress_G2, bad)
print("decompress_G2 cases:", count, "outcomes:", stats)
assert any(k.startswith("ok") for k in stats) and len(stats) >= 6
print("part 1 done at %.1fs" % (time.time() - T0))

# --------------------------------------------------------------------------
# 2. KeyValidate
# --------------------------------------------------------------------------
from py_ecc.bls.hash import i2osp  # noqa: E402

SUITES = ("G2Basic", "G2MessageAugmentation", "G2ProofOfPossession")
sks = [1, 2, 0x1234567, curve_order - 1, rnd.randrange(1, curve_order)]
pks = [new_cs.G2Basic.SkToPk(sk) for sk in sks]


def g1_not_in_subgroup():
    # a curve point of E(Fq) outside the prime-order subgroup
    x = 3
    while True:
        x += 1
        rhs = (x**3 + 4) % q
        y = pow(rhs, (q + 1) // 4, q)
        if y * y % q == rhs:
            pt = (FQ(x), FQ(y), FQ(1))
            if not new_g2p.subgroup_check(pt):
                return pt


off_g1 = g1_not_in_subgroup()
pk_candidates = list(pks)
pk_candidates += [
    i2osp(P383 + P382, 48),  # identity
    i2osp(P383 + P382 + P381, 48),  # identity with a_flag
    i2osp(P382, 48),
    i2osp(0, 48),
    b"\xff" * 48,
    i2osp(new_pc.compress_G1(off_g1), 48),
    i2osp(new_pc.compress_G1(neg(off_g1)), 48),
    i2osp(P383 + q, 48),
    i2osp(P383 + q - 1, 48),
    i2osp(P383 + 1, 48),
    i2osp(P383 + 5, 48),
    pks[0][:47],
    pks[0] + b"\x00",
    b"\x00" + pks[0],
    b"",
    bytearray(pks[0]),
    memoryview(pks[0]),
    pks[0].hex(),
    None,
    7,
    tuple(pks[0]),
]
for i in range(48):
    pk_candidates.append(pks[1][:i] + bytes([pks[1][i] ^ (1 << (i % 8))]) + pks[1][i + 1:])
for bit in (7, 6, 5):
    pk_candidates.append(bytes([pks[2][0] ^ (1 << bit)]) + pks[2][1:])
kv = {}
for name in SUITES:
    for c in pk_candidates:
        r = same("KeyValidate/" + name, getattr(old_cs, name).KeyValidate,
                 getattr(new_cs, name).KeyValidate, c)
        kv[str(r)] = kv.get(str(r), 0) + 1
        same("_is_valid_pubkey/" + name, getattr(old_cs, name)._is_valid_pubkey,
             getattr(new_cs, name)._is_valid_pubkey, c)
print("KeyValidate outcomes:", kv)
assert len(kv) == 2  # bool True and bool False only
print("part 2 done at %.1fs" % (time.time() - T0))

# --------------------------------------------------------------------------
# 3. Sign / Verify / PopVerify on the candidate families of the property
# --------------------------------------------------------------------------
from py_ecc.bls.hash_to_curve import hash_to_G2  # noqa: E402
from hashlib import sha256  # noqa: E402


def g2_cofactor_torsion():
    # a non-trivial point of E'(Fq2) killed by the cofactor: curve_order * R
    n = 1
    while True:
        n += 1
        x = FQ2([n, 1])
        y = new_pc.modular_squareroot_in_FQ2(x**3 + b2)
        if y is None:
            continue
        pt = (x, y, FQ2([1, 0]))
        assert is_on_curve(pt, b2)
        T = multiply(pt, curve_order)
        if not new_g2p.is_inf(T):
            return T, pt


T_tors, random_twist_pt = g2_cofactor_torsion()

verify_stats = {}


def check_verify(name, pk, msg, cand, tag):
    if name == "Pop":
        r = same("PopVerify/" + tag, old_cs.G2ProofOfPossession.PopVerify,
                 new_cs.G2ProofOfPossession.PopVerify, pk, cand)
    else:
        r = same("Verify/%s/%s" % (name, tag), getattr(old_cs, name).Verify,
                 getattr(new_cs, name).Verify, pk, msg, cand)
    verify_stats[str(r)] = verify_stats.get(str(r), 0) + 1
    return r


sk = 0x263DBD792F5B1BE47ED85F8938C0F29586AF0D3AC7B977F21C278FE1462040E3 % curve_order
msgs = [b"", b"abc", b"\x00" * 32]
for name in SUITES:
    o, n = getattr(old_cs, name), getattr(new_cs, name)
    for s in (sk, 1, curve_order - 1, 0, curve_order, -1, "1", None, True):
        for m in (b"abc", "abc", None):
            same("Sign/" + name, o.Sign, n.Sign, s, m)
        same("SkToPk/" + name, o.SkToPk, n.SkToPk, s)
same("PopProve", old_cs.G2ProofOfPossession.PopProve, new_cs.G2ProofOfPossession.PopProve, sk)

pk = new_cs.G2Basic.SkToPk(sk)
pk_other = new_cs.G2Basic.SkToPk(sk + 1)
sigs = {name: getattr(new_cs, name).Sign(sk, b"abc") for name in SUITES}
for name in SUITES:
    assert getattr(old_cs, name).Sign(sk, b"abc") == sigs[name]
pop = new_cs.G2ProofOfPossession.PopProve(sk)
assert old_cs.G2ProofOfPossession.PopProve(sk) == pop

# canonical signature under every suite, cross-suite and cross-domain confusions
for name in SUITES:
    assert check_verify(name, pk, b"abc", sigs[name], "canonical") == ("ok", ("bool", True))
    for other in SUITES:
        if other != name:
            r = check_verify(name, pk, b"abc", sigs[other], "other-suite")
            assert r == ("ok", ("bool", False))
assert check_verify("Pop", pk, None, pop, "canonical") == ("ok", ("bool", True))
check_verify("Pop", pk, None, sigs["G2ProofOfPossession"], "sig-as-pop")
check_verify("G2ProofOfPossession", pk, pk, pop, "pop-as-sig")
# augmented signature checked without its key prefix / with an explicit one
check_verify("G2Basic", pk, pk + b"abc", sigs["G2MessageAugmentation"], "aug-vs-basic")
check_verify("G2MessageAugmentation", pk, pk + b"abc", sigs["G2MessageAugmentation"], "aug-double")

name = "G2Basic"
S = new_g2p.signature_to_G2(sigs[name])
Hm = hash_to_G2(b"abc", new_cs.G2Basic.DST, sha256)
to_sig = new_g2p.G2_to_signature
family = {
    "other-key": new_cs.G2Basic.Sign(sk + 1, b"abc"),
    "other-msg": new_cs.G2Basic.Sign(sk, b"abd"),
    "sk+1": to_sig(multiply(Hm, (sk + 1) % curve_order)),
    "sk-1": to_sig(multiply(Hm, (sk - 1) % curve_order)),
    "neg": to_sig(neg(S)),
    "S+T": to_sig(add(S, T_tors)),
    "2S": to_sig(double(S)),
    "T": to_sig(T_tors),
    "random-twist-point": to_sig(random_twist_pt),
    "random-G2": to_sig(multiply(G2, rnd.randrange(1, curve_order))),
    "infinity": i2osp(P383 + P382, 48) + i2osp(0, 48),
    "infinity+a": i2osp(P383 + P382 + P381, 48) + i2osp(0, 48),
    "infinity-noc": i2osp(P382, 48) + i2osp(0, 48),
    "zero": b"\x00" * 96,
    "ones": b"\xff" * 96,
    "short": sigs[name][:95],
    "long": sigs[name] + b"\x00",
    "empty": b"",
    "bytearray": bytearray(sigs[name]),
    "str": sigs[name].hex(),
    "none": None,
    "x_im+q": i2osp((int.from_bytes(sigs[name][:48], "big") + q) % P384, 48)
    + sigs[name][48:],
    "swapped-halves": sigs[name][48:] + sigs[name][:48],
}
z1c, z2c = int.from_bytes(sigs[name][:48], "big"), int.from_bytes(sigs[name][48:], "big")
if z2c + q < P384:
    family["x_re+q"] = sigs[name][:48] + i2osp(z2c + q, 48)
for tag, cand in family.items():
    r = check_verify(name, pk, b"abc", cand, tag)
    assert r == ("ok", ("bool", False)), (tag, r)
check_verify(name, pk_other, b"abc", sigs[name], "other-pk")
check_verify(name, pk, b"abd", sigs[name], "other-msg-arg")
for badpk in (i2osp(P383 + P382, 48), pk[:47], pk + b"\x00", None, bytearray(pk),
              i2osp(new_pc.compress_G1(off_g1), 48), b"\x00" * 48):
    for sname in SUITES:
        check_verify(sname, badpk, b"abc", sigs[sname], "bad-pk")
    check_verify("Pop", badpk, None, pop, "bad-pk")
for badmsg in (None, "abc", 5, bytearray(b"abc")):
    for sname in SUITES:
        check_verify(sname, pk, badmsg, sigs[sname], "bad-msg")
print("part 3a done at %.1fs" % (time.time() - T0))

# bit flips: one bit in every byte position, all three flag bits of both halves,
# and multi-bit flips
sig = sigs[name]
flip_cands = []
for i in range(96):
    flip_cands.append(sig[:i] + bytes([sig[i] ^ (1 << ((i * 5) % 8))]) + sig[i + 1:])
for half in (0, 48):
    for bit in (7, 6, 5):
        flip_cands.append(sig[:half] + bytes([sig[half] ^ (1 << bit)]) + sig[half + 1:])
for _ in range(12):
    bs = bytearray(sig)
    for _k in range(rnd.randrange(2, 5)):
        bs[rnd.randrange(96)] ^= 1 << rnd.randrange(8)
    flip_cands.append(bytes(bs))
for cand in flip_cands:
    r = check_verify(name, pk, b"abc", cand, "flip")
    assert r == ("ok", ("bool", False)) or cand == sig
# a few flips for the other entry points
for sname, base in (("G2MessageAugmentation", sigs["G2MessageAugmentation"]),
                    ("G2ProofOfPossession", sigs["G2ProofOfPossession"]), ("Pop", pop)):
    for i in (0, 1, 47, 48, 95):
        cand = base[:i] + bytes([base[i] ^ 0x20]) + base[i + 1:]
        check_verify(sname, pk, b"abc", cand, "flip")

# repeat canonical checks after everything else (no state may have changed)
for sname in SUITES:
    assert check_verify(sname, pk, b"abc", sigs[sname], "canonical-again") == (
        "ok", ("bool", True))
    assert getattr(old_cs, sname).Sign(sk, b"abc") == getattr(new_cs, sname).Sign(sk, b"abc") \
        == sigs[sname]
print("Verify outcomes:", verify_stats)

# Aggregate APIs share the decoders; a short sanity comparison
sig2 = new_cs.G2Basic.Sign(sk + 1, b"xyz")
for sname in SUITES:
    o, n = getattr(old_cs, sname), getattr(new_cs, sname)
    same("Aggregate", o.Aggregate, n.Aggregate, [sigs[sname], sig2])
    same("Aggregate/bad", o.Aggregate, n.Aggregate, [sigs[sname], family["zero"]])
    same("Aggregate/empty", o.Aggregate, n.Aggregate, [])
same("AggregateVerify", old_cs.G2Basic.AggregateVerify, new_cs.G2Basic.AggregateVerify,
     [pk, pk_other], [b"abc", b"xyz"], new_cs.G2Basic.Aggregate([sigs["G2Basic"], sig2]))
same("_AggregatePKs", old_cs.G2ProofOfPossession._AggregatePKs,
     new_cs.G2ProofOfPossession._AggregatePKs, [pk, pk_other, i2osp(P383 + P382, 48)])
same("_AggregatePKs/bad", old_cs.G2ProofOfPossession._AggregatePKs,
     new_cs.G2ProofOfPossession._AggregatePKs, [pk, b"\x00" * 48])

print("OK: %d comparisons identical, %.1fs" % (N_CHECKS, time.time() - T0))
