import os, sys; sys.path.insert(0, os.getcwd())
"""
Equivalence demonstration for C15 / s2 (HASH_TO_FIELD_L written as the RFC formula in the
field modulus, the two 255 limits of expand_message_xmd named in constants.py).

Loads the pristine hash.py / hash_to_curve.py / constants.py as the synthetic package
``pristine_bls`` (pristine files shadow the edited ones, everything else -- typing.py --
comes from the working tree) and compares it against the edited py_ecc.bls.
"""
import hashlib
import importlib
import itertools
import types

HERE = os.path.dirname(os.path.abspath(__file__))
PRISTINE = os.path.join(HERE, "pristine")

import py_ecc.bls  # noqa: E402  (edited tree, cwd)
import py_ecc.bls.hash as new_hash  # noqa: E402
import py_ecc.bls.hash_to_curve as new_h2c  # noqa: E402
import py_ecc.bls.constants as new_const  # noqa: E402

assert os.path.abspath(py_ecc.__file__).startswith(os.getcwd()), py_ecc.__file__

pkg = types.ModuleType("pristine_bls")
pkg.__path__ = [PRISTINE, os.path.dirname(py_ecc.bls.__file__)]
pkg.__package__ = "pristine_bls"
sys.modules["pristine_bls"] = pkg
old_hash = importlib.import_module("pristine_bls.hash")
old_const = importlib.import_module("pristine_bls.constants")
old_h2c = importlib.import_module("pristine_bls.hash_to_curve")
for m in (old_hash, old_const, old_h2c):
    assert os.path.abspath(m.__file__).startswith(PRISTINE), m.__file__
assert old_h2c.expand_message_xmd is old_hash.expand_message_xmd
assert old_h2c.os2ip is old_hash.os2ip

checks = 0


def outcome(f, *a):
    try:
        r = f(*a)
    except BaseException as e:  # noqa: B902
        return ("exc", type(e))
    return ("ok", type(r), r)


def same(fo, fn, *a):
    global checks
    o, n = outcome(fo, *a), outcome(fn, *a)
    if o != n:
        raise SystemExit("MISMATCH %s%r: pristine %r / edited %r" % (fo.__name__, a, o, n))
    checks += 1
    return o


# ---------------------------------------------------------------- constants
import py_ecc.bls.g2_primitives as g2p  # noqa: E402,F401
import py_ecc.bls.ciphersuites as cs  # noqa: E402,F401
from py_ecc.optimized_bls12_381 import field_modulus  # noqa: E402

assert type(new_const.HASH_TO_FIELD_L) is int and new_const.HASH_TO_FIELD_L == 64
assert type(old_const.HASH_TO_FIELD_L) is int and old_const.HASH_TO_FIELD_L == 64
assert new_h2c.HASH_TO_FIELD_L is new_const.HASH_TO_FIELD_L
assert type(new_const.XMD_MAX_DST_LENGTH) is int and new_const.XMD_MAX_DST_LENGTH == 255
assert type(new_const.XMD_MAX_ELL) is int and new_const.XMD_MAX_ELL == 255
assert new_hash.XMD_MAX_DST_LENGTH == 255 and new_hash.XMD_MAX_ELL == 255
assert type(new_const.HASH_TO_FIELD_SECURITY_BITS) is int
assert field_modulus.bit_length() == 381
# the RFC formula, evaluated independently with exact integer arithmetic
assert -(-(((field_modulus - 1).bit_length()) + 128) // 8) == 64
# every constant that existed before has the same type and value
for n in vars(old_const):
    if n.startswith("__"):
        continue
    x, y = getattr(old_const, n), getattr(new_const, n)
    if not isinstance(x, types.ModuleType) and not isinstance(x, type):
        assert type(x) is type(y) and x == y, n
# only additions to the module namespaces
added_c = set(vars(new_const)) - set(vars(old_const))
assert added_c == {"HASH_TO_FIELD_SECURITY_BITS", "XMD_MAX_DST_LENGTH", "XMD_MAX_ELL"}, added_c
assert set(vars(old_const)) <= set(vars(new_const))
added_h = set(vars(new_hash)) - set(vars(old_hash))
assert added_h == {"XMD_MAX_DST_LENGTH", "XMD_MAX_ELL"}, added_h
assert set(vars(old_hash)) - set(vars(new_hash)) == set()
assert set(vars(old_h2c)) == set(vars(new_h2c))
assert new_h2c.expand_message_xmd is new_hash.expand_message_xmd

# ---------------------------------------------------------------- octet helpers
ints = [0, 1, 2, 127, 128, 255, 256, 257, 65535, 65536, 2**64 - 1, 2**381, 2**384 - 1,
        2**384, 2**512 - 1, 2**512, -1, -256, True, 1.0, None, "1"]
lens = [0, 1, 2, 3, 48, 64, 65, -1, True, 1.5, None]
for x, n in itertools.product(ints, lens):
    same(old_hash.i2osp, new_hash.i2osp, x, n)
octs = [b"", b"\x00", b"\x01", b"\xff", b"\x00\x01", b"\xff" * 48, b"\x80" + b"\x00" * 63,
        bytes(range(64)), bytes(range(256)), bytearray(b"\x01\x02"), memoryview(b"\x03\x04"),
        [1, 2, 3], (255, 0), [256], "ab", None, 5]
for x in octs:
    same(old_hash.os2ip, new_hash.os2ip, x)
for a, b in itertools.product(octs, octs):
    same(old_hash.xor, new_hash.xor, a, b)

# ---------------------------------------------------------------- reference (RFC 9380 5.3.1)
def ref_xmd(msg, dst, n, H):
    b = H().digest_size
    s = H().block_size
    ell = -(-n // b)
    if ell > 255 or n > 65535 or len(dst) > 255:
        raise ValueError
    dp = dst + bytes([len(dst)])
    b0 = H(bytes(s) + msg + n.to_bytes(2, "big") + b"\x00" + dp).digest()
    bi = H(b0 + b"\x01" + dp).digest()
    out = bi
    for i in range(2, ell + 1):
        bi = H(bytes(x ^ y for x, y in zip(b0, bi)) + bytes([i]) + dp).digest()
        out += bi
    return out[:n]


# ---------------------------------------------------------------- expand_message_xmd
hashes = [hashlib.sha256, hashlib.sha512, hashlib.sha384, hashlib.sha3_256, hashlib.blake2b,
          hashlib.sha1, hashlib.md5, hashlib.sha224, hashlib.blake2s, hashlib.sha3_512]
msg_lens = [0, 1, 3, 54, 55, 56, 63, 64, 65, 111, 119, 127, 128, 129, 135, 136, 137, 1024, 4099]
msgs = [bytes((i * 7 + 3) % 256 for i in range(n)) for n in msg_lens]
dsts = [bytes((i * 5 + 1) % 256 for i in range(n)) for n in (0, 1, 2, 16, 43, 254, 255, 256, 300)]
dsts.append(b"QUUX-V01-CS02-with-expander-SHA256-128")

for H in hashes:
    b = H().digest_size
    out_lens = [0, 1, 31, 32, 33, 64, 128, 255 * b - 1, 255 * b, 255 * b + 1, 65535, 65536, 70000]
    for mi, msg in enumerate(msgs):
        for di, dst in enumerate(dsts):
            # full grid on the short messages, a thinner one on the rest
            for n in out_lens if (mi < 4 or di in (0, 6, 7, 9)) else (0, 32, 33, 255 * b, 255 * b + 1):
                o = same(old_hash.expand_message_xmd, new_hash.expand_message_xmd, msg, dst, n, H)
                r = outcome(ref_xmd, msg, dst, n, H)
                if r[0] == "ok":
                    assert o == r, (H, len(msg), len(dst), n)
                else:
                    # pristine behaviour outside the RFC domain is whatever it is;
                    # it only has to be *some* exception
                    assert o[0] == "exc", (H, len(msg), len(dst), n, o)

# malformed / unusual argument types and hash objects
weird = [
    (b"abc", b"dst", -1, hashlib.sha256),
    (b"abc", b"dst", -33, hashlib.sha256),
    (b"abc", b"dst", 32.0, hashlib.sha256),
    (b"abc", b"dst", 31.5, hashlib.sha256),
    (b"abc", b"dst", True, hashlib.sha256),
    (b"abc", b"dst", None, hashlib.sha256),
    (b"abc", b"dst", "32", hashlib.sha256),
    ("abc", b"dst", 32, hashlib.sha256),
    (b"abc", "dst", 32, hashlib.sha256),
    (bytearray(b"abc"), b"dst", 32, hashlib.sha256),
    (b"abc", bytearray(b"dst"), 32, hashlib.sha256),
    (memoryview(b"abc"), b"dst", 32, hashlib.sha256),
    (None, b"dst", 32, hashlib.sha256),
    (b"abc", None, 32, hashlib.sha256),
    (b"abc", b"dst", 32, None),
    (b"abc", b"dst", 32, hashlib.shake_128),
    (b"abc", b"dst", 0, hashlib.shake_256),
    (b"abc", b"dst", 32, lambda *a: hashlib.blake2b(*a, digest_size=20)),
    (b"abc", b"x" * 256, 32, None),
    (b"abc", b"x" * 256, 10**9, hashlib.sha256),
]
for a in weird:
    same(old_hash.expand_message_xmd, new_hash.expand_message_xmd, *a)

# arguments are not mutated
ba_msg, ba_dst = bytearray(b"message"), bytearray(b"DST")
new_hash.expand_message_xmd(ba_msg, ba_dst, 96, hashlib.sha256)
assert ba_msg == bytearray(b"message") and ba_dst == bytearray(b"DST")

# ---------------------------------------------------------------- hash_to_field
P = 0x1a0111ea397fe69a4b1ba7b6434bacd764774b84f38512bf6730d2a0f6b0f6241eabfffeb153ffffb9feffffffffaaab  # noqa: E501


def field_out(f):
    def g(*a):
        r = f(*a)
        assert type(r) is tuple
        res = []
        for e in r:
            if hasattr(e, "coeffs"):
                assert all(type(c) is int for c in e.coeffs)
                res.append((type(e).__name__, tuple(e.coeffs)))
            else:
                assert type(e.n) is int
                res.append((type(e).__name__, e.n))
        return tuple(res)
    g.__name__ = f.__name__
    return g


h2f_hashes = [hashlib.sha256, hashlib.sha512, hashlib.sha384, hashlib.sha3_256, hashlib.blake2b]
h2f_msgs = [b"", b"abc", b"abcdef0123456789", b"a" * 64, b"q" * 128, bytes(range(256)) * 5]
h2f_dsts = [b"", b"D", b"QUUX-V01-CS02-with-BLS12381G2_XMD:SHA-256_SSWU_RO_", b"z" * 254, b"z" * 255,
            b"z" * 256]
counts = list(range(0, 9)) + [63, 64, 127, 128, -1, True, 1.0, None]
for H in h2f_hashes:
    for msg in h2f_msgs:
        for dst in h2f_dsts:
            for c in counts:
                if isinstance(c, int) and c > 8 and (msg != b"abc" or len(dst) > 60):
                    continue
                for fo, fn, m in ((old_h2c.hash_to_field_FQ2, new_h2c.hash_to_field_FQ2, 2),
                                  (old_h2c.hash_to_field_FQ, new_h2c.hash_to_field_FQ, 1)):
                    o = same(field_out(fo), field_out(fn), msg, c, dst, H)
                    if o[0] == "ok" and type(c) is int:
                        u = ref_xmd(msg, dst, c * m * 64, H)
                        exp = []
                        for i in range(c):
                            cs_ = [int.from_bytes(u[64 * (j + i * m): 64 * (j + i * m) + 64], "big") % P
                                   for j in range(m)]
                            exp.append(("optimized_bls12_381_FQ2", tuple(cs_)) if m == 2
                                       else ("optimized_bls12_381_FQ", cs_[0]))
                        assert o[2] == tuple(exp)

# repeated / interleaved calls give equal results (no hidden state)
seq = [(b"m1", 2, b"D1", hashlib.sha256), (b"m2", 3, b"D2", hashlib.sha512),
       (b"m1", 2, b"D1", hashlib.sha256), (b"m1", 1, b"D1", hashlib.sha256),
       (b"m2", 3, b"D2", hashlib.sha512), (b"m1", 2, b"D1", hashlib.sha256)]
first = {}
for a in seq * 2:
    o = same(field_out(old_h2c.hash_to_field_FQ2), field_out(new_h2c.hash_to_field_FQ2), *a)
    assert first.setdefault(a, o) == o
    o = same(old_hash.expand_message_xmd, new_hash.expand_message_xmd, a[0], a[2], a[1] * 17, a[3])
    assert first.setdefault(("x",) + a, o) == o

# ---------------------------------------------------------------- downstream users of the helpers
def pts(f):
    def g(*a):
        r = f(*a)
        return tuple(tuple(c.coeffs) if hasattr(c, "coeffs") else c.n for c in r)
    g.__name__ = f.__name__
    return g


for msg in (b"", b"abc", b"a" * 100):
    for dst in (b"", b"QUUX-V01-CS02-with-BLS12381G2_XMD:SHA-256_SSWU_RO_", b"z" * 255, b"z" * 256):
        same(pts(old_h2c.hash_to_G2), pts(new_h2c.hash_to_G2), msg, dst, hashlib.sha256)
        same(pts(old_h2c.hash_to_G1), pts(new_h2c.hash_to_G1), msg, dst, hashlib.sha256)

# hkdf / sha256 untouched but living in the same module
for salt, ikm, info, n in ((b"", b"", b"", 0), (b"s", b"k" * 32, b"info", 48), (b"s" * 80, b"k", b"", 255 * 32),
                           (b"s", b"k", b"i", 255 * 32 + 1), (b"s", b"k", b"i", -1)):
    same(old_hash.hkdf_extract, new_hash.hkdf_extract, salt, ikm)
    same(old_hash.hkdf_expand, new_hash.hkdf_expand, old_hash.hkdf_extract(salt, ikm), info, n)
    same(old_hash.sha256, new_hash.sha256, ikm)

print("equiv OK: %d paired checks" % checks)

# module constants are still what they were after all of the calls above
assert new_const.HASH_TO_FIELD_L == 64 and new_const.XMD_MAX_DST_LENGTH == 255
assert new_const.XMD_MAX_ELL == 255 and new_hash.XMD_MAX_ELL == 255
print("constants unchanged after the run")
