import os, sys; sys.path.insert(0, os.getcwd())  # noqa: E401,E702

"""
Equivalence demonstration for twin t1 (property C04).

Loads the pristine py_ecc/bls/ciphersuites.py (saved next to this script) under the
module name py_ecc.bls._pristine_ciphersuites and compares it with the edited
py_ecc.bls.ciphersuites of the worktree in the current directory: same return value,
same return type, same exception class for every call, and the same sequence of
points handed to pairing().
"""

import importlib.util
import random
import subprocess
import time

T0 = time.time()
HERE = os.path.dirname(os.path.abspath(__file__))

# The work is split into four independent parts that run as parallel child
# processes of this script (each child re-imports both module versions itself).
#   (suites for the gate/KeyValidate/Verify phases, suites for the AggregateVerify
#    phase, run the PopVerify block?, run the FastAggregateVerify + subclass block?)
PARTS = [
    (["G2Basic"], [], False, False),
    (["G2MessageAugmentation", "G2ProofOfPossession"], ["G2MessageAugmentation"], False, False),
    ([], ["G2Basic"], True, False),
    ([], ["G2ProofOfPossession"], False, True),
]
if "--part" not in sys.argv:
    procs = [
        subprocess.Popen([sys.executable, os.path.abspath(__file__), "--part", str(i)])
        for i in range(len(PARTS))
    ]
    codes = [p.wait() for p in procs]
    print("parts exit codes", codes, "total %.1f s" % (time.time() - T0))
    sys.exit(0 if all(c == 0 for c in codes) else 1)
PART = int(sys.argv[sys.argv.index("--part") + 1])
SUITES_12, SUITES_3, RUN_POP, RUN_FAV = PARTS[PART]

import py_ecc.bls.ciphersuites as new_mod  # noqa: E402

assert os.path.abspath(new_mod.__file__).startswith(os.getcwd()), new_mod.__file__

spec = importlib.util.spec_from_file_location(
    "py_ecc.bls._pristine_ciphersuites",
    os.path.join(HERE, "pristine", "ciphersuites.py"),
)
old_mod = importlib.util.module_from_spec(spec)
sys.modules[spec.name] = old_mod
spec.loader.exec_module(old_mod)

# the edit must really be present in the worktree copy
assert hasattr(new_mod.BaseG2Ciphersuite, "_require_valid_pubkey")
assert not hasattr(old_mod.BaseG2Ciphersuite, "_require_valid_pubkey")

from py_ecc.bls.g2_primitives import (  # noqa: E402
    G1_to_pubkey,
    G2_to_signature,
    pubkey_to_G1,
    signature_to_G2,
    subgroup_check,
)
from py_ecc.bls.hash import i2osp  # noqa: E402
from py_ecc.optimized_bls12_381 import (  # noqa: E402
    G1,
    G2,
    Z1,
    Z2,
    curve_order,
    field_modulus as q,
    multiply,
    normalize,
)
import py_ecc.optimized_bls12_381 as curve  # noqa: E402

SUITES = ["G2Basic", "G2MessageAugmentation", "G2ProofOfPossession"]

# ---------------------------------------------------------------------------
# pairing recorder: both modules did `from py_ecc.optimized_bls12_381 import pairing`
# ---------------------------------------------------------------------------
LOG = {"old": [], "new": []}


def _pt_key(pt):
    return tuple(repr(c) for c in pt)


def make_recorder(tag):
    real = curve.pairing

    def rec(Q, P, final_exponentiate=True):
        LOG[tag].append((_pt_key(Q), _pt_key(P), final_exponentiate))
        return real(Q, P, final_exponentiate=final_exponentiate)

    return rec


old_mod.pairing = make_recorder("old")
new_mod.pairing = make_recorder("new")

N_CALLS = 0


def finish():
    assert LOG["old"] == LOG["new"]
    seen = len(LOG["new"])
    # module constants untouched
    assert normalize(G1) == normalize(curve.G1) and curve.Z1[2] == 0
    assert normalize(G2) == normalize(curve.G2)
    for suite in SUITES:
        assert getattr(old_mod, suite).DST == getattr(new_mod, suite).DST
    print(
        "part %d OK: %d paired calls identical, %d pairing evaluations identical, %.1f s"
        % (PART, N_CALLS, seen, time.time() - T0)
    )
    sys.exit(0)


def outcome(f, *args):
    try:
        r = f(*args)
    except BaseException as e:  # noqa: B902
        return ("exc", type(e).__name__)
    return ("ok", type(r).__name__, r)


def both(name_path, make_args):
    """
    name_path: (suite, attr); make_args: callable producing a fresh args tuple
    (fresh so that generators / iterators are not shared between the versions).
    """
    global N_CALLS
    suite, attr = name_path
    fo = getattr(getattr(old_mod, suite), attr)
    fn = getattr(getattr(new_mod, suite), attr)
    a = outcome(fo, *make_args())
    b = outcome(fn, *make_args())
    N_CALLS += 1
    if a != b:
        print("MISMATCH", suite, attr, repr(make_args())[:300], a, b)
        sys.exit(1)
    if LOG["old"] != LOG["new"]:
        print("PAIRING ARGUMENT MISMATCH", suite, attr, repr(make_args())[:300])
        sys.exit(1)
    return a


# ---------------------------------------------------------------------------
# material
# ---------------------------------------------------------------------------
rng = random.Random(0xC04)
P381 = 2**381

sks = [1, 2, 5, 0x1234567, curve_order - 1]
G = old_mod.G2Basic
pks = [G.SkToPk(sk) for sk in sks]
good_pk = pks[2]
msg = b"message"
msgs = [b"m0", b"m1", b"m2"]


def compressed_g1(x, a_flag=0, b_flag=0, c_flag=1):
    return i2osp(x + a_flag * 2**381 + b_flag * 2**382 + c_flag * 2**383, 48)


def g1_on_curve_not_in_subgroup():
    out = []
    x = 1
    while len(out) < 3:
        x += 1
        rhs = (x**3 + 4) % q
        y = pow(rhs, (q + 1) // 4, q)
        if y * y % q != rhs:
            continue
        enc = compressed_g1(x)
        pt = pubkey_to_G1(enc)
        if not subgroup_check(pt):
            out.append(enc)
    return out


def x_not_on_curve_g1():
    out = []
    x = 1
    while len(out) < 2:
        x += 1
        rhs = (x**3 + 4) % q
        y = pow(rhs, (q + 1) // 4, q)
        if y * y % q != rhs:
            out.append(compressed_g1(x))
    return out


def g2_on_curve_not_in_subgroup():
    out = []
    x = 1
    while len(out) < 3:
        x += 1
        enc = i2osp(2**383 + x, 48) + i2osp(x + 7, 48)
        try:
            pt = signature_to_G2(enc)
        except ValueError:
            continue
        if not subgroup_check(pt):
            out.append(enc)
    return out


def g2_not_on_curve():
    out = []
    x = 1
    while len(out) < 2:
        x += 1
        enc = i2osp(2**383 + x, 48) + i2osp(x + 7, 48)
        try:
            signature_to_G2(enc)
        except ValueError:
            out.append(enc)
    return out


INF_PK = G1_to_pubkey(Z1)
INF_SIG = G2_to_signature(Z2)
assert INF_PK == b"\xc0" + b"\x00" * 47

key_cands = []
key_cands += pks
key_cands += [G1_to_pubkey(multiply(G1, curve_order + 3))]
key_cands += [INF_PK, b"\x00" * 48, b"\xff" * 48, b"\x40" + b"\x00" * 47]
key_cands += [b"\x80" + b"\x00" * 47, b"\xa0" + b"\x00" * 47, b"\xe0" + b"\x00" * 47]
key_cands += g1_on_curve_not_in_subgroup()
key_cands += x_not_on_curve_g1()
# all eight flag combinations on a valid x, on x = 0 and on the identity encoding
xg = int.from_bytes(good_pk, "big") % P381
for flags in range(8):
    c, b_, a = (flags >> 2) & 1, (flags >> 1) & 1, flags & 1
    key_cands.append(compressed_g1(xg, a, b_, c))
    key_cands.append(compressed_g1(0, a, b_, c))
    key_cands.append(compressed_g1(1, a, b_, c))
# boundary x values
for x in (0, 1, q - 1, q, q + 1, P381 - 1):
    for a in (0, 1):
        key_cands.append(compressed_g1(x, a))
# extra leading / trailing bytes, truncations, zero padding
for k in (good_pk, INF_PK):
    key_cands += [
        b"\x00" + k,
        k + b"\x00",
        b"\x01" + k,
        k + k,
        k[:47],
        k[1:],
        k[:1],
        b"\x00" * 48 + k,
        k + b"\x00" * 48,
        k + b"\x00" * 152,
    ]
# random bytes of every length 0..200 (one each) + extra at 48
for n in range(0, 201):
    key_cands.append(bytes(rng.getrandbits(8) for _ in range(n)))
for _ in range(40):
    key_cands.append(bytes(rng.getrandbits(8) for _ in range(48)))
for _ in range(20):
    # c_flag set, otherwise random: reaches the decoder proper
    r = bytearray(rng.getrandbits(8) for _ in range(48))
    r[0] = (r[0] & 0x1F) | 0x80 | (rng.getrandbits(1) << 5)
    key_cands.append(bytes(r))
# non-bytes
NON_BYTES = [
    None,
    0,
    1,
    "a" * 48,
    bytearray(good_pk),
    memoryview(good_pk),
    list(good_pk),
    tuple(good_pk),
    3.5,
    [good_pk],
]

sig_by_suite = {}
for s in SUITES:
    cls = getattr(old_mod, s)
    sig_by_suite[s] = cls.Sign(sks[2], msg)
good_sig = sig_by_suite["G2Basic"]

sig_cands = []
sig_cands += [good_sig, G.Sign(sks[0], msg), G.Sign(sks[2], b"other")]
sig_cands += [INF_SIG, b"\x00" * 96, b"\xff" * 96, b"\x40" + b"\x00" * 95]
sig_cands += [b"\x80" + b"\x00" * 95, b"\xa0" + b"\x00" * 95, b"\xe0" + b"\x00" * 95]
sig_cands += g2_on_curve_not_in_subgroup()
sig_cands += g2_not_on_curve()
z1g = int.from_bytes(good_sig[:48], "big") % P381
z2g = int.from_bytes(good_sig[48:], "big")
for flags in range(8):
    c, b_, a = (flags >> 2) & 1, (flags >> 1) & 1, flags & 1
    top = a * 2**381 + b_ * 2**382 + c * 2**383
    sig_cands.append(i2osp(z1g + top, 48) + i2osp(z2g, 48))
    sig_cands.append(i2osp(top, 48) + i2osp(0, 48))
    sig_cands.append(i2osp(top, 48) + i2osp(1, 48))
    # flags in the second half
    sig_cands.append(i2osp(z1g + 2**383, 48) + i2osp(z2g % P381 + top, 48))
for x in (0, 1, q - 1, q, q + 1, P381 - 1):
    sig_cands.append(i2osp(2**383 + x, 48) + i2osp(z2g, 48))
    sig_cands.append(i2osp(2**383 + z1g, 48) + i2osp(x, 48))
    sig_cands.append(i2osp(2**383 + x, 48) + i2osp(x, 48))
for k in (good_sig, INF_SIG):
    sig_cands += [
        b"\x00" + k,
        k + b"\x00",
        k + k,
        k[:95],
        k[1:],
        k[:48],
        k[48:],
        k[:1],
        b"\x00" * 96 + k,
        k + b"\x00" * 104,
    ]
for n in range(0, 201):
    sig_cands.append(bytes(rng.getrandbits(8) for _ in range(n)))
for _ in range(30):
    sig_cands.append(bytes(rng.getrandbits(8) for _ in range(96)))
for _ in range(20):
    r = bytearray(rng.getrandbits(8) for _ in range(96))
    r[0] = (r[0] & 0x1F) | 0x80 | (rng.getrandbits(1) << 5)
    r[48] &= 0x1F
    sig_cands.append(bytes(r))

print("part", PART, "material ready", len(key_cands), "key candidates", len(sig_cands), "signature candidates", round(time.time() - T0, 1), "s")

# ---------------------------------------------------------------------------
# 1. private gates and KeyValidate on everything, all three suites
# ---------------------------------------------------------------------------
for s in SUITES_12:
    for k in key_cands + NON_BYTES + sig_cands[:40]:
        both((s, "_is_valid_pubkey"), lambda k=k: (k,))
        both((s, "_is_valid_signature"), lambda k=k: (k,))
        both((s, "_is_valid_message"), lambda k=k: (k,))
        r = both((s, "KeyValidate"), lambda k=k: (k,))
        assert r[0] == "ok" and r[1] == "bool", (s, k, r)
    for k in (-1, 0, 1, curve_order - 1, curve_order, curve_order + 1, True, 2.0, None, b"\x01"):
        both((s, "_is_valid_privkey"), lambda k=k: (k,))
        both((s, "SkToPk"), lambda k=k: (k,))
        both((s, "Sign"), lambda k=k: (k, msg))
    both((s, "Sign"), lambda: (5, "not bytes"))
    both((s, "Sign"), lambda: (5, None))
print("part", PART, "gates + KeyValidate done", N_CALLS, round(time.time() - T0, 1), "s")

# ---------------------------------------------------------------------------
# 2. Verify / PopVerify: every key candidate with a good signature, every signature
#    candidate with a good key
# ---------------------------------------------------------------------------
pop_proof = old_mod.G2ProofOfPossession.PopProve(sks[2])
for s in SUITES_12:
    sig = sig_by_suite[s]
    # the full candidate lists for the base suite, every seventh candidate for the others
    step = 1 if s == "G2Basic" else 7
    for k in key_cands[::step] + NON_BYTES:
        r = both((s, "Verify"), lambda k=k: (k, msg, sig))
        if isinstance(k, bytes):
            assert r[0] == "ok" and r[1] == "bool", (s, k, r)
    for sg in sig_cands[::step] + NON_BYTES:
        r = both((s, "Verify"), lambda sg=sg: (good_pk, msg, sg))
        if isinstance(sg, bytes):
            assert r[0] == "ok" and r[1] == "bool", (s, sg, r)
    for m in (None, "str", 5, bytearray(b"message"), b"", b"x" * 300):
        both((s, "Verify"), lambda m=m: (good_pk, m, sig))
    assert both((s, "Verify"), lambda: (good_pk, msg, sig)) == ("ok", "bool", True)
    assert both((s, "Verify"), lambda: (pks[1], msg, sig)) == ("ok", "bool", False)
    # repeat / interleave
    for _ in range(1):
        both((s, "Verify"), lambda: (good_pk, msg, sig))
        both((s, "Verify"), lambda: (INF_PK, msg, sig))
        both((s, "Verify"), lambda: (good_pk, msg, INF_SIG))
for k in (key_cands[1:120:4] + NON_BYTES) if RUN_POP else []:
    both(("G2ProofOfPossession", "PopVerify"), lambda k=k: (k, pop_proof))
for sg in (sig_cands[1:120:4] + NON_BYTES) if RUN_POP else []:
    both(("G2ProofOfPossession", "PopVerify"), lambda sg=sg: (good_pk, sg))
assert both(("G2ProofOfPossession", "PopVerify"), lambda: (good_pk, pop_proof))[2] is True
assert both(("G2ProofOfPossession", "PopVerify"), lambda: (pks[1], pop_proof))[2] is False
for k in (-1, 0, 1, curve_order, None):
    both(("G2ProofOfPossession", "PopProve"), lambda k=k: (k,))
print("part", PART, "Verify / PopVerify done", N_CALLS, round(time.time() - T0, 1), "s")

# ---------------------------------------------------------------------------
# 3. AggregateVerify / FastAggregateVerify: bad key in every position, shapes
# ---------------------------------------------------------------------------
N_CORE = 6
bad_keys = (
    [INF_PK, good_pk + b"\x00", b"\x00" + good_pk, good_pk[:47], None]
    + g1_on_curve_not_in_subgroup()[:1]
    + x_not_on_curve_g1()[:1]
    + [compressed_g1(xg, 0, 1, 1)]
    + [b"\x00" * 48, b"\xff" * 48, b""]
    + g1_on_curve_not_in_subgroup()[1:2]
    + [compressed_g1(q), compressed_g1(xg, 0, 0, 0)]
    + [bytearray(good_pk), "k" * 48, 7]
    + [bytes(rng.getrandbits(8) for _ in range(48)) for _ in range(4)]
)
bad_sigs = (
    [INF_SIG, b"\x00" * 96, good_sig + b"\x00", good_sig[:95], b"", None, bytearray(good_sig)]
    + g2_on_curve_not_in_subgroup()[:2]
    + g2_not_on_curve()[:1]
    + [bytes(rng.getrandbits(8) for _ in range(96)) for _ in range(3)]
)
three_sks = sks[1:4]
three_pks = [G.SkToPk(sk) for sk in three_sks]
for s in SUITES_3:
    cls = getattr(old_mod, s)
    agg = cls.Aggregate([cls.Sign(sk, m) for sk, m in zip(three_sks, msgs)])
    assert both((s, "AggregateVerify"), lambda: (three_pks, msgs, agg))[2] is True
    assert both((s, "AggregateVerify"), lambda: (tuple(three_pks), tuple(msgs), agg))[2] is True
    assert both((s, "AggregateVerify"), lambda: (three_pks[::-1], msgs, agg))[2] is False
    for i, bk in enumerate(bad_keys):
        # core malformed keys in every position; the rest in a rotating position
        # (for the other suites: the identity key everywhere, the core ones rotating)
        if i < N_CORE and (s == "G2Basic" or i == 0):
            positions = range(3)
        elif s == "G2Basic" or i < N_CORE:
            positions = [i % 3]
        else:
            positions = []
        for pos in positions:
            lst = list(three_pks)
            lst[pos] = bk
            r = both((s, "AggregateVerify"), lambda lst=lst: (list(lst), msgs, agg))
            if isinstance(bk, bytes):
                assert r == ("ok", "bool", False), (s, pos, bk, r)
    for bs in bad_sigs:
        r = both((s, "AggregateVerify"), lambda bs=bs: (three_pks, msgs, bs))
        if isinstance(bs, bytes):
            assert r == ("ok", "bool", False), (s, bs, r)
    # shapes
    both((s, "AggregateVerify"), lambda: ([], [], agg))
    both((s, "AggregateVerify"), lambda: ((), (), agg))
    both((s, "AggregateVerify"), lambda: (three_pks, msgs[:2], agg))
    both((s, "AggregateVerify"), lambda: (three_pks[:2], msgs, agg))
    both((s, "AggregateVerify"), lambda: (three_pks, [msgs[0]] * 3, agg))
    both((s, "AggregateVerify"), lambda: (three_pks, [b"a", None, b"c"], agg))
    both((s, "AggregateVerify"), lambda: (three_pks, [b"a", "b", b"c"], agg))
    both((s, "AggregateVerify"), lambda: (three_pks, [b"a", bytearray(b"b"), b"c"], agg))
    both((s, "AggregateVerify"), lambda: (iter(three_pks), msgs, agg))
    both((s, "AggregateVerify"), lambda: (three_pks, iter(msgs), agg))
    both((s, "AggregateVerify"), lambda: ((p for p in three_pks), msgs, INF_SIG[:5]))
    both((s, "AggregateVerify"), lambda: (iter([b"bad"]), msgs, agg))
    both((s, "AggregateVerify"), lambda: (None, msgs, agg))
    both((s, "AggregateVerify"), lambda: (three_pks, None, agg))
    both((s, "AggregateVerify"), lambda: (5, 5, agg))
    both((s, "AggregateVerify"), lambda: (good_pk, msgs, agg))  # bytes iterates as ints
    both((s, "AggregateVerify"), lambda: ({}, {}, agg))
    both((s, "AggregateVerify"), lambda: ({good_pk: 1}, {msg: 1}, sig_by_suite[s]))
    # Aggregate
    both((s, "Aggregate"), lambda: ([],))
    both((s, "Aggregate"), lambda: ([good_sig],))
    both((s, "Aggregate"), lambda: ([good_sig, INF_SIG],))
    both((s, "Aggregate"), lambda: ([good_sig, good_sig + b"\x00"],))
    both((s, "Aggregate"), lambda: ([b"\x00" * 96, good_sig[:5]],))
    both((s, "Aggregate"), lambda: ([b"\x00" * 96],))
    both((s, "Aggregate"), lambda: ([None],))
    both((s, "Aggregate"), lambda: ([bytearray(good_sig)],))
    both((s, "Aggregate"), lambda: (None,))
    both((s, "Aggregate"), lambda: (iter([good_sig]),))
    both((s, "Aggregate"), lambda: ([g2_on_curve_not_in_subgroup()[0], good_sig],))
    both((s, "Aggregate"), lambda: ([g2_not_on_curve()[0], good_sig],))
print("part", PART, "AggregateVerify done", N_CALLS, round(time.time() - T0, 1), "s")

if not RUN_FAV:
    finish()

s = "G2ProofOfPossession"
cls = old_mod.G2ProofOfPossession
fagg = cls.Aggregate([cls.Sign(sk, msg) for sk in three_sks])
assert both((s, "FastAggregateVerify"), lambda: (three_pks, msg, fagg))[2] is True
assert both((s, "FastAggregateVerify"), lambda: (tuple(three_pks), msg, fagg))[2] is True
assert both((s, "FastAggregateVerify"), lambda: (three_pks[:2], msg, fagg))[2] is False
for i, bk in enumerate(bad_keys):
    for pos in range(3) if i < N_CORE else [i % 3]:
        lst = list(three_pks)
        lst[pos] = bk
        r = both((s, "FastAggregateVerify"), lambda lst=lst: (list(lst), msg, fagg))
        if isinstance(bk, bytes):
            assert r == ("ok", "bool", False), (pos, bk, r)
for bs in bad_sigs:
    r = both((s, "FastAggregateVerify"), lambda bs=bs: (three_pks, msg, bs))
    if isinstance(bs, bytes):
        assert r == ("ok", "bool", False), (bs, r)
neg_pk = G1_to_pubkey(curve.neg(pubkey_to_G1(three_pks[0])))
for args in (
    lambda: ([], msg, fagg),
    lambda: ((), msg, fagg),
    lambda: (three_pks, None, fagg),
    lambda: (three_pks, "m", fagg),
    lambda: (iter(three_pks), msg, fagg),
    lambda: ((p for p in three_pks), msg, fagg),
    lambda: (iter([]), msg, fagg),
    lambda: (None, msg, fagg),
    lambda: (7, msg, fagg),
    lambda: (good_pk, msg, fagg),
    lambda: ([three_pks[0], neg_pk], msg, INF_SIG),  # keys summing to the identity
    lambda: ([three_pks[0], neg_pk], msg, fagg),
    lambda: ({three_pks[0]: 0}, msg, cls.Sign(three_sks[0], msg)),
):
    both((s, "FastAggregateVerify"), args)
for args in (
    lambda: ([],),
    lambda: (three_pks,),
    lambda: ([three_pks[0], neg_pk],),
    lambda: ([INF_PK],),
    lambda: ([b"\x00" * 48],),
    lambda: ([good_pk + b"\x00"],),
    lambda: ([b""],),
    lambda: ([None],),
    lambda: (None,),
    lambda: (iter(three_pks),),
):
    both((s, "_AggregatePKs"), args)
print("part", PART, "FastAggregateVerify done", N_CALLS, round(time.time() - T0, 1), "s")

# ---------------------------------------------------------------------------
# 4. a subclass overriding a gate is still honoured identically (dispatch via cls)
# ---------------------------------------------------------------------------
def make_sub(mod):
    class Strict(mod.G2Basic):
        @staticmethod
        def _is_valid_message(message):
            return isinstance(message, bytes) and len(message) < 4

    return Strict


So, Sn = make_sub(old_mod), make_sub(new_mod)
for m in (b"abc", b"abcd", None):
    sg = G.Sign(5, m) if isinstance(m, bytes) else good_sig
    a = outcome(So.Verify, good_pk, m, sg)
    b = outcome(Sn.Verify, good_pk, m, sg)
    assert a == b, (m, a, b)
    a = outcome(So.Sign, 5, m)
    b = outcome(Sn.Sign, 5, m)
    assert a == b, (m, a, b)
assert LOG["old"] == LOG["new"]

finish()
