import os, sys; sys.path.insert(0, os.getcwd())

# Equivalence demonstration for w1 (iterative optimized_bls12_381.multiply, lower
# import-time recursion limit).  Run from the worktree root:
#   cd /tmp/wt2/C04 && /venv/bin/python /tmp/twin6/C04/w1/equiv.py
import importlib.util
import random
import threading

HERE = os.path.dirname(os.path.abspath(__file__))

import py_ecc  # noqa: E402  (the edited tree)

assert os.path.abspath(py_ecc.__file__).startswith(os.getcwd()), py_ecc.__file__
assert sys.getrecursionlimit() >= 10000

from py_ecc.bls import (  # noqa: E402
    G2Basic,
    G2MessageAugmentation,
    G2ProofOfPossession,
    ciphersuites,
    g2_primitives,
)
from py_ecc.bls.point_compression import (  # noqa: E402
    modular_squareroot_in_FQ2,
)
from py_ecc.fields import (  # noqa: E402
    optimized_bls12_381_FQ as FQ,
    optimized_bls12_381_FQ2 as FQ2,
    optimized_bls12_381_FQ12 as FQ12,
)
from py_ecc.optimized_bls12_381 import (  # noqa: E402
    optimized_clear_cofactor,
    optimized_curve as new_curve,
    optimized_pairing,
)


def load(name, path):
    spec = importlib.util.spec_from_file_location(name, path)
    mod = importlib.util.module_from_spec(spec)
    sys.modules[name] = mod
    spec.loader.exec_module(mod)
    return mod


old_curve = load(
    "pristine_optimized_curve", os.path.join(HERE, "pristine", "optimized_curve.py")
)
assert "return multiply(double(pt), n // 2)" in open(old_curve.__file__).read()
assert "return multiply(double(pt)" not in open(new_curve.__file__).read()

P = new_curve.field_modulus
R = new_curve.curve_order
rnd = random.Random(20240604)
checked = 0


def canon(value):
    if isinstance(value, tuple):
        return tuple(canon(v) for v in value)
    if isinstance(value, (FQ2, FQ12)) or hasattr(value, "coeffs"):
        return (type(value).__name__, tuple(int(c) for c in value.coeffs))
    if isinstance(value, FQ):
        return (type(value).__name__, int(value.n))
    return (type(value).__name__, repr(value))


def outcome(fn, *args):
    try:
        return ("ok", canon(fn(*args)))
    except BaseException as exc:  # noqa: B902
        return ("exc", type(exc).__name__)


def same(pt, n):
    global checked
    a = outcome(old_curve.multiply, pt, n)
    b = outcome(new_curve.multiply, pt, n)
    assert a == b, (pt, n, a, b)
    checked += 1
    return a


# ---------------------------------------------------------------- test points
def g1_point_on_curve(start):
    x = start
    while True:
        rhs = (x**3 + 4) % P
        y = pow(rhs, (P + 1) // 4, P)
        if y * y % P == rhs:
            return (FQ(x), FQ(y), FQ(1))
        x += 1


def g2_point_on_curve(start):
    a = start
    while True:
        x = FQ2((a, 1))
        y = modular_squareroot_in_FQ2(x**3 + new_curve.b2)
        if y is not None:
            return (x, y, FQ2.one())
        a += 1


def rescale(pt, k):
    return tuple(c * k for c in pt)


H1 = 0x396C8C005555E1568C00AAAB0000AAAB
H2 = 0x5D543A95414E7F1091D50792876A202CD91DE4547085ABAA68A205B2E5A7DDFA628F1CB4D9E82EF21537E293A6691AE1616EC6E786F0C70CF1C38E31C7238E5  # noqa: E501

g1_mixed = g1_point_on_curve(5)  # on the curve, outside the prime-order subgroup
g2_mixed = g2_point_on_curve(3)
assert new_curve.is_on_curve(g1_mixed, new_curve.b)
assert new_curve.is_on_curve(g2_mixed, new_curve.b2)
assert not new_curve.is_inf(old_curve.multiply(g1_mixed, R))
assert not new_curve.is_inf(old_curve.multiply(g2_mixed, R))

# points of small order (order 3 in G1; order 13 in G2 if the cofactor has it)
assert H1 % 3 == 0
g1_order3 = old_curve.multiply(g1_mixed, R * (H1 // 3))
small = [g1_order3] if not new_curve.is_inf(g1_order3) else []
for q in (13, 23, 2713):
    if H2 % q == 0:
        cand = old_curve.multiply(g2_mixed, R * (H2 // q))
        if not new_curve.is_inf(cand):
            small.append(cand)
assert small, "no small-order test point found"

G1, G2, G12 = new_curve.G1, new_curve.G2, new_curve.G12
identities = [
    new_curve.Z1,
    new_curve.Z2,
    (FQ(0), FQ(0), FQ(0)),
    (FQ(0), FQ(1), FQ(0)),
    (FQ(7), FQ(9), FQ(0)),
    (FQ2.zero(), FQ2.zero(), FQ2.zero()),
    (FQ2((3, 4)), FQ2((5, 6)), FQ2.zero()),
]
off_curve = [
    (FQ(1), FQ(1), FQ(1)),
    (FQ(2), FQ(0), FQ(1)),  # y == 0: doubling gives a z == 0 representative
    (FQ(0), FQ(2), FQ(1)),
    (FQ(P - 1), FQ(P - 1), FQ(P - 1)),
    (FQ2((1, 2)), FQ2((0, 0)), FQ2.one()),
    (FQ2((1, 2)), FQ2((3, 4)), FQ2((5, 6))),
]
regular = [
    G1,
    G2,
    new_curve.neg(G1),
    new_curve.double(G2),
    rescale(G1, FQ(12345)),
    rescale(G2, FQ2((17, 29))),
    g1_mixed,
    g2_mixed,
    rescale(g1_mixed, FQ(P - 2)),
    old_curve.multiply(G1, R - 1),
]

small_scalars = list(range(0, 40)) + [63, 64, 65, 127, 128, 129, 255, 256, 257]
big_scalars = (
    [2**k + d for k in (63, 64, 254, 255, 381) for d in (-1, 0, 1)]
    + [R - 2, R - 1, R, R + 1, 2 * R + 1, P, H1, H2, R * H1]
    + [0x5555555555555555, 0xAAAAAAAAAAAAAAAA, (1 << 300) - 1, 1 << 700]
)

# 1. every kind of point against small scalars, a cross-section against boundary ones
for pt in identities + off_curve + small + regular:
    for n in small_scalars:
        same(pt, n)
for pt in (G1, G2, g1_mixed, rescale(G1, FQ(12345)), small[0]):
    for n in big_scalars:
        same(pt, n)
for pt in identities[:4] + off_curve[:3] + identities[5:6] + off_curve[4:5]:
    for n in big_scalars[::3]:
        same(pt, n)
for n in big_scalars[1::4]:
    same(g2_mixed, n)
    same(small[-1], n)
# small-order points: the result has to cycle exactly as before
for pt in small:
    for n in range(40, 60):
        same(pt, n)
    for n in range(0, 30):
        same(rescale(pt, pt[0].one() * 3), n)

# 2. random scalars of many sizes
for pt in (G1, G2, g1_mixed, small[0], new_curve.Z1, off_curve[0]):
    for bits in (1, 2, 3, 9, 31, 64, 65, 160, 255, 256, 300, 636, 1500):
        same(pt, rnd.getrandbits(bits))
for _ in range(40):
    same(G1, rnd.getrandbits(255))

# 3. FQ12 points (twisted generator, expensive: a few scalars only)
for n in (0, 1, 2, 3, 5, 6, 255, 256, R, rnd.getrandbits(255)):
    same(G12, n)
for n in (0, 1, 2, 3, 6, 7, R):
    same((FQ12.one(), FQ12.one(), FQ12.zero()), n)

# 4. scalars that are not plain ints, as the old expression tree treated them
for pt in (G1, G2, new_curve.Z2, small[0]):
    for n in (True, False, 2.0, 3.0, 7.0, 2.5, 0.5, 1.0, 0.0, 6.75, 1e3):
        same(pt, n)
    for n in (None, "3", float("nan"), float("inf"), 1j, [2]):
        assert same(pt, n)[0] == "exc"

# 5. malformed points: same exception class
for pt in ((FQ(1), FQ(2)), (1, 2, 3), None, (FQ(1), FQ(2), FQ(3), FQ(4)), ()):
    for n in (0, 1, 2, 3, 10):
        same(pt, n)

# 6. aliasing: n == 1 hands back the argument itself, n == 0 a fresh identity
for mod in (old_curve, new_curve):
    assert mod.multiply(G1, 1) is G1
    z = mod.multiply(G1, 0)
    assert z is not new_curve.Z1 and canon(z) == canon(new_curve.Z1)
    z2 = mod.multiply(G2, 0)
    assert canon(z2) == canon(new_curve.Z2)
    z12 = mod.multiply(G12, 0)
    assert canon(z12) == canon((FQ12.one(), FQ12.one(), FQ12.zero()))
    assert mod.multiply(new_curve.Z1, 5)[2] == FQ.zero()

# 7. arguments and module constants are not mutated
snapshot = canon((G1, G2, new_curve.Z1, new_curve.Z2, g1_mixed, small[0]))
same(G1, R), same(G2, 12345), same(new_curve.Z1, 7), same(small[0], 9)
assert snapshot == canon((G1, G2, new_curve.Z1, new_curve.Z2, g1_mixed, small[0]))

# 8. negative scalars (outside the property): the recursion never terminated and
# ended in RecursionError; the loop reports the same class.
for pt, scalars in (
    (G1, (-1, -2, -R, -0.5, -2.0)),
    (new_curve.Z1, (-1, -6)),
    (G2, (-3,)),
):
    for n in scalars:
        r = same(pt, n)
        assert r == ("exc", "RecursionError"), r
for n in (-1, -2):
    same((FQ(1), FQ(2)), n)  # malformed point wins, as before

# 9. the new multiply needs no stack: it works on a tiny recursion budget
def shallow():
    old = sys.getrecursionlimit()
    depth = 0
    f = sys._getframe()
    while f:
        depth += 1
        f = f.f_back
    sys.setrecursionlimit(depth + 12)
    try:
        shallow.result = canon(new_curve.multiply(G1, (1 << 3000) + 12345))
    finally:
        sys.setrecursionlimit(old)


t = threading.Thread(target=shallow)
t.start()
t.join()
sys.setrecursionlimit(max(10000, sys.getrecursionlimit()))
acc = None  # independent reference: left-to-right double-and-add, compared projectively
for bit in bin((1 << 3000) + 12345)[2:]:
    acc = new_curve.double(acc) if acc is not None else None
    if bit == "1":
        acc = new_curve.add(acc, G1) if acc is not None else G1
restored = tuple(FQ(c[1]) for c in shallow.result)
assert new_curve.eq(restored, acc)


# 10. end to end: the five verification entry points with the new multiply and with
# the pristine multiply patched into every module that imported it.
def use(mult):
    for mod in (
        ciphersuites,
        g2_primitives,
        optimized_clear_cofactor,
        optimized_pairing,
        new_curve,
    ):
        assert hasattr(mod, "multiply")
        mod.multiply = mult
    import py_ecc.optimized_bls12_381 as pkg

    pkg.multiply = mult


new_multiply = new_curve.multiply
suites = (G2Basic, G2MessageAugmentation, G2ProofOfPossession)
sk1, sk2 = 0x1234567, R - 5
msg1, msg2 = b"message one", b""


def compress_g1(pt, flags=0b100):
    x, y = new_curve.normalize(pt)
    a = (y.n * 2) // P
    return (x.n + (flags << 381) | (a << 381)).to_bytes(48, "big")


def compress_g2(pt):
    x, y = new_curve.normalize(pt)
    x_re, x_im = x.coeffs
    y_re, y_im = y.coeffs
    a = (y_im * 2) // P if y_im > 0 else (y_re * 2) // P
    z1 = x_im + (1 << 383) + (a << 381)
    return z1.to_bytes(48, "big") + int(x_re).to_bytes(48, "big")


pk1 = G2Basic.SkToPk(sk1)
pk2 = G2Basic.SkToPk(sk2)
bad_pk_subgroup = compress_g1(g1_mixed)
bad_pk_order3 = compress_g1(small[0]) if small[0][0].__class__ is FQ else bad_pk_subgroup
bad_sig_subgroup = compress_g2(g2_mixed)
inf_pk = b"\xc0" + b"\x00" * 47
inf_sig = b"\xc0" + b"\x00" * 95


def x_enc(x, flags=0b100):
    return ((flags << 381) | x).to_bytes(48, "big") if x < (1 << 381) else None


bad_pks = [
    b"",
    pk1[:-1],
    pk1[1:],
    pk1 + b"\x00",
    b"\x00" + pk1,
    pk1 + pk1,
    b"\x00" * 48,
    inf_pk,
    b"\xe0" + b"\x00" * 47,
    b"\x40" + b"\x00" * 47,
    bad_pk_subgroup,
    bad_pk_order3,
    bytes(rnd.getrandbits(8) for _ in range(48)),
    bytes(rnd.getrandbits(8) for _ in range(200)),
    bytearray(pk1),
    None,
    12,
]
for x in (0, 1, P - 1, P, P + 1, (1 << 381) - 1):
    for flags in (0b100, 0b101):
        enc = x_enc(x, flags)
        if enc is not None:
            bad_pks.append(enc)
n_plain_pks = len(bad_pks)
bad_pks += [bytes([(pk1[0] & 0x1F) | (f << 5)]) + pk1[1:] for f in range(8)]

sig_basic = G2Basic.Sign(sk1, msg1)
bad_sigs = [
    b"",
    sig_basic[:-1],
    sig_basic + b"\x00",
    b"\x00" + sig_basic,
    sig_basic[:48],
    b"\x00" * 96,
    inf_sig,
    bad_sig_subgroup,
    bytes(rnd.getrandbits(8) for _ in range(96)),
    bytes(rnd.getrandbits(8) for _ in range(150)),
    None,
]
n_plain_sigs = len(bad_sigs)
bad_sigs += [
    bytes([(sig_basic[0] & 0x1F) | (f << 5)]) + sig_basic[1:] for f in range(8)
]


def call(fn, *args):
    try:
        r = fn(*args)
        return ("ok", type(r).__name__, r)
    except BaseException as exc:  # noqa: B902
        return ("exc", type(exc).__name__)


def battery(suite_list, flags=True, pop=True):
    out = {}

    def rec(label, value):
        assert label not in out, label
        out[label] = value

    for S in suite_list:
        name = S.__name__
        sig1 = S.Sign(sk1, msg1)
        sig2 = S.Sign(sk2, msg2)
        agg = S.Aggregate([sig1, sig2])
        rec((name, "made"), (S.SkToPk(sk1), S.SkToPk(sk2), sig1, sig2, agg))
        rec((name, "V ok"), call(S.Verify, pk1, msg1, sig1))
        if S is not G2Basic:
            rec((name, "V wrong msg"), call(S.Verify, pk1, msg2, sig1))
        rec((name, "AV ok"), call(S.AggregateVerify, [pk1, pk2], [msg1, msg2], agg))
        if S is G2Basic:
            rec(
                (name, "AV wrong"),
                call(S.AggregateVerify, [pk1, pk2], [msg1, msg2], sig1),
            )
        rec((name, "AV empty"), call(S.AggregateVerify, [], [], agg))
        rec((name, "AV len"), call(S.AggregateVerify, [pk1], [msg1, msg2], agg))
        pks = bad_pks if (flags and S is G2ProofOfPossession) else bad_pks[:n_plain_pks]
        for i, bad in enumerate(pks):
            rec((name, "KV", i), call(S.KeyValidate, bad))
            rec((name, "V badpk", i), call(S.Verify, bad, msg1, sig1))
        for i, bad in enumerate((bad_pk_subgroup, inf_pk, pk1[:-1], b"\x00" * 48)):
            args = ([msg1, msg2], agg)
            rec((name, "AV badpk0", i), call(S.AggregateVerify, [bad, pk2], *args))
            rec((name, "AV badpk1", i), call(S.AggregateVerify, [pk1, bad], *args))
        sigs = bad_sigs if (flags and S is G2Basic) else bad_sigs[:n_plain_sigs]
        for i, bad in enumerate(sigs):
            rec((name, "V badsig", i), call(S.Verify, pk1, msg1, bad))
            rec(
                (name, "AV badsig", i),
                call(S.AggregateVerify, [pk1, pk2], [msg1, msg2], bad),
            )
    if not pop:
        return out
    S = G2ProofOfPossession
    proof = S.PopProve(sk1)
    sig_a, sig_b = S.Sign(sk1, msg1), S.Sign(sk2, msg1)
    agg = S.Aggregate([sig_a, sig_b])
    rec(("pop", "made"), (proof, agg))
    rec(("pop", "PV ok"), call(S.PopVerify, pk1, proof))
    rec(("pop", "PV other key"), call(S.PopVerify, pk2, proof))
    rec(("pop", "FAV ok"), call(S.FastAggregateVerify, [pk1, pk2], msg1, agg))
    rec(("pop", "FAV partial"), call(S.FastAggregateVerify, [pk1], msg1, agg))
    rec(("pop", "FAV empty"), call(S.FastAggregateVerify, [], msg1, agg))
    for i, bad in enumerate(bad_pks[:n_plain_pks]):
        rec(("pop", "PV badpk", i), call(S.PopVerify, bad, proof))
        rec(("pop", "FAV badpk1", i), call(S.FastAggregateVerify, [pk1, bad], msg1, agg))
        rec(("pop", "FAV badpk0", i), call(S.FastAggregateVerify, [bad, pk2], msg1, agg))
    for i, bad in enumerate(bad_sigs[:n_plain_sigs]):
        rec(("pop", "PV badsig", i), call(S.PopVerify, pk1, bad))
        rec(("pop", "FAV badsig", i), call(S.FastAggregateVerify, [pk1, pk2], msg1, bad))
    return out


res_new = battery(suites)
use(old_curve.multiply)
try:
    res_old = battery(suites)
finally:
    use(new_multiply)
# repeat a part after the interleaved pristine run (call history must not matter)
res_new_again = battery((G2MessageAugmentation,), flags=False, pop=False)
assert res_old.keys() == res_new.keys() and res_new_again.keys() <= res_new.keys()
for key in res_new:
    assert res_old[key] == res_new[key], (key, res_old[key], res_new[key])
for key in res_new_again:
    assert res_new_again[key] == res_new[key], (key, res_new_again[key], res_new[key])
res_new = [v for k, v in res_new.items() if k[1] != "made"]
# every verification outcome is a genuine bool, and the positive cases are positive
bools = [r for r in res_new if r[0] == "ok"]
assert all(r[1] == "bool" for r in bools)
assert sum(1 for r in bools if r[2] is True) >= 3 * 2 + 2, bools

print(
    "w1 equiv OK: %d multiply comparisons, %d end-to-end outcomes (%d exceptions)"
    % (checked, len(res_new), sum(1 for r in res_new if r[0] == "exc"))
)
