import importlib
from importlib.metadata import (
    version as __version,
)
import sys as _sys
from types import (
    ModuleType,
)
from typing import (
    List,
)

_sys.setrecursionlimit(max(100000, _sys.getrecursionlimit()))

__version__ = __version("py_ecc")

_lazy_imports = {
    "bls": "py_ecc.bls",
    "bls12_381": "py_ecc.bls12_381",
    "bn128": "py_ecc.bn128",
    "optimized_bls12_381": "py_ecc.optimized_bls12_381",
    "optimized_bn128": "py_ecc.optimized_bn128",
    "secp256k1": "py_ecc.secp256k1",
}

__all__ = list(_lazy_imports.keys())


def _import_module(name: str) -> ModuleType:
    module = importlib.import_module(_lazy_imports[name])
    globals()[name] = module
    return module


def __getattr__(name: str) -> ModuleType:
    if name in _lazy_imports:
        return _import_module(name)
    raise AttributeError(f"module 'py_ecc' has no attribute '{name}'")


def __dir__() -> List[str]:
    return list(_lazy_imports.keys()) + list(globals().keys())
