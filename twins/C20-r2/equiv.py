import os, sys; sys.path.insert(0, os.getcwd())  # noqa: E401,E702

"""
Equivalence demonstration for refactoring r2 (property C20).

The pristine py_ecc/optimized_bls12_381/optimized_pairing.py (saved next to this
script) is loaded as a sibling module inside the same package, so that both versions
share the field classes and the curve module and their results can be compared with
plain ``==`` as well as coefficient by coefficient.
"""

import importlib
import importlib.util
import random

HERE = os.path.dirname(os.path.abspath(__file__))
PRISTINE = os.path.join(HERE, "pristine", "optimized_pairing.py")

import py_ecc.optimized_bls12_381 as pkg  # noqa: E402

NEW = importlib.import_module("py_ecc.optimized_bls12_381.optimized_pairing")
assert os.path.abspath(NEW.__file__).startswith(os.getcwd()), NEW.__file__
with open(NEW.__file__) as fh_new, open(PRISTINE) as fh_old:
    assert fh_new.read() != fh_old.read(), "working tree is not refactored"

OLD_NAME = "py_ecc.optimized_bls12_381._pristine_optimized_pairing"
spec = importlib.util.spec_from_file_location(OLD_NAME, PRISTINE)
OLD = importlib.util.module_from_spec(spec)
sys.modules[OLD_NAME] = OLD
spec.loader.exec_module(OLD)

from py_ecc.fields import (  # noqa: E402
    optimized_bls12_381_FQ as FQ,
    optimized_bls12_381_FQ2 as FQ2,
    optimized_bls12_381_FQ12 as FQ12,
    optimized_bn128_FQ12 as BN_FQ12,
)
from py_ecc.optimized_bls12_381 import (  # noqa: E402
    G1, G2, Z1, Z2, G12, b, b2, b12, curve_order, field_modulus, multiply, neg,
)
import py_ecc.optimized_bls12_381.optimized_curve as curve_mod  # noqa: E402

w = curve_mod.w


def norm(v):
    if isinstance(v, (FQ12, FQ2, BN_FQ12)) or hasattr(v, "coeffs"):
        d = {k: x for k, x in v.__dict__.items() if k != "sgn0"}
        return (type(v).__name__, tuple(sorted((k, norm(x)) for k, x in d.items())))
    if hasattr(v, "n") and hasattr(v, "field_modulus"):
        return (type(v).__name__, v.n)
    if isinstance(v, (list, tuple)):
        return (type(v).__name__,) + tuple(norm(x) for x in v)
    if isinstance(v, (int, str, bytes, float)) or v is None:
        return (type(v).__name__, v)
    return ("OBJ", type(v).__name__)


def attempt(f):
    try:
        return ("OK", norm(f()))
    except BaseException as e:  # noqa: BLE001
        return ("EXC", type(e).__name__)


def constants_snapshot(mod):
    return norm([
        mod.exptable, [id(e) for e in mod.exptable], [id(e.coeffs) for e in mod.exptable],
        mod.pseudo_binary_encoding, mod.ate_loop_count, mod.log_ate_loop_count,
        G1, G2, Z1, Z2, G12, b, b2, b12, w, curve_mod.G1, curve_mod.G2,
        mod.one, mod.two, mod.three, mod.negone, mod.negtwo, mod.negthree,
        FQ12.FQ12_MODULUS_COEFFS, FQ2.FQ2_MODULUS_COEFFS, FQ12.degree, FQ2.degree,
    ])


def main():
    rnd = random.Random(381)
    p = field_modulus

    # 1. the precomputed Frobenius table itself
    assert type(OLD.exptable) is type(NEW.exptable) is list
    assert len(OLD.exptable) == len(NEW.exptable) == 12
    assert norm(OLD.exptable) == norm(NEW.exptable)
    assert all(x == y for x, y in zip(OLD.exptable, NEW.exptable))
    assert OLD.exptable is not NEW.exptable
    assert sorted(n for n in vars(OLD) if not n.startswith("_")) == sorted(
        n for n in vars(NEW) if not n.startswith("_")
    ), "public names of the module changed"

    snap_old, snap_new = constants_snapshot(OLD), constants_snapshot(NEW)

    def rand12():
        return FQ12([rnd.randrange(p) for _ in range(12)])

    edge = [0, 1, 2, p - 1, p, p + 1, -1, 2 ** 400]
    inputs = [
        FQ12.zero(), FQ12.one(), w, w * w, FQ12([p - 1] * 12), FQ12([0] * 11 + [1]),
        FQ12([rnd.choice(edge) for _ in range(12)]),
        FQ12([FQ(i + 5) for i in range(12)]),  # coefficients stored as FQ objects
        G12[0], G12[1], NEW.exptable[3], OLD.exptable[7],
    ] + [rand12() for _ in range(60)]
    odd = [
        FQ2([3, 4]), FQ2.zero(), BN_FQ12([7] * 12), BN_FQ12.one(),  # other fields
        None, 5, "abc", (1, 2), [1] * 12, FQ(3), object(), 1.5, G1, b"\x00" * 12,
    ]

    class Fake:  # duck-typed element with malformed coefficients
        def __init__(self, coeffs):
            self.coeffs = coeffs

    odd += [Fake(("a",) * 12), Fake((1.7,) * 12), Fake((None,)), Fake(()), Fake(5),
            Fake((2 ** 500,) * 20)]

    calls = []
    for i, x in enumerate(inputs + odd):
        calls.append((f"exp_by_p[{i}]", "exp_by_p", (x,)))
    for i, x in enumerate(inputs[:2] + inputs[6:8] + inputs[12:16] + odd):
        calls.append((f"final_exponentiate[{i}]", "final_exponentiate", (x,)))
    # Frobenius really is x -> x**p, and applying it 12 times is the identity
    for i, x in enumerate(inputs[12:15]):
        assert NEW.exp_by_p(x) == x ** p == OLD.exp_by_p(x)
        y = x
        for _ in range(12):
            y = NEW.exp_by_p(y)
        assert y == x

    P2, Q2 = multiply(G1, 7), multiply(G2, 11)
    pair_args = [
        (G2, G1, True), (G2, G1, False), (Q2, P2, False), (Q2, neg(P2), True),
        (Z2, G1, True), (G2, Z1, False), (G1, G2, True), (G2, (G1[0], G1[0], G1[2]), True),
        (None, G1, True), (G2, None, False),
    ]
    for i, a in enumerate(pair_args):
        calls.append((f"pairing[{i}]", "pairing", a))
    calls.append(("miller_loop[0]", "miller_loop", (Q2, P2, False)))
    calls.append(("miller_loop[none]", "miller_loop", (None, P2, True)))

    def run(mod, order):
        out, impure = {}, []
        for k in order:
            label, fname, args = calls[k]
            before = norm(list(args))
            fn = getattr(mod, fname)
            if fname == "pairing":
                out[label] = attempt(
                    lambda: fn(args[0], args[1], final_exponentiate=args[2]))
            else:
                out[label] = attempt(lambda: fn(*args))
            if norm(list(args)) != before:
                impure.append(label)
        return out, impure

    order = list(range(len(calls)))
    res_old, imp_old = run(OLD, order)
    assert constants_snapshot(OLD) == snap_old and constants_snapshot(NEW) == snap_new
    res_new, imp_new = run(NEW, order)
    assert constants_snapshot(OLD) == snap_old and constants_snapshot(NEW) == snap_new
    # another history: cheap calls only, shuffled, interleaved between both versions
    cheap = [k for k in order if calls[k][1] == "exp_by_p"]
    rnd.shuffle(cheap)
    res_new2, imp_new2 = run(NEW, cheap)
    res_old2, imp_old2 = run(OLD, list(reversed(cheap)))
    assert constants_snapshot(OLD) == snap_old and constants_snapshot(NEW) == snap_new

    diff = [k for k in res_old if res_old[k] != res_new[k]]
    diff += [k for k in res_new2 if res_new2[k] != res_old[k] or res_old2[k] != res_old[k]]
    n_exc = sum(1 for v in res_old.values() if v[0] == "EXC")
    kinds = sorted({v[1] for v in res_old.values() if v[0] == "EXC"})
    print(f"{len(res_old)} calls compared, {n_exc} raise {kinds}")
    print("differences:", diff, "impure:", imp_old, imp_new, imp_new2, imp_old2)
    assert not diff
    assert not (imp_old or imp_new or imp_new2 or imp_old2)

    # results never alias the table or the argument
    for x in inputs[:6]:
        r = NEW.exp_by_p(x)
        assert r is not x and all(r is not t for t in NEW.exptable)
        assert type(r) is FQ12 and type(r.coeffs) is tuple
    # bilinearity sanity on the refactored version (final_exponentiate path)
    e1 = NEW.final_exponentiate(NEW.pairing(Q2, P2, final_exponentiate=False))
    assert e1 == NEW.pairing(G2, G1) ** 77 == OLD.pairing(G2, G1) ** 77
    assert e1 ** curve_order == FQ12.one()
    assert constants_snapshot(OLD) == snap_old and constants_snapshot(NEW) == snap_new
    print("r2 equivalence: OK")


if __name__ == "__main__":
    main()
