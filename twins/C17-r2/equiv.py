import os, sys; sys.path.insert(0, os.getcwd())  # noqa: E401,E702

"""
Equivalence demonstration for refactoring r2 (property C17).

Loads the pristine py_ecc/bls/g2_primitives.py and
py_ecc/optimized_bls12_381/optimized_clear_cofactor.py (saved next to this script)
under other module names inside their packages and compares subgroup_check and
multiply_clear_cofactor_G1/G2 with the refactored modules of the current working
tree, on subgroup points, points with cofactor components, random curve points, every
representation of infinity, rescaled representatives and malformed inputs.
"""

import importlib.util
import random

HERE = os.path.dirname(os.path.abspath(__file__))


def load(name, path):
    spec = importlib.util.spec_from_file_location(name, path)
    mod = importlib.util.module_from_spec(spec)
    sys.modules[name] = mod
    spec.loader.exec_module(mod)
    return mod


import py_ecc.bls.g2_primitives as new_prim  # noqa: E402
import py_ecc.bls.hash_to_curve as h2c  # noqa: E402
import py_ecc.optimized_bls12_381 as pkg  # noqa: E402
import py_ecc.optimized_bls12_381.optimized_clear_cofactor as new_cc  # noqa: E402
import py_ecc.optimized_bls12_381.optimized_curve as old  # noqa: E402  (untouched by r2)

for m in (new_prim, new_cc):
    assert os.path.abspath(m.__file__).startswith(os.getcwd()), m.__file__
old_prim = load(
    "py_ecc.bls.g2_primitives_pristine",
    os.path.join(HERE, "pristine", "g2_primitives.py"),
)
old_cc = load(
    "py_ecc.optimized_bls12_381.optimized_clear_cofactor_pristine",
    os.path.join(HERE, "pristine", "optimized_clear_cofactor.py"),
)
assert old_prim.subgroup_check is not new_prim.subgroup_check
assert old_cc.multiply_clear_cofactor_G2 is not new_cc.multiply_clear_cofactor_G2
# the package and its users re-export the refactored functions
assert pkg.multiply_clear_cofactor_G1 is new_cc.multiply_clear_cofactor_G1
assert pkg.multiply_clear_cofactor_G2 is new_cc.multiply_clear_cofactor_G2
assert h2c.multiply_clear_cofactor_G2 is new_cc.multiply_clear_cofactor_G2

from py_ecc.bls.constants import G2_COFACTOR  # noqa: E402
from py_ecc.bls.point_compression import modular_squareroot_in_FQ2  # noqa: E402
from py_ecc.fields import (  # noqa: E402
    optimized_bls12_381_FQ as FQ,
    optimized_bls12_381_FQ2 as FQ2,
    optimized_bls12_381_FQ12 as FQ12,
)
from py_ecc.optimized_bls12_381.constants import H_EFF_G1, H_EFF_G2  # noqa: E402

rng = random.Random(0xC17)
q = old.field_modulus
r = old.curve_order
G1_COFACTOR = 0x396C8C005555E1568C00AAAB0000AAAB
assert (q + 1 - (-0xD201000000010000 + 1)) == G1_COFACTOR * r  # #E(Fp) = h1 * r


# ---------------------------------------------------------------- canonical forms
def canon(v):
    """Structural, class-sensitive rendering of a value (or of a raised exception)."""
    if isinstance(v, (FQ,)):
        return (type(v).__name__, v.n)
    if hasattr(v, "coeffs"):
        return (type(v).__name__, tuple(canon(c) for c in v.coeffs))
    if isinstance(v, tuple):
        return ("tuple",) + tuple(canon(c) for c in v)
    if isinstance(v, list):
        return ("list",) + tuple(canon(c) for c in v)
    if isinstance(v, bool) or v is None or isinstance(v, (int, float, str, bytes)):
        return (type(v).__name__, v)
    return ("obj", type(v).__name__, repr(v))


def run(f, *args):
    """-> (status, canonical value or exception class name, raw value)"""
    try:
        v = f(*args)
        return ("ok", canon(v), v)
    except RecursionError:
        return ("exc", "RecursionError", None)
    except Exception as e:  # noqa: BLE001
        return ("exc", type(e).__name__, None)


checked = 0


def same(fo, fn, *args, identity_of=None):
    """Both versions agree on value / exception class (and on returning an operand)."""
    global checked
    fname = fo.__name__
    a, b = run(fo, *args), run(fn, *args)
    assert a[:2] == b[:2], (fname, args, a[:2], b[:2])
    if identity_of is not None and a[0] == "ok":
        for cand in identity_of:
            assert (a[2] is cand) == (b[2] is cand), (fname, "identity", args)
    checked += 1
    return a[2], b[2]


# ---------------------------------------------------------------- point factories
def rand_g1_curve_point():
    while True:
        x = FQ(rng.randrange(q))
        y2 = x * x * x + old.b
        y = y2 ** ((q + 1) // 4)
        if y * y == y2:
            if rng.random() < 0.5:
                y = -y
            return (x, y, FQ(1))


def rand_g2_curve_point():
    while True:
        x = FQ2([rng.randrange(q), rng.randrange(q)])
        y = modular_squareroot_in_FQ2(x * x * x + old.b2)
        if y is not None:
            if rng.random() < 0.5:
                y = -y
            return (x, y, FQ2.one())


def rescale(pt, lam):
    return tuple(c * lam for c in pt)


def rand_scalar_like(pt):
    if isinstance(pt[0], FQ2):
        return FQ2([rng.randrange(1, q), rng.randrange(q)])
    return FQ(rng.randrange(1, q))


def torsion(pt, group_order_cofactor, ell):
    """Component of order dividing ell of a curve point (may be infinity)."""
    return old.multiply(pt, (group_order_cofactor // ell) * r)


points = []  # (label, point, b)

# subgroup points
for k in [1, 2, r - 1, rng.randrange(r)]:
    points.append((f"{k}G1", old.multiply(old.G1, k), old.b))
    points.append((f"{k}G2", old.multiply(old.G2, k), old.b2))

# random curve points (carry a cofactor component with overwhelming probability)
R1 = [rand_g1_curve_point() for _ in range(3)]
R2 = [rand_g2_curve_point() for _ in range(3)]
for i, p in enumerate(R1):
    points.append((f"R1_{i}", p, old.b))
for i, p in enumerate(R2):
    points.append((f"R2_{i}", p, old.b2))

# pure cofactor components, full and of small prime order, and kG + T
T1_full = old.multiply(R1[0], r)
T2_full = old.multiply(R2[0], r)
assert not old.is_inf(T1_full) and not old.is_inf(T2_full)
points.append(("T1_full", T1_full, old.b))
points.append(("T2_full", T2_full, old.b2))
small1, small2 = [], []
for ell in (3, 11, 10177):
    assert G1_COFACTOR % ell == 0
    for R in R1:
        T = torsion(R, G1_COFACTOR, ell)
        if not old.is_inf(T):
            assert old.is_inf(old.multiply(T, ell))
            small1.append((ell, T))
            break
for ell in (13, 23, 2713, 11953):
    assert G2_COFACTOR % ell == 0
    for R in R2:
        T = torsion(R, G2_COFACTOR, ell)
        if not old.is_inf(T):
            assert old.is_inf(old.multiply(T, ell))
            small2.append((ell, T))
            break
assert small1 and small2
for ell, T in small1:
    points.append((f"T1_{ell}", T, old.b))
    k = rng.randrange(1, r)
    points.append((f"kG1+T1_{ell}", old.add(old.multiply(old.G1, k), T), old.b))
for ell, T in small2:
    points.append((f"T2_{ell}", T, old.b2))
    k = rng.randrange(1, r)
    points.append((f"kG2+T2_{ell}", old.add(old.multiply(old.G2, k), T), old.b2))
points.append(("kG1+T1_full", old.add(old.multiply(old.G1, 77), T1_full), old.b))
points.append(("kG2+T2_full", old.add(old.multiply(old.G2, 77), T2_full), old.b2))

for label, p, b in points:
    assert old.is_on_curve(p, b), label

# representations of infinity
infs1 = [old.Z1, (FQ(0), FQ(0), FQ(0)), (FQ(5), FQ(7), FQ(0)), (FQ(0), FQ(1), FQ(0))]
infs2 = [
    old.Z2,
    (FQ2.zero(), FQ2.zero(), FQ2.zero()),
    (FQ2([5, 1]), FQ2([7, 2]), FQ2.zero()),
]
for i, z in enumerate(infs1):
    points.append((f"inf1_{i}", z, old.b))
for i, z in enumerate(infs2):
    points.append((f"inf2_{i}", z, old.b2))

# rescaled representatives of everything
scaled = []
for label, p, b in points:
    scaled.append((label + "*lam", rescale(p, rand_scalar_like(p)), b))
points += scaled

# ---------------------------------------------------------------- the comparisons
SC = (old_prim.subgroup_check, new_prim.subgroup_check)
CC1 = (old_cc.multiply_clear_cofactor_G1, new_cc.multiply_clear_cofactor_G1)
CC2 = (old_cc.multiply_clear_cofactor_G2, new_cc.multiply_clear_cofactor_G2)

n_accept = n_reject = 0
for label, p, b in points:
    is_g2 = isinstance(p[0], FQ2)
    so, sn = same(*SC, p)
    assert so is sn and isinstance(sn, bool), label
    # ground truth: exact order test with the untouched group law
    assert sn == old.is_inf(old.multiply(p, r)), label
    base = label.split("*")[0]
    if base.startswith("inf"):
        assert sn is True, label  # the identity, in every representation
    elif base.startswith("T") or "+T" in base:
        assert sn is False, label  # non-trivial cofactor component
    elif not base.startswith("R"):
        assert sn is True, label  # multiples of the generators
    n_accept += so
    n_reject += not so
    # cofactor clearing: identical point (same representative), lands in the subgroup,
    # and equals multiplication by the RFC 9380 effective cofactor
    co, cn = same(*(CC2 if is_g2 else CC1), p, identity_of=[p])
    assert canon(cn) == canon(old.multiply(p, H_EFF_G2 if is_g2 else H_EFF_G1)), label
    assert new_prim.subgroup_check(cn) is True and old_prim.subgroup_check(co) is True
    # the "wrong" clearing function is still a plain multiplication; must agree too
    same(*(CC1 if is_g2 else CC2), p, identity_of=[p])
assert n_accept and n_reject, (n_accept, n_reject)

# FQ12 points go through the same code
P12 = old.twist(old.G2)
for pair in (SC, CC1, CC2):
    same(*pair, P12)
    same(*pair, (FQ12.one(), FQ12.one(), FQ12.zero()))

# malformed points: same exception classes (or same values)
G1, G2 = old.G1, old.G2
bad_points = [
    None, (), (FQ(1),), (FQ(1), FQ(2)), (FQ(1), FQ(2), FQ(3), FQ(4)),
    (FQ(1), FQ(2), 1), (FQ(1), FQ(2), 0), (FQ(1), 2, FQ(1)),
    (FQ(1), FQ(2), FQ2.one()), (FQ2.one(), FQ2.one(), FQ(1)), (FQ(1), FQ(2), None),
    [G1[0], G1[1], G1[2]], [G2[0], G2[1], G2[2]], "abc", 7, 1.5,
    (G1[0], G1[1]), (G2[0], G2[1]), (FQ(1), FQ(2), FQ(0), FQ(9)),
    (None, None, None), (FQ(1), None, FQ(0)), (FQ(1), None, FQ(1)), {0: 1}, object,
    (FQ(3), FQ(5), FQ(1)),  # not on the curve
    (FQ2([3, 1]), FQ2([5, 0]), FQ2.one()),  # not on the twist
    (FQ(0), FQ(0), FQ(1)), (FQ(0), FQ(2), FQ(1)), (FQ2.zero(), FQ2.zero(), FQ2.one()),
]
for bp in bad_points:
    for pair in (SC, CC1, CC2):
        same(*pair, bp, identity_of=[bp])
# wrong arity / keyword use
for pair in (SC, CC1, CC2):
    a = [run(f)[:2] for f in pair]
    assert a[0] == a[1] == ("exc", "TypeError"), a
    a = [run(f, G1, G1)[:2] for f in pair]
    assert a[0] == a[1] == ("exc", "TypeError"), a
assert canon(old_prim.subgroup_check(P=G1)) == canon(new_prim.subgroup_check(P=G1))
for fo, fn in (CC1, CC2):
    assert canon(fo(p=G1)) == canon(fn(p=G1))

# purity: arguments are never mutated
P = (FQ(G1[0].n), FQ(G1[1].n), FQ(G1[2].n))
before = canon(P)
new_prim.subgroup_check(P)
new_cc.multiply_clear_cofactor_G1(P)
assert canon(P) == before

# signatures and public names unchanged (the new helper is private)
import inspect  # noqa: E402

for o, n in (SC, CC1, CC2):
    assert str(inspect.signature(o)) == str(inspect.signature(n)), o.__name__
pub = lambda m: sorted(x for x in dir(m) if not x.startswith("_"))  # noqa: E731
assert pub(old_prim) == pub(new_prim)
assert pub(old_cc) == pub(new_cc)

# the other g2_primitives helpers are untouched
from py_ecc.bls.g2_primitives import G1_to_pubkey, G2_to_signature  # noqa: E402

pk = G1_to_pubkey(old.multiply(G1, 12345))
sig = G2_to_signature(old.multiply(G2, 12345))
assert old_prim.G1_to_pubkey(old.multiply(G1, 12345)) == pk
assert canon(old_prim.pubkey_to_G1(pk)) == canon(new_prim.pubkey_to_G1(pk))
assert canon(old_prim.signature_to_G2(sig)) == canon(new_prim.signature_to_G2(sig))

print(f"r2 equivalence OK: {checked} call comparisons, "
      f"{n_accept} accepted / {n_reject} rejected by the subgroup test")
