import os, sys; sys.path.insert(0, os.getcwd())  # noqa: E401,E702

"""
Equivalence demonstration for property C11 (ZCash point (de)serialization).

Run as:  cd /tmp/wt2/C11 && /venv/bin/python <this dir>/equiv.py

Loads the pristine py_ecc/bls/point_compression.py (saved next to this script in
pristine/) under another module name inside the py_ecc.bls package, together with
a second instance of py_ecc/bls/g2_primitives.py bound to that pristine module,
and compares them with the versions of the working tree on a broad input set:
results must be equal in value AND type, exceptions must be of the same class.
"""

import importlib
import importlib.util
import random

HERE = os.path.dirname(os.path.abspath(__file__))
ROOT = os.getcwd()

import py_ecc.bls.point_compression as new_pc  # noqa: E402
import py_ecc.bls.g2_primitives as new_g2p  # noqa: E402
import py_ecc.bls.constants as consts  # noqa: E402
from py_ecc.fields import (  # noqa: E402
    optimized_bls12_381_FQ as FQ,
    optimized_bls12_381_FQ2 as FQ2,
)
from py_ecc.optimized_bls12_381 import (  # noqa: E402
    G1,
    G2,
    Z1,
    Z2,
    add,
    b,
    b2,
    field_modulus as q,
    is_on_curve,
    multiply,
)

assert os.path.realpath(new_pc.__file__).startswith(os.path.realpath(ROOT)), (
    "must be started with the worktree as current directory",
    new_pc.__file__,
)


def load_as(name, path):
    spec = importlib.util.spec_from_file_location(name, path)
    mod = importlib.util.module_from_spec(spec)
    sys.modules[name] = mod
    spec.loader.exec_module(mod)
    return mod


old_pc = load_as(
    "py_ecc.bls._pristine_point_compression",
    os.path.join(HERE, "pristine", "point_compression.py"),
)
# a second copy of the (unchanged) byte-level helpers, bound to the pristine module
_saved = sys.modules["py_ecc.bls.point_compression"]
sys.modules["py_ecc.bls.point_compression"] = old_pc
try:
    old_g2p = load_as(
        "py_ecc.bls._pristine_g2_primitives",
        os.path.join(ROOT, "py_ecc", "bls", "g2_primitives.py"),
    )
finally:
    sys.modules["py_ecc.bls.point_compression"] = _saved
assert old_g2p.decompress_G2 is old_pc.decompress_G2
assert old_g2p.compress_G1 is old_pc.compress_G1
assert new_g2p.decompress_G2 is new_pc.decompress_G2
assert new_g2p.compress_G1 is new_pc.compress_G1
assert old_pc is not new_pc

P381, P382, P383, P384 = 2**381, 2**382, 2**383, 2**384
rng = random.Random(0xC11)
N_CHECKS = 0


# ---------------------------------------------------------------- comparison
def canon(v):
    """A structural description that includes exact types."""
    if v is Z1:
        return ("Z1-object",)
    if v is Z2:
        return ("Z2-object",)
    if isinstance(v, FQ2):
        return (
            "FQ2",
            type(v).__name__,
            tuple(canon(c) for c in v.coeffs),
            tuple(v.modulus_coeffs),
            v.degree,
        )
    if isinstance(v, FQ):
        return ("FQ", type(v).__name__, type(v.n).__name__, v.n)
    if isinstance(v, tuple):
        return ("tuple",) + tuple(canon(c) for c in v)
    if isinstance(v, list):
        return ("list",) + tuple(canon(c) for c in v)
    return (type(v).__name__, v)


def outcome(f, *args):
    try:
        return ("ok", canon(f(*args)))
    except BaseException as e:  # noqa: B902
        if isinstance(e, (KeyboardInterrupt, SystemExit)):
            raise
        return ("raise", type(e).__name__)


def same(name, *args):
    global N_CHECKS
    before = canon(args)
    o = outcome(getattr(old_pc, name), *args)
    n = outcome(getattr(new_pc, name), *args)
    assert o == n, (name, args, o, n)
    assert canon(args) == before, ("argument mutated", name, args)
    N_CHECKS += 1
    return n


def same_bytes(name, *args):
    global N_CHECKS
    o = outcome(getattr(old_g2p, name), *args)
    n = outcome(getattr(new_g2p, name), *args)
    assert o == n, (name, args, o, n)
    N_CHECKS += 1
    return n


# -------------------------------------------------------------- test material
def cube_root(c, one, order, rand_elem):
    """Cube root in a finite field of multiplicative order `order`, or None."""
    if c == c - c:
        return c
    s, m = 0, order
    while m % 3 == 0:
        m //= 3
        s += 1
    if c ** (order // 3) != one:
        return None
    e = pow(3, -1, m)
    x0 = c**e
    while True:
        g = rand_elem() ** m
        if g ** (3 ** (s - 1)) != one:
            break
    u = one
    for _ in range(3**s):
        cand = x0 * u
        if cand * cand * cand == c:
            return cand
        u = u * g
    raise AssertionError("cube root search failed")


def g1_points():
    pts = [G1, multiply(G1, 2), multiply(G1, 5), multiply(G1, 2**200 + 12345)]
    pts.append(multiply(G1, rng.randrange(1, 2**255)))
    # non-subgroup points (random x with a square right-hand side)
    cnt = 0
    while cnt < 6:
        x = rng.randrange(q)
        rhs = (x**3 + 4) % q
        y = pow(rhs, (q + 1) // 4, q)
        if y * y % q == rhs:
            pts.append((FQ(x), FQ(y), FQ(1)))
            pts.append((FQ(x), FQ(q - y), FQ(1)))
            cnt += 1
    # on-curve points with y around (q-1)/2
    found = 0
    for y in list(range((q - 1) // 2 - 12, (q - 1) // 2 + 14)):
        c = FQ(y * y - 4)
        r = cube_root(c, FQ(1), q - 1, lambda: FQ(rng.randrange(2, q)))
        if r is not None:
            pt = (r, FQ(y), FQ(1))
            assert is_on_curve(pt, b)
            pts.append(pt)
            found += 1
    assert found >= 4, found
    return pts


def g1_other():
    """things compress_G1 accepts although they are not curve points"""
    out = []
    for y in [0, 1, (q - 1) // 2 - 1, (q - 1) // 2, (q + 1) // 2, (q + 3) // 2, q - 1]:
        for x in [0, 1, 5566, q - 1]:
            out.append((FQ(x), FQ(y), FQ(1)))
    return out


def g1_infinities():
    return [
        Z1,
        (FQ(1), FQ(1), FQ(0)),
        (FQ(0), FQ(0), FQ(0)),
        (FQ(0), FQ(1), FQ(0)),
        (FQ(5), FQ(7), FQ(0)),
        multiply(G1, 0),
        add(G1, (G1[0], -G1[1], G1[2])),
    ]


def rescale(pt, lam):
    return tuple(c * lam for c in pt)


def fq2_sqrt(v):
    return old_pc.modular_squareroot_in_FQ2(v)


def rand_fq2():
    return FQ2([rng.randrange(q), rng.randrange(q)])


def g2_points():
    pts = [G2, multiply(G2, 2), multiply(G2, 7), multiply(G2, 2**190 + 999)]
    pts.append(multiply(G2, rng.randrange(1, 2**255)))
    cnt = 0
    while cnt < 5:
        x = rand_fq2()
        y = fq2_sqrt(x * x * x + b2)
        if y is not None:
            pts.append((x, y, FQ2.one()))
            pts.append((x, -y, FQ2.one()))
            cnt += 1
    order = q * q - 1
    special = 0
    # y with zero imaginary part / zero real part / parts around (q-1)/2
    ys = []
    for t in [1, 2, 3, 5, 7, (q - 1) // 2, (q + 1) // 2, q - 1, q - 2, 11, 13]:
        ys.append(FQ2([t, 0]))
        ys.append(FQ2([0, t]))
    for d in range(-3, 5):
        ys.append(FQ2([rng.randrange(q), (q - 1) // 2 + d]))
        ys.append(FQ2([(q - 1) // 2 + d, 0]))
        ys.append(FQ2([(q - 1) // 2 + d, 1]))
    for y in ys:
        c = y * y - b2
        r = cube_root(c, FQ2.one(), order, rand_fq2)
        if r is not None:
            pt = (r, y, FQ2.one())
            assert is_on_curve(pt, b2)
            pts.append(pt)
            special += 1
    assert special >= 10, special
    assert any(p[1].coeffs[1] == 0 for p in pts)
    assert any(p[1].coeffs[0] == 0 for p in pts)
    return pts


def g2_infinities():
    return [
        Z2,
        (FQ2.one(), FQ2.one(), FQ2.zero()),
        (FQ2.zero(), FQ2.zero(), FQ2.zero()),
        (FQ2([3, 4]), FQ2([5, 6]), FQ2([0, 0])),
        multiply(G2, 0),
        add(G2, (G2[0], -G2[1], G2[2])),
    ]


def g2_off_curve():
    return [
        (FQ2([5566, 5566]), FQ2([5566, 5566]), FQ2.one()),
        (G2[0], G2[1], FQ2([2, 0])),
        (FQ2([0, 0]), FQ2([0, 0]), FQ2.one()),
        (FQ2([1, 0]), FQ2([0, 1]), FQ2([1, 1])),
    ]


# ------------------------------------------------------------------ the runs
def run_small_helpers():
    ints = [0, 1, 2, q - 1, q, q + 1, P381 - 1, P381, P381 + 1, P382, P383, P384 - 1]
    ints += [P384, P384 + P383, 2**400 + 5, 2**1000 + P382, -1, -P381, -P383 - 7]
    ints += [f * P381 + x for f in range(8) for x in (0, 1, q, P381 - 1)]
    ints += [rng.getrandbits(384) for _ in range(300)]
    ints += [-rng.getrandbits(390) for _ in range(50)]
    ints += [True, False]
    # every bit length around the flag positions, both signs (single-shift get_flags)
    for bits in range(376, 392):
        for _ in range(6):
            v = rng.getrandbits(bits) | (1 << (bits - 1))
            ints += [v, -v, v - 1, -(v - 1)]
    ints += [s * (f << 381) + d for s in (1, -1) for f in range(17) for d in (-1, 0, 1)]
    weird = [None, 1.5, 0.0, float(2**383), "12", b"\x00" * 48, [1], (1,), FQ(3), 3 + 0j]
    for z in ints + weird:
        same("get_flags", z)
        same("is_point_at_infinity", z)
        for z2 in [None, 0, 1, q, -1, 0.0, "0", FQ(0), False]:
            same("is_point_at_infinity", z, z2)
    return ints, weird


def run_sqrt():
    vals = [FQ2([0, 0]), FQ2([1, 0]), FQ2([0, 1]), FQ2([q - 1, 0]), FQ2([0, q - 1])]
    vals += list(consts.EIGHTH_ROOTS_OF_UNITY)
    vals += [FQ2([4, 4]), FQ2([2, 0]), FQ2([3, 0]), FQ2([0, 2]), FQ2([1, 1])]
    vals += [FQ2([FQ(9), FQ(0)]), FQ2([FQ(5), FQ(7)])]  # FQ-valued coefficients
    for _ in range(25):
        v = rand_fq2()
        vals.append(v)
        vals.append(v * v)
    for t in [2, 3, 5, 6, 7, (q - 1) // 2, q - 2]:
        vals.append(FQ2([t, 0]))
        vals.append(FQ2([t * t % q, 0]))
        vals.append(FQ2([(-t * t) % q, 0]))
        vals.append(FQ2([0, t]))
    seen_none = seen_some = 0
    for v in vals:
        r = same("modular_squareroot_in_FQ2", v)
        if r == ("ok", ("NoneType", None)):
            seen_none += 1
        elif r[0] == "ok":
            seen_some += 1
    assert seen_none >= 5 and seen_some >= 20, (seen_none, seen_some)
    # (a plain int is not tried: int ** 760-bit exponent exhausts memory in
    # the pristine code already)
    for bad in [None, FQ(4), "x", (1, 2), 1.0]:
        same("modular_squareroot_in_FQ2", bad)


def run_g1(ints, weird):
    words = []
    pts = g1_points()
    for pt in pts:
        reps = [pt, rescale(pt, 2), rescale(pt, rng.randrange(2, q)), rescale(pt, q - 1)]
        zs = set()
        for r in reps:
            res = same("compress_G1", r)
            assert res[0] == "ok"
            zs.add(res[1])
            rb = same_bytes("G1_to_pubkey", r)
            assert rb[0] == "ok" and len(rb[1][1]) == 48
        assert len(zs) == 1
        z = zs.pop()[1]
        words.append(z)
        back = same("decompress_G1", z)
        assert back[0] == "ok"
    for pt in g1_infinities():
        for r in [pt, rescale(pt, 3)]:
            res = same("compress_G1", r)
            assert res == ("ok", ("int", P383 + P382)), res
            same_bytes("G1_to_pubkey", r)
    for pt in g1_other():
        same("compress_G1", pt)
    for bad in [None, (), (FQ(1),), (1, 2, 3), (FQ(1), FQ(2)), "abc", G2, Z2]:
        same("compress_G1", bad)
        same_bytes("G1_to_pubkey", bad)

    on_x = [w % P381 for w in words[:4]]
    off_x = []
    x = 2
    while len(off_x) < 3:
        rhs = (x**3 + 4) % q
        if pow(rhs, (q - 1) // 2, q) != 1 and rhs != 0:
            off_x.append(x)
        x += 1
    xs = [0, 1, 2, q - 2, q - 1, q, q + 1, P381 - 1, (q - 1) // 2, (q + 1) // 2]
    xs += on_x + off_x + [rng.randrange(q) for _ in range(40)]
    n_ok = n_bad = 0
    for flags in range(8):
        for xv in xs:
            z = flags * P381 + xv
            r = same("decompress_G1", z)
            rb = same_bytes("pubkey_to_G1", z.to_bytes(48, "big"))
            assert r == rb, (z, r, rb)
            if r[0] == "ok":
                n_ok += 1
                # canonical: re-compression gives the input back, in both versions
                pt = new_pc.decompress_G1(z)
                assert same("compress_G1", pt) == ("ok", ("int", z))
            else:
                assert r == ("raise", "ValueError"), (z, r)
                n_bad += 1
    assert n_ok >= 40 and n_bad >= 200, (n_ok, n_bad)
    for z in ints + weird:
        same("decompress_G1", z)
    for bs in [b"", b"\x00", b"\xc0" + b"\x00" * 47, b"\xc0" + b"\x00" * 46,
               b"\xc0" + b"\x00" * 48, bytearray(b"\xc0" + b"\x00" * 47),
               b"\xff" * 48, b"\x80" + b"\x00" * 47, b"\xa0" + b"\x00" * 47, None, 5, "ab"]:
        same_bytes("pubkey_to_G1", bs)
    return words


def run_g2(ints, weird):
    pairs = []
    pts = g2_points()
    for pt in pts:
        reps = [pt, rescale(pt, 2), rescale(pt, rand_fq2()), rescale(pt, q - 1)]
        zs = set()
        for r in reps:
            res = same("compress_G2", r)
            assert res[0] == "ok", res
            zs.add(res[1])
            rb = same_bytes("G2_to_signature", r)
            assert rb[0] == "ok" and len(rb[1][1]) == 96
        assert len(zs) == 1
        c = zs.pop()
        z = (c[1][1], c[2][1])
        pairs.append(z)
        back = same("decompress_G2", z)
        assert back[0] == "ok", (z, back)
        # canonical round trip in both versions
        assert same("compress_G2", new_pc.decompress_G2(z)) == ("ok", c)
        # the other sign flag gives the negated point / is handled identically
        same("decompress_G2", (z[0] ^ P381, z[1]))
    for pt in g2_infinities():
        for r in [pt, rescale(pt, 3)]:
            res = same("compress_G2", r)
            assert res == ("ok", ("tuple", ("int", P383 + P382), ("int", 0))), res
            same_bytes("G2_to_signature", r)
    for pt in g2_off_curve():
        assert same("compress_G2", pt) == ("raise", "ValueError")
        same_bytes("G2_to_signature", pt)
    for bad in [None, (), (FQ2.one(),), (1, 2, 3), "abc", G1, Z1,
                (FQ2.one(), FQ2.one())]:
        same("compress_G2", bad)
        same_bytes("G2_to_signature", bad)

    # word grid: flags x first word x second word
    on = pairs[:3]
    off = []
    while len(off) < 2:
        xv = rand_fq2()
        if fq2_sqrt(xv * xv * xv + b2) is None:
            off.append((xv.coeffs[1], xv.coeffs[0]))
    firsts = [0, 1, q - 1, q, q + 1, P381 - 1]
    firsts += [z1 % P381 for z1, _ in on] + [z1 for z1, _ in off]
    n_ok = n_bad = 0
    for idx, x1 in enumerate(firsts):
        seconds = [0, 1, q - 1, q, q + 1, P381 - 1, P381, P382 + 1, P383, P383 + P381 + 1]
        seconds += [z2 for _, z2 in on] + [z2 for _, z2 in off]
        seconds += [on[0][1] + P381, on[0][1] + P383]
        for flags in range(8):
            for z2 in seconds:
                z = (flags * P381 + x1, z2)
                r = same("decompress_G2", z)
                if z2 < P384:
                    sig = z[0].to_bytes(48, "big") + z2.to_bytes(48, "big")
                    rb = same_bytes("signature_to_G2", sig)
                    assert r == rb, (z, r, rb)
                if r[0] == "ok":
                    n_ok += 1
                    pt = new_pc.decompress_G2(z)
                    assert same("compress_G2", pt) == (
                        "ok", ("tuple", ("int", z[0]), ("int", z[1]))), z
                else:
                    assert r == ("raise", "ValueError"), (z, r)
                    n_bad += 1
    assert n_ok >= 8 and n_bad >= 500, (n_ok, n_bad)
    for _ in range(40):
        z = (4 * P381 + rng.randrange(q) + rng.randrange(2) * P381, rng.randrange(q))
        same("decompress_G2", z)
    # malformed arguments
    for z in ints[:25] + weird:
        same("decompress_G2", (z, 0))
        same("decompress_G2", (P383 + 5, z))
        same("decompress_G2", (P383 + P382, z))
        same("decompress_G2", z)
    for p in [(), (1,), (1, 2, 3), (P383 + P382, None), (P383 + 1, None),
              (P383 + P382 + P381, None), [P383 + P382, 0], (P383 + q, 0),
              (P383 + 1, -1), (P383 + 1, -q), (-1, 0), (P383 + P382, 0.0),
              (P383 + 1, FQ(2)), (P383 + 1, True)]:
        same("decompress_G2", p)
    for bs in [b"", b"\x00" * 96, b"\xc0" + b"\x00" * 95, b"\xc0" + b"\x00" * 94,
               b"\xc0" + b"\x00" * 96, b"\xc0" + b"\x00" * 47, b"\xff" * 96,
               bytearray(b"\xc0" + b"\x00" * 95), b"\xe0" + b"\x00" * 95,
               b"\xc0" + b"\x00" * 47 + b"\x80" + b"\x00" * 47,
               b"\xc0" + b"\x00" * 94 + b"\x01", None, 5, "ab"]:
        same_bytes("signature_to_G2", bs)
    return pairs


def run_histories(words, pairs):
    """repeat and interleave calls; every answer must stay what it was"""
    seq = []
    for w in words[:6]:
        seq.append(("decompress_G1", w))
        seq.append(("decompress_G1", w ^ P381))
        seq.append(("decompress_G1", w ^ P382))
    for z in pairs[:5]:
        seq.append(("decompress_G2", z))
        seq.append(("decompress_G2", (z[0] ^ P381, z[1])))
        seq.append(("decompress_G2", (z[0], z[1] + P383)))
    seq += [("decompress_G1", P383 + P382), ("decompress_G2", (P383 + P382, 0)),
            ("compress_G1", Z1), ("compress_G2", Z2), ("compress_G1", G1),
            ("compress_G2", G2), ("modular_squareroot_in_FQ2", FQ2([4, 4])),
            ("modular_squareroot_in_FQ2", FQ2([0, 1]))]
    first = {}
    for rnd in range(3):
        order = list(range(len(seq)))
        rng.shuffle(order)
        for i in order:
            name, arg = seq[i]
            r = same(name, arg)
            assert first.setdefault(i, r) == r, (name, arg)


def constants_snapshot():
    return canon(
        (
            tuple(consts.EIGHTH_ROOTS_OF_UNITY), consts.FQ2_ORDER, consts.POW_2_381,
            consts.POW_2_382, consts.POW_2_383, consts.POW_2_384,
            tuple(Z1[i] for i in range(3)), tuple(Z2[i] for i in range(3)),
            b, b2, G1, G2, q,
        )
    )


def main():
    snap = constants_snapshot()
    roots = consts.EIGHTH_ROOTS_OF_UNITY
    assert type(roots) is tuple and len({r.coeffs for r in roots}) == 8
    ints, weird = run_small_helpers()
    run_sqrt()
    words = run_g1(ints, weird)
    pairs = run_g2(ints, weird)
    run_histories(words, pairs)
    assert constants_snapshot() == snap, "a module-level constant changed"
    assert consts.EIGHTH_ROOTS_OF_UNITY is roots
    print(f"equiv OK: {N_CHECKS} comparisons, pristine and edited versions agree")


if __name__ == "__main__":
    main()
