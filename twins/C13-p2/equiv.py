import os, sys; sys.path.insert(0, os.getcwd())  # noqa: E702

# Equivalence demonstration for C13/p2: linefunc of the two optimized pairing modules
# restructured so that the chord branch and the tangent branch share one evaluation
# (single return), with the vertical-line branch nested under ``m_denominator == zero``.
# The pristine modules are loaded from the copies saved next to this script, under
# another module name inside the same package (so their relative imports resolve to the
# very same optimized_curve module the edited pairing module uses).
import importlib
import importlib.util
import random

HERE = os.path.dirname(os.path.abspath(__file__))
rng = random.Random(0xC13_2)
checked = 0


def load_pristine(pkg, fname):
    name = pkg + "._pristine_optimized_pairing"
    spec = importlib.util.spec_from_file_location(
        name, os.path.join(HERE, "pristine", fname)
    )
    mod = importlib.util.module_from_spec(spec)
    sys.modules[name] = mod
    spec.loader.exec_module(mod)
    return mod


def canon(v):
    # structural, type-aware canonical form of a result
    if isinstance(v, tuple):
        return ("tuple",) + tuple(canon(c) for c in v)
    if hasattr(v, "coeffs"):
        return (type(v).__name__, tuple(int(c) for c in v.coeffs))
    if hasattr(v, "n"):
        return (type(v).__name__, v.n)
    return (type(v).__name__, repr(v))


def run(f, *args, **kw):
    try:
        return ("ok", canon(f(*args, **kw)))
    except Exception as e:  # noqa: BLE001
        return ("exc", type(e))


def same(old, new, name, *args, **kw):
    global checked
    a = run(getattr(old, name), *args, **kw)
    b = run(getattr(new, name), *args, **kw)
    if a != b:
        print("MISMATCH", old.__name__, name, args, a, b)
        sys.exit(1)
    checked += 1
    return a


def check_curve(pkg, affine_pkg, fname):
    new = importlib.import_module(pkg + ".optimized_pairing")
    assert os.path.abspath(new.__file__).startswith(os.getcwd()), new.__file__
    old = load_pristine(pkg, fname)
    assert old.linefunc is not new.linefunc
    cur = importlib.import_module(pkg + ".optimized_curve")
    FQ, FQ2, FQ12 = cur.FQ, cur.FQ2, cur.FQ12
    p = cur.field_modulus

    def rnd(F):
        r = rng.random()
        if F is FQ:
            return FQ(rng.choice([0, 1, 2, p - 1]) if r < 0.25 else rng.randrange(p))
        d = F.degree
        if r < 0.15:
            return F.zero()
        if r < 0.3:
            return F.one()
        return F([rng.randrange(p) for _ in range(d)])

    def nonzero(F):
        while True:
            v = rnd(F)
            if v != F.zero():
                return v

    def scale(pt, lam):
        return (pt[0] * lam, pt[1] * lam, pt[2] * lam)

    G12 = cur.twist(cur.G2)
    groups = {
        FQ: [cur.multiply(cur.G1, k) for k in (1, 2, 3, 5, 11, cur.curve_order - 1,
                                                cur.curve_order - 2)],
        FQ2: [cur.multiply(cur.G2, k) for k in (1, 2, 3, 7, cur.curve_order - 1)],
        FQ12: [cur.multiply(G12, k) for k in (1, 2, 3)] + [cur.neg(G12)]
        + [new.cast_point_to_fq12(cur.multiply(cur.G1, k)) for k in (1, 2, 9)],
    }
    for F, pts in groups.items():
        reps = 6 if F is not FQ12 else 2
        infs = [(F.one(), F.one(), F.zero()), (F.zero(), F.zero(), F.zero()),
                (rnd(F), nonzero(F), F.zero())]
        # y == 0 representatives (tangent branch with vanishing denominator) and
        # arbitrary off-curve triples: the functions are formal identities in the coords
        odd = [(nonzero(F), F.zero(), nonzero(F)), (F.zero(), F.zero(), F.one())]
        odd += [(rnd(F), rnd(F), rnd(F)) for _ in range(6 if F is not FQ12 else 2)]
        everything = pts + infs + odd
        for a in everything:
            for b in everything:
                for _ in range(reps if (a in pts and b in pts) else 1):
                    la, lb, lt = nonzero(F), nonzero(F), nonzero(F)
                    t = rng.choice(everything)
                    # generic / vertical / whatever the pair happens to be
                    same(old, new, "linefunc", scale(a, la), scale(b, lb), scale(t, lt))
            for _ in range(reps):
                la, lb, lt = nonzero(F), nonzero(F), nonzero(F)
                t = rng.choice(everything)
                # equal points, different representatives -> tangent branch
                same(old, new, "linefunc", scale(a, la), scale(a, lb), scale(t, lt))
                same(old, new, "linefunc", a, a, t)
                # inverse points -> vertical branch
                same(old, new, "linefunc", scale(a, la), scale(cur.neg(a), lb), scale(t, lt))
                same(old, new, "linefunc", scale(cur.neg(a), la), a, t)

    # representative independence + agreement with the affine line function
    aff = importlib.import_module(affine_pkg)
    apair = importlib.import_module(affine_pkg + "." + affine_pkg.split(".")[-1] + "_pairing")
    ks = [1, 2, 3, 5, 11]
    for k1 in ks:
        for k2 in ks + [cur.curve_order - k1]:
            for kt in (4, 7):
                A1, A2, AT = (aff.multiply(aff.G1, k) for k in (k1, k2, kt))
                want = apair.linefunc(A1, A2, AT).n
                for m in (old, new):
                    n_, d_ = m.linefunc(
                        scale(cur.multiply(cur.G1, k1), nonzero(FQ)),
                        scale(cur.multiply(cur.G1, k2), nonzero(FQ)),
                        scale(cur.multiply(cur.G1, kt), nonzero(FQ)),
                    )
                    assert (n_ / d_).n == want, (pkg, k1, k2, kt)

    # malformed inputs: identical exception classes
    g1, g2 = cur.G1, cur.G2
    bad = [None, (), (FQ(1),), (FQ(1), FQ(2)), (FQ(1), FQ(2), FQ(3), FQ(4)),
           (1, 2, 3), (FQ(1), None, FQ(1)), (None, FQ(2), FQ(1)), (FQ(1), FQ(2), None),
           (FQ(1), FQ(2), "z"), g2, (g1[0], g2[1], g1[2]), (g2[0], g1[1], g2[2]),
           (g1[0], g1[1], 1), (g1[0], g1[1], 0), [g1[0], g1[1], g1[2]], "abc", 5]
    good = [g1, cur.double(g1), cur.neg(g1), cur.Z1]
    for x in bad:
        for y in good + bad[:8]:
            for z in good[:2] + [x]:
                same(old, new, "linefunc", x, y, z)
                same(old, new, "linefunc", y, x, z)
                same(old, new, "linefunc", y, z, x)
    # T given as a one-shot iterable (it is only ever unpacked)
    for a, b in [(g1, cur.double(g1)), (g1, g1), (g1, cur.neg(g1))]:
        r_old = run(old.linefunc, a, b, iter(cur.multiply(g1, 5)))
        r_new = run(new.linefunc, a, b, iter(cur.multiply(g1, 5)))
        assert r_old == r_new and r_old[0] == "ok"

    # callers, repeated and interleaved (no state is kept; results are history-free)
    Q, Pt = cur.multiply(cur.G2, 3), cur.multiply(cur.G1, 5)
    calls = [
        ("miller_loop", (cur.twist(Q), new.cast_point_to_fq12(Pt)), {"final_exponentiate": False}),
        ("miller_loop", (cur.twist(cur.G2), new.cast_point_to_fq12(cur.G1)), {"final_exponentiate": False}),
        ("miller_loop", (None, new.cast_point_to_fq12(Pt)), {}),
        ("pairing", (scale(Q, nonzero(FQ2)), scale(Pt, nonzero(FQ))), {"final_exponentiate": False}),
        ("pairing", (cur.Z2, Pt), {}),
        ("pairing", (Q, cur.Z1), {}),
        ("pairing", (Q, (FQ(1), FQ(1), FQ(1))), {}),
        ("linefunc", (g1, cur.double(g1), cur.multiply(g1, 3)), {}),
        ("linefunc", (g1, g1, cur.multiply(g1, 3)), {}),
        ("linefunc", (g1, cur.neg(g1), cur.multiply(g1, 3)), {}),
    ]
    first = {}
    for i in list(range(len(calls))) + list(range(len(calls)))[::-1]:
        name, args, kw = calls[i]
        r = same(old, new, name, *args, **kw)
        assert first.setdefault(i, r) == r, "result depends on call history"
    # one full pairing (with final exponentiation)
    same(old, new, "pairing", cur.G2, cur.G1)


check_curve("py_ecc.optimized_bn128", "py_ecc.bn128", "bn128_optimized_pairing.py")
check_curve(
    "py_ecc.optimized_bls12_381", "py_ecc.bls12_381", "bls12_381_optimized_pairing.py"
)
print("OK: %d comparisons identical" % checked)
