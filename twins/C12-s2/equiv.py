import os, sys; sys.path.insert(0, os.getcwd())  # noqa: E401,E702

# Equivalence demonstration for C12/s2:
# how the Miller-loop constants and tables of the two optimized pairing modules are
# written (ate_loop_count as 6u+2 / as a grouped hex literal, the digit lists and the
# Frobenius table as tuples, the slice bound 63/62 spelled log_ate_loop_count).
#
# The pristine optimized_pairing.py files are loaded from ./pristine under other
# module names inside the same packages (so that their relative imports resolve to
# the very same optimized_curve modules) and compared against the edited ones.
import importlib.util
import random
import time

T0 = time.time()
HERE = os.path.dirname(os.path.abspath(__file__))

import py_ecc  # noqa: E402

assert os.path.abspath(py_ecc.__file__).startswith(os.getcwd()), py_ecc.__file__

from py_ecc import (  # noqa: E402
    bls12_381 as ref_bls,
    bn128 as ref_bn,
    optimized_bls12_381 as obls,
    optimized_bn128 as obn,
)
from py_ecc.bls import G2ProofOfPossession as bls_pop  # noqa: E402
import py_ecc.optimized_bls12_381.optimized_pairing as new_bls  # noqa: E402
import py_ecc.optimized_bn128.optimized_pairing as new_bn  # noqa: E402


def load(name, path):
    spec = importlib.util.spec_from_file_location(name, path)
    mod = importlib.util.module_from_spec(spec)
    sys.modules[name] = mod
    spec.loader.exec_module(mod)
    return mod


old_bls = load(
    "py_ecc.optimized_bls12_381._pristine_optimized_pairing",
    os.path.join(HERE, "pristine", "bls_optimized_pairing.py"),
)
old_bn = load(
    "py_ecc.optimized_bn128._pristine_optimized_pairing",
    os.path.join(HERE, "pristine", "bn_optimized_pairing.py"),
)
for m in (old_bls, old_bn):
    assert "pseudo_binary_encoding = [" in open(m.__file__).read()
for m in (new_bls, new_bn):
    assert "pseudo_binary_encoding = (" in open(m.__file__).read()

CHECKS = 0


def outcome(f, *a, **k):
    try:
        return ("ok", f(*a, **k))
    except BaseException as e:  # noqa: B902
        return ("exc", type(e))


def same(f_old, f_new, *a, **k):
    global CHECKS
    r_old = outcome(f_old, *a, **k)
    r_new = outcome(f_new, *a, **k)
    assert r_old[0] == r_new[0], (f_old, a, k, r_old, r_new)
    if r_old[0] == "exc":
        assert r_old[1] is r_new[1], (f_old, a, k, r_old, r_new)
    else:
        assert type(r_old[1]) is type(r_new[1]), (f_old, a, k, r_old, r_new)
        assert r_old[1] == r_new[1], (f_old, a, k, r_old, r_new)
        if hasattr(r_old[1], "coeffs"):
            assert tuple(r_old[1].coeffs) == tuple(r_new[1].coeffs)
            assert all(type(c) is int for c in r_new[1].coeffs)
    CHECKS += 1
    return r_new


# ---------------------------------------------------------------- the constants
for old, new in ((old_bn, new_bn), (old_bls, new_bls)):
    for n in ("ate_loop_count", "log_ate_loop_count", "field_modulus", "curve_order"):
        a, b = getattr(old, n), getattr(new, n)
        assert type(a) is type(b) is int and a == b, n
    # same digits, same element types, same order; only list -> tuple
    assert type(old.pseudo_binary_encoding) is list
    assert type(new.pseudo_binary_encoding) is tuple
    assert list(new.pseudo_binary_encoding) == old.pseudo_binary_encoding
    assert all(type(e) is int for e in new.pseudo_binary_encoding)
    assert len(new.pseudo_binary_encoding) == new.log_ate_loop_count + 2
    # nothing in the pristine module is missing from the edited one
    assert {n for n in vars(old) if not n.startswith("__")} <= set(vars(new))
# the digit sequences the two Miller loops actually walk through
assert list(new_bn.pseudo_binary_encoding[new_bn.log_ate_loop_count::-1]) == \
    old_bn.pseudo_binary_encoding[63::-1]
assert list(new_bls.pseudo_binary_encoding[new_bls.log_ate_loop_count::-1]) == \
    old_bls.pseudo_binary_encoding[62::-1]
assert len(old_bn.pseudo_binary_encoding[63::-1]) == 64
assert len(old_bls.pseudo_binary_encoding[62::-1]) == 63
# reference modules publish the same loop counts
assert ref_bn.bn128_pairing.ate_loop_count == new_bn.ate_loop_count
assert ref_bls.bls12_381_pairing.ate_loop_count == new_bls.ate_loop_count
assert ref_bn.bn128_pairing.log_ate_loop_count == new_bn.log_ate_loop_count
assert ref_bls.bls12_381_pairing.log_ate_loop_count == new_bls.log_ate_loop_count
u = new_bn.bn_u
assert type(u) is int and 6 * u + 2 == old_bn.ate_loop_count
assert 36 * u**4 + 36 * u**3 + 24 * u**2 + 6 * u + 1 == obn.field_modulus
assert 36 * u**4 + 36 * u**3 + 18 * u**2 + 6 * u + 1 == obn.curve_order
# Frobenius table: list -> tuple of the same 12 FQ12 values
assert type(old_bls.exptable) is list and type(new_bls.exptable) is tuple
assert len(new_bls.exptable) == 12
for a, b in zip(old_bls.exptable, new_bls.exptable):
    assert type(a) is type(b) is obls.FQ12 and a == b and a.coeffs == b.coeffs
TABLE_SNAPSHOT = [tuple(e.coeffs) for e in new_bls.exptable]
ENC_SNAPSHOT = (tuple(new_bn.pseudo_binary_encoding),
                tuple(new_bls.pseudo_binary_encoding))
CHECKS += 30

rnd = random.Random(0xC1252)


def run_curve(label, opt, old, new, ref, n_elements, plain_checks):
    """Compare pristine and edited optimized_pairing of one curve."""
    global CHECKS
    FQ, FQ2, FQ12 = opt.FQ, opt.FQ2, opt.FQ12
    G1, G2, Z1, Z2 = opt.G1, opt.G2, opt.Z1, opt.Z2
    p, r = opt.field_modulus, opt.curve_order
    multiply, neg, normalize = opt.multiply, opt.neg, opt.normalize

    def rescale(pt, k):
        return tuple(c * k for c in pt)

    a1, a2 = rnd.randrange(2, r), rnd.randrange(2, r)
    P5, Q7 = multiply(G1, 5), multiply(G2, 7)
    Pa, Qa = multiply(G1, a1), multiply(G2, a2)
    points = [
        (G2, G1),
        (Q7, P5),
        (rescale(Q7, FQ2([3, 9])), rescale(P5, 11)),  # other projective reps
        (Qa, Pa),
        (multiply(G2, r - 1), G1),
        (Z2, G1),
        (G2, Z1),
        (Z2, Z1),
        ((FQ2.zero(), FQ2.zero(), FQ2.zero()), G1),  # (0, 0, 0)
        (G2, (FQ(0), FQ(0), FQ(0))),
    ]
    bad_points = [
        ((G2[0], G2[1] + FQ2.one(), G2[2]), G1),  # Q off curve
        (G2, (G1[0], G1[1] + 1, G1[2])),  # P off curve
        (G1, G2),  # swapped
        (None, G1),
        (G2, None),
        (G2, (G1[0], G1[1])),  # wrong arity
        (5, G1),
    ]
    millers = []
    for i, (Q, P) in enumerate(points):
        r_f = same(old.pairing, new.pairing, Q, P, final_exponentiate=False)
        if r_f[0] == "ok":
            millers.append(r_f[1])
        if i < 4 or i >= 5:
            r_t = same(old.pairing, new.pairing, Q, P)
            # flag form consistent with the exported final_exponentiate
            if i < 3:
                assert new.final_exponentiate(r_f[1]) == r_t[1]
    for Q, P in bad_points:
        same(old.pairing, new.pairing, Q, P)
        same(old.pairing, new.pairing, Q, P, final_exponentiate=False)
    # miller_loop called directly (bn128 takes twisted / cast FQ12 points)
    if label == "bn128":
        tq, cp = opt.twist(Q7), new.cast_point_to_fq12(P5)
        same(old.miller_loop, new.miller_loop, tq, cp, final_exponentiate=False)
        same(old.miller_loop, new.miller_loop, tq, cp)
        same(old.miller_loop, new.miller_loop, None, cp)
        same(old.miller_loop, new.miller_loop, tq, None, final_exponentiate=False)
        same(old.miller_loop, new.miller_loop, Q7, P5, final_exponentiate=False)
    else:
        same(old.miller_loop, new.miller_loop, Q7, P5, final_exponentiate=False)
        same(old.miller_loop, new.miller_loop, Q7, P5, True)
        same(old.miller_loop, new.miller_loop, None, P5)
        same(old.miller_loop, new.miller_loop, Q7, None, final_exponentiate=False)
        same(old.miller_loop, new.miller_loop, Z2, G1, final_exponentiate=False)
        same(old.miller_loop, new.miller_loop, P5, Q7, final_exponentiate=False)

    # the property itself on the edited code: optimized == reference pairing
    for Q, P in points[1:3]:
        q, p_ = normalize(Q), normalize(P)
        rq = (ref.FQ2(q[0].coeffs), ref.FQ2(q[1].coeffs))
        rp = (ref.FQ(p_[0].n), ref.FQ(p_[1].n))
        want = ref.pairing(rq, rp)
        got = new.pairing(Q, P)
        assert tuple(int(c) for c in want.coeffs) == tuple(got.coeffs)
        CHECKS += 1

    # final exponentiation (and the Frobenius shortcut where it exists)
    def sparse(i, v):
        return FQ12([0] * i + [v] + [0] * (11 - i))

    elements = [FQ12.zero(), FQ12.one(), sparse(0, p - 1), sparse(1, 1), sparse(6, 1),
                sparse(11, rnd.randrange(1, p)), sparse(0, 3) + sparse(6, 7)]
    elements += [FQ12([rnd.randrange(p) for _ in range(12)])
                 for _ in range(n_elements)]
    EXP = (p**12 - 1) // r
    for i, x in enumerate(elements):
        res = same(old.final_exponentiate, new.final_exponentiate, x)
        if i in plain_checks:
            assert res[1] == x**EXP
            CHECKS += 1
        if hasattr(new, "exp_by_p"):
            res = same(old.exp_by_p, new.exp_by_p, x)
            assert res[1] == x**p
    for bad in (None, 5, "x", FQ(3), FQ2([1, 2]), (1, 2), 1.5):
        if type(bad) is int and not hasattr(new, "exp_by_p"):
            # bn128 final_exponentiate is a plain ** : a Python int argument would
            # build a ~2**2800-bit integer in both versions alike; not runnable
            continue
        same(old.final_exponentiate, new.final_exponentiate, bad)
        if hasattr(new, "exp_by_p"):
            same(old.exp_by_p, new.exp_by_p, bad)

    # two-step form with products of 1..6 Miller values
    for k in range(1, 7):
        chosen = [millers[i % 4] for i in range(k)]
        prod = FQ12.one()
        for m in chosen:
            prod = prod * m
        res = same(old.final_exponentiate, new.final_exponentiate, prod)
        if k in (1, 2, 6):
            each = FQ12.one()
            for m in chosen:
                each = each * new.final_exponentiate(m)
            assert res[1] == each
            CHECKS += 1
    # verifier-style check e(aQ, P) * e(Q, -aP) == 1
    a = 0xABCDEF
    lhs = new.pairing(multiply(G2, a), G1, final_exponentiate=False) * new.pairing(
        G2, neg(multiply(G1, a)), final_exponentiate=False
    )
    assert new.final_exponentiate(lhs) == old.final_exponentiate(lhs) == FQ12.one()

    # call histories: repeat / interleave equal and different arguments
    seen = {}
    order = [0, 1, 0, 2, 1, 0, 2]
    args = [(G2, P5), (Q7, G1), (rescale(G2, FQ2([0, 1])), rescale(P5, p - 1))]
    for i in order:
        Q, P = args[i]
        got = (outcome(new.pairing, Q, P, final_exponentiate=False),
               outcome(old.pairing, Q, P, final_exponentiate=False))
        assert got[0] == got[1]
        assert seen.setdefault(i, got) == got
        CHECKS += 1
    # representatives of the same points give the same exponentiated pairing
    assert new.final_exponentiate(seen[0][0][1]) == \
        new.final_exponentiate(seen[2][0][1])
    print("  %s done, %.1fs" % (label, time.time() - T0))


run_curve("bls12_381", obls, old_bls, new_bls, ref_bls, n_elements=4,
          plain_checks={1, 4, 7, 8})
run_curve("bn128", obn, old_bn, new_bn, ref_bn, n_elements=2, plain_checks={1, 4, 7})

# a ciphersuite round trip (uses the bls12-381 module through py_ecc.bls)
sig = bls_pop.Sign(42, b"msg")
assert bls_pop.Verify(bls_pop.SkToPk(42), b"msg", sig) is True
assert bls_pop.Verify(bls_pop.SkToPk(42), b"other", sig) is False

# nothing mutated the tables during all of the above
assert [tuple(e.coeffs) for e in new_bls.exptable] == TABLE_SNAPSHOT
assert [tuple(e.coeffs) for e in old_bls.exptable] == TABLE_SNAPSHOT
assert (tuple(new_bn.pseudo_binary_encoding),
        tuple(new_bls.pseudo_binary_encoding)) == ENC_SNAPSHOT
assert (tuple(old_bn.pseudo_binary_encoding),
        tuple(old_bls.pseudo_binary_encoding)) == ENC_SNAPSHOT

print("C12/s2 equivalent: %d checks, %.1fs" % (CHECKS, time.time() - T0))
