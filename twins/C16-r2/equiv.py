import os, sys; sys.path.insert(0, os.getcwd())  # noqa: E401,E702

"""
Equivalence demonstration for property C16 (HKDF / KeyGen).

Loads the pristine copies of py_ecc/bls/hash.py and py_ecc/bls/ciphersuites.py
(saved next to this script under pristine/) under other module names and
compares them against the versions in the current working tree on a broad set
of inputs: value, result type, exception class, and non-mutation of arguments.
"""

import copy
import hashlib
import hmac
import importlib
import importlib.util
import random

HERE = os.path.dirname(os.path.abspath(__file__))
PRISTINE = os.path.join(HERE, "pristine")


def load(name, path):
    spec = importlib.util.spec_from_file_location(name, path)
    mod = importlib.util.module_from_spec(spec)
    sys.modules[name] = mod
    spec.loader.exec_module(mod)
    return mod


new_hash = importlib.import_module("py_ecc.bls.hash")
new_cs = importlib.import_module("py_ecc.bls.ciphersuites")
assert new_hash.__file__.startswith(os.getcwd()), new_hash.__file__
assert new_cs.__file__.startswith(os.getcwd()), new_cs.__file__

old_hash = load("pristine_hash", os.path.join(PRISTINE, "hash.py"))
# Loaded inside the py_ecc.bls package so that its relative imports resolve;
# its hash helpers are then re-bound to the pristine hash module so that the
# pristine KeyGen runs on 100% pristine HKDF code.
old_cs = load(
    "py_ecc.bls._pristine_ciphersuites", os.path.join(PRISTINE, "ciphersuites.py")
)
for _n in ("hkdf_expand", "hkdf_extract", "i2osp", "os2ip"):
    setattr(old_cs, _n, getattr(old_hash, _n))

rng = random.Random(0xC16)
checks = 0
failures = []


def rb(n):
    return bytes(rng.getrandbits(8) for _ in range(n))


def outcome(fn, args):
    """Run fn on a deep copy of args; return (kind, payload, args_after)."""
    a = copy.deepcopy(args) if not any(isinstance(x, memoryview) for x in args) else args
    try:
        r = fn(*a)
    except BaseException as e:  # noqa: B902
        return ("exc", type(e), a)
    return ("ok", (type(r), bytes(r) if isinstance(r, (bytes, bytearray)) else r), a)


def same(label, f_old, f_new, args):
    global checks
    checks += 1
    o = outcome(f_old, args)
    n = outcome(f_new, args)
    if o[:2] != n[:2]:
        failures.append((label, repr(args)[:120], o[:2], n[:2]))
        return o
    # purity: neither version may mutate its arguments
    for before, a_old, a_new in zip(args, o[2], n[2]):
        if isinstance(before, (bytearray, list)):
            if not (before == a_old == a_new):
                failures.append((label + ":mutation", repr(args)[:120], a_old, a_new))
    return o


# --------------------------------------------------------------------------
# 0. sanity: RFC 5869 test case 1 on both versions
# --------------------------------------------------------------------------
ikm = bytes.fromhex("0b" * 22)
salt = bytes.fromhex("000102030405060708090a0b0c")
info = bytes.fromhex("f0f1f2f3f4f5f6f7f8f9")
prk_expected = bytes.fromhex(
    "077709362c2e32df0ddc3f0dc47bba6390b6c73bb50f9c3122ec844ad7c2b3e5"
)
okm_expected = bytes.fromhex(
    "3cb25f25faacd57a90434f64d0362f2a2d2d0a90cf1a5a4c5db02d56ecc4c5bf"
    "34007208d5b887185865"
)
for h in (old_hash, new_hash):
    assert h.hkdf_extract(salt, ikm) == prk_expected
    assert h.hkdf_expand(prk_expected, info, 42) == okm_expected

# --------------------------------------------------------------------------
# 1. hkdf_extract
# --------------------------------------------------------------------------
LENS = [0, 1, 2, 31, 32, 33, 55, 56, 63, 64, 65, 119, 127, 128, 129, 255, 256, 299, 300]
for ls in LENS:
    for li in LENS:
        s, i = rb(ls), rb(li)
        same("extract", old_hash.hkdf_extract, new_hash.hkdf_extract, (s, i))
        same("extract-ba", old_hash.hkdf_extract, new_hash.hkdf_extract,
             (bytearray(s), bytearray(i)))
for _ in range(3000):
    same("extract-rnd", old_hash.hkdf_extract, new_hash.hkdf_extract,
         (rb(rng.randint(0, 300)), rb(rng.randint(0, 300))))
BAD = [None, "abc", "", 5, 0, 1.5, [1, 2], (1, 2), object(), memoryview(b"xyz"), True]
for bad in BAD:
    same("extract-bad-salt", old_hash.hkdf_extract, new_hash.hkdf_extract, (bad, b"ikm"))
    same("extract-bad-ikm", old_hash.hkdf_extract, new_hash.hkdf_extract, (b"salt", bad))
    same("extract-bad-both", old_hash.hkdf_extract, new_hash.hkdf_extract, (bad, bad))

# --------------------------------------------------------------------------
# 2. hkdf_expand
# --------------------------------------------------------------------------
# every output length 0..8160 (+ beyond the limit) for one prk/info
prk, info = rb(32), rb(17)
for L in range(0, 8161 + 40):
    same("expand-all-lengths", old_hash.hkdf_expand, new_hash.hkdf_expand, (prk, info, L))
# every info length 0..300, boundary output lengths
for li in range(0, 301):
    inf = rb(li)
    for L in (0, 1, 31, 32, 33, 48, 64, 65, 8159, 8160):
        same("expand-info", old_hash.hkdf_expand, new_hash.hkdf_expand, (rb(32), inf, L))
# prk lengths 0..300 (prk is an HMAC key: <64, ==64, >64 behave differently)
for lp in range(0, 301):
    same("expand-prk", old_hash.hkdf_expand, new_hash.hkdf_expand,
         (rb(lp), rb(lp % 7), 1 + (lp * 37) % 300))
# bytearray arguments
for L in (0, 1, 32, 33, 100, 8160, 8161):
    same("expand-ba", old_hash.hkdf_expand, new_hash.hkdf_expand,
         (bytearray(rb(32)), bytearray(rb(9)), L))
    same("expand-ba-mixed", old_hash.hkdf_expand, new_hash.hkdf_expand,
         (rb(32), bytearray(rb(9)), L))
# random
for _ in range(1500):
    same("expand-rnd", old_hash.hkdf_expand, new_hash.hkdf_expand,
         (rb(rng.randint(0, 300)), rb(rng.randint(0, 300)), rng.randint(0, 8160)))
# out-of-range / malformed lengths
ODD_LENGTHS = [-1, -31, -32, -33, -64, -100, -8160, 8161, 8191, 8192, 8193, 10000,
               True, False, 0.0, 1.0, 32.0, 32.5, 33.0, -0.5, 8161.0, None, "32", b"32",
               [32], 1e300, float("inf"), float("nan"), 2 ** 70, -(2 ** 70)]
for L in ODD_LENGTHS:
    same("expand-odd-length", old_hash.hkdf_expand, new_hash.hkdf_expand, (prk, info, L))
    same("expand-odd-length-empty", old_hash.hkdf_expand, new_hash.hkdf_expand, (b"", b"", L))
# malformed prk / info, at lengths that do and do not enter the loop
for bad in BAD:
    for L in (0, -5, 1, 32, 33, 8160, 8161, 9000, None, "x", 2.0):
        same("expand-bad-prk", old_hash.hkdf_expand, new_hash.hkdf_expand, (bad, b"info", L))
        same("expand-bad-info", old_hash.hkdf_expand, new_hash.hkdf_expand, (b"k" * 32, bad, L))
        same("expand-bad-both", old_hash.hkdf_expand, new_hash.hkdf_expand, (bad, bad, L))

# --------------------------------------------------------------------------
# 3. KeyGen
# --------------------------------------------------------------------------
SUITES = ["G2Basic", "G2MessageAugmentation", "G2ProofOfPossession", "BaseG2Ciphersuite"]
r = new_cs.curve_order
assert old_cs.curve_order == r


def keygen_pair(suite):
    return getattr(old_cs, suite).KeyGen, getattr(new_cs, suite).KeyGen


for suite in SUITES:
    f_old, f_new = keygen_pair(suite)
    # all IKM lengths 0..128 x boundary key_info lengths
    for li in range(0, 129):
        for lk in (0, 1, 2, 31, 32, 33, 63, 64):
            if suite != "G2ProofOfPossession" and lk not in (0, 33, 64):
                continue
            o = same("keygen", f_old, f_new, (rb(li), rb(lk)))
            assert o[0] == "ok" and o[1][0] is int and 1 <= o[1][1] < r
    # all key_info lengths 0..64
    for lk in range(0, 65):
        same("keygen-info", f_old, f_new, (rb(32), rb(lk)))
    # default key_info
    for li in (0, 1, 31, 32, 33, 128, 200):
        same("keygen-default", f_old, f_new, (rb(li),))
    # determinism
    x = rb(32)
    assert f_new(x) == f_new(x) == f_new(bytes(x), b"") == f_old(x)
    # bytearray / malformed
    same("keygen-ba", f_old, f_new, (bytearray(rb(32)), bytearray(rb(5))))
    same("keygen-ba2", f_old, f_new, (bytearray(rb(32)), rb(5)))
    same("keygen-ba3", f_old, f_new, (rb(32), bytearray(rb(5))))
    for bad in BAD:
        same("keygen-bad-ikm", f_old, f_new, (bad,))
        same("keygen-bad-ikm2", f_old, f_new, (bad, b"info"))
        same("keygen-bad-info", f_old, f_new, (b"\x01" * 32, bad))
        same("keygen-bad-both", f_old, f_new, (bad, bad))

for _ in range(1500):
    f_old, f_new = keygen_pair("G2ProofOfPossession")
    same("keygen-rnd", f_old, f_new, (rb(rng.randint(0, 128)), rb(rng.randint(0, 64))))

# The draft's published KeyGen vector-independent reference: recompute with a
# straight-line RFC 5869 implementation and compare with both versions.


def ref_keygen(ikm, key_info=b""):
    salt = b"BLS-SIG-KEYGEN-SALT-"
    sk = 0
    while sk == 0:
        salt = hashlib.sha256(salt).digest()
        prk = hmac.new(salt, ikm + b"\x00", hashlib.sha256).digest()
        inf = key_info + (48).to_bytes(2, "big")
        t1 = hmac.new(prk, inf + b"\x01", hashlib.sha256).digest()
        t2 = hmac.new(prk, t1 + inf + b"\x02", hashlib.sha256).digest()
        sk = int.from_bytes((t1 + t2)[:48], "big") % r
    return sk


for _ in range(300):
    a, b = rb(rng.randint(0, 128)), rb(rng.randint(0, 64))
    checks += 1
    want = ref_keygen(a, b)
    if not (old_cs.G2ProofOfPossession.KeyGen(a, b) == want
            == new_cs.G2ProofOfPossession.KeyGen(a, b)):
        failures.append(("keygen-ref", a, b))

# --------------------------------------------------------------------------
# 4. KeyGen retry path (SK == 0): force the first k attempts to yield zero by
#    wrapping hkdf_expand / hkdf_extract in both modules, and compare both the
#    results and the full trace of HKDF calls (salt re-hashed on every attempt).
# --------------------------------------------------------------------------


def traced_keygen(mod, hash_mod, zeros, multiples, args):
    trace = []
    real_extract, real_expand = hash_mod.hkdf_extract, hash_mod.hkdf_expand
    state = {"n": 0}

    def extract(salt, ikm_):
        trace.append(("extract", bytes(salt), bytes(ikm_)))
        return real_extract(salt, ikm_)

    def expand(prk_, info_, length):
        trace.append(("expand", bytes(prk_), bytes(info_), length))
        state["n"] += 1
        if state["n"] <= zeros:
            return bytearray(length)  # OKM = 0  ->  SK = 0  ->  retry
        if state["n"] <= zeros + multiples:
            return bytearray((r * state["n"]).to_bytes(length, "big"))  # r*k = 0 mod r
        return real_expand(prk_, info_, length)

    saved = mod.hkdf_extract, mod.hkdf_expand
    mod.hkdf_extract, mod.hkdf_expand = extract, expand
    try:
        try:
            res = ("ok", mod.G2ProofOfPossession.KeyGen(*args))
        except BaseException as e:  # noqa: B902
            res = ("exc", type(e))
    finally:
        mod.hkdf_extract, mod.hkdf_expand = saved
    return res, trace


for zeros in range(0, 6):
    for multiples in range(0, 3):
        for args in ((b"", b""), (rb(32),), (rb(128), rb(64)), (rb(1), rb(1)), ("bad",),
                     (b"ok", "bad")):
            checks += 1
            ro, to = traced_keygen(old_cs, old_hash, zeros, multiples, args)
            rn, tn = traced_keygen(new_cs, new_hash, zeros, multiples, args)
            if ro != rn or to != tn:
                failures.append(("keygen-retry", zeros, multiples, args, ro, rn,
                                 len(to), len(tn)))
            if ro[0] == "ok":
                assert len(to) == 2 * (zeros + multiples + 1), (len(to), zeros, multiples)
                salts = [t[1] for t in to if t[0] == "extract"]
                s = b"BLS-SIG-KEYGEN-SALT-"
                for got in salts:
                    s = hashlib.sha256(s).digest()
                    assert got == s
                assert all(t[2].endswith(b"\x00\x30") and t[3] == 48
                           for t in to if t[0] == "expand")
                assert all(t[2].endswith(b"\x00") for t in to if t[0] == "extract")
                assert 1 <= ro[1] < r

print("checks:", checks, "failures:", len(failures))
for f in failures[:20]:
    print("FAIL", f)
sys.exit(1 if failures else 0)
