import os, sys; sys.path.insert(0, os.getcwd())  # noqa: E401,E702

"""
Equivalence demonstration for C08/s1.

The edit moves ``deg`` and ``poly_rounded_div`` from ``py_ecc/utils.py`` into the
new module ``py_ecc/poly_utils.py`` and re-exports them from ``py_ecc.utils``.

This script loads the PRISTINE ``utils.py``, ``field_elements.py`` and
``optimized_field_elements.py`` (saved next to this script) under other module
names, builds the same concrete field classes on top of both versions and checks
that every operation returns identical integer coefficients / raises the same
exception class.
"""

import importlib
import importlib.util
import itertools
import random

HERE = os.path.dirname(os.path.abspath(__file__))
PRIS = os.path.join(HERE, "pristine")


def load(name, path):
    spec = importlib.util.spec_from_file_location(name, path)
    mod = importlib.util.module_from_spec(spec)
    sys.modules[name] = mod
    spec.loader.exec_module(mod)
    return mod


# ---------------------------------------------------------------- edited version
import py_ecc.utils as new_utils  # noqa: E402
import py_ecc.poly_utils as new_poly  # noqa: E402
import py_ecc.fields.field_elements as new_fe  # noqa: E402
import py_ecc.fields.optimized_field_elements as new_ofe  # noqa: E402

assert os.path.realpath(new_utils.__file__).startswith(os.path.realpath(os.getcwd()))

# ---------------------------------------------------------------- pristine version
old_utils = load("pristine_utils", os.path.join(PRIS, "utils.py"))
_saved = sys.modules["py_ecc.utils"]
sys.modules["py_ecc.utils"] = old_utils  # pristine field modules import from here
try:
    old_fe = load(
        "pristine_field_elements", os.path.join(PRIS, "fields", "field_elements.py")
    )
    old_ofe = load(
        "pristine_optimized_field_elements",
        os.path.join(PRIS, "fields", "optimized_field_elements.py"),
    )
finally:
    sys.modules["py_ecc.utils"] = _saved

assert old_fe.deg is old_utils.deg and old_fe.prime_field_inv is old_utils.prime_field_inv
assert old_ofe.deg is old_utils.deg
assert old_utils.deg is not new_utils.deg

# ------------------------------------------------- re-exports bind the same objects
assert new_utils.deg is new_poly.deg
assert new_utils.poly_rounded_div is new_poly.poly_rounded_div
assert new_fe.deg is new_utils.deg is new_ofe.deg
assert new_fe.poly_rounded_div is new_utils.poly_rounded_div
assert new_fe.prime_field_inv is new_utils.prime_field_inv is new_ofe.prime_field_inv
from py_ecc.utils import deg as _d, poly_rounded_div as _p, prime_field_inv as _i  # noqa: E402,E501

assert (_d, _p, _i) == (new_poly.deg, new_poly.poly_rounded_div, new_utils.prime_field_inv)
assert new_utils.IntOrFQ == old_utils.IntOrFQ
for nm in ("deg", "poly_rounded_div", "prime_field_inv", "IntOrFQ"):
    assert hasattr(new_utils, nm) and hasattr(old_utils, nm)

CHECKS = 0


def outcome(f):
    try:
        return ("ok", f())
    except BaseException as e:  # noqa: B902
        return ("exc", type(e).__name__)


def norm(v):
    """Turn any result into plain python data (types are part of the value)."""
    if isinstance(v, bool):
        return ("bool", v)
    if isinstance(v, int):
        return ("int", v)
    if hasattr(v, "coeffs"):
        return (
            "FQP",
            type(v).__name__,
            tuple((type(c).__name__, c.n if hasattr(c, "n") else c) for c in v.coeffs),
            tuple((type(c).__name__, c) for c in v.modulus_coeffs),
            v.degree,
        )
    if hasattr(v, "n"):
        return ("FQ", type(v).__name__, type(v.n).__name__, v.n)
    if isinstance(v, (tuple, list)):
        return (type(v).__name__, tuple(norm(x) for x in v))
    if isinstance(v, (str, float)) or v is None:
        return (type(v).__name__, v)
    raise AssertionError(f"unexpected result {v!r}")


def same(fo, fn, what):
    global CHECKS
    a, b = outcome(fo), outcome(fn)
    if a[0] == "ok":
        a = ("ok", norm(a[1]))
    if b[0] == "ok":
        b = ("ok", norm(b[1]))
    assert a == b, (what, a, b)
    CHECKS += 1
    return a


# ------------------------------------------------------------ helper functions
rng = random.Random(0xC08)
P254 = 21888242871839275222246405745257275088696311157297823662689037894645226208583
P381 = 4002409555221667393417789825735904156556882819939007885332058136124031650490837864442687629129015664037894272559787  # noqa: E501

for n in [2, 3, 5, 7, 11, 13, 97, 65537, P254, P381]:
    xs = list(range(-3, 20)) + [n - 1, n, n + 1, 2 * n, -n, -n - 1, n * n + 3]
    xs += [rng.randrange(-(n**2), n**2) for _ in range(50)]
    for a in xs:
        same(lambda: old_utils.prime_field_inv(a, n), lambda: new_utils.prime_field_inv(a, n), ("inv", a, n))
for bad in [(1, 0), (0, 0), ("a", 5), (None, 5), (1.5, 7), (3, None)]:
    same(lambda: old_utils.prime_field_inv(*bad), lambda: new_utils.prime_field_inv(*bad), ("inv-bad", bad))

polys = [[0], [1], [0, 0, 0], [1, 0, 0], [0, 0, 5], [3, 0, 2, 0], [], (4, 5, 6), (0,), [-1, 0]]
polys += [[rng.randrange(-5, 6) for _ in range(rng.randrange(1, 8))] for _ in range(100)]
for p in polys:
    same(lambda: old_utils.deg(p), lambda: new_utils.deg(p), ("deg", p))
for bad in [None, 5, "abc", [None], ["x", "y"]]:
    same(lambda: old_utils.deg(bad), lambda: new_utils.deg(bad), ("deg-bad", bad))


def mk_fq(mod_fe, p):
    return type("F%d" % p, (mod_fe.FQ,), {"field_modulus": p})


for p in [2, 3, 5, 7, 13, 101, P254]:
    Fo, Fn = mk_fq(old_fe, p), mk_fq(new_fe, p)
    for _ in range(120):
        la, lb = rng.randrange(1, 7), rng.randrange(1, 7)
        ca = [rng.randrange(0, p) for _ in range(la)]
        cb = [rng.randrange(0, p) for _ in range(lb)]
        if rng.random() < 0.2:
            cb[-1] = 0
        if rng.random() < 0.1:
            cb = [0] * lb
        same(
            lambda: old_utils.poly_rounded_div([Fo(c) for c in ca], [Fo(c) for c in cb]),
            lambda: new_utils.poly_rounded_div([Fn(c) for c in ca], [Fn(c) for c in cb]),
            ("prd", p, ca, cb),
        )
    # plain ints (true division -> int(float)), incl. ZeroDivisionError
    for ca, cb in [([6, 4, 2], [2]), ([1, 2, 3], [0]), ([1, 2, 3, 4], [1, 1]), ([], [1]), ([5], [1, 2, 3])]:
        same(
            lambda: old_utils.poly_rounded_div(ca, cb),
            lambda: new_utils.poly_rounded_div(ca, cb),
            ("prd-int", ca, cb),
        )

# ------------------------------------------------------------ the field classes
MODS2 = {2: (1, 1), 3: (1, 0), 5: (2, 0), 7: (1, 0), 11: (1, 0), P254: (1, 0), P381: (1, 0)}
# irreducible degree-12 polynomials (low 12 coefficients; leading 1 implied)
MODS12 = {
    2: (1, 1, 0, 1, 0, 0, 0, 0, 0, 0, 0, 0),  # x^12 + x^3 + 1
    P254: (82, 0, 0, 0, 0, 0, -18, 0, 0, 0, 0, 0),
    P381: (2, 0, 0, 0, 0, 0, -2, 0, 0, 0, 0, 0),
}


def find_irreducible12(p):
    """Search an irreducible monic degree-12 polynomial over GF(p) (Rabin's test)."""

    def strip(x):
        x = list(x)
        while x and x[-1] == 0:
            x.pop()
        return x

    def pmod(a, m):  # m monic-normalisable, coefficients low -> high
        a, m = strip(a), strip(m)
        inv = pow(m[-1], -1, p)
        while len(a) >= len(m):
            c = a[-1] * inv % p
            off = len(a) - len(m)
            for i, mi in enumerate(m):
                a[off + i] = (a[off + i] - c * mi) % p
            a = strip(a)
        return a

    def pmul(a, b, m):
        r = [0] * max(1, len(a) + len(b) - 1)
        for i, x in enumerate(a):
            for j, y in enumerate(b):
                r[i + j] = (r[i + j] + x * y) % p
        return pmod(r, m)

    def ppow(a, e, m):
        r = [1]
        while e:
            if e & 1:
                r = pmul(r, a, m)
            a = pmul(a, a, m)
            e >>= 1
        return r

    def psub_x(a):
        a = list(a) + [0] * (2 - len(a))
        a[1] = (a[1] - 1) % p
        return strip(a)

    def pgcd(a, b):
        a, b = strip(a), strip(b)
        while b:
            a, b = b, pmod(a, b)
        return a

    r2 = random.Random(p)
    while True:
        low = [r2.randrange(p) for _ in range(12)]
        if low[0] == 0:
            continue
        m = low + [1]
        if psub_x(ppow([0, 1], p**12, m)):
            continue
        if all(len(pgcd(m, psub_x(ppow([0, 1], p ** (12 // q), m)))) == 1 for q in (2, 3)):
            return tuple(low)


def mk(mod, p, deg_):
    if deg_ == 2:
        return type("E2_%d" % p, (mod.FQ2,), {"field_modulus": p, "FQ2_MODULUS_COEFFS": MODS2[p]})
    return type("E12_%d" % p, (mod.FQ12,), {"field_modulus": p, "FQ12_MODULUS_COEFFS": MODS12[p]})


def fq_ops(Fo, Fn, p, vals, exps):
    ints = [0, 1, -1, p, p - 1, p + 1, -p - 5, 2 * p + 3]
    for a in vals:
        xo, xn = Fo(a), Fn(a)
        same(lambda: xo, lambda: xn, ("fq-ctor", p, a))
        same(lambda: -xo, lambda: -xn, ("fq-neg", p, a))
        same(lambda: int(xo), lambda: int(xn), ("fq-int", p, a))
        same(lambda: repr(xo), lambda: repr(xn), ("fq-repr", p, a))
        same(lambda: 1 / xo, lambda: 1 / xn, ("fq-rinv", p, a))
        same(lambda: (1 / xo) * xo, lambda: (1 / xn) * xn, ("fq-inv-law", p, a))
        for e in exps:
            same(lambda: xo**e, lambda: xn**e, ("fq-pow", p, a, e))
        for b in vals:
            yo, yn = Fo(b), Fn(b)
            for nm, op in OPS:
                same(lambda: op(xo, yo), lambda: op(xn, yn), ("fq", nm, p, a, b))
        for k in ints:
            for nm, op in OPS:
                same(lambda: op(xo, k), lambda: op(xn, k), ("fq-int", nm, p, a, k))
                same(lambda: op(k, xo), lambda: op(k, xn), ("fq-rint", nm, p, a, k))
        for bad in (None, 1.5, "x", [1]):
            for nm, op in OPS:
                same(lambda: op(xo, bad), lambda: op(xn, bad), ("fq-bad", nm, p, a))
    same(lambda: Fo.one(), lambda: Fn.one(), "one")
    same(lambda: Fo.zero(), lambda: Fn.zero(), "zero")
    for bad in (None, 1.5, "x"):
        same(lambda: Fo(bad), lambda: Fn(bad), "fq-ctor-bad")


OPS = [
    ("add", lambda a, b: a + b),
    ("sub", lambda a, b: a - b),
    ("mul", lambda a, b: a * b),
    ("div", lambda a, b: a / b),
    ("eq", lambda a, b: a == b),
    ("ne", lambda a, b: a != b),
    ("lt", lambda a, b: a < b),
    ("ge", lambda a, b: a >= b),
]
POPS = OPS[:6]


def fqp_ops(Eo, En, p, elems, pairs, exps):
    d = Eo.degree
    ints = [0, 1, -1, 2, p, p - 1, p + 1, -p - 5]
    for cs in elems:
        xo, xn = Eo(list(cs)), En(list(cs))
        same(lambda: xo, lambda: xn, ("ctor", p, cs))
        same(lambda: -xo, lambda: -xn, ("neg", p, cs))
        same(lambda: repr(xo), lambda: repr(xn), ("repr", p, cs))
        same(lambda: xo.inv(), lambda: xn.inv(), ("inv", p, cs))
        same(lambda: xo * xo.inv(), lambda: xn * xn.inv(), ("inv-law", p, cs))
        same(lambda: xo / xo, lambda: xn / xn, ("self-div", p, cs))
        if hasattr(xn, "sgn0"):
            same(lambda: xo.sgn0, lambda: xn.sgn0, ("sgn0", p, cs))
        for e in exps:
            same(lambda: xo**e, lambda: xn**e, ("pow", p, cs, e))
        for k in ints:
            same(lambda: xo * k, lambda: xn * k, ("mulint", p, cs, k))
            same(lambda: k * xo, lambda: k * xn, ("rmulint", p, cs, k))
            same(lambda: xo / k, lambda: xn / k, ("divint", p, cs, k))
        for bad in (None, 1.5, "x", [1] * d):
            for nm, op in POPS:
                same(lambda: op(xo, bad), lambda: op(xn, bad), ("bad", nm, p, cs))
    for ca, cb in pairs:
        xo, xn, yo, yn = Eo(list(ca)), En(list(ca)), Eo(list(cb)), En(list(cb))
        for nm, op in POPS:
            same(lambda: op(xo, yo), lambda: op(xn, yn), (nm, p, ca, cb))
        same(lambda: (xo / yo) * yo, lambda: (xn / yn) * yn, ("div-law", p, ca, cb))
    same(lambda: Eo.one(), lambda: En.one(), "one")
    same(lambda: Eo.zero(), lambda: En.zero(), "zero")
    for badc in ([], [1] * (d + 1), [1] * (d - 1), None, ["a"] * d, [1.5] * d):
        same(lambda: Eo(badc), lambda: En(badc), ("ctor-bad", p, badc))


# -- prime fields: exhaustive for small p, sampled for the real ones
for mo, mn, tag in [(old_fe, new_fe, "ref"), (old_ofe, new_ofe, "opt")]:
    for p in [2, 3, 5, 7, 11]:
        fq_ops(mk_fq(mo, p), mk_fq(mn, p), p, list(range(p)), [0, 1, 2, 3, p - 1, p, p**12, p**12 + 1])
    for p in [P254, P381]:
        vals = [0, 1, 2, p - 1, p - 2, 1 << 200, (p - 1) // 2] + [rng.randrange(p) for _ in range(6)]
        fq_ops(mk_fq(mo, p), mk_fq(mn, p), p, vals, [0, 1, 2, p - 1, p, p - 2, p**12 - 1, rng.randrange(p**12)])
    same(lambda: mo.FQ(1), lambda: mn.FQ(1), "no modulus")
    same(lambda: mo.FQ2([1, 1]), lambda: mn.FQ2([1, 1]), "no modulus 2")
    same(lambda: mo.FQ12([1] * 12), lambda: mn.FQ12([1] * 12), "no modulus 12")
    same(
        lambda: type("X", (mo.FQ2,), {"field_modulus": 7})([1, 1]),
        lambda: type("X", (mn.FQ2,), {"field_modulus": 7})([1, 1]),
        "no coeffs",
    )
    same(
        lambda: type("X", (mo.FQP,), {"field_modulus": 7})([1, 1], [1, 0, 0]),
        lambda: type("X", (mn.FQP,), {"field_modulus": 7})([1, 1], [1, 0, 0]),
        "len mismatch",
    )

# -- quadratic extensions: exhaustive elements and pairs for small p
for mo, mn, tag in [(old_fe, new_fe, "ref"), (old_ofe, new_ofe, "opt")]:
    for p in [2, 3, 5, 7]:
        elems = list(itertools.product(range(p), repeat=2))
        pairs = list(itertools.product(elems, repeat=2))
        fqp_ops(mk(mo, p, 2), mk(mn, p, 2), p, elems, pairs, [0, 1, 2, p, p * p - 1, p * p, p**12])
    for p in [P254, P381]:
        special = [(0, 0), (1, 0), (0, 1), (p - 1, 0), (p - 1, p - 1), (1, 1), (0, p - 1)]
        elems = special + [(rng.randrange(p), rng.randrange(p)) for _ in range(6)]
        pairs = [(a, b) for a in elems[:9] for b in elems[:9]]
        fqp_ops(mk(mo, p, 2), mk(mn, p, 2), p, elems, pairs, [0, 1, 2, 3, p, p * p - 1, p**12 - 1])

# -- degree-12 extensions
for p in (3, 5, 7):
    MODS12[p] = find_irreducible12(p)

for mo, mn, tag in [(old_fe, new_fe, "ref"), (old_ofe, new_ofe, "opt")]:
    for p in [2, 3, 5, 7, P254, P381]:
        z = (0,) * 12
        one = (1,) + (0,) * 11
        special = [z, one, (p - 1,) + (0,) * 11, (p - 1,) * 12, (0,) * 11 + (1,), (0,) * 6 + (1,) + (0,) * 5]
        nrand = 10 if p < 100 else 3
        elems = special + [tuple(rng.randrange(p) for _ in range(12)) for _ in range(nrand)]
        # sparse ones
        for _ in range(3):
            c = [0] * 12
            c[rng.randrange(12)] = rng.randrange(p)
            c[rng.randrange(12)] = rng.randrange(p)
            elems.append(tuple(c))
        pairs = [(rng.choice(elems), rng.choice(elems)) for _ in range(25 if p < 100 else 8)]
        pairs += [(z, one), (one, z), (z, z), (elems[6], z)]
        exps = [0, 1, 2, 5, p**12 - 1, p**12] if p < 100 else [0, 1, 2, p, rng.randrange(p**12)]
        if tag == "ref" and p > 100:
            elems = elems[:8]
            exps = [0, 1, 2, 3, p]
        fqp_ops(mk(mo, p, 12), mk(mn, p, 12), p, elems, pairs, exps)

# -- the concrete published classes still sit on the very same helper objects
import py_ecc.fields as F  # noqa: E402

assert F.FQ is new_fe.FQ and F.optimized_FQ12 is new_ofe.FQ12
x = F.bls12_381_FQ12([3] + [1] * 11)
assert x * x.inv() == F.bls12_381_FQ12.one()
y = F.optimized_bn128_FQ12([3] + [1] * 11)
assert y * y.inv() == F.optimized_bn128_FQ12.one()

print("C08/s1 equivalence: %d comparisons identical" % CHECKS)
