import os, sys; sys.path.insert(0, os.getcwd())  # noqa: E401,E702

"""
Equivalence demonstration for p1 (C14): memoised prime_field_inv.

Run as:  cd /tmp/wt2/C14 && /venv/bin/python /tmp/twin2/C14/p1/equiv.py

Compares
  (a) py_ecc.utils.prime_field_inv (edited tree) against the pristine copy saved in
      /tmp/twin2/C14/p1/pristine/utils.py, on a broad set of well-formed, boundary and
      malformed arguments and on call sequences that repeat / interleave / overflow the
      cache;
  (b) whole field stacks (reference and optimized FQ / FQ2 / FQ12, real curves and small
      instantiations) wired to the edited prime_field_inv against the same stacks wired
      to the pristine prime_field_inv, on random straight-line expression programs.
"""

import importlib.util
import random
import time

HERE = os.path.dirname(os.path.abspath(__file__))
T0 = time.time()


def load(name, path):
    spec = importlib.util.spec_from_file_location(name, path)
    mod = importlib.util.module_from_spec(spec)
    sys.modules[name] = mod
    spec.loader.exec_module(mod)
    return mod


import py_ecc.utils as new_utils  # noqa: E402

assert os.path.realpath(new_utils.__file__).startswith(os.path.realpath(os.getcwd())), (
    "must be run with the worktree as current directory"
)
old_utils = load("pristine_utils", os.path.join(HERE, "pristine", "utils.py"))
assert hasattr(new_utils, "_prime_field_inv_cached"), "edited tree expected"
assert not hasattr(old_utils, "_prime_field_inv_cached")

from py_ecc.fields import field_elements as new_ref  # noqa: E402
from py_ecc.fields import optimized_field_elements as new_opt  # noqa: E402
from py_ecc.fields.field_properties import field_properties  # noqa: E402

# The same field sources, but wired to the pristine prime_field_inv / poly helpers.
old_ref = load("pristine_wired_field_elements", new_ref.__file__)
old_opt = load("pristine_wired_optimized_field_elements", new_opt.__file__)
for m in (old_ref, old_opt):
    m.prime_field_inv = old_utils.prime_field_inv
    m.deg = old_utils.deg
old_ref.poly_rounded_div = old_utils.poly_rounded_div
assert new_ref.prime_field_inv is new_utils.prime_field_inv
assert new_opt.prime_field_inv is new_utils.prime_field_inv

checks = 0


def outcome(f, *args, **kw):
    try:
        r = f(*args, **kw)
    except BaseException as e:  # noqa: B902
        return ("exc", type(e).__name__)
    return ("ok", type(r).__name__, repr(r))


def same(desc, f_new, f_old, *args, **kw):
    global checks
    checks += 1
    a = outcome(f_new, *args, **kw)
    b = outcome(f_old, *args, **kw)
    if a != b:
        print("MISMATCH", desc, args, kw, a, b)
        sys.exit(1)
    return a


# --------------------------------------------------------------------------- (a)
rng = random.Random(0xC14)
P_BN = field_properties["bn128"]["field_modulus"]
P_BLS = field_properties["bls12_381"]["field_modulus"]
MODULI = [P_BN, P_BLS, 2, 3, 5, 7, 11, 13, 17, 101, 65537, 2**255 - 19,
          1, 0, -1, -7, -P_BN, 4, 6, 9, 15, 2**64, 10**30]


class MyInt(int):
    pass


class FQ7(new_opt.FQ):
    field_modulus = 7


class RFQ7(new_ref.FQ):
    field_modulus = 7


def interesting(n):
    base = [0, 1, 2, 3, -1, -2, n, -n if isinstance(n, int) else 0, n - 1, n + 1,
            2 * n, 2 * n + 1, n * n, n // 2 if n else 0, 2**600 + 1, -(2**600) - 1]
    base += [rng.randrange(-3 * abs(n) - 3, 3 * abs(n) + 3) for _ in range(40)]
    return base


new_inv, old_inv = new_utils.prime_field_inv, old_utils.prime_field_inv
for n in MODULI:
    for a in interesting(n):
        # each argument pair twice in a row (miss then hit) ...
        r1 = same("inv", new_inv, old_inv, a, n)
        r2 = same("inv-again", new_inv, old_inv, a, n)
        assert r1 == r2

# malformed / unusual operand types: uncached path, same outcome, and they must neither
# poison nor be served from entries created by the equal plain ints.
ODD = [True, False, MyInt(3), MyInt(0), 3.0, 2.0, 0.0, 2.5, -3.0, float("nan"),
       float("inf"), None, "3", b"3", 3 + 0j, [3], (3,), FQ7(3), RFQ7(3), FQ7(0)]
for n in [7, 11, P_BN, 0, 1, -7, True, MyInt(7), 7.0, None, "7", FQ7(3), 2.0]:
    for a in ODD + [3, 2, 0, 10, -4]:
        for _ in range(2):
            same("inv-plain-first", new_inv, old_inv, 3, 7)
            same("inv-odd", new_inv, old_inv, a, n)
            same("inv-plain-after", new_inv, old_inv, 2, 7)
            same("inv-plain-after", new_inv, old_inv, 3, 7)
# keyword spelling and arity errors
same("kw", new_inv, old_inv, a=3, n=7)
same("kw2", new_inv, old_inv, 3, n=7)
same("arity1", new_inv, old_inv, 3)
same("arity0", new_inv, old_inv)
same("arity3", new_inv, old_inv, 3, 7, 1)
same("badkw", new_inv, old_inv, 3, m=7)

# long interleaved history which overflows the cache several times and keeps coming
# back to earlier keys (hits, evicted entries, fresh entries)
info0 = new_utils._prime_field_inv_cached.cache_info()
assert info0.maxsize == 4096
history = []
for rounds in range(3):
    for k in range(6000):
        n = rng.choice([P_BN, P_BLS, 101, 65537])
        a = rng.randrange(0, 3000) if rng.random() < 0.7 else rng.randrange(-n, 2 * n)
        history.append((a, n))
        same("hist", new_inv, old_inv, a, n)
        if k % 7 == 0:
            a2, n2 = rng.choice(history)
            same("hist-repeat", new_inv, old_inv, a2, n2)
        if k % 1000 == 0:
            same("hist-zero-mod", new_inv, old_inv, a, 0)
            same("hist-bool", new_inv, old_inv, True, n)
info1 = new_utils._prime_field_inv_cached.cache_info()
assert info1.currsize <= 4096, info1
assert info1.hits > info0.hits and info1.misses > info0.misses + 4096, info1
# mathematical sanity of cached answers
for a, n in history[::37]:
    v = new_inv(a, n)
    assert type(v) is int and 0 <= v < n
    assert (a % n == 0 and v == 0) or (a * v) % n == 1

print("part (a) ok: %d comparisons, cache %s  [%.1fs]" % (checks, info1, time.time() - T0))

# --------------------------------------------------------------------------- (b)


def make_family(ref_mod, opt_mod, p, fq2_coeffs, fq12_coeffs):
    fam = {}
    for tag, m in (("ref", ref_mod), ("opt", opt_mod)):
        FQ = type("FQ_%s_%d" % (tag, p % 1000), (m.FQ,), {"field_modulus": p})
        FQP = type("FQP_%s" % tag, (m.FQP,), {"field_modulus": p})
        FQ2 = type("FQ2_%s" % tag, (m.FQ2, FQP),
                   {"field_modulus": p, "FQ2_MODULUS_COEFFS": fq2_coeffs})
        FQ12 = type("FQ12_%s" % tag, (m.FQ12, FQP),
                    {"field_modulus": p, "FQ12_MODULUS_COEFFS": fq12_coeffs})
        fam[tag] = {"FQ": FQ, "FQ2": FQ2, "FQ12": FQ12}
    return fam


FIELDS = [
    ("bn128", P_BN, field_properties["bn128"]["fq2_modulus_coeffs"],
     field_properties["bn128"]["fq12_modulus_coeffs"]),
    ("bls12_381", P_BLS, field_properties["bls12_381"]["fq2_modulus_coeffs"],
     field_properties["bls12_381"]["fq12_modulus_coeffs"]),
    ("p7", 7, (1, 0), (2, 0, 0, 0, 0, 0, 3, 0, 0, 0, 0, 0)),
    ("p11", 11, (1, 0), (2, 0, 0, 0, 0, 0, 9, 0, 0, 0, 0, 0)),
    ("p13", 13, (2, 1), (1, 3, 0, 0, 0, 0, 5, 0, 0, 0, 0, 1)),
    ("p2", 2, (1, 1), (1, 1, 0, 1, 0, 0, 0, 0, 0, 0, 0, 0)),
    ("p101", 101, (2, 0), (3, 0, 0, 0, 0, 0, 99, 0, 0, 0, 0, 0)),
]


def canon(x):
    if isinstance(x, (new_ref.FQP, new_opt.FQP, old_ref.FQP, old_opt.FQP)):
        return ("P", tuple(int(c) for c in x.coeffs))
    if isinstance(x, (new_ref.FQ, new_opt.FQ, old_ref.FQ, old_opt.FQ)):
        return ("F", int(x))
    return ("O", type(x).__name__, repr(x))


def gen(rng, depth, nleaves, p):
    """random expression tree; leaves are ('leaf', i) or ('int', k)"""
    if depth == 0 or rng.random() < 0.15:
        return ("leaf", rng.randrange(nleaves))
    op = rng.choice(["+", "-", "*", "/", "/", "**", "neg", "imul", "idiv", "rmul", "inv"])
    if op in ("+", "-", "*", "/"):
        return (op, gen(rng, depth - 1, nleaves, p), gen(rng, depth - 1, nleaves, p))
    small = [0, 1, 2, 3, -1, -5, p, p - 1, p + 1, 2 * p, -p]
    k = rng.choice(small + [rng.randrange(-2 * p, 2 * p)])
    if op == "**":
        k = rng.choice([0, 1, 2, 3, 5, 17, p - 1, p, p - 2, -1])
        if k > 2**20:
            k = rng.choice([k, 3])
    return (op, gen(rng, depth - 1, nleaves, p), ("int", k))


def ev(t, leaves):
    tag = t[0]
    if tag == "leaf":
        return leaves[t[1]]
    if tag == "int":
        return t[1]
    a = ev(t[1], leaves)
    if tag == "neg":
        return -a
    if tag == "inv":
        return a.inv() if hasattr(a, "inv") else 1 / a
    b = ev(t[2], leaves)
    if tag == "+":
        return a + b
    if tag == "-":
        return a - b
    if tag in ("*", "imul"):
        return a * b
    if tag == "rmul":
        return b * a
    if tag in ("/", "idiv"):
        return a / b
    if tag == "**":
        return a ** b
    raise AssertionError(tag)


def run(cls, tree, raw_leaves):
    try:
        leaves = [cls(v) for v in raw_leaves]
        r = ev(tree, leaves)
        out = ("ok", canon(r))
        if hasattr(r, "sgn0"):
            out += (int(r.sgn0),)
        return out
    except BaseException as e:  # noqa: B902
        return ("exc", type(e).__name__)


prog = 0
tally = {}
rng = random.Random(1414)
budget = {"FQ": (120, 8), "FQ2": (60, 6), "FQ12": (10, 3)}
small_budget = {"FQ": (150, 8), "FQ2": (100, 7), "FQ12": (25, 4)}
for name, p, c2, c12 in FIELDS:
    newfam = make_family(new_ref, new_opt, p, c2, c12)
    oldfam = make_family(old_ref, old_opt, p, c2, c12)
    bud = budget if p > 1000 else small_budget
    for kind, width in (("FQ", 1), ("FQ2", 2), ("FQ12", 12)):
        count, depth = bud[kind]
        for it in range(count):
            nleaves = 3
            raw = []
            for _ in range(nleaves):
                if width == 1:
                    raw.append(rng.choice([0, 1, p - 1, p, rng.randrange(-p, 2 * p)]))
                else:
                    mode = rng.random()
                    if mode < 0.1:
                        raw.append([0] * width)
                    elif mode < 0.2:
                        raw.append([rng.randrange(p)] + [0] * (width - 1))
                    else:
                        raw.append([rng.randrange(-p, 2 * p) for _ in range(width)])
            tree = gen(rng, depth, nleaves, p)
            res = {}
            for tag in ("ref", "opt"):
                r_new = run(newfam[tag][kind], tree, raw)
                r_old = run(oldfam[tag][kind], tree, raw)
                # the same program a second time: every inverse is now a cache hit
                r_new2 = run(newfam[tag][kind], tree, raw)
                if not (r_new == r_old == r_new2):
                    print("MISMATCH field", name, kind, tag, tree, raw, r_new, r_old, r_new2)
                    sys.exit(1)
                res[tag] = r_new
                key = (tag, r_new[0] if r_new[0] == "ok" else r_new[1])
                tally[key] = tally.get(key, 0) + 1
            prog += 1
    print("  %-10s ok  [%.1fs]" % (name, time.time() - T0))

# direct uses of the polynomial division helper of the optimized class (public method)
for name, p, c2, c12 in FIELDS:
    newfam = make_family(new_ref, new_opt, p, c2, c12)
    oldfam = make_family(old_ref, old_opt, p, c2, c12)
    for _ in range(60):
        la, lb = rng.randrange(1, 8), rng.randrange(1, 8)
        a = [rng.randrange(p) for _ in range(la)]
        b = [rng.randrange(p) for _ in range(lb)]
        if rng.random() < 0.3:
            b[-1] = 0
        x_new = newfam["opt"]["FQ2"]([1, 2])
        x_old = oldfam["opt"]["FQ2"]([1, 2])
        same("oprd", x_new.optimized_poly_rounded_div, x_old.optimized_poly_rounded_div, a, b)

print("  outcome tally:", sorted(tally.items()))
assert tally.get(("ref", "ok"), 0) > prog // 2 and tally.get(("opt", "ok"), 0) > prog // 2
print("part (b) ok: %d programs x (ref, opt) x (new, pristine, new again)" % prog)
print("ALL EQUIVALENT (%d direct comparisons)  [%.1fs]" % (checks, time.time() - T0))
sys.exit(0)
