import os, sys; sys.path.insert(0, os.getcwd())  # noqa: E401,E702

"""
Equivalence demonstration for C10/s2.

s2 rewrites how some constants of py_ecc/optimized_bls12_381/constants.py are
written: P_MINUS_9_DIV_16 as (P**2 - 9) // 16, H_EFF_G1 as 1 - BLS_X,
ISO_3_K_2_0 / ISO_3_K_2_1 with P - 72 / P - 12, P_MINUS_3_DIV_4 through the
new name P, and the never-mutated list ETAS as a tuple.

The pristine constants.py (saved next to this script) is loaded under another
module name.  Pristine copies of optimized_swu.py and of
optimized_clear_cofactor.py (both untouched by s2) are loaded with their
``from .constants import`` redirected to the pristine constants, so the "old"
side of every comparison uses only pristine constants and the "new" side only
the edited ones.  Compared: every module-level name of constants.py (exact
class and exact integers), sqrt_division_FQ/FQ2, optimized_swu_G1/G2,
iso_map_G1/G2, cofactor clearing, map_to_curve_G1/G2 and the full
hash_to_G1/G2 pipeline, on boundary, exceptional, random and malformed inputs.
"""

import hashlib
import importlib
import importlib.util
import random
import time

HERE = os.path.dirname(os.path.abspath(__file__))
T0 = time.time()

import py_ecc.optimized_bls12_381 as pkg  # noqa: E402
from py_ecc.bls import hash_to_curve as h2c  # noqa: E402
from py_ecc.bls.point_compression import modular_squareroot_in_FQ2  # noqa: E402
from py_ecc.fields import (  # noqa: E402
    optimized_bls12_381_FQ as FQ,
    optimized_bls12_381_FQ2 as FQ2,
    optimized_bn128_FQ as BN_FQ,
)
from py_ecc.optimized_bls12_381 import (  # noqa: E402
    add,
    curve_order,
    b,
    b2,
    is_inf,
    is_on_curve,
    multiply,
    multiply_clear_cofactor_G1,
    multiply_clear_cofactor_G2,
    normalize,
)
from py_ecc.optimized_bls12_381 import optimized_swu as new_swu  # noqa: E402
from py_ecc.optimized_bls12_381 import constants as C  # noqa: E402

from py_ecc.optimized_bls12_381 import optimized_clear_cofactor as new_cc  # noqa: E402

PKG = "py_ecc.optimized_bls12_381"


def load(name, path, redirect=False):
    """Load `path` as module PKG.name; optionally bind it to pristine constants."""
    src = open(path).read()
    if redirect:
        assert src.count("from .constants import") == 1
        src = src.replace("from .constants import", "from ._pristine_constants import")
    spec = importlib.util.spec_from_loader(PKG + "." + name, loader=None, origin=path)
    mod = importlib.util.module_from_spec(spec)
    mod.__file__ = path
    sys.modules[PKG + "." + name] = mod
    exec(compile(src, path, "exec"), mod.__dict__)
    return mod


old_C = load("_pristine_constants", os.path.join(HERE, "pristine", "constants.py"))
old_swu = load(
    "_pristine_optimized_swu",
    os.path.join(HERE, "pristine", "optimized_swu.py"),
    redirect=True,
)
old_cc = load("_pristine_optimized_clear_cofactor", new_cc.__file__, redirect=True)
# s2 does not touch optimized_swu.py
assert open(old_swu.__file__).read() == open(new_swu.__file__).read()
assert old_C.__file__ != C.__file__
assert "P_MINUS_9_DIV_16 = 10012" in open(old_C.__file__).read()
assert "P_MINUS_9_DIV_16 = (P**2 - 9) // 16" in open(C.__file__).read()
# old side is bound to pristine constants only, new side to edited constants only
for nm in ("ETAS", "P_MINUS_9_DIV_16", "POSITIVE_EIGHTH_ROOTS_OF_UNITY", "ISO_3_MAP_COEFFICIENTS"):
    assert getattr(old_swu, nm) is getattr(old_C, nm), nm
    assert getattr(new_swu, nm) is getattr(C, nm), nm
    assert getattr(old_C, nm) is not getattr(C, nm) or type(getattr(C, nm)) is int, nm
assert old_cc.H_EFF_G1 is old_C.H_EFF_G1 and old_cc.H_EFF_G2 is old_C.H_EFF_G2
assert new_cc.H_EFF_G1 is C.H_EFF_G1 and new_cc.H_EFF_G2 is C.H_EFF_G2

P = FQ.field_modulus
rng = random.Random(0xC10)
checks = 0


def canon(v):
    """Exact structural image of a result: classes and integer coefficients."""
    if isinstance(v, (tuple, list)):
        return (type(v).__name__,) + tuple(canon(x) for x in v)
    if isinstance(v, FQ2):
        assert all(type(c) is int for c in v.coeffs)
        return (type(v).__name__, tuple(v.coeffs))
    if isinstance(v, FQ):
        assert type(v.n) is int
        return (type(v).__name__, v.n)
    if isinstance(v, (bool, int, bytes, type(None))):
        return (type(v).__name__, v)
    return (type(v).__name__, repr(v))


def outcome(f, *args):
    try:
        return ("ok", canon(f(*args)))
    except BaseException as e:  # noqa: B902
        return ("exc", type(e))


def same(label, f_old, f_new, *args):
    global checks
    a = outcome(f_old, *args)
    b_ = outcome(f_new, *args)
    if a != b_:
        print("MISMATCH", label, args, a, b_)
        sys.exit(1)
    checks += 1
    return a


# ------------------------------------------------- constants, name by name
old_names = {n for n in vars(old_C) if not n.startswith("__")}
new_names = {n for n in vars(C) if not n.startswith("__")}
assert old_names <= new_names, old_names - new_names
assert new_names - old_names == {"P", "BLS_X"}, new_names - old_names
assert type(C.P) is int and C.P == FQ.field_modulus
assert type(C.BLS_X) is int and C.BLS_X == -0xD201000000010000
for n in sorted(old_names):
    o, v = getattr(old_C, n), getattr(C, n)
    if n in ("FQ", "FQ2"):
        assert o is v
        continue
    if n == "ETAS":
        # the one intended container change: list -> tuple, same elements in order
        assert type(o) is list and type(v) is tuple and len(o) == len(v) == 4
        assert canon(tuple(o)) == canon(v)
        checks += 1
        continue
    assert type(o) is type(v), n
    assert canon(o) == canon(v), n
    assert o == v, n
    checks += 1
for n in ("P_MINUS_9_DIV_16", "P_MINUS_3_DIV_4", "H_EFF_G1", "H_EFF_G2"):
    assert type(getattr(C, n)) is int and getattr(C, n) == getattr(old_C, n)
assert C.ISO_3_X_DENOMINATOR[0] is C.ISO_3_K_2_0 and C.ISO_3_X_DENOMINATOR[1] is C.ISO_3_K_2_1
assert C.ISO_3_MAP_COEFFICIENTS[1] is C.ISO_3_X_DENOMINATOR
# cached sgn0 of the rewritten constants agrees, too
for n in ("ISO_3_K_2_0", "ISO_3_K_2_1"):
    assert getattr(C, n).sgn0 == getattr(old_C, n).sgn0
# every use of ETAS only iterates it; iteration order and elements agree
assert [canon(e) for e in old_C.ETAS] == [canon(e) for e in C.ETAS]

# ------------------------------------------------------------------ inputs
half_lo, half_hi = (P - 1) // 2, (P + 1) // 2


def fq_sqrt(a):
    r = FQ(a) ** ((P + 1) // 4)
    return r if r * r == FQ(a) else None


fq_inputs = [FQ(x) for x in (0, 1, P - 1, 2, 3, 11, half_lo, half_hi, P - 2)]
# exceptional inputs of the G1 map: Z^2 u^4 + Z u^2 = 0  <=>  u = 0 or u^2 = -1/Z
r = fq_sqrt((-(FQ.one() / C.ISO_11_Z)).n)
if r is not None:
    fq_inputs += [r, -r]
    assert C.ISO_11_Z**2 * r**4 + C.ISO_11_Z * r**2 == FQ.zero()
fq_inputs += [FQ(rng.randrange(P)) for _ in range(60)]

fq2_inputs = [
    FQ2(c)
    for c in (
        [0, 0],
        [1, 0],
        [P - 1, 0],
        [0, 1],
        [0, P - 1],
        [1, 1],
        [half_lo, 0],
        [half_hi, 0],
        [0, half_lo],
        [0, half_hi],
        [half_lo, half_hi],
        [half_hi, half_lo],
        [P - 1, P - 1],
        [2, 0],
        [0, 2],
    )
]
r2 = modular_squareroot_in_FQ2(-(FQ2.one() / C.ISO_3_Z))
if r2 is not None:
    fq2_inputs += [r2, -r2]
    assert C.ISO_3_Z**2 * r2**4 + C.ISO_3_Z * r2**2 == FQ2.zero()
fq2_inputs += [FQ2([rng.randrange(P), 0]) for _ in range(4)]
fq2_inputs += [FQ2([0, rng.randrange(P)]) for _ in range(4)]
fq2_inputs += [FQ2([rng.randrange(P), rng.randrange(P)]) for _ in range(40)]

malformed = [
    None,
    0,
    1,
    -1,
    1.5,
    "1",
    b"\x01",
    (1, 2),
    [1, 2],
    BN_FQ(5),
]

# ------------------------------------------------------- sqrt_division_FQ(2)
for u in fq_inputs[:25]:
    for v in (FQ(0), FQ(1), FQ(P - 1), u, FQ(rng.randrange(P))):
        same("sqrt_division_FQ", old_swu.sqrt_division_FQ, new_swu.sqrt_division_FQ, u, v)
        same("sqrt_division_FQ*", old_swu.sqrt_division_FQ, pkg.optimized_swu.sqrt_division_FQ, u, v)
for u in fq2_inputs[:22]:
    for v in (FQ2.zero(), FQ2.one(), u, FQ2([rng.randrange(P), rng.randrange(P)])):
        same("sqrt_division_FQ2", old_swu.sqrt_division_FQ2, new_swu.sqrt_division_FQ2, u, v)
# squares always succeed, in both versions alike (same flag, same root)
for _ in range(10):
    s, v = FQ2([rng.randrange(P), rng.randrange(P)]), FQ2([rng.randrange(P), 1])
    res = same("sqrt_division_FQ2 sq", old_swu.sqrt_division_FQ2,
               new_swu.sqrt_division_FQ2, s * s * v, v)
    assert res[0] == "ok" and res[1][1] == ("bool", True)
# wrong classes / malformed arguments: same exception class (or same result)
for bad in malformed + [FQ2.one()]:
    same("sqrt_division_FQ bad", old_swu.sqrt_division_FQ, new_swu.sqrt_division_FQ, bad, FQ(3))
    same("sqrt_division_FQ bad", old_swu.sqrt_division_FQ, new_swu.sqrt_division_FQ, FQ(3), bad)
for bad in malformed + [FQ(7)]:
    same("sqrt_division_FQ2 bad", old_swu.sqrt_division_FQ2, new_swu.sqrt_division_FQ2, bad, FQ2([3, 4]))
    same("sqrt_division_FQ2 bad", old_swu.sqrt_division_FQ2, new_swu.sqrt_division_FQ2, FQ2([3, 4]), bad)
same("arity", old_swu.sqrt_division_FQ, new_swu.sqrt_division_FQ, FQ(1))
same("arity", old_swu.sqrt_division_FQ2, new_swu.sqrt_division_FQ2, FQ2.one())

# ----------------------------------------------------- SWU, isogeny, map_to_curve


def old_map_G1(u):
    return old_swu.iso_map_G1(*old_swu.optimized_swu_G1(u))


def old_map_G2(u):
    return old_swu.iso_map_G2(*old_swu.optimized_swu_G2(u))


for u in fq_inputs:
    res = same("swu_G1", old_swu.optimized_swu_G1, new_swu.optimized_swu_G1, u)
    assert res[0] == "ok"
    xyz = new_swu.optimized_swu_G1(u)
    same("iso_G1", old_swu.iso_map_G1, new_swu.iso_map_G1, *xyz)
    same("map_G1", old_map_G1, h2c.map_to_curve_G1, u)
    assert (xyz[1] / xyz[2]).sgn0 == u.sgn0, u  # sgn0(y) = sgn0(u) on E'
    assert is_on_curve(h2c.map_to_curve_G1(u), b)
for u in fq2_inputs:
    res = same("swu_G2", old_swu.optimized_swu_G2, new_swu.optimized_swu_G2, u)
    assert res[0] == "ok"
    xyz = new_swu.optimized_swu_G2(u)
    same("iso_G2", old_swu.iso_map_G2, new_swu.iso_map_G2, *xyz)
    same("map_G2", old_map_G2, h2c.map_to_curve_G2, u)
    assert (xyz[1] / xyz[2]).sgn0 == u.sgn0, u  # sgn0(y) = sgn0(u) on E'
    assert is_on_curve(h2c.map_to_curve_G2(u), b2)
# isogeny at z = 0 and at arbitrary (off-curve) triples
for _ in range(4):
    t1 = tuple(FQ(rng.randrange(P)) for _ in range(3))
    same("iso_G1 rnd", old_swu.iso_map_G1, new_swu.iso_map_G1, *t1)
    same("iso_G1 z0", old_swu.iso_map_G1, new_swu.iso_map_G1, t1[0], t1[1], FQ(0))
    t2 = tuple(FQ2([rng.randrange(P), rng.randrange(P)]) for _ in range(3))
    same("iso_G2 rnd", old_swu.iso_map_G2, new_swu.iso_map_G2, *t2)
    same("iso_G2 z0", old_swu.iso_map_G2, new_swu.iso_map_G2, t2[0], t2[1], FQ2.zero())
for bad in malformed + [FQ2([1, 2])]:
    same("swu_G1 bad", old_swu.optimized_swu_G1, new_swu.optimized_swu_G1, bad)
    same("map_G1 bad", old_map_G1, h2c.map_to_curve_G1, bad)
for bad in malformed + [FQ(5)]:
    same("swu_G2 bad", old_swu.optimized_swu_G2, new_swu.optimized_swu_G2, bad)
    same("map_G2 bad", old_map_G2, h2c.map_to_curve_G2, bad)

# --------------------------------------------------------- cofactor clearing
from py_ecc.optimized_bls12_381 import G1, G2, Z1, Z2  # noqa: E402

g1_pts = [G1, Z1, (FQ(0), FQ(0), FQ(0)), multiply(G1, 7), h2c.map_to_curve_G1(FQ(5))]
g2_pts = [G2, Z2, (FQ2.zero(), FQ2.zero(), FQ2.zero()), multiply(G2, 7),
          h2c.map_to_curve_G2(FQ2([5, 6]))]
for pt in g1_pts + g2_pts + malformed:
    same("cc_G1", old_cc.multiply_clear_cofactor_G1, new_cc.multiply_clear_cofactor_G1, pt)
    same("cc_G1*", old_cc.multiply_clear_cofactor_G1, h2c.clear_cofactor_G1, pt)
    same("cc_G2", old_cc.multiply_clear_cofactor_G2, new_cc.multiply_clear_cofactor_G2, pt)
    same("cc_G2*", old_cc.multiply_clear_cofactor_G2, h2c.clear_cofactor_G2, pt)
assert pkg.multiply_clear_cofactor_G1 is new_cc.multiply_clear_cofactor_G1
assert pkg.multiply_clear_cofactor_G2 is new_cc.multiply_clear_cofactor_G2

# ------------------------------------------------------------- full pipeline


def old_hash_to_G1(msg, dst, h):
    u0, u1 = h2c.hash_to_field_FQ(msg, 2, dst, h)
    return old_cc.multiply_clear_cofactor_G1(add(old_map_G1(u0), old_map_G1(u1)))


def old_hash_to_G2(msg, dst, h):
    u0, u1 = h2c.hash_to_field_FQ2(msg, 2, dst, h)
    return old_cc.multiply_clear_cofactor_G2(add(old_map_G2(u0), old_map_G2(u1)))


DST_G1 = b"QUUX-V01-CS02-with-BLS12381G1_XMD:SHA-256_SSWU_RO_"
DST_G2 = b"QUUX-V01-CS02-with-BLS12381G2_XMD:SHA-256_SSWU_RO_"
cases = [
    (b"", DST_G2, hashlib.sha256),
    (b"abc", DST_G2, hashlib.sha256),
    (b"abcdef0123456789", DST_G1, hashlib.sha256),
    (b"a" * 512, DST_G1, hashlib.sha256),
    (b"\x00", b"", hashlib.sha256),
    (b"msg", b"D" * 255, hashlib.sha256),
    (b"msg", b"D" * 256, hashlib.sha256),  # too long a tag: ValueError in both
    (b"msg", DST_G2, hashlib.sha512),
    (b"msg", DST_G1, hashlib.sha384),
    (b"msg", DST_G1, hashlib.sha3_256),
    (b"msg", DST_G2, hashlib.blake2b),
    (b"msg", DST_G2, hashlib.sha1),  # digest too short for 128-byte stretch? same outcome
    ("not bytes", DST_G2, hashlib.sha256),
    (b"msg", None, hashlib.sha256),
    (b"msg", DST_G2, None),
    (bytearray(b"msg"), bytearray(DST_G1), hashlib.sha256),
]
# repeated / interleaved calls: run the case list twice, second time reversed
for msg, dst, h in cases + cases[::-1]:
    r1 = same("hash_to_G1", old_hash_to_G1, h2c.hash_to_G1, msg, dst, h)
    r2 = same("hash_to_G2", old_hash_to_G2, h2c.hash_to_G2, msg, dst, h)
    if r1[0] == "ok":
        p1 = h2c.hash_to_G1(msg, dst, h)
        assert is_on_curve(p1, b) and is_inf(multiply(p1, curve_order))
    if r2[0] == "ok":
        p2 = h2c.hash_to_G2(msg, dst, h)
        assert is_on_curve(p2, b2) and is_inf(multiply(p2, curve_order))

# RFC 9380 J.9.1 / J.10.1 test vectors (msg = "") still hold on the edited tree
x, y = normalize(h2c.hash_to_G1(b"", DST_G1, hashlib.sha256))
assert x.n == 0x052926ADD2207B76CA4FA57A8734416C8DC95E24501772C814278700EED6D1E4E8CF62D9C09DB0FAC349612B759E79A1  # noqa: E501
assert y.n == 0x08BA738453BFED09CB546DBB0783DBB3A5F1F566ED67BB6BE0E8C67E2E81A4CC68EE29813BB7994998F3EAE0C9C6A265  # noqa: E501
x, y = normalize(h2c.hash_to_G2(b"", DST_G2, hashlib.sha256))
assert x.coeffs[0] == 0x0141EBFBDCA40EB85B87142E130AB689C673CF60F1A3E98D69335266F30D9B8D4AC44C1038E9DCDD5393FAF5C41FB78A  # noqa: E501
assert x.coeffs[1] == 0x05CB8437535E20ECFFAEF7752BADDF98034139C38452458BAEEFAB379BA13DFF5BF5DD71B72418717047F5B0F37DA03D  # noqa: E501
assert y.coeffs[0] == 0x0503921D7F6A12805E72940B963C0CF3471C7B2A524950CA195D11062EE75EC076DAF2D4BC358C4B190C0C98064FDD92  # noqa: E501
assert y.coeffs[1] == 0x12424AC32561493F3FE3C260708A12B7C620E7BE00099A974E259DDC7D1F6395C3C811CDD19F1E8DBF3E9ECFDCBAB8D6  # noqa: E501

# no call mutated a module-level constant: re-compare everything once more
for n in sorted(old_names - {"FQ", "FQ2", "ETAS"}):
    assert canon(getattr(old_C, n)) == canon(getattr(C, n)), n
assert canon(tuple(old_C.ETAS)) == canon(C.ETAS) and len(C.ETAS) == 4

print("s2 equivalent: %d comparisons, %.1fs" % (checks, time.time() - T0))
