import os, sys; sys.path.insert(0, os.getcwd())  # noqa: E401,E702
"""
Equivalence demonstration for C14/s2.

s2 rewrites the constants in py_ecc/fields/field_properties.py: the two field
moduli become expressions in the curve parameters (BN u, BLS x), the (1, 0)
quadratic modulus gets a name, and the degree-12 modulus coefficient tuples are
produced by a helper from xi = a + b*i.  All are asserted at import against the
former literals.

This script loads the PRISTINE field_properties.py and the PRISTINE
py_ecc/fields/__init__.py (saved next to this file) under other module names,
and checks that the published table, every field class attribute and every
arithmetic result / exception class is identical, values AND types.
"""
import importlib
import importlib.util
import random
import subprocess
import types

HERE = os.path.dirname(os.path.abspath(__file__))
PRISTINE = os.path.join(HERE, "pristine")

import py_ecc.fields as new_F  # noqa: E402
import py_ecc.fields.field_elements as ref_mod  # noqa: E402
import py_ecc.fields.optimized_field_elements as opt_mod  # noqa: E402

# (``import py_ecc.fields.field_properties as x`` would bind the dict of the same
# name that the package re-exports, not the module)
new_fp = importlib.import_module("py_ecc.fields.field_properties")
assert isinstance(new_fp, types.ModuleType)
assert os.path.realpath(new_fp.__file__).startswith(os.path.realpath(os.getcwd()))

# pristine field_properties under another name
spec = importlib.util.spec_from_file_location(
    "pristine_fields.field_properties", os.path.join(PRISTINE, "field_properties.py")
)
old_fp = importlib.util.module_from_spec(spec)
# pristine package __init__ executed as package ``pristine_fields`` whose submodules
# are: the pristine field_properties, and the (untouched) element modules
pkg_spec = importlib.util.spec_from_file_location(
    "pristine_fields", os.path.join(PRISTINE, "__init__.py"), submodule_search_locations=[]
)
old_F = importlib.util.module_from_spec(pkg_spec)
sys.modules["pristine_fields"] = old_F
sys.modules["pristine_fields.field_properties"] = old_fp
sys.modules["pristine_fields.field_elements"] = ref_mod
sys.modules["pristine_fields.optimized_field_elements"] = opt_mod
spec.loader.exec_module(old_fp)
pkg_spec.loader.exec_module(old_F)
assert old_F.field_properties is old_fp.field_properties
assert old_fp.field_properties is not new_fp.field_properties
assert new_F.field_properties is new_fp.field_properties

rng = random.Random(0xC1402)

checks = 0


def outcome(f, *a):
    try:
        return ("ok", f(*a))
    except RecursionError:
        raise
    except BaseException as e:  # noqa: B902
        return ("exc", type(e).__name__)


def canon(v):
    """Canonical, module-independent form of a result."""
    if isinstance(v, bool):
        return ("bool", v)
    if isinstance(v, int):
        return ("int", v)
    if isinstance(v, (list, tuple)):
        return (type(v).__name__, tuple(canon(x) for x in v))
    if hasattr(v, "coeffs"):
        return (
            "FQP",
            tuple(canon(c) for c in v.coeffs),
            tuple(canon(c) for c in v.modulus_coeffs),
            v.degree,
        )
    if hasattr(v, "n") and hasattr(v, "field_modulus"):
        return ("FQ", v.n, v.field_modulus)
    if v is None or isinstance(v, str):
        return v
    return ("other", type(v).__name__)


def same(tag, fo, ao, fn, an):
    global checks
    ro, rn = outcome(fo, *ao), outcome(fn, *an)
    co = (ro[0], canon(ro[1]) if ro[0] == "ok" else ro[1])
    cn = (rn[0], canon(rn[1]) if rn[0] == "ok" else rn[1])
    assert co == cn, (tag, co, cn)
    checks += 1
    return ro, rn



def elem_values(p, k):
    special = [0, 1, 2, p - 1, p - 2, p, p + 1, -1, (p + 1) // 2, (p - 1) // 2]
    return [rng.choice(special) if rng.random() < 0.45 else rng.randrange(-p, 2 * p) for _ in range(k)]


def coeff_of(v):
    if hasattr(v, "coeffs"):
        return tuple(int(c) for c in v.coeffs)
    return (int(v),)


def sgn0_rfc(coeffs):
    sign, zero = 0, 1
    for x in coeffs:
        sign_i = x % 2
        zero_i = int(x == 0)
        sign = sign | (zero & sign_i)
        zero = zero & zero_i
    return sign


BIN = ["add", "sub", "mul", "div", "eq", "ne", "radd", "rsub", "rmul", "rdiv", "lt", "le", "gt", "ge"]


def apply_op(op, x, y):
    if op == "add":
        return x + y
    if op == "sub":
        return x - y
    if op == "mul":
        return x * y
    if op == "div":
        return x / y
    if op == "eq":
        return x == y
    if op == "ne":
        return x != y
    if op == "radd":
        return y + x
    if op == "rsub":
        return y - x
    if op == "rmul":
        return y * x
    if op == "rdiv":
        return y / x
    if op == "lt":
        return x < y
    if op == "le":
        return x <= y
    if op == "gt":
        return x > y
    if op == "ge":
        return x >= y
    raise AssertionError(op)




# ----------------------------------------------------------- the published table
def typed(v):
    """value together with the exact type of every node"""
    if isinstance(v, dict):
        return ("dict", tuple((typed(k), typed(x)) for k, x in v.items()))  # order too
    if isinstance(v, (tuple, list)):
        return (type(v).__name__, tuple(typed(x) for x in v))
    return (type(v).__name__, v)


assert typed(old_fp.field_properties) == typed(new_fp.field_properties)
assert type(new_fp.field_properties) is dict
for cur in ("bn128", "bls12_381"):
    o, n = old_fp.field_properties[cur], new_fp.field_properties[cur]
    assert list(o) == list(n) == ["field_modulus", "fq2_modulus_coeffs", "fq12_modulus_coeffs"]
    assert type(n["field_modulus"]) is int and n["field_modulus"] == o["field_modulus"]
    for k in ("fq2_modulus_coeffs", "fq12_modulus_coeffs"):
        assert type(n[k]) is tuple and n[k] == o[k] and len(n[k]) == len(o[k])
        assert all(type(c) is int for c in n[k])
        assert hash(n[k]) == hash(o[k]) and repr(n[k]) == repr(o[k])
    assert repr(o) == repr(n)
# every public name of the pristine module is still there with an equal value
for nm in dir(old_fp):
    if not nm.startswith("_"):
        assert hasattr(new_fp, nm), nm
assert list(new_fp.Curve_Field_Properties.__annotations__) == list(
    old_fp.Curve_Field_Properties.__annotations__
)

# re-importing / reloading gives an equal table again (no hidden state)
snapshot = typed(new_fp.field_properties)
importlib.reload(new_fp)
assert typed(new_fp.field_properties) == snapshot
# also under -O (asserts stripped) the table is the same
out = subprocess.run(
    [sys.executable, "-O", "-c",
     "from py_ecc.fields.field_properties import field_properties as f; print(repr(f))"],
    check=True, cwd=os.getcwd(), capture_output=True, text=True,
).stdout.strip()
assert out == repr(old_fp.field_properties), out

# ------------------------------------------------------------- class attributes
NAMES = [
    f"{pre}{cur}_{k}"
    for pre in ("", "optimized_")
    for cur in ("bn128", "bls12_381")
    for k in ("FQ", "FQP", "FQ2", "FQ12")
]
for nm in NAMES:
    co, cn = getattr(old_F, nm), getattr(new_F, nm)
    assert co is not cn
    assert [b.__module__ + "." + b.__name__ if b.__module__.startswith("py_ecc.fields.") else b.__name__
            for b in co.__mro__[1:]] == \
           [b.__module__ + "." + b.__name__ if b.__module__.startswith("py_ecc.fields.") else b.__name__
            for b in cn.__mro__[1:]]
    for attr in ("field_modulus", "FQ2_MODULUS_COEFFS", "FQ12_MODULUS_COEFFS", "degree"):
        assert hasattr(co, attr) == hasattr(cn, attr), (nm, attr)
        if hasattr(co, attr):
            assert typed(getattr(co, attr)) == typed(getattr(cn, attr)), (nm, attr)
    checks += 1

# modules that copy the modulus out of the table
for modname, cur in [
    ("py_ecc.bn128.bn128_curve", "bn128"), ("py_ecc.bn128.bn128_pairing", "bn128"),
    ("py_ecc.optimized_bn128.optimized_curve", "bn128"), ("py_ecc.optimized_bn128.optimized_pairing", "bn128"),
    ("py_ecc.bls12_381.bls12_381_curve", "bls12_381"), ("py_ecc.bls12_381.bls12_381_pairing", "bls12_381"),
    ("py_ecc.optimized_bls12_381.optimized_curve", "bls12_381"),
    ("py_ecc.optimized_bls12_381.optimized_pairing", "bls12_381"),
]:
    m = importlib.import_module(modname)
    assert type(m.field_modulus) is int
    assert m.field_modulus == old_fp.field_properties[cur]["field_modulus"], modname
    checks += 1

# --------------------------------------------------- arithmetic in lock step
P = {c: old_fp.field_properties[c]["field_modulus"] for c in ("bn128", "bls12_381")}


def run_programs(cur, pre, kind, n_steps):
    p = P[cur]
    co, cn = getattr(old_F, f"{pre}{cur}_{kind}"), getattr(new_F, f"{pre}{cur}_{kind}")
    d = {"FQ": 1, "FQ2": 2, "FQ12": 12}[kind]
    starts = []
    for _ in range(5):
        vals = elem_values(p, d)
        starts.append(vals[0] if kind == "FQ" else vals)
    if kind != "FQ":
        starts += [[0] * d, [1] + [0] * (d - 1), [0] * (d - 1) + [1], [p - 1] * d]
    else:
        starts += [0, 1, p - 1, p, -1]
    po, pn = [co(s) for s in starts], [cn(s) for s in starts]
    for step in range(n_steps):
        r = rng.random()
        i = rng.randrange(len(po))
        xo, xn = po[i], pn[i]
        tag = (cur, pre, kind, step)
        if r < 0.55:
            op = rng.choice(BIN)
            q = rng.random()
            if q < 0.35:
                yo = yn = rng.choice([0, 1, 2, -1, p, p - 1, -p, rng.randrange(-p, 2 * p)])
            elif q < 0.42:
                yo = yn = rng.choice([None, 1.5, "x", (1, 2)])
            else:
                j = rng.randrange(len(po))
                yo, yn = po[j], pn[j]
            ro, rn = same(tag + (op,), apply_op, (op, xo, yo), apply_op, (op, xn, yn))
        elif r < 0.65:
            ro, rn = same(tag + ("neg",), lambda v: -v, (xo,), lambda v: -v, (xn,))
        elif r < 0.78:
            e = rng.choice([0, 1, 2, 3, 5, p, p - 1, p - 2, -1, rng.randrange(0, 2**20)])
            ro, rn = same(tag + ("pow", e), lambda v: v**e, (xo,), lambda v: v**e, (xn,))
        elif r < 0.88:
            if kind == "FQ":
                ro, rn = same(tag + ("inv",), lambda v: 1 / v, (xo,), lambda v: 1 / v, (xn,))
            else:
                ro, rn = same(tag + ("inv",), lambda v: v.inv(), (xo,), lambda v: v.inv(), (xn,))
        elif r < 0.94:
            if pre:
                ro, rn = same(tag + ("sgn0",), lambda v: v.sgn0, (xo,), lambda v: v.sgn0, (xn,))
                assert rn == ("ok", sgn0_rfc(coeff_of(xn)))
                assert xn.sgn0 == rn[1]
            continue
        else:
            what = rng.choice(["repr", "one", "zero"])
            if what == "repr":
                ro, rn = same(tag + (what,), repr, (xo,), repr, (xn,))
            else:
                ro, rn = same(tag + (what,), getattr(co, what), (), getattr(cn, what), ())
        if ro[0] == "ok" and not isinstance(ro[1], (bool, int, str)):
            po.append(ro[1])
            pn.append(rn[1])
            assert type(rn[1]) is cn and type(ro[1]) is co
            if kind != "FQ":
                # instance state derived from the constants
                assert typed(ro[1].modulus_coeffs) == typed(rn[1].modulus_coeffs)
                if pre:
                    assert typed(ro[1].mc_tuples) == typed(rn[1].mc_tuples)
    for s, eo, en in zip(starts, po, pn):
        want = tuple(x % p for x in (s if isinstance(s, list) else [s]))
        assert coeff_of(eo) == want and coeff_of(en) == want
    return pn


for cur in ("bn128", "bls12_381"):
    for kind, steps in (("FQ", 200), ("FQ2", 120), ("FQ12", 14)):
        pools = {}
        # the same random script for the reference and the optimized classes
        for pre in ("", "optimized_"):
            state = rng.getstate()
            rng.setstate(random.Random(f"{cur}/{kind}").getstate())
            pools[pre] = run_programs(cur, pre, kind, steps)
            rng.setstate(state)
            rng.random()
        # the property itself on the edited tree: optimized == reference
        a, b = pools[""], pools["optimized_"]
        assert len(a) == len(b) > 9, (cur, kind, len(a), len(b))
        for x, y in zip(a, b):
            assert coeff_of(x) == coeff_of(y), (cur, kind, "opt-vs-ref")

# generic FQP base classes of the library with the published modulus coefficients
for pre in ("", "optimized_"):
    for cur in ("bn128", "bls12_381"):
        co, cn = getattr(old_F, f"{pre}{cur}_FQP"), getattr(new_F, f"{pre}{cur}_FQP")
        for key in ("fq2_modulus_coeffs", "fq12_modulus_coeffs"):
            mo, mn = old_fp.field_properties[cur][key], new_fp.field_properties[cur][key]
            for _ in range(4):
                a = elem_values(P[cur], len(mo))
                same((pre, cur, key, "ctor"), co, (a, mo), cn, (a, mn))
                same((pre, cur, key, "ctor-short"), co, (a[:-1], mo), cn, (a[:-1], mn))
                xo, xn = co(a, mo), cn(a, mn)
                assert typed(xo.modulus_coeffs) == typed(xn.modulus_coeffs)
                same((pre, cur, key, "neg"), lambda v: -v, (xo,), lambda v: -v, (xn,))

# hash-to-curve / sgn0 users: a quick end-to-end value that depends on the moduli
from py_ecc.optimized_bls12_381 import G1, G2, multiply, normalize, pairing  # noqa: E402
from py_ecc.optimized_bn128 import G1 as bG1, multiply as bmul, normalize as bnorm  # noqa: E402

x, y = normalize(multiply(G1, 7))
assert type(x.n) is int and (y * y - x * x * x - 4).n == 0
x, y = bnorm(bmul(bG1, 7))
assert type(x.n) is int and (y * y - x * x * x - 3).n == 0
e = pairing(G2, G1)
assert e ** 52435875175126190479447740508185965837690552500527637822603658699938581184513 == type(e).one()

print(f"equiv s2: OK ({checks} paired checks)")
