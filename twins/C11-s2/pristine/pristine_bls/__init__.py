from .ciphersuites import (
    G2Basic,
    G2MessageAugmentation,
    G2ProofOfPossession,
)
