from typing import (
    NewType,
    Tuple,
)

from py_ecc.fields import (
    optimized_bls12_381_FQ,
    optimized_bls12_381_FQ2,
)
from py_ecc.typing import (
    Optimized_Point3D,
)

G1Uncompressed = Optimized_Point3D[optimized_bls12_381_FQ]
G1Compressed = NewType("G1Compressed", int)

G2Uncompressed = Optimized_Point3D[optimized_bls12_381_FQ2]
G2Compressed = NewType("G2Compressed", Tuple[int, int])
