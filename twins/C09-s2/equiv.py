import os, sys; sys.path.insert(0, os.getcwd())  # noqa: E401,E702
"""
C09 / s2 equivalence demonstration.

Edit (how constants are written):
 * py_ecc/bls/constants.py gains FQ_BYTE_LENGTH = 48, PUBKEY_LENGTH, SIGNATURE_LENGTH and
   the four suite tags built as b"BLS_SIG_"/b"BLS_POP_" + H2C_SUITE_ID + scheme tag
   (asserted equal to the published literals at import);
 * ciphersuites.py uses those names instead of the literals 48 / 96 and the four
   byte-string literals; g2_primitives.py uses FQ_BYTE_LENGTH instead of 48;
 * optimized_bls12_381/optimized_curve.py writes curve_order as x**4 - x**2 + 1 for the
   BLS parameter x = -0xd201000000010000 (asserted equal to the decimal literal).

Checks
 A. every constant has the same value AND type as in the pristine modules (loaded with
    importlib under other names), pre-existing constants of constants.py are unchanged,
    and no pre-existing public name disappeared;
 B. pristine ciphersuites.py + g2_primitives.py (pristine chain) against the edited ones,
    side by side, on validators, SkToPk, Sign, PopProve, Aggregate, serialisers,
    including boundary lengths 47/48/49/95/96/97 and malformed inputs;
 C. the whole public-API case list reproduces ref.json (recorded on the pristine tree);
 D. replay / shuffled interleaving gives the same answers again.
"""
import importlib.util
import json
import random

here = os.path.dirname(os.path.abspath(__file__))
sys.path.insert(1, here)
import cases  # noqa: E402

import py_ecc  # noqa: E402

assert os.path.realpath(py_ecc.__file__).startswith(
    os.path.realpath(os.getcwd())
), "run me with the worktree as the current directory"

from py_ecc.bls import ciphersuites, constants, g2_primitives  # noqa: E402
from py_ecc.optimized_bls12_381 import optimized_curve  # noqa: E402
import py_ecc.optimized_bls12_381 as ob  # noqa: E402

failures = []


def check(cond, what):
    if not cond:
        failures.append(what)
        print("FAIL:", what)


def load_pristine(pkg, fname, modname):
    spec = importlib.util.spec_from_file_location(
        pkg + "." + modname, os.path.join(here, "pristine", fname)
    )
    mod = importlib.util.module_from_spec(spec)
    sys.modules[spec.name] = mod
    spec.loader.exec_module(mod)
    return mod


p_curve = load_pristine("py_ecc.optimized_bls12_381", "optimized_curve.py", "_pristine_optimized_curve")
p_const = load_pristine("py_ecc.bls", "constants.py", "_pristine_constants")
# pristine chain: while loading, `.g2_primitives` / `.constants` resolve to pristine copies
saved = {k: sys.modules[k] for k in ("py_ecc.bls.constants", "py_ecc.bls.g2_primitives")}
sys.modules["py_ecc.bls.constants"] = p_const
try:
    p_g2p = load_pristine("py_ecc.bls", "g2_primitives.py", "_pristine_g2_primitives")
    sys.modules["py_ecc.bls.g2_primitives"] = p_g2p
    p_cs = load_pristine("py_ecc.bls", "ciphersuites.py", "_pristine_ciphersuites")
finally:
    sys.modules.update(saved)
check(p_cs.G1_to_pubkey is p_g2p.G1_to_pubkey, "pristine chain")
check(ciphersuites.G1_to_pubkey is g2_primitives.G1_to_pubkey, "edited chain")
check(not hasattr(p_const, "FQ_BYTE_LENGTH") and not hasattr(p_g2p, "FQ_BYTE_LENGTH"),
      "pristine copies really are pristine")

# ---------------------------------------------------------------- A. constants
R_LIT = 52435875175126190479447740508185965837690552500527637822603658699938581184513
check(optimized_curve.curve_order == p_curve.curve_order == R_LIT, "curve_order value")
check(type(optimized_curve.curve_order) is int is type(p_curve.curve_order), "curve_order type")
check(ob.curve_order is optimized_curve.curve_order, "package re-export of curve_order")
check(ciphersuites.curve_order == R_LIT and g2_primitives.curve_order == R_LIT, "users")
check(type(optimized_curve.bls_x) is int and optimized_curve.bls_x == -15132376222941642752,
      "bls_x")
check(optimized_curve.field_modulus == p_curve.field_modulus, "field_modulus untouched")
for nm in ("b", "b2", "b12", "G1", "G2", "G12", "Z1", "Z2"):
    check(cases._enc(getattr(optimized_curve, nm)) == cases._enc(getattr(p_curve, nm)),
          f"optimized_curve.{nm}")
for mod_new, mod_old in ((optimized_curve, p_curve), (constants, p_const),
                         (g2_primitives, p_g2p), (ciphersuites, p_cs)):
    missing = [n for n in vars(mod_old) if not n.startswith("__") and not hasattr(mod_new, n)]
    check(not missing, f"names lost from {mod_new.__name__}: {missing}")
for nm in ("G2_COFACTOR", "FQ2_ORDER", "POW_2_381", "POW_2_382", "POW_2_383", "POW_2_384",
           "HASH_TO_FIELD_L"):
    a, b_ = getattr(constants, nm), getattr(p_const, nm)
    check(a == b_ and type(a) is type(b_) is int, f"constants.{nm}")
check(constants.EIGHTH_ROOTS_OF_UNITY == p_const.EIGHTH_ROOTS_OF_UNITY
      and type(constants.EIGHTH_ROOTS_OF_UNITY) is tuple, "EIGHTH_ROOTS_OF_UNITY")
check((constants.FQ_BYTE_LENGTH, constants.PUBKEY_LENGTH, constants.SIGNATURE_LENGTH) == (48, 48, 96)
      and all(type(v) is int for v in (constants.FQ_BYTE_LENGTH, constants.PUBKEY_LENGTH,
                                       constants.SIGNATURE_LENGTH)), "size constants")
PUBLISHED = {
    "G2Basic": b"BLS_SIG_BLS12381G2_XMD:SHA-256_SSWU_RO_NUL_",
    "G2MessageAugmentation": b"BLS_SIG_BLS12381G2_XMD:SHA-256_SSWU_RO_AUG_",
    "G2ProofOfPossession": b"BLS_SIG_BLS12381G2_XMD:SHA-256_SSWU_RO_POP_",
}
for cname, lit in PUBLISHED.items():
    new, old = getattr(ciphersuites, cname), getattr(p_cs, cname)
    check(new.DST == old.DST == lit and type(new.DST) is bytes is type(old.DST), f"{cname}.DST")
    check(len(new.DST) == 43, f"{cname}.DST length")
check(ciphersuites.BaseG2Ciphersuite.DST == p_cs.BaseG2Ciphersuite.DST == b"", "base DST")
POP_LIT = b"BLS_POP_BLS12381G2_XMD:SHA-256_SSWU_RO_POP_"
check(ciphersuites.G2ProofOfPossession.POP_TAG == p_cs.G2ProofOfPossession.POP_TAG == POP_LIT
      and type(ciphersuites.G2ProofOfPossession.POP_TAG) is bytes, "POP_TAG")
check(not hasattr(ciphersuites.G2Basic, "POP_TAG"), "no POP_TAG leaked onto other suites")
import py_ecc.bls as bls_pkg  # noqa: E402
check(bls_pkg.G2Basic is ciphersuites.G2Basic
      and bls_pkg.G2ProofOfPossession is ciphersuites.G2ProofOfPossession
      and bls_pkg.G2MessageAugmentation is ciphersuites.G2MessageAugmentation, "package exports")
print("A: constants compared")


# ------------------------------------------------- B. side by side
def outcome(fn, *a):
    try:
        return ("ok", cases._enc(fn(*a)))
    except BaseException as e:  # noqa: B902
        return ("exc", type(e).__name__)


n_cmp = 0


def same(label, f_old, f_new, *a):
    global n_cmp
    n_cmp += 1
    o, n = outcome(f_old, *a), outcome(f_new, *a)
    check(o == n, f"{label}{a!r:.80}: {o!r:.80} != {n!r:.80}")
    return n


from py_ecc.optimized_bls12_381 import (  # noqa: E402
    G1, G2, Z1, Z2, add, curve_order, double, multiply, neg,
)
from py_ecc.fields import optimized_bls12_381_FQ as FQ  # noqa: E402
from py_ecc.fields import optimized_bls12_381_FQ2 as FQ2  # noqa: E402

rng = random.Random(92)
SUITES = ["G2Basic", "G2MessageAugmentation", "G2ProofOfPossession"]
r = curve_order
sks = [1, 2, r - 1, r - 2, r // 2, 2**254 % r] + [rng.randrange(1, r) for _ in range(10)]
bad_sks = [0, -1, r, r + 1, 2 * r - 1, 2**256, 2**512, "1", 1.5, None, b"\x01", True, False, [1]]

pk5 = ciphersuites.G2Basic.SkToPk(5)
sig5 = ciphersuites.G2Basic.Sign(5, b"m")
blobs = [b"", b"\x00" * 47, b"\x00" * 48, b"\x00" * 49, b"\x00" * 95, b"\x00" * 96, b"\x00" * 97,
         pk5, pk5[:47], pk5 + b"\x00", sig5, sig5[:95], sig5 + b"\x00", pk5 + pk5,
         bytearray(pk5), bytearray(sig5), memoryview(pk5), pk5.hex(), sig5.hex(),
         list(pk5), tuple(sig5), None, 48, 96, "x" * 48, "x" * 96,
         b"\xc0" + b"\x00" * 47, b"\xc0" + b"\x00" * 95]
for cname in SUITES + ["BaseG2Ciphersuite"]:
    new, old = getattr(ciphersuites, cname), getattr(p_cs, cname)
    for b_ in blobs:
        same(cname + "._is_valid_pubkey", old._is_valid_pubkey, new._is_valid_pubkey, b_)
        same(cname + "._is_valid_signature", old._is_valid_signature, new._is_valid_signature, b_)
        same(cname + "._is_valid_message", old._is_valid_message, new._is_valid_message, b_)
        if cname == "G2Basic":  # a staticmethod inherited unchanged by every suite
            same(cname + ".KeyValidate", old.KeyValidate, new.KeyValidate, b_)
    for sk in sks + bad_sks:
        same(cname + "._is_valid_privkey", old._is_valid_privkey, new._is_valid_privkey, sk)
        same(cname + ".SkToPk", old.SkToPk, new.SkToPk, sk)

msgs = [b"", b"abc", b"\x00" * 48, pk5, rng.randbytes(200)]
collected = [sig5]
for ci, cname in enumerate(SUITES):
    new, old = getattr(ciphersuites, cname), getattr(p_cs, cname)
    for i, sk in enumerate([1, r - 1, sks[6 + ci], sks[9 + ci]]):
        m = msgs[(i + ci) % len(msgs)]
        res = same(cname + ".Sign", old.Sign, new.Sign, sk, m)
        if res[0] == "ok":
            collected.append(bytes.fromhex(res[1][1]))
        # Sign must be _CoreSign with the suite DST
        m_in = (new.SkToPk(sk) + m) if cname == "G2MessageAugmentation" else m
        direct = outcome(old._CoreSign, sk, m_in, PUBLISHED[cname])
        check(direct == res, cname + ": Sign == pristine _CoreSign(published DST)")
    for sk in bad_sks[:6]:
        same(cname + ".Sign", old.Sign, new.Sign, sk, b"abc")
    for m in ("abc", bytearray(b"abc"), None):
        same(cname + ".Sign", old.Sign, new.Sign, 7, m)
    same(cname + ".KeyGen", old.KeyGen, new.KeyGen, b"\x01" * 32)
    same(cname + ".KeyGen", old.KeyGen, new.KeyGen, b"", b"info")
oldP, newP = p_cs.G2ProofOfPossession, ciphersuites.G2ProofOfPossession
for sk in [1, r - 1, sks[7]] + bad_sks[:6]:
    res = same("PopProve", oldP.PopProve, newP.PopProve, sk)
    if res[0] == "ok":
        collected.append(bytes.fromhex(res[1][1]))
        check(outcome(oldP._CoreSign, sk, newP.SkToPk(sk), POP_LIT) == res,
              "PopProve == pristine _CoreSign(pk, published POP tag)")

inf_sig = b"\xc0" + b"\x00" * 95
negs = g2_primitives.G2_to_signature(neg(g2_primitives.signature_to_G2(sig5)))
agg_inputs = [[], (), [sig5], [sig5, sig5], [sig5, negs], [inf_sig], [inf_sig, sig5], collected,
              collected[::-1], collected[:3], tuple(collected[3:9]), [sig5[:95]], [sig5 + b"\x00"],
              [sig5, b""], [b"\x00" * 96], [b"\xff" * 96], [b"\xe0" + b"\x00" * 95],
              [bytearray(sig5)], [sig5.hex()], [None], None, [sig5, pk5], [pk5 + pk5]]
for cname in SUITES:
    new, old = getattr(ciphersuites, cname), getattr(p_cs, cname)
    for a in agg_inputs:
        same(cname + ".Aggregate", old.Aggregate, new.Aggregate, a)
pks = [newP.SkToPk(s) for s in sks[:5]]
for a in ([], pks, pks[:1], [pk5, pk5], [pks[0], b"\xc0" + b"\x00" * 47], [pk5[:47]], [pk5 + b"\x00"],
          [b"\x00" * 48], [None], None):
    same("_AggregatePKs", oldP._AggregatePKs, newP._AggregatePKs, a)

# serialisers
for k in [0, 1, 2, r - 1, r, r + 1] + [rng.randrange(1, r) for _ in range(4)]:
    p1, p2 = multiply(G1, k), multiply(G2, k)
    pk = same("G1_to_pubkey", p_g2p.G1_to_pubkey, g2_primitives.G1_to_pubkey, p1)
    sg = same("G2_to_signature", p_g2p.G2_to_signature, g2_primitives.G2_to_signature, p2)
    pk, sg = bytes.fromhex(pk[1][1]), bytes.fromhex(sg[1][1])
    check(len(pk) == 48 and len(sg) == 96, "serialised sizes")
    for bad in (pk, pk[:47], pk + b"\x00", bytes([pk[0] ^ 0x80]) + pk[1:], bytes([pk[0] ^ 0x40]) + pk[1:],
                bytes([pk[0] ^ 0x20]) + pk[1:], pk[:-1] + bytes([pk[-1] ^ 1]), bytearray(pk), pk.hex(),
                None, b""):
        same("pubkey_to_G1", p_g2p.pubkey_to_G1, g2_primitives.pubkey_to_G1, bad)
    for bad in (sg, sg[:95], sg[:48], sg[:47], sg + b"\x00", bytes([sg[0] ^ 0x80]) + sg[1:],
                bytes([sg[0] ^ 0x40]) + sg[1:], bytes([sg[0] ^ 0x20]) + sg[1:],
                sg[:48] + bytes([sg[48] | 0x80]) + sg[49:], sg[:-1] + bytes([sg[-1] ^ 1]),
                sg[48:] + sg[:48], bytearray(sg), sg.hex(), list(sg), None, b"", 5):
        same("signature_to_G2", p_g2p.signature_to_G2, g2_primitives.signature_to_G2, bad)
for pt in (Z1, (FQ(3), FQ(9), FQ(0)), (G1[0] * 7, G1[1] * 7, G1[2] * 7), neg(G1), double(G1),
           add(G1, double(G1)), None, (FQ(1), FQ(1), FQ(1))):
    same("G1_to_pubkey", p_g2p.G1_to_pubkey, g2_primitives.G1_to_pubkey, pt)
for pt in (Z2, (FQ2([3, 1]), FQ2([9, 2]), FQ2.zero()), (G2[0] * 7, G2[1] * 7, G2[2] * 7), neg(G2),
           double(G2), add(G2, double(G2)), None, (FQ2.one(), FQ2.one(), FQ2.one()),
           (FQ2.zero(), FQ2.zero(), FQ2.zero())):
    same("G2_to_signature", p_g2p.G2_to_signature, g2_primitives.G2_to_signature, pt)
for pt in (G1, G2, Z1, Z2, multiply(G2, r - 1)):
    same("subgroup_check", p_g2p.subgroup_check, g2_primitives.subgroup_check, pt)

# verification direction, old against new, crossing the two implementations
pk1 = newP.SkToPk(1)
s_new = newP.Sign(1, b"abc")
same("Verify", oldP.Verify, newP.Verify, pk1, b"abc", s_new)
same("Verify", oldP.Verify, newP.Verify, pk1, b"abd", s_new)
same("Verify", oldP.Verify, newP.Verify, pk1 + b"\x00", b"abc", s_new)
same("Verify", oldP.Verify, newP.Verify, pk1, b"abc", s_new + b"\x00")
pr = newP.PopProve(1)
same("PopVerify", oldP.PopVerify, newP.PopVerify, pk1, pr)
same("PopVerify", oldP.PopVerify, newP.PopVerify, pk1, s_new)
oldA, newA = p_cs.G2MessageAugmentation, ciphersuites.G2MessageAugmentation
s_aug = newA.Sign(1, b"abc")
same("AUG.Verify", oldA.Verify, newA.Verify, pk1, b"abc", s_aug)
same("AUG.AggregateVerify", oldA.AggregateVerify, newA.AggregateVerify, [pk1], [b"abc"], s_aug)
same("POP.FastAggregateVerify", oldP.FastAggregateVerify, newP.FastAggregateVerify, [pk1], b"abc", s_new)
print("B: side-by-side comparisons:", n_cmp)

# ------------------------------------------------- C. full case list vs ref.json
with open(os.path.join(here, "ref.json")) as f:
    ref = json.load(f)
got = json.loads(json.dumps(cases.run_cases(heavy=True)))
check(set(got) == set(ref), "same case ids")
nbad = 0
for k in sorted(ref):
    if got.get(k) != ref[k]:
        nbad += 1
        check(False, f"case {k}: ref {ref[k]!r:.90} got {got.get(k)!r:.90}")
print(f"C: {len(ref)} public-API cases compared with the pristine reference, {nbad} differ")

# ------------------------------------------------- D. call-history independence
light = json.loads(json.dumps(cases.run_cases(heavy=False)))
for k, v in light.items():
    check(ref.get(k) == v, f"replayed case {k} changed: {ref.get(k)!r:.80} -> {v!r:.80}")
seq = []
for rep in range(2):
    for cname, nm in (("G2ProofOfPossession", "POP"), ("G2Basic", "NUL"), ("G2MessageAugmentation", "AUG")):
        S = getattr(ciphersuites, cname)
        seq.append((f"SkToPk/{nm}/v4", S.SkToPk, (r - 1,)))
        seq.append((f"Sign/{nm}/v0/m2", S.Sign, (1, b"abc")))
        seq.append((f"SkToPk/{nm}/bad0", S.SkToPk, (0,)))
        seq.append((f"Sign/{nm}/v0/m0", S.Sign, (1, b"")))
        seq.append((f"Aggregate/{nm}/0", S.Aggregate, ([],)))
    seq.append(("PopProve/v0", ciphersuites.G2ProofOfPossession.PopProve, (1,)))
rng.shuffle(seq)
for k, fn, a in seq:
    o = outcome(fn, *a)
    check(list(o) == ref[k], f"interleaved {k}: {o!r:.80} vs {ref[k]!r:.80}")
# constants were not mutated by any of the above
for cname, lit in PUBLISHED.items():
    check(getattr(ciphersuites, cname).DST == lit, "DST intact after calls")
check(ciphersuites.G2ProofOfPossession.POP_TAG == POP_LIT and optimized_curve.curve_order == R_LIT,
      "constants intact after calls")
print("D: replay and interleaving done:", len(light) + len(seq), "calls")

if failures:
    print(len(failures), "FAILURES")
    sys.exit(1)
print("OK: edited tree is indistinguishable from the pristine one on all cases")
