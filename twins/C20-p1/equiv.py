import os, sys; sys.path.insert(0, os.getcwd())  # noqa: E401,E702

"""
Equivalence demonstration for p1 (C20): the reference FQP constructor takes the
coefficient class from a bounded per-modulus cache instead of building a new class
for every element.

Two independent comparisons:

 A. in-process: the pristine copy of py_ecc/fields/field_elements.py is loaded under
    another module name next to the edited one; identical class families are derived
    from both and driven through the same long, seeded, interleaved call sequences
    (several moduli, more moduli than the cache holds, exotic moduli that bypass the
    cache, malformed operands).  Every result / exception class must agree, inputs
    must not be mutated, and repeating a call after any history must give an equal
    result.

 B. against values recorded on the pristine tree (expected.json, produced with
    ``--record`` on a clean checkout): curve and pairing level results of the
    reference bn128 / bls12_381 implementations that sit on top of these classes.
"""

import importlib.util
import json
import random
import signal
import time

HERE = os.path.dirname(os.path.abspath(__file__))
T0 = time.time()


def load(path, name):
    spec = importlib.util.spec_from_file_location(name, path)
    mod = importlib.util.module_from_spec(spec)
    sys.modules[name] = mod
    spec.loader.exec_module(mod)
    return mod


PRISTINE = load(os.path.join(HERE, "pristine", "field_elements.py"), "pristine_fe")
import py_ecc.fields.field_elements as EDITED  # noqa: E402

assert os.path.abspath(EDITED.__file__).startswith(os.getcwd()), EDITED.__file__
RECORD = "--record" in sys.argv
if not RECORD:
    assert hasattr(EDITED, "_coefficient_class"), "edited tree expected"


# --------------------------------------------------------------------------
# canonical forms
# --------------------------------------------------------------------------
def canon(v, mod):
    if isinstance(v, mod.FQP):
        k = v.FQP_corresponding_FQ_class
        return (
            "FQP",
            type(v).__name__,
            tuple(canon(c, mod) for c in v.coeffs),
            tuple(canon(c, mod) for c in v.modulus_coeffs),
            v.degree,
            (
                k.__name__,
                k.__qualname__,
                tuple(b.__name__ for b in k.__bases__),
                repr(k.field_modulus),
                type(k.field_modulus).__name__,
                issubclass(k, mod.FQ),
            ),
            tuple(type(c).__name__ for c in v.coeffs),
            all(type(c) is k for c in v.coeffs),
            sorted(vars(v)),
            repr(v),
        )
    if isinstance(v, mod.FQ):
        return (
            "FQ",
            type(v).__name__,
            repr(v.n),
            type(v.n).__name__,
            repr(type(v).field_modulus),
        )
    if isinstance(v, (tuple, list)):
        return (type(v).__name__,) + tuple(canon(x, mod) for x in v)
    if isinstance(v, type):
        return ("class", v.__name__)
    return (type(v).__name__, repr(v))


class CallTimeout(BaseException):
    pass


def _on_alarm(signum, frame):
    raise CallTimeout()


signal.signal(signal.SIGALRM, _on_alarm)
CALL_TIMEOUT = 1.5  # seconds; some pristine calls (inv in a non-field) never return
timeouts = []


def run(fn):
    signal.setitimer(signal.ITIMER_REAL, CALL_TIMEOUT)
    try:
        try:
            r = fn()
        finally:
            signal.setitimer(signal.ITIMER_REAL, 0)
        return ("ok", r)
    except CallTimeout:
        return ("exc", "<does not terminate>")
    except BaseException as e:  # noqa: B902
        if isinstance(e, (KeyboardInterrupt, SystemExit, MemoryError)):
            raise
        return ("exc", type(e).__name__)


# --------------------------------------------------------------------------
# class families
# --------------------------------------------------------------------------
class IntSub(int):
    pass


def small_irreducible_deg2(p):
    # x^2 + c0 irreducible iff -c0 is a non residue
    for c0 in range(1, p):
        if all((x * x + c0) % p for x in range(p)):
            return (c0, 0)
    return (1, 0)


BN_P = 21888242871839275222246405745257275088696311157297823662689037894645226208583
BLS_P = 0x1A0111EA397FE69A4B1BA7B6434BACD764774B84F38512BF6730D2A0F6B0F6241EABFFFEB153FFFFB9FEFFFFFFFFAAAB  # noqa: E501
FQ12_BN = (82, 0, 0, 0, 0, 0, -18, 0, 0, 0, 0, 0)
FQ12_BLS = (2, 0, 0, 0, 0, 0, -2, 0, 0, 0, 0, 0)


def family(mod, tag, p, mc2, mc12=None):
    ns = {}
    ns["FQ"] = type(f"{tag}_FQ", (mod.FQ,), {"field_modulus": p})
    ns["FQ2"] = type(
        f"{tag}_FQ2", (mod.FQ2,), {"field_modulus": p, "FQ2_MODULUS_COEFFS": mc2}
    )
    if mc12 is not None:
        ns["FQ12"] = type(
            f"{tag}_FQ12",
            (mod.FQ12,),
            {"field_modulus": p, "FQ12_MODULUS_COEFFS": mc12},
        )
    return ns


SPECS = [
    ("bn", BN_P, (1, 0), FQ12_BN),
    ("bls", BLS_P, (1, 0), FQ12_BLS),
    ("f7", 7, (1, 0), None),
    ("f11", 11, small_irreducible_deg2(11), None),
    ("f13", 13, small_irreducible_deg2(13), (2, 0, 0, 0, 0, 0, -2, 0, 0, 0, 0, 0)),
    ("f2", 2, (1, 1), None),
    # moduli that must bypass the cache
    ("isub7", IntSub(7), (1, 0), None),
    ("bool", True, (1, 0), None),
    ("flt7", 7.0, (1, 0), None),
    ("neg7", -7, (1, 0), None),
    ("zero", 0, (1, 0), None),
    ("lst", [7], (1, 0), None),
    ("none", None, (1, 0), None),
]
# more distinct int moduli than the cache can hold -> evictions
PRIMES = [
    q
    for q in range(17, 700)
    if all(q % d for d in range(2, int(q**0.5) + 1))
][:100]
for q in PRIMES:
    SPECS.append((f"p{q}", q, small_irreducible_deg2(q), None))

FAM_P = {s[0]: family(PRISTINE, *s) for s in SPECS}
FAM_E = {s[0]: family(EDITED, *s) for s in SPECS}

checks = 0


def same(label, fp, fe):
    """run both closures, compare outcome, return outcomes"""
    global checks
    if label in timeouts:
        # this kind of call was already seen not to terminate in BOTH versions
        return ("exc", "skipped"), ("exc", "skipped")
    rp, re_ = run(fp), run(fe)
    a = (rp[0], canon(rp[1], PRISTINE) if rp[0] == "ok" else rp[1])
    b = (re_[0], canon(re_[1], EDITED) if re_[0] == "ok" else re_[1])
    if a != b:
        print("MISMATCH", label, "\n pristine:", a, "\n edited:  ", b)
        sys.exit(1)
    checks += 1
    if rp == ("exc", "<does not terminate>"):
        timeouts.append(label)
    return rp, re_


# --------------------------------------------------------------------------
# A. randomised interleaved call sequences
# --------------------------------------------------------------------------
rng = random.Random(20)
INTS = [0, 1, 2, 3, -1, -2, 5, 6, 7, 8, 13, 2**64 + 1, -(2**70), BN_P, BLS_P - 1]
JUNK = ["x", None, 1.5, b"\x01", [1, 2], (1, 2), object]


class World:
    def __init__(self):
        self.pools = {}  # tag -> kind -> list of (pristine value, edited value)

    def pool(self, tag, kind):
        return self.pools.setdefault(tag, {}).setdefault(kind, [])


W = World()


def construct(tag, kind, coeffs):
    cp, ce = FAM_P[tag][kind], FAM_E[tag][kind]
    rp, re_ = same(
        f"construct {tag}.{kind}({coeffs!r})", lambda: cp(coeffs), lambda: ce(coeffs)
    )
    if rp[0] == "ok":
        W.pool(tag, kind).append((rp[1], re_[1]))


def seed_family(tag, p):
    fam = FAM_P[tag]
    modint = p if type(p) is int and p > 0 else 7
    for kind in fam:
        deg = {"FQ": 0, "FQ2": 2, "FQ12": 12}[kind]
        if kind == "FQ":
            for v in [0, 1, modint - 1, modint, modint + 1, -1, rng.randrange(modint)]:
                construct(tag, kind, v)
            for j in JUNK:
                construct(tag, kind, j)
            continue
        construct(tag, kind, [0] * deg)
        construct(tag, kind, [1] + [0] * (deg - 1))
        construct(tag, kind, tuple(range(deg)))
        construct(tag, kind, [modint] * deg)  # oversized, reduces to zero
        construct(tag, kind, [-1] * deg)
        for _ in range(3):
            construct(tag, kind, [rng.randrange(-3, modint + 3) for _ in range(deg)])
        # malformed
        construct(tag, kind, [])
        construct(tag, kind, [1] * (deg + 1))
        construct(tag, kind, [1] * (deg - 1))
        construct(tag, kind, ["a"] * deg)
        construct(tag, kind, [1.5] * deg)
        construct(tag, kind, None)
        construct(tag, kind, 5)
        # FQ coefficients (own family and a foreign family)
        fq_p, fq_e = FAM_P[tag]["FQ"], FAM_E[tag]["FQ"]
        rp, re_ = same(
            "fq-coeffs",
            lambda: FAM_P[tag][kind]([fq_p(3)] * deg),
            lambda: FAM_E[tag][kind]([fq_e(3)] * deg),
        )
        if rp[0] == "ok":
            W.pool(tag, kind).append((rp[1], re_[1]))
        o_p, o_e = FAM_P["f11"]["FQ"], FAM_E["f11"]["FQ"]
        rp, re_ = same(
            "foreign-fq-coeffs",
            lambda: FAM_P[tag][kind]([o_p(10)] * deg),
            lambda: FAM_E[tag][kind]([o_e(10)] * deg),
        )
        if rp[0] == "ok":
            W.pool(tag, kind).append((rp[1], re_[1]))


BIN = {
    "add": lambda a, b: a + b,
    "sub": lambda a, b: a - b,
    "mul": lambda a, b: a * b,
    "rmul": lambda a, b: b * a,
    "div": lambda a, b: a / b,
    "eq": lambda a, b: a == b,
    "ne": lambda a, b: a != b,
}
UN = {
    "neg": lambda a: -a,
    "inv": lambda a: a.inv(),
    "repr": lambda a: repr(a),
    "one": lambda a: type(a).one(),
    "zero": lambda a: type(a).zero(),
    "sq": lambda a: a * a,
    "pow0": lambda a: a**0,
    "pow1": lambda a: a**1,
    "pow5": lambda a: a**5,
    "powneg": lambda a: a**-3,
    "degree": lambda a: a.degree,
    "mc": lambda a: a.modulus_coeffs,
    "reinit": lambda a: type(a)(a.coeffs),
    "kcls": lambda a: a.FQP_corresponding_FQ_class(9),
}


def snapshot(v, mod):
    return canon(v, mod)


def step(tag):
    kinds = [k for k in W.pools.get(tag, {}) if k != "FQ" and W.pools[tag][k]]
    if not kinds:
        return
    kind = rng.choice(kinds)
    pool = W.pool(tag, kind)
    ap, ae = rng.choice(pool)
    before = (snapshot(ap, PRISTINE), snapshot(ae, EDITED))
    r = rng.random()
    res = None
    if r < 0.25:
        name = rng.choice(list(UN))
        res = same(
            f"{tag}.{kind}.{name}", lambda: UN[name](ap), lambda: UN[name](ae)
        )
    elif r < 0.65:
        name = rng.choice(list(BIN))
        bp, be = rng.choice(pool)
        bb = (snapshot(bp, PRISTINE), snapshot(be, EDITED))
        res = same(
            f"{tag}.{kind}.{name}",
            lambda: BIN[name](ap, bp),
            lambda: BIN[name](ae, be),
        )
        assert bb == (snapshot(bp, PRISTINE), snapshot(be, EDITED)), "operand mutated"
    elif r < 0.8:
        name = rng.choice(["mul", "rmul", "div", "add", "eq"])
        k = rng.choice(INTS + [True, False])
        res = same(
            f"{tag}.{kind}.{name} int {k}",
            lambda: BIN[name](ap, k),
            lambda: BIN[name](ae, k),
        )
    elif r < 0.9:
        # scalar FQ operand, own family or foreign
        name = rng.choice(["mul", "rmul", "div", "add"])
        ftag = rng.choice([tag, "f7", "bn"])
        fqs = W.pool(ftag, "FQ")
        if fqs:
            sp, se = rng.choice(fqs)
            res = same(
                f"{tag}.{kind}.{name} FQ",
                lambda: BIN[name](ap, sp),
                lambda: BIN[name](ae, se),
            )
    elif r < 0.96:
        # operand of a different extension class / family
        otag = rng.choice(list(W.pools))
        okinds = [k for k in W.pools[otag] if k != "FQ" and W.pools[otag][k]]
        if okinds:
            op_, oe = rng.choice(W.pool(otag, rng.choice(okinds)))
            name = rng.choice(list(BIN))
            res = same(
                f"{tag}.{kind}.{name} foreign {otag}",
                lambda: BIN[name](ap, op_),
                lambda: BIN[name](ae, oe),
            )
    else:
        j = rng.choice(JUNK)
        name = rng.choice(list(BIN))
        res = same(
            f"{tag}.{kind}.{name} junk", lambda: BIN[name](ap, j), lambda: BIN[name](ae, j)
        )
    assert before == (snapshot(ap, PRISTINE), snapshot(ae, EDITED)), "operand mutated"
    if res and res[0][0] == "ok" and isinstance(res[0][1], PRISTINE.FQP):
        if len(pool) < 40:
            pool.append((res[0][1], res[1][1]))
        else:
            pool[rng.randrange(8, 40)] = (res[0][1], res[1][1])


if not RECORD:
    for s in SPECS:
        seed_family(s[0], s[1])

    # remember a few reference calls, to be repeated after a long history
    def probes(F):
        out = []
        for tag in ["bn", "bls", "f7", "f13", "p17", "p691" if "p691" in F else "p19"]:
            c = F[tag]["FQ2"]
            a, b = c([3, 4]), c([5, 6])
            out.append((tag, a * b, a / b, (a + b) ** 7, b.inv(), -a, a - b))
        return out

    first = [canon(x, EDITED) for x in probes(FAM_E)]
    assert first == [canon(x, PRISTINE) for x in probes(FAM_P)]

    tags_main = ["bn", "bls", "f7", "f11", "f13", "f2"]
    tags_exotic = ["isub7", "bool", "flt7", "neg7", "zero", "lst", "none"]
    tags_many = [f"p{q}" for q in PRIMES]
    budget = 45.0
    n = 0
    while time.time() - T0 < budget and n < 60000:
        r = rng.random()
        if r < 0.35:
            step(rng.choice(tags_main))
        elif r < 0.45:
            step(rng.choice(tags_exotic))
        else:
            step(rng.choice(tags_many))
        n += 1
        if n % 500 == 0:
            # same calls, later history: equal results (and equal to pristine)
            again = [canon(x, EDITED) for x in probes(FAM_E)]
            assert again == first, "history dependence"

    # sweep through all moduli in order several times: forces LRU eviction of
    # every entry, each time followed by the probe calls
    for _ in range(3):
        for tag in tags_many + tags_main:
            c_p, c_e = FAM_P[tag]["FQ2"], FAM_E[tag]["FQ2"]
            same(
                "sweep",
                lambda: (c_p([2, 3]) * c_p([4, 5]), c_p([1, 1]).inv(), c_p.one()),
                lambda: (c_e([2, 3]) * c_e([4, 5]), c_e([1, 1]).inv(), c_e.one()),
            )
        assert [canon(x, EDITED) for x in probes(FAM_E)] == first

    info = EDITED._coefficient_class.cache_info()
    assert info.maxsize == 64 and info.currsize <= 64, info
    assert info.hits > 1000 and info.misses > 64, info  # hits and evictions happened
    # the cache only ever holds plain-int keys
    print(f"A: {n} random steps, {checks} compared outcomes, cache {info}")
    print("   calls that terminate in neither version:", sorted(set(timeouts)))

    # module level state of the edited module: nothing but the cache changed
    assert EDITED.int_types_or_FQ == (int, EDITED.FQ)


# --------------------------------------------------------------------------
# B. curve / pairing level values recorded on the pristine tree
# --------------------------------------------------------------------------
def high_level():
    global CALL_TIMEOUT
    CALL_TIMEOUT = 60  # a reference pairing takes seconds
    from py_ecc import bls12_381 as L
    from py_ecc import bn128 as B

    out = {}

    def put(k, fn):
        r = run(fn)
        out[k] = [r[0], repr(r[1])]

    for name, C in (("bn128", B), ("bls12_381", L)):
        G1, G2 = C.G1, C.G2
        CM = sys.modules[f"py_ecc.{name}.{name}_curve"]

        def constants():
            return repr((C.G1, C.G2, C.G12, C.b, C.b2, C.b12, CM.w))

        snap = constants()
        put(f"{name}.double", lambda: C.double(G2))
        put(f"{name}.mul", lambda: C.multiply(G2, 77))
        put(f"{name}.mul0", lambda: C.multiply(G2, 0))
        put(f"{name}.add_inf", lambda: C.add(None, G2))
        put(f"{name}.add_neg", lambda: C.add(G2, C.neg(G2)))
        put(f"{name}.add_same", lambda: C.add(G2, G2))
        put(f"{name}.twist", lambda: C.twist(C.multiply(G2, 5)))
        put(f"{name}.on_curve", lambda: C.is_on_curve(C.multiply(G2, 9), C.b2))
        put(f"{name}.off_curve", lambda: C.is_on_curve((G2[0], G2[0]), C.b2))
        put(f"{name}.mul_order", lambda: C.multiply(G2, C.curve_order))
        put(f"{name}.g12", lambda: C.multiply(C.G12, 3))
        put(f"{name}.badadd", lambda: C.add(G2, 5))
        put(f"{name}.fq12pow", lambda: C.FQ12([1, 2, 3] + [0] * 9) ** 12345)
        put(f"{name}.fq12inv", lambda: C.FQ12(list(range(12))).inv())
        put(f"{name}.fq2div", lambda: C.FQ2([1, 2]) / C.FQ2([0, 0]))
        # repeat after the calls above: same answers
        put(f"{name}.double_again", lambda: C.double(G2))
        assert out[f"{name}.double_again"] == out[f"{name}.double"]
        assert snap == constants(), "constant changed"
        out[f"{name}.constants"] = ["ok", snap]
    put("bn128.pairing", lambda: B.pairing(B.G2, B.multiply(B.G1, 3)))
    put("bn128.pairing_inf", lambda: B.pairing(B.G2, None))
    put("bn128.pairing_bad", lambda: B.pairing(B.G2, (B.FQ(1), B.FQ(1))))
    return out


if time.time() - T0 < 75 or RECORD:
    got = high_level()
    path = os.path.join(HERE, "expected.json")
    if RECORD:
        with open(path, "w") as f:
            json.dump(got, f, indent=1, sort_keys=True)
        print("recorded", len(got), "values on", EDITED.__file__)
        sys.exit(0)
    with open(path) as f:
        want = json.load(f)
    assert set(want) == set(got)
    for k in sorted(want):
        if want[k] != got[k]:
            print("MISMATCH vs pristine recording:", k, want[k][:200], got[k][:200])
            sys.exit(1)
    print(f"B: {len(got)} curve/pairing level values equal to the pristine recording")
else:
    print("B skipped (time budget)")
    sys.exit(1)

print(f"OK ({time.time() - T0:.1f}s)")
