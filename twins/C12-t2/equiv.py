import os, sys; sys.path.insert(0, os.getcwd())  # noqa: E401,E702

"""
Equivalence demonstration for property C12.

Loads the pristine copies of the two optimized pairing modules (saved next to this
script under pristine/) under alternative module names inside their packages and
compares them, call by call, with the edited modules of the working tree:
results must have the same type and the same coefficients, exceptions must have
the same class (and message).
"""

import importlib
import importlib.util
import random
import time

HERE = os.path.dirname(os.path.abspath(__file__))
T0 = time.time()


def load_pristine(pkg, fname):
    name = "py_ecc.%s._pristine_optimized_pairing" % pkg
    path = os.path.join(HERE, "pristine", pkg, fname)
    spec = importlib.util.spec_from_file_location(name, path)
    mod = importlib.util.module_from_spec(spec)
    sys.modules[name] = mod
    spec.loader.exec_module(mod)
    return mod


def canon(v):
    """Canonical, comparable description of a result (type + representation)."""
    if isinstance(v, (tuple, list)):
        return (type(v).__name__, tuple(canon(x) for x in v))
    if hasattr(v, "coeffs"):
        return (
            type(v).__module__,
            type(v).__name__,
            tuple((type(c).__name__, int(c)) for c in v.coeffs),
        )
    if hasattr(v, "n") and hasattr(v, "field_modulus"):
        return (type(v).__module__, type(v).__name__, type(v.n).__name__, v.n)
    return (type(v).__name__, repr(v))


LAST = [None]


def run(f, *a, **k):
    try:
        LAST[0] = f(*a, **k)
        return ("ok", canon(LAST[0]))
    except RecursionError:
        raise
    except Exception as e:  # noqa: BLE001
        return ("exc", type(e).__name__, str(e))


N_CHECKS = 0


def same(label, fo, fn, *a, **k):
    global N_CHECKS
    ro = run(fo, *a, **k)
    rn = run(fn, *a, **k)
    N_CHECKS += 1
    if ro != rn:
        print("MISMATCH", label, "\n  pristine:", ro, "\n  edited:  ", rn)
        sys.exit(1)
    return ro


def rescale(pt, lam):
    return tuple(c * lam for c in pt)


def check_curve(pkg, refpkg, rng, n_pair):
    new = importlib.import_module("py_ecc.%s.optimized_pairing" % pkg)
    old = load_pristine(pkg, "optimized_pairing.py")
    cur = importlib.import_module("py_ecc.%s.optimized_curve" % pkg)
    top = importlib.import_module("py_ecc.%s" % pkg)
    assert top.pairing is new.pairing and old.pairing is not new.pairing
    FQ, FQ2, FQ12 = cur.FQ, cur.FQ2, cur.FQ12
    G1, G2, Z1, Z2 = cur.G1, cur.G2, cur.Z1, cur.Z2
    p = new.field_modulus
    r = cur.curve_order
    is_bn = pkg == "optimized_bn128"

    # ---- module level constants identical --------------------------------
    for name in (
        "ate_loop_count",
        "log_ate_loop_count",
        "pseudo_binary_encoding",
        "field_modulus",
    ):
        assert getattr(old, name) == getattr(new, name), name
    enc_before = list(new.pseudo_binary_encoding)
    # constants hoisted to module level by the edit hold the values that the
    # pristine code recomputes on every call
    assert new._FINAL_EXPONENT == (p**12 - 1) // r and type(new._FINAL_EXPONENT) is int
    if not is_bn:
        assert new._HARD_PART_COFACTOR == (p**4 - p**2 + 1) // r
    assert len(new.pseudo_binary_encoding) > new.log_ate_loop_count
    assert new.pseudo_binary_encoding[new.log_ate_loop_count :: -1] == [
        new.pseudo_binary_encoding[i] for i in range(new.log_ate_loop_count, -1, -1)
    ]
    assert (
        old.pseudo_binary_encoding[(63 if is_bn else 62) :: -1]
        == new.pseudo_binary_encoding[new.log_ate_loop_count :: -1]
    )
    assert set(new.pseudo_binary_encoding) <= {-1, 0, 1}
    if not is_bn:
        assert [canon(x) for x in old.exptable] == [canon(x) for x in new.exptable]

    def rand_fq12():
        return FQ12([rng.randrange(p) for _ in range(12)])

    def sparse_fq12():
        c = [0] * 12
        for _ in range(rng.randrange(1, 4)):
            c[rng.randrange(12)] = rng.randrange(p)
        return FQ12(c)

    # ---- points ----------------------------------------------------------
    ks = [1, 2, 3, r - 1, rng.randrange(1, r), rng.randrange(1, r)]
    g1s = [cur.multiply(G1, k) for k in ks]
    g2s = [cur.multiply(G2, k) for k in ks]
    g1s_resc = [rescale(pt, FQ(rng.randrange(2, p))) for pt in g1s]
    g2s_resc = [
        rescale(pt, FQ2([rng.randrange(1, p), rng.randrange(p)])) for pt in g2s
    ]
    inf1 = [Z1, (FQ(0), FQ(0), FQ(0)), (FQ(5), FQ(7), FQ(0)), cur.multiply(G1, r)]
    inf2 = [Z2, (FQ2.zero(), FQ2.zero(), FQ2.zero()), cur.multiply(G2, r)]
    off1 = (FQ(1), FQ(3), FQ(1))
    off2 = (G2[0], G2[1] + FQ2.one(), G2[2])

    # ---- pairing: subgroup points, projective representatives ------------
    pairs = []
    for i in range(n_pair):
        q = (g2s + g2s_resc)[(i * 5 + 1) % 12]
        pp = (g1s + g1s_resc)[(i * 7 + 3) % 12]
        pairs.append((q, pp))
    miller_vals = []
    full_vals = []
    for i, (q, pp) in enumerate(pairs):
        rf = same("pairing/full/%d" % i, old.pairing, new.pairing, q, pp)
        full_vals.append(LAST[0])  # value returned by the edited module
        rm = same(
            "pairing/miller/%d" % i,
            old.pairing,
            new.pairing,
            q,
            pp,
            final_exponentiate=False,
        )
        miller_vals.append(LAST[0])
        assert rf[0] == "ok" and rm[0] == "ok"
        # repeated call with equal arguments after other calls: same result
        if i == 3:
            same("pairing/repeat/%d" % i, old.pairing, new.pairing, *pairs[0])
    # positional / truthy-but-not-bool flag values
    for flag in (0, None, "x"):
        same("pairing/flag/%r" % (flag,), old.pairing, new.pairing, g2s[1], g1s[1], flag)
    for flag in ([], 1):
        same(
            "pairing/flagkw/%r" % (flag,),
            old.pairing,
            new.pairing,
            g2s[1],
            g1s[1],
            final_exponentiate=flag,
        )

    # ---- the property itself on a sample: reference == optimized ---------
    ref = importlib.import_module("py_ecc.%s" % refpkg)
    for k1, k2 in ((2, 3),):
        ro = new.pairing(cur.multiply(G2, k1), cur.multiply(G1, k2))
        rr = ref.pairing(ref.multiply(ref.G2, k1), ref.multiply(ref.G1, k2))
        assert tuple(int(c) for c in ro.coeffs) == tuple(int(c) for c in rr.coeffs)
    # two-step form equals product of individually exponentiated pairings
    prod_m = FQ12.one()
    prod_f = FQ12.one()
    for n, (m, f) in enumerate(zip(miller_vals[:6], full_vals[:6]), 1):
        prod_m = prod_m * m
        prod_f = prod_f * f
        a = same(
            "twostep/%d" % n, old.final_exponentiate, new.final_exponentiate, prod_m
        )
        assert a == ("ok", canon(prod_f)), "two-step form broken"

    # ---- pairing: infinity, off-curve, malformed -------------------------
    bad = [
        None,
        (),
        (FQ(1),),
        (FQ(1), FQ(2)),
        (FQ(1), FQ(2), FQ(1), FQ(1)),
        (1, 2, 1),
        (1, 2, 0),
        "abc",
        5,
        [FQ(1), FQ(2), FQ(1)],
        (FQ2.one(), FQ2.one(), FQ(0)),
        (FQ(1), FQ(2), FQ2.zero()),
        (FQ(1), FQ(2), None),
        (None, None, None),
        (FQ12.one(), FQ12.one(), FQ12.zero()),
        (FQ12.one(), FQ12.one(), FQ12.one()),
        off1,
        off2,
        list(G2),
    ]
    q_side = [g2s[0], g2s_resc[2], off2] + inf2 + bad + [g1s[0]]
    p_side = [g1s[0], g1s_resc[2], off1] + inf1 + bad + [g2s[0]]
    n_done = 0
    for qi, q in enumerate(q_side):
        for pi, pp in enumerate(p_side):
            # skip the (few) combinations that are genuine, expensive pairings
            genuine = qi < 2 and pi < 2
            if genuine:
                continue
            res = same("pairing/edge/%d/%d" % (qi, pi), old.pairing, new.pairing, q, pp)
            if (qi + pi) % 4 == 0:
                same(
                    "pairing/edge-nofe/%d/%d" % (qi, pi),
                    old.pairing,
                    new.pairing,
                    q,
                    pp,
                    final_exponentiate=False,
                )
            n_done += 1
    # swapped genuine arguments
    same("pairing/swapped", old.pairing, new.pairing, g1s[1], g2s[1])

    # ---- miller_loop directly ------------------------------------------
    if is_bn:
        tq = cur.twist(g2s[1])
        tp = new.cast_point_to_fq12(g1s[2])
        mq_args = [
            (tq, tp),
            (cur.twist(g2s_resc[3]), new.cast_point_to_fq12(g1s_resc[1])),
        ]
        mal = [
            (None, tp),
            (tq, None),
            (None, None),
            ((), tp),
            (tq, ()),
            (tq[:2], tp),
            (tq, tp[:2]),
            (g2s[1], g1s[2]),
            (g2s[1], tp),
            (tq, g1s[2]),
            (5, tp),
            (tq, 5),
            ((None, None, None), tp),
            (tq, (None, None, None)),
            (cur.twist(Z2), tp),
            (tq, new.cast_point_to_fq12(Z1)),
        ]
    else:
        mq_args = [(g2s[1], g1s[2]), (g2s_resc[3], g1s_resc[1])]
        tq = cur.twist(g2s[1])
        tp = new.cast_point_to_fq12(g1s[2])
        mal = [
            (None, g1s[2]),
            (g2s[1], None),
            (None, None),
            ((), g1s[2]),
            (g2s[1], ()),
            (g2s[1][:2], g1s[2]),
            (g2s[1], g1s[2][:2]),
            (tq, tp),
            (tq, g1s[2]),
            (g2s[1], tp),
            (g1s[1], g1s[2]),
            (g2s[1], g2s[2]),
            (5, g1s[2]),
            (g2s[1], 5),
            ((None, None, None), g1s[2]),
            (g2s[1], (None, None, None)),
            (Z2, g1s[2]),
            (g2s[1], Z1),
        ]
    for i, a in enumerate(mq_args):
        same("miller/full/%d" % i, old.miller_loop, new.miller_loop, *a)
        same("miller/nofe/%d" % i, old.miller_loop, new.miller_loop, *a, False)
        same(
            "miller/nofe-kw/%d" % i,
            old.miller_loop,
            new.miller_loop,
            *a,
            final_exponentiate=0,
        )
    for i, a in enumerate(mal):
        same("miller/mal/%d" % i, old.miller_loop, new.miller_loop, *a)
        same("miller/mal-nofe/%d" % i, old.miller_loop, new.miller_loop, *a, False)

    # ---- linefunc ---------------------------------------------------------
    def lf_points(cast, pts):
        return [cast(x) for x in pts]

    fam = {
        "fq": g1s + g1s_resc[:3] + [Z1, off1],
        "fq2": g2s[:4] + g2s_resc[:2] + [Z2],
        "fq12": [new.cast_point_to_fq12(x) for x in g1s[:4] + g1s_resc[:2]]
        + [cur.twist(x) for x in g2s[:3]],
    }
    n_lf = 0
    for fname, pts in fam.items():
        for a in pts:
            for b_ in pts:
                for t in pts[:4]:
                    same("linefunc/%s" % fname, old.linefunc, new.linefunc, a, b_, t)
                    n_lf += 1
    # the same point in two projective representations (tangent branch) and
    # a point with its negative (vertical branch)
    for a, a2 in zip(g1s, g1s_resc):
        for t in g1s[:3]:
            same("linefunc/tangent-resc", old.linefunc, new.linefunc, a, a2, t)
            same("linefunc/vertical", old.linefunc, new.linefunc, a, cur.neg(a2), t)
    # mixed / malformed operands
    mixed = [
        g1s[1],
        g2s[1],
        cur.twist(g2s[1]),
        new.cast_point_to_fq12(g1s[1]),
        None,
        (),
        (FQ(1), FQ(2)),
        (1, 2, 1),
        (FQ(1), FQ2.one(), FQ12.one()),
        (FQ12.one(), FQ2.one(), FQ(1)),
        (FQ2.one(), FQ(2), FQ2.one()),
        (FQ(0), FQ(0), FQ(0)),
        (FQ2.zero(), FQ2.zero(), FQ2.zero()),
    ]
    for a in mixed:
        for b_ in mixed:
            for t in mixed:
                same("linefunc/mixed", old.linefunc, new.linefunc, a, b_, t)

    # ---- final_exponentiate / exp_by_p -------------------------------------
    elems = (
        [FQ12.zero(), FQ12.one(), FQ12([p - 1] + [0] * 11), FQ12([0, 1] + [0] * 10)]
        + [sparse_fq12() for _ in range(3)]
        + [rand_fq12() for _ in range(3)]
    )
    big = (p**12 - 1) // r
    for i, x in enumerate(elems):
        res = same("final_exp/%d" % i, old.final_exponentiate, new.final_exponentiate, x)
        if i % 3 == 0:
            assert res == ("ok", canon(x**big)), "final exponentiation not exact"
    odd = [None, FQ2([3, 4]), FQ2.zero(), FQ(0), FQ(1), 0, 1, "a", (), [1] * 12]
    for i, x in enumerate(odd):
        same("final_exp/odd/%d" % i, old.final_exponentiate, new.final_exponentiate, x)
    if not is_bn:
        for i, x in enumerate(elems):
            res = same("exp_by_p/%d" % i, old.exp_by_p, new.exp_by_p, x)
            if i % 2 == 0:
                assert res == ("ok", canon(x**p)), "Frobenius shortcut not exact"
        # FQ12 built from FQ coefficients (non-int coefficients are accepted)
        xfq = FQ12([FQ(rng.randrange(p)) for _ in range(12)])
        same("exp_by_p/fqcoeffs", old.exp_by_p, new.exp_by_p, xfq)
        same(
            "final_exp/fqcoeffs", old.final_exponentiate, new.final_exponentiate, xfq
        )
        for i, x in enumerate(odd + [FQ2([1, 2])]):
            same("exp_by_p/odd/%d" % i, old.exp_by_p, new.exp_by_p, x)
        # interleaving: repeat after other calls
        same("exp_by_p/repeat", old.exp_by_p, new.exp_by_p, elems[5])
        assert [canon(x) for x in old.exptable] == [canon(x) for x in new.exptable]

    # ---- helpers -------------------------------------------------------------
    for x in g1s[:3] + g1s_resc[:3] + inf1 + bad:
        same("cast", old.cast_point_to_fq12, new.cast_point_to_fq12, x)
        same("normalize1", old.normalize1, new.normalize1, x)
    for x in g2s[:2] + g2s_resc[:2] + inf2:
        same("normalize1/g2", old.normalize1, new.normalize1, x)

    # nothing mutated
    assert list(new.pseudo_binary_encoding) == enc_before
    assert list(old.pseudo_binary_encoding) == enc_before
    assert canon(cur.G1) == canon(G1) and canon(cur.G2) == canon(G2)
    # repeat the very first pairing at the end of the whole history
    same("pairing/final-repeat", old.pairing, new.pairing, *pairs[0])
    print(
        "%s: ok (%d edge pairings, %d linefunc triples) t=%.1fs"
        % (pkg, n_done, n_lf, time.time() - T0)
    )


def main():
    rng = random.Random(0xC12)
    check_curve("optimized_bn128", "bn128", rng, 6)
    check_curve("optimized_bls12_381", "bls12_381", rng, 6)
    print("all equal; %d comparisons; %.1fs" % (N_CHECKS, time.time() - T0))


if __name__ == "__main__":
    main()
