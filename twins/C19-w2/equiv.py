import os, sys; sys.path.insert(0, os.getcwd())
"""
Equivalence demonstration for C19 / w2 (restructured ecdsa_raw_sign and
deterministic_generate_k).

Loads the pristine secp256k1 module from ./pristine/secp256k1.py under another
module name and the edited one from the current working tree, then compares
return values and exception classes (and messages) of deterministic_generate_k,
ecdsa_raw_sign and ecdsa_raw_recover on a broad set of inputs, including
boundary and malformed ones.  The nonce is additionally forced (by patching
deterministic_generate_k in BOTH modules with the same stub) so that the low-s
/ high-s branch, both parities of y, k = 0, k >= N and hand-picked s values are
all exercised in ecdsa_raw_sign.

Run as:  cd /tmp/wt2/C19 && /venv/bin/python /tmp/twin6/C19/w2/equiv.py
"""
import hashlib
import importlib.util
import random
import time

HERE = os.path.dirname(os.path.abspath(__file__))

spec = importlib.util.spec_from_file_location(
    "pristine_secp256k1", os.path.join(HERE, "pristine", "secp256k1.py")
)
old = importlib.util.module_from_spec(spec)
spec.loader.exec_module(old)

import py_ecc.secp256k1.secp256k1 as new  # noqa: E402

assert os.path.realpath(new.__file__).startswith(os.path.realpath(os.getcwd())), (
    new.__file__
)
assert os.path.realpath(old.__file__) != os.path.realpath(new.__file__)

P, N = old.P, old.N
CONSTS = ("P", "N", "A", "B", "Gx", "Gy", "G")
for c in CONSTS:
    assert getattr(old, c) == getattr(new, c), c
CONST_SNAPSHOT = {c: getattr(new, c) for c in CONSTS}

rng = random.Random(0x19C2)
checked = 0
stats = {"ok": 0}


def outcome(fn, *args):
    try:
        res = fn(*args)
    except BaseException as e:  # noqa: B902
        return ("exc", type(e), str(e))
    if isinstance(res, tuple):
        return ("ok", type(res), res, tuple(type(c) for c in res))
    return ("ok", type(res), res)


def compare(name, *args, label=""):
    global checked
    a = outcome(getattr(old, name), *args)
    b = outcome(getattr(new, name), *args)
    if a != b:
        print("MISMATCH", name, label, repr(args)[:300])
        print("  pristine:", a)
        print("  edited:  ", b)
        sys.exit(1)
    checked += 1
    if a[0] == "ok":
        stats["ok"] += 1
    else:
        stats[a[1].__name__] = stats.get(a[1].__name__, 0) + 1
    return a


t0 = time.time()

# ------------------------------------------------------------------
# 1. deterministic_generate_k: many (hash, key) shapes
HASHES = [
    b"",
    b"\x00",
    b"\x00" * 32,
    b"\xff" * 32,
    N.to_bytes(32, "big"),
    hashlib.sha256(b"C19").digest(),
    hashlib.sha512(b"C19").digest(),  # 64 bytes
    bytearray(b"\x07" * 32),
]
PRIVS = [
    b"",
    b"\x00" * 32,
    b"\x01",
    (1).to_bytes(32, "big"),
    (N - 1).to_bytes(32, "big"),
    N.to_bytes(32, "big"),
    (N + 1).to_bytes(32, "big"),
    b"\xff" * 32,
    b"\xff" * 40,
    bytearray(b"\x05" * 32),
    bytes.fromhex("792eca682b890b31356247f2b04662bff448b6bb19ea1c8ab48da222c894ef9b"),
]
for h in HASHES:
    for p in PRIVS:
        compare("deterministic_generate_k", h, p, label="k grid")
for i in range(300):
    h = rng.randbytes(rng.choice([0, 1, 20, 32, 32, 32, 48, 64]))
    p = rng.randbytes(rng.choice([1, 16, 32, 32, 32, 33]))
    compare("deterministic_generate_k", h, p, label="k random")

# ------------------------------------------------------------------
# 2. ecdsa_raw_sign with the real nonce; sign -> recover round trip
n_high = 0
for h in HASHES:
    for p in PRIVS:
        a = compare("ecdsa_raw_sign", h, p, label="sign grid")
        if a[0] == "ok":
            compare("ecdsa_raw_recover", h, a[2], label="recover(sign)")
for i in range(120):
    h = rng.randbytes(32)
    p = rng.randrange(1, N).to_bytes(32, "big")
    a = compare("ecdsa_raw_sign", h, p, label="sign random")
    assert a[0] == "ok"
    v, r, s = a[2]
    assert v in (27, 28) and 0 < s * 2 < N and a[3] == (int, int, int)
    if i < 30:
        assert new.ecdsa_raw_recover(h, (v, r, s)) == old.privtopub(p)

# ------------------------------------------------------------------
# 3. forced nonces: patch the nonce generator in both modules with one stub so
#    that every branch of the low-s selection / recovery id is exercised.
forced = {"k": None}


def stub(msghash, priv):
    return forced["k"]


orig_old_k, orig_new_k = old.deterministic_generate_k, new.deterministic_generate_k
old.deterministic_generate_k = stub
new.deterministic_generate_k = stub
try:
    seen = set()
    KS = [0, 1, 2, 3, N - 1, N - 2, N, N + 1, 2 * N, 2 * N + 3, -1, -N, 2**256 - 1]
    KS += [rng.randrange(1, N) for _ in range(60)]
    for k in KS:
        forced["k"] = k
        for h, p in [
            (b"\x00" * 32, b"\x00" * 32),  # z = 0, d = 0 -> s = 0
            (b"\x00" * 32, (1).to_bytes(32, "big")),
            (rng.randbytes(32), rng.randrange(1, N).to_bytes(32, "big")),
            (rng.randbytes(32), rng.randrange(1, N).to_bytes(32, "big")),
        ]:
            a = compare("ecdsa_raw_sign", h, p, label="forced k=%r" % (k,))
            if a[0] == "ok":
                y = old.multiply(old.G, k)[1]
                z = old.bytes_to_int(h)
                raw_s = old.inv(k, N) * (z + a[2][1] * old.bytes_to_int(p)) % N
                seen.add((y % 2, raw_s * 2 >= N, a[2][0]))
    # craft s exactly: choose priv so that raw s hits boundary values
    for k in [rng.randrange(1, N) for _ in range(6)]:
        forced["k"] = k
        r = old.multiply(old.G, k)[0]
        for target in [1, 2, (N - 1) // 2, (N + 1) // 2, N - 1, N - 2, 0]:
            # s = k^-1 (z + r d)  =>  d = (s k - z) / r
            z = rng.randrange(N)
            d = (target * k - z) * old.inv(r, N) % N
            h, p = z.to_bytes(32, "big"), d.to_bytes(32, "big")
            a = compare("ecdsa_raw_sign", h, p, label="crafted s=%d" % target)
            assert a[0] == "ok"
            want = target if target * 2 < N else N - target
            assert a[2][2] == want, (a, target)
            y = old.multiply(old.G, k)[1]
            seen.add((y % 2, target * 2 >= N, a[2][0]))
    # all four (parity, high-s) combinations were seen with the right v
    assert {(0, False, 27), (1, False, 28), (0, True, 28), (1, True, 27)} <= seen, seen
    # malformed forced nonce values: exception classes must match
    for k in [None, "7", 2.0, 2.5, b"\x01", (1, 2)]:
        forced["k"] = k
        compare(
            "ecdsa_raw_sign", b"\x11" * 32, b"\x22" * 32, label="odd k %r" % (k,)
        )
finally:
    old.deterministic_generate_k = orig_old_k
    new.deterministic_generate_k = orig_new_k

# ------------------------------------------------------------------
# 4. malformed arguments: same exception class (and message) from both
ODD = [
    (None, b"\x01" * 32),
    (b"\x01" * 32, None),
    (None, None),
    ("ab" * 16, b"\x01" * 32),  # str hash: bytes_to_int accepts, hmac does not
    (b"\x01" * 32, "ab" * 16),
    ("", ""),
    ([1, 2, 3], b"\x01" * 32),
    (b"\x01" * 32, [1, 2, 3]),
    (5, b"\x01" * 32),
    (b"\x01" * 32, 5),
    (memoryview(b"\x03" * 32), memoryview(b"\x04" * 32)),
    (memoryview(b"\x03" * 32), b"\x04" * 32),
    (b"\x03" * 32, memoryview(b"\x04" * 32)),
    (bytearray(b"\x03" * 32), bytearray(b"\x04" * 32)),
    (object(), b"\x01"),
    (b"\x01", object()),
    ([None], b"\x01"),
]
for h, p in ODD:
    compare("deterministic_generate_k", h, p, label="odd k args")
    compare("ecdsa_raw_sign", h, p, label="odd sign args")
for args in [(), (b"\x01" * 32,), (b"\x01" * 32, b"\x02" * 32, b"\x03")]:
    compare("deterministic_generate_k", *args, label="arity")
    compare("ecdsa_raw_sign", *args, label="arity")

# arguments are not mutated
hb, pb = bytearray(b"\x21" * 32), bytearray(b"\x43" * 32)
new.ecdsa_raw_sign(hb, pb)
new.deterministic_generate_k(hb, pb)
assert hb == bytearray(b"\x21" * 32) and pb == bytearray(b"\x43" * 32)

# ------------------------------------------------------------------
# 5. call histories: repeat and interleave; results independent of history
seq = []
for i in range(15):
    seq.append((rng.randbytes(32), rng.randrange(1, N).to_bytes(32, "big")))
first_sign = [outcome(new.ecdsa_raw_sign, h, p) for h, p in seq]
first_k = [outcome(new.deterministic_generate_k, h, p) for h, p in seq]
order = list(range(len(seq))) * 3
rng.shuffle(order)
for j, idx in enumerate(order):
    h, p = seq[idx]
    if j % 2:
        assert outcome(new.deterministic_generate_k, h, p) == first_k[idx]
        assert outcome(old.deterministic_generate_k, h, p) == first_k[idx]
    else:
        assert outcome(new.ecdsa_raw_sign, h, p) == first_sign[idx]
        assert outcome(old.ecdsa_raw_sign, h, p) == first_sign[idx]
    if j % 5 == 0:
        vrs = first_sign[idx][2]
        assert new.ecdsa_raw_recover(h, vrs) == old.ecdsa_raw_recover(h, vrs)
    checked += 1

# ------------------------------------------------------------------
# 6. recover is untouched but check a grid anyway; constants unchanged
gx = old.Gx
for v in (0, 26, 27, 28, 29):
    for r in (0, 1, gx, N, N + 1, P - 1, 5):
        for s in (0, 1, (N - 1) // 2, (N + 1) // 2, N - 1, N, N + 1):
            compare("ecdsa_raw_recover", b"\x5a" * 32, (v, r, s), label="recover grid")
for cname, val in CONST_SNAPSHOT.items():
    assert getattr(new, cname) == val and getattr(old, cname) == val, cname
old_public = {n for n in dir(old) if not n.startswith("_")}
new_public = {n for n in dir(new) if not n.startswith("_")}
assert old_public <= new_public, old_public - new_public

# known answer from the test-suite
priv = bytes.fromhex("792eca682b890b31356247f2b04662bff448b6bb19ea1c8ab48da222c894ef9b")
assert new.ecdsa_raw_recover(
    b"\x35" * 32, new.ecdsa_raw_sign(b"\x35" * 32, priv)
) == new.privtopub(priv)

print("OK: %d comparisons identical %s in %.1fs" % (checked, stats, time.time() - t0))
sys.exit(0)
