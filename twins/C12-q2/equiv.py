import os, sys; sys.path.insert(0, os.getcwd())  # noqa: E401,E702

import importlib.util
import random
import time

HERE = os.path.dirname(os.path.abspath(__file__))
PRISTINE = os.path.join(HERE, "pristine", "optimized_bls12_381_optimized_pairing.py")

import py_ecc.optimized_bls12_381 as ob  # noqa: E402,F401
from py_ecc.optimized_bls12_381 import optimized_pairing as new  # noqa: E402

assert os.path.realpath(new.__file__).startswith(os.path.realpath(os.getcwd())), (
    new.__file__
)

# Load the pristine module as a sibling inside the same package so that its relative
# imports (.optimized_curve) resolve to the very same curve module objects.
spec = importlib.util.spec_from_file_location(
    "py_ecc.optimized_bls12_381._pristine_optimized_pairing", PRISTINE
)
old = importlib.util.module_from_spec(spec)
sys.modules[spec.name] = old
spec.loader.exec_module(old)
assert old is not new and old.miller_loop is not new.miller_loop
assert not hasattr(old, "FINAL_EXPONENT") and hasattr(new, "FINAL_EXPONENT")

from py_ecc.optimized_bls12_381 import (  # noqa: E402
    FQ,
    FQ2,
    FQ12,
    G1,
    G2,
    Z1,
    Z2,
    curve_order,
    field_modulus,
    multiply,
    neg,
    normalize,
)

rng = random.Random(0xC12 + 2)
T0 = time.time()
N_CHECKS = 0


def snap(x):
    """A structural, comparable snapshot of a result (type names + ints)."""
    if isinstance(x, (FQ12, FQ2)):
        return (type(x).__name__, tuple(int(c) for c in x.coeffs))
    if isinstance(x, FQ):
        return ("FQ", x.n)
    if isinstance(x, tuple):
        return ("tuple",) + tuple(snap(e) for e in x)
    if isinstance(x, list):
        return ("list",) + tuple(snap(e) for e in x)
    return (type(x).__name__, repr(x))


def outcome(fn, *args, **kw):
    try:
        return ("ok", snap(fn(*args, **kw)))
    except RecursionError:
        raise
    except Exception as e:  # noqa: BLE001
        return ("exc", type(e).__name__)


def same(name, *args, **kw):
    """Call old.<name> and new.<name>; demand identical outcome; args unmutated."""
    global N_CHECKS
    before = snap(args)
    a = outcome(getattr(old, name), *args, **kw)
    mid = snap(args)
    b = outcome(getattr(new, name), *args, **kw)
    after = snap(args)
    assert before == mid == after, ("argument mutated", name)
    assert a == b, (name, args, kw, a, b)
    N_CHECKS += 1
    return a


def rescale(pt, lam):
    """Another projective representative of the same point."""
    return tuple(c * lam for c in pt)


def rand_fq12(sparse=False):
    if sparse:
        cs = [0] * 12
        for i in rng.sample(range(12), rng.randint(1, 3)):
            cs[i] = rng.randrange(field_modulus)
        return FQ12(cs)
    return FQ12([rng.randrange(field_modulus) for _ in range(12)])


def rand_fq2():
    return FQ2([rng.randrange(field_modulus), rng.randrange(field_modulus)])


# --------------------------------------------------------------------------
# 0. module-level data: old values unchanged, new constants are what was recomputed
# --------------------------------------------------------------------------
assert old.pseudo_binary_encoding == new.pseudo_binary_encoding
assert old.ate_loop_count == new.ate_loop_count
assert old.log_ate_loop_count == new.log_ate_loop_count == 62
assert old.field_modulus == new.field_modulus == field_modulus
assert old.curve_order == new.curve_order == curve_order
assert snap(old.exptable) == snap(new.exptable)
assert type(new.FINAL_EXPONENT) is int and type(new.HARD_PART_EXPONENT) is int
assert new.FINAL_EXPONENT == (old.field_modulus**12 - 1) // old.curve_order
assert (
    new.HARD_PART_EXPONENT
    == (old.field_modulus**4 - old.field_modulus**2 + 1) // old.curve_order
)
# the slice written with the named constant selects exactly the same digits
assert (
    new.pseudo_binary_encoding[new.log_ate_loop_count :: -1]
    == old.pseudo_binary_encoding[62::-1]
)
pbe_before = list(new.pseudo_binary_encoding)
consts_before = (new.FINAL_EXPONENT, new.HARD_PART_EXPONENT, new.log_ate_loop_count)
exptable_before = snap(new.exptable)

# --------------------------------------------------------------------------
# 1. pairing on subgroup points, several projective representatives, both flags
# --------------------------------------------------------------------------
scalars = [1, 2, curve_order - 1, rng.randrange(1, curve_order)]
pairs = []
for i, a in enumerate(scalars):
    bsc = scalars[(i + 1) % len(scalars)]
    pairs.append((multiply(G2, bsc), multiply(G1, a)))

for idx, (Q, P) in enumerate(pairs):
    lamP = rng.randrange(1, field_modulus)
    lamQ = FQ2([rng.randrange(field_modulus), rng.randrange(1, field_modulus)])
    reps = [(Q, P)]
    if idx % 2 == 0:
        reps.append((rescale(Q, lamQ), rescale(P, lamP)))
    else:
        nx, ny = normalize(P)
        qx, qy = normalize(Q)
        reps.append(((qx, qy, FQ2.one()), (nx, ny, FQ.one())))
    results_true = []
    for Qr, Pr in reps:
        r_true = same("pairing", Qr, Pr)
        r_false = same("pairing", Qr, Pr, final_exponentiate=False)
        assert r_true[0] == "ok" and r_false[0] == "ok"
        results_true.append(r_true)
    # exponentiated value independent of projective representative
    assert all(r == results_true[0] for r in results_true)

# truthy / falsy non-bool flags behave like bools; positional flag
Q, P = pairs[0]
r_f = same("pairing", Q, P, final_exponentiate=False)
assert same("pairing", Q, P, final_exponentiate=0) == r_f
assert same("pairing", Q, P, final_exponentiate=[]) == r_f
assert same("pairing", Q, P, final_exponentiate=None) == r_f
assert same("pairing", Q, P, False) == r_f
assert same("pairing", Q, P, final_exponentiate="yes") == same(
    "pairing", Q, P, final_exponentiate=True
)

# --------------------------------------------------------------------------
# 2. identity / infinity / malformed inputs
# --------------------------------------------------------------------------
inf1_alt = (FQ(5), FQ(7), FQ(0))
inf2_alt = (FQ2([3, 4]), FQ2([5, 6]), FQ2.zero())
zero1 = (FQ(0), FQ(0), FQ(0))
zero2 = (FQ2.zero(), FQ2.zero(), FQ2.zero())
off1 = (FQ(1), FQ(3), FQ(1))
off2 = (G2[0], G2[1] + FQ2.one(), G2[2])
for Qx, Px in [
    (G2, Z1),
    (Z2, G1),
    (Z2, Z1),
    (G2, inf1_alt),
    (inf2_alt, G1),
    (G2, zero1),
    (zero2, G1),
    (zero2, zero1),
    (off2, G1),
    (G2, off1),
    (off2, off1),
    (off2, Z1),
    (Z2, off1),
    (None, G1),
    (G2, None),
    (None, None),
    (G1, G2),
    (G2, G2),
    (G1, G1),
    ((), G1),
    (G2, ()),
    (G2[:2], G1),
    (G2, G1[:2]),
    (5, G1),
    (G2, 5),
    ((1, 2, 1), (1, 2, 1)),
]:
    same("pairing", Qx, Px, final_exponentiate=False)
    same("pairing", Qx, Px)

# --------------------------------------------------------------------------
# 3. miller_loop called directly (takes untwisted Q over FQ2 and P over FQ)
# --------------------------------------------------------------------------
same("miller_loop", None, G1)
same("miller_loop", G2, None)
same("miller_loop", None, None, final_exponentiate=False)
same("miller_loop", None, None)
same("miller_loop", G2, G1, final_exponentiate=False)
same("miller_loop", G2, G1, False)
same("miller_loop", G2, G1, True)
same("miller_loop", neg(G2), G1, final_exponentiate=False)
same("miller_loop", Z2, G1, final_exponentiate=False)
same("miller_loop", G2, Z1, final_exponentiate=False)
same("miller_loop", zero2, zero1, final_exponentiate=False)
same("miller_loop", zero2, zero1)  # 0/0 -> 0 ** FINAL_EXPONENT
# malformed arguments reaching the loop body
same("miller_loop", (), G1, final_exponentiate=False)
same("miller_loop", G2, (), final_exponentiate=False)
same("miller_loop", G2[:2], G1, final_exponentiate=False)
same("miller_loop", 7, G1, final_exponentiate=False)
same("miller_loop", G2, 7, final_exponentiate=False)
same("miller_loop", G1, G1, final_exponentiate=False)
same("miller_loop", G2, G2, final_exponentiate=False)
same("miller_loop", (1, 2, 1), G1, final_exponentiate=False)
# arbitrary coordinate triples (not on any curve): the pure arithmetic must agree;
# drives all linefunc branches and degenerate add/double cases
for k in range(6):
    Qr = (rand_fq2(), rand_fq2(), rand_fq2() if k % 3 else FQ2.one())
    Pr = (
        FQ(rng.randrange(field_modulus)),
        FQ(rng.randrange(field_modulus)),
        FQ(rng.randrange(1, field_modulus)),
    )
    same("miller_loop", Qr, Pr, final_exponentiate=False)
    if k == 0:
        same("miller_loop", Qr, Pr)
same("miller_loop", (FQ2.one(), FQ2.zero(), FQ2.one()), G1, final_exponentiate=False)

# --------------------------------------------------------------------------
# 4. final_exponentiate / exp_by_p on 0, 1, sparse, random; and against plain powers
# --------------------------------------------------------------------------
zero12, one12 = FQ12.zero(), FQ12.one()
w = FQ12([0, 1] + [0] * 10)
elems = [
    zero12,
    one12,
    w,
    FQ12([field_modulus - 1] + [0] * 11),
    FQ12([0] * 11 + [1]),
    rand_fq12(True),
    rand_fq12(True),
    rand_fq12(),
    rand_fq12(),
]
for x in elems:
    fe = same("final_exponentiate", x)
    fr = same("exp_by_p", x)
    assert fe[0] == "ok" and fr[0] == "ok"
    # fast final exponentiation == plain exponentiation by (p^12-1)/r,
    # Frobenius shortcut == plain exponentiation by p   (edited module)
    plain = x ** ((field_modulus**12 - 1) // curve_order)
    assert snap(plain) == fe[1], "final_exponentiate != plain power"
    assert snap(x**field_modulus) == fr[1], "exp_by_p != plain power"
    N_CHECKS += 2
# the Miller-loop exit path (f ** FINAL_EXPONENT) agrees with final_exponentiate
m0 = new.pairing(G2, G1, final_exponentiate=False)
assert new.pairing(G2, G1) == new.final_exponentiate(m0) == old.final_exponentiate(m0)
# malformed arguments
for bad in [
    None,
    5,
    "x",
    FQ(3),
    FQ2([1, 2]),
    (1, 2),
    FQ12([FQ(1)] + [FQ(0)] * 11),  # FQ-typed coefficients
]:
    same("final_exponentiate", bad)
    same("exp_by_p", bad)
# keyword name of the public parameter is unchanged
same("final_exponentiate", p=one12)
same("exp_by_p", x=w)

# untouched helpers
pts = [G1, multiply(G1, 2), multiply(G1, 3), multiply(G1, curve_order - 1), Z1]
for A in pts:
    for B in pts[:3]:
        for C in pts[1:3]:
            same("linefunc", A, B, C)
same("cast_point_to_fq12", None)
same("cast_point_to_fq12", G1)
same("normalize1", multiply(G1, 5))

# --------------------------------------------------------------------------
# 5. two-step verifier form:  FE(prod miller) == prod FE(miller)   (old and new)
# --------------------------------------------------------------------------
ms_new = [new.pairing(Qx, Px, final_exponentiate=False) for Qx, Px in pairs[:3]]
es_new = [new.pairing(Qx, Px) for Qx, Px in pairs[:3]]
ms_old = [old.pairing(Qx, Px, final_exponentiate=False) for Qx, Px in pairs[:3]]
assert snap(ms_new) == snap(ms_old)
for n in (1, 2, 3):
    pm, pe = FQ12.one(), FQ12.one()
    for m_, e_ in zip(ms_new[:n], es_new[:n]):
        pm, pe = pm * m_, pe * e_
    assert new.final_exponentiate(pm) == pe == old.final_exponentiate(pm)
    N_CHECKS += 1
# six Miller values (e(Q,P) e(Q,-P))^3 -> one
six = FQ12.one()
for _ in range(3):
    six = six * ms_new[0] * new.pairing(pairs[0][0], neg(pairs[0][1]), False)
assert same("final_exponentiate", six) == ("ok", snap(FQ12.one()))
# bilinearity sanity on the edited module
e1 = es_new[0]
assert e1 != FQ12.one()
assert new.pairing(multiply(pairs[0][0], 2), pairs[0][1]) == e1 * e1

# --------------------------------------------------------------------------
# 6. optimized (edited) == reference pairing of the same curve
# --------------------------------------------------------------------------
from py_ecc import bls12_381 as ref  # noqa: E402

a, bsc = rng.randrange(1, curve_order), rng.randrange(1, curve_order)
r = ref.pairing(ref.multiply(ref.G2, bsc), ref.multiply(ref.G1, a))
o = new.pairing(multiply(G2, bsc), multiply(G1, a))
assert tuple(int(c) for c in r.coeffs) == tuple(int(c) for c in o.coeffs)
N_CHECKS += 1

# --------------------------------------------------------------------------
# 7. call histories: repeat and interleave calls with equal and different args
# --------------------------------------------------------------------------
history = []
seq = [0, 1, 0, 2, 1, 0]
for step, i in enumerate(seq):
    Qx, Px = pairs[i]
    flag = step % 3 == 0
    r = same("pairing", Qx, Px, final_exponentiate=flag)
    history.append((i, flag, r))
    # interleave unrelated calls that touch the same helpers / constants
    same("pairing", Z2, Px)
    same("miller_loop", None, None)
    same("pairing", off2, Px)
    same("final_exponentiate", elems[step % len(elems)])
    same("exp_by_p", elems[(step + 3) % len(elems)])
by_key = {}
for i, flag, r in history:
    assert by_key.setdefault((i, flag), r) == r, "result changed with call history"
# fresh-equal (not identical) argument objects give equal results
Qx, Px = pairs[1]
Qc = tuple(FQ2([int(c) for c in e.coeffs]) for e in Qx)
Pc = tuple(FQ(e.n) for e in Px)
assert same("pairing", Qc, Pc, final_exponentiate=False) == same(
    "pairing", Qx, Px, final_exponentiate=False
)

# module-level constants were not disturbed by any of the calls above
assert new.pseudo_binary_encoding == pbe_before == old.pseudo_binary_encoding
assert consts_before == (
    new.FINAL_EXPONENT,
    new.HARD_PART_EXPONENT,
    new.log_ate_loop_count,
)
assert snap(new.exptable) == exptable_before == snap(old.exptable)
assert new.one == old.one and new.two == old.two

print(f"q2 equiv OK: {N_CHECKS} comparisons in {time.time() - T0:.1f}s")
sys.exit(0)
