import os, sys; sys.path.insert(0, os.getcwd())  # noqa: E401,E702

"""
Equivalence demonstration for refactoring r2 (py_ecc/bls/g2_primitives.py).

Loads the pristine g2_primitives module under another module name inside the
py_ecc.bls package and compares it with the refactored module of the working tree
on G1_to_pubkey / G2_to_signature / pubkey_to_G1 / signature_to_G2 / subgroup_check
(valid points, infinity, non-normalised projective points, off-curve points,
malformed byte strings and wrong types), then end to end through the ciphersuites.
"""
import importlib.util
import random

HERE = os.path.dirname(os.path.abspath(__file__))

import py_ecc.bls.g2_primitives as new  # noqa: E402

assert os.path.abspath(new.__file__).startswith(os.getcwd()), new.__file__

spec = importlib.util.spec_from_file_location(
    "py_ecc.bls._pristine_g2_primitives",
    os.path.join(HERE, "pristine", "g2_primitives.py"),
)
old = importlib.util.module_from_spec(spec)
sys.modules[spec.name] = old
spec.loader.exec_module(old)

from py_ecc.fields import (  # noqa: E402
    optimized_bls12_381_FQ as FQ,
    optimized_bls12_381_FQ2 as FQ2,
)
from py_ecc.optimized_bls12_381 import (  # noqa: E402
    G1,
    G2,
    Z1,
    Z2,
    add,
    curve_order as r,
    field_modulus as q,
    multiply,
    neg,
)

checked = 0
mismatches = []


def run(f, *a):
    try:
        return ("ok", f(*a))
    except BaseException as e:  # noqa: B902
        return ("exc", type(e), str(e))


def same(label, name, *a):
    global checked
    ro, rn = run(getattr(old, name), *a), run(getattr(new, name), *a)
    checked += 1
    if ro != rn or (ro[0] == "ok" and type(ro[1]) is not type(rn[1])):
        mismatches.append((label, a, ro, rn))
    return ro


rng = random.Random(0xC0902)
scalars = [1, 2, 3, r - 1, r - 2, (r + 1) // 2, 2**200 + 1] + [
    rng.randrange(1, r) for _ in range(10)
]

# ---- G1 -> pubkey and back
g1_points = [multiply(G1, k) for k in scalars]
g1_points += [add(g1_points[0], g1_points[4]), neg(g1_points[5])]
# same points with a non-trivial Z (projective scaling)
scaled = []
for p in g1_points[:6]:
    lam = FQ(rng.randrange(2, q))
    scaled.append((p[0] * lam, p[1] * lam, p[2] * lam))
g1_all = g1_points + scaled + [Z1, (FQ(5), FQ(7), FQ(0)), multiply(G1, r)]
pubkeys = []
for p in g1_all:
    res = same("G1_to_pubkey", "G1_to_pubkey", p)
    assert res[0] == "ok" and len(res[1]) == 48 and isinstance(res[1], bytes)
    pubkeys.append(res[1])
# off-curve / malformed G1 inputs (compress_G1 does not check the curve equation)
for p in [(FQ(1), FQ(1), FQ(1)), (FQ(0), FQ(0), FQ(1)), None, 5, (FQ(1), FQ(2)), b"x" * 48]:
    same("G1_to_pubkey/bad", "G1_to_pubkey", p)

INF1 = b"\xc0" + b"\x00" * 47
bad_pubkeys = [
    b"",
    b"\x00" * 48,
    b"\x80" + b"\x00" * 47,
    b"\xe0" + b"\x00" * 47,
    b"\xa0" + b"\x00" * 47,
    b"\x9f" + b"\xff" * 47,
    b"\xff" * 48,
    INF1,
    INF1 + b"\x00",
    pubkeys[0][:47],
    pubkeys[0] + b"\x00",
    b"\x00" + pubkeys[0],
    pubkeys[0] * 2,
    bytearray(pubkeys[0]),
    "a" * 48,
    None,
    5,
    [1, 2, 3],
]
for k in range(40):
    bad_pubkeys.append((2**383 + (k % 2) * 2**381 + k).to_bytes(48, "big"))
for _ in range(20):
    bad_pubkeys.append(rng.randbytes(48))
for pk in pubkeys + bad_pubkeys:
    same("pubkey_to_G1", "pubkey_to_G1", pk)

# ---- G2 -> signature and back
g2_points = [multiply(G2, k) for k in scalars]
g2_points += [add(g2_points[0], g2_points[4]), neg(g2_points[5])]
scaled2 = []
for p in g2_points[:6]:
    lam = FQ2([rng.randrange(1, q), rng.randrange(0, q)])
    scaled2.append((p[0] * lam, p[1] * lam, p[2] * lam))
g2_all = g2_points + scaled2 + [Z2, multiply(G2, r)]
signatures = []
for p in g2_all:
    res = same("G2_to_signature", "G2_to_signature", p)
    assert res[0] == "ok" and len(res[1]) == 96 and isinstance(res[1], bytes)
    signatures.append(res[1])
# off-curve / malformed G2 inputs -> ValueError (or TypeError etc.), identical in both
one2 = FQ2([1, 0])
for p in [
    (FQ2([1, 1]), FQ2([1, 1]), one2),
    (FQ2([0, 0]), FQ2([0, 0]), one2),
    (g2_points[0][0], g2_points[0][1] + one2, g2_points[0][2]),
    None,
    5,
    (one2, one2),
    g1_points[0],
]:
    same("G2_to_signature/bad", "G2_to_signature", p)

INF2 = b"\xc0" + b"\x00" * 95
bad_sigs = [
    b"",
    b"\x00" * 96,
    b"\x80" + b"\x00" * 95,
    b"\xe0" + b"\x00" * 95,
    b"\xc0" + b"\x00" * 94 + b"\x01",
    b"\x9f" + b"\xff" * 95,
    b"\x80" + b"\x00" * 47 + b"\xff" * 48,
    b"\xff" * 96,
    INF2,
    INF2 + b"\x00",
    signatures[0][:95],
    signatures[0][:48],
    signatures[0][:47],
    signatures[0] + b"\x00",
    b"\x00" + signatures[0],
    signatures[0][48:] + signatures[0][:48],
    bytearray(signatures[0]),
    "a" * 96,
    None,
    5,
    [1, 2, 3],
]
for k in range(30):
    bad_sigs.append(
        (2**383 + (k % 2) * 2**381 + k).to_bytes(48, "big") + (k // 3).to_bytes(48, "big")
    )
for _ in range(10):
    bad_sigs.append(rng.randbytes(96))
for sg in signatures + bad_sigs:
    same("signature_to_G2", "signature_to_G2", sg)

# ---- subgroup_check (untouched, but re-exported by the module)
for p in g1_points[:3] + [Z1] + g2_points[:2] + [Z2]:
    same("subgroup_check", "subgroup_check", p)

# ---- module surface unchanged for importers
for name in [
    "G1_to_pubkey",
    "G2_to_signature",
    "pubkey_to_G1",
    "signature_to_G2",
    "subgroup_check",
    "is_inf",
]:
    assert hasattr(new, name), name

# ---- end to end: the ciphersuites of the working tree use the refactored module.
# Recompute the expected bytes with the pristine encoders.
from py_ecc.bls import G2Basic, G2MessageAugmentation, G2ProofOfPossession  # noqa: E402
from py_ecc.bls.hash_to_curve import hash_to_G2  # noqa: E402
from hashlib import sha256  # noqa: E402

for sk in [1, r - 1, rng.randrange(1, r)]:
    pk = G2Basic.SkToPk(sk)
    assert pk == old.G1_to_pubkey(multiply(G1, sk))
    checked += 1
    for suite, prefix, dst in [
        (G2Basic, b"", G2Basic.DST),
        (G2MessageAugmentation, pk, G2MessageAugmentation.DST),
        (G2ProofOfPossession, b"", G2ProofOfPossession.DST),
    ]:
        for m in [b"", b"abc", b"\x00" * 48]:
            expect = old.G2_to_signature(
                multiply(hash_to_G2(prefix + m, dst, sha256), sk)
            )
            assert suite.Sign(sk, m) == expect
            checked += 1
    expect = old.G2_to_signature(
        multiply(hash_to_G2(pk, G2ProofOfPossession.POP_TAG, sha256), sk)
    )
    assert G2ProofOfPossession.PopProve(sk) == expect
    checked += 1
sig_a, sig_b = signatures[0], signatures[3]
expect = old.G2_to_signature(
    add(add(Z2, old.signature_to_G2(sig_a)), old.signature_to_G2(sig_b))
)
assert G2Basic.Aggregate([sig_a, sig_b]) == expect
checked += 1

if mismatches:
    for m in mismatches[:20]:
        print("MISMATCH", m)
    print(f"{len(mismatches)} mismatches out of {checked} comparisons")
    sys.exit(1)
print(f"r2 equivalence OK: {checked} comparisons, 0 mismatches")
