import os, sys; sys.path.insert(0, os.getcwd())  # noqa: E702
"""
Equivalence demonstration for q2 (C04): the edited
py_ecc/bls/point_compression.py of the working tree against the pristine copy
saved next to this script.

Part A compares the two modules function by function on a broad set of
integers / points.  Part B builds a complete "pristine stack" (copies of the
unchanged g2_primitives.py and ciphersuites.py of the working tree, re-bound to
the pristine point_compression) and compares the five verification entry points
of the three suites end to end, including the arguments that reach `pairing`.
"""
import importlib.util
import random
import time

HERE = os.path.dirname(os.path.abspath(__file__))
T0 = time.time()

import py_ecc.bls.ciphersuites as NEW_CS  # noqa: E402
import py_ecc.bls.g2_primitives as NEW_G2P  # noqa: E402
import py_ecc.bls.point_compression as NEW  # noqa: E402

assert os.path.realpath(NEW.__file__).startswith(os.path.realpath(os.getcwd()))


def load(name, path):
    spec = importlib.util.spec_from_file_location(name, path)
    mod = importlib.util.module_from_spec(spec)
    sys.modules[name] = mod
    spec.loader.exec_module(mod)
    return mod


OLD = load(
    "py_ecc.bls._pristine_point_compression",
    os.path.join(HERE, "pristine", "point_compression.py"),
)
assert OLD.__file__ != NEW.__file__
# the edit really is present / absent
assert hasattr(NEW, "EVEN_EIGHTH_ROOTS_OF_UNITY") and not hasattr(
    OLD, "EVEN_EIGHTH_ROOTS_OF_UNITY"
)

# pristine stack: same source as the working tree for the two unchanged modules,
# but bound to the pristine point_compression
OLD_G2P = load("py_ecc.bls._pristine_g2_primitives", NEW_G2P.__file__)
for n in ("compress_G1", "compress_G2", "decompress_G1", "decompress_G2"):
    assert getattr(OLD_G2P, n) is getattr(NEW, n)
    setattr(OLD_G2P, n, getattr(OLD, n))
OLD_CS = load("py_ecc.bls._pristine_ciphersuites", NEW_CS.__file__)
for n in (
    "G1_to_pubkey",
    "G2_to_signature",
    "pubkey_to_G1",
    "signature_to_G2",
    "subgroup_check",
    "is_inf",
):
    assert getattr(OLD_CS, n) is getattr(NEW_G2P, n)
    setattr(OLD_CS, n, getattr(OLD_G2P, n))

from py_ecc.bls.constants import (  # noqa: E402
    EIGHTH_ROOTS_OF_UNITY,
    POW_2_381,
    POW_2_382,
    POW_2_383,
    POW_2_384,
)
from py_ecc.fields import (  # noqa: E402
    optimized_bls12_381_FQ as FQ,
    optimized_bls12_381_FQ2 as FQ2,
)
from py_ecc.optimized_bls12_381 import (  # noqa: E402
    G1,
    G2,
    Z1,
    Z2,
    add,
    b2,
    curve_order,
    double,
    field_modulus as q,
    multiply,
    neg,
)

rng = random.Random(0xC0402)

# facts the edit relies on ---------------------------------------------------
assert isinstance(EIGHTH_ROOTS_OF_UNITY, tuple) and len(EIGHTH_ROOTS_OF_UNITY) == 8
assert len({r.coeffs for r in EIGHTH_ROOTS_OF_UNITY}) == 8  # pairwise distinct
assert isinstance(NEW.EVEN_EIGHTH_ROOTS_OF_UNITY, tuple)
assert all(
    NEW.EVEN_EIGHTH_ROOTS_OF_UNITY[k] is EIGHTH_ROOTS_OF_UNITY[2 * k] for k in range(4)
)
assert NEW.FQ_SQRT_EXPONENT == (q + 1) // 4
assert NEW.FQ2_SQRT_EXPONENT == (q**2 - 1 + 8) // 16
CONST_SNAPSHOT = repr(
    (EIGHTH_ROOTS_OF_UNITY, NEW.EVEN_EIGHTH_ROOTS_OF_UNITY, Z1, Z2, G1, G2, b2)
)


def desc(v):
    """value -> comparable description including the types"""
    if isinstance(v, tuple):
        return ("tuple", tuple(desc(e) for e in v))
    if isinstance(v, FQ2):
        return ("FQ2", tuple(desc(c) for c in v.coeffs))
    if isinstance(v, FQ):
        return ("FQ", v.n)
    return (type(v).__name__, v)


def outcome(f, *args):
    try:
        r = f(*args)
    except BaseException as e:  # noqa: B902
        return ("exc", type(e).__name__)
    return ("ok", desc(r))


N = 0
SEEN = {}


def same(fn, *args, key=None):
    global N
    N += 1
    snap = repr(args)
    a = outcome(getattr(NEW, fn), *args)
    b = outcome(getattr(OLD, fn), *args)
    assert a == b, (fn, args, a, b)
    assert repr(args) == snap
    if key is not None:
        if (fn, key) in SEEN:
            assert SEEN[(fn, key)] == a, ("history dependent", fn, key)
        SEEN[(fn, key)] = a
    return a


# ---------------------------------------------------------------------------
# Part A1: G1 decoding on integers
# ---------------------------------------------------------------------------
good_pts = [multiply(G1, k) for k in (1, 2, 3, 5, 0xDEADBEEF, curve_order - 1)]
good_z = [NEW.compress_G1(p) for p in good_pts]
xs = [0, 1, 2, 3, 4, 5, q - 2, q - 1, q, q + 1, q + 2, POW_2_381 - 1, POW_2_381 - 2]
xs += [z % POW_2_381 for z in good_z]
xs += [rng.randrange(q) for _ in range(300)]
xs += [rng.randrange(POW_2_381) for _ in range(60)]
zs = []
for x in xs:
    for flags in range(8):
        zs.append((flags << 381) + x)
zs += [-1, -POW_2_383, POW_2_384, POW_2_384 + POW_2_383 + 5, 1 << 500, POW_2_383 + POW_2_382]
zs += [rng.getrandbits(384) for _ in range(300)]
zs += [rng.getrandbits(n) for n in range(0, 1600, 8)]
n_ok = 0
for rnd in range(2):
    for i, z in enumerate(zs):
        r = same("decompress_G1", z, key=i)
        n_ok += r[0] == "ok"
        same("get_flags", z)
        same("is_point_at_infinity", z)
assert n_ok > 200
for bad in (None, "1", 1.5, b"\x01", (1, 2)):
    same("decompress_G1", bad)
print("A1 G1 decode:", N, "calls,", n_ok // 2, "decodable,", round(time.time() - T0, 1))

# compression of G1 points, incl. projective representatives and infinity
pts1 = list(good_pts) + [Z1, (FQ(0), FQ(0), FQ(0)), (FQ(5), FQ(7), FQ(0))]
pts1 += [double(p) for p in good_pts[:3]] + [add(good_pts[0], good_pts[3])]
pts1 += [neg(p) for p in good_pts[:3]]
for p in pts1:
    r = same("compress_G1", p)
    if r[0] == "ok":
        same("decompress_G1", r[1][1])
        # round trip agrees with itself in both modules
        assert desc(OLD.decompress_G1(NEW.compress_G1(p))) == desc(
            NEW.decompress_G1(OLD.compress_G1(p))
        )

# ---------------------------------------------------------------------------
# Part A2: square roots in FQ2
# ---------------------------------------------------------------------------
vals = [FQ2([0, 0]), FQ2([1, 0]), FQ2([0, 1]), FQ2([q - 1, 0]), FQ2([0, q - 1]), FQ2([4, 4])]
vals += list(EIGHTH_ROOTS_OF_UNITY)
vals += [FQ2([k, 0]) for k in range(2, 8)] + [FQ2([0, k]) for k in range(2, 6)]
rand = [FQ2([rng.randrange(q), rng.randrange(q)]) for _ in range(60)]
vals += rand
vals += [v * v for v in rand[:40]]  # guaranteed squares
vals += [v * v * r for v in rand[:8] for r in EIGHTH_ROOTS_OF_UNITY]  # every coset
vals += [FQ2([FQ(3), FQ(4)]), FQ2([FQ(9), FQ(0)])]  # FQ-typed coefficients
n_sq = 0
for rnd in range(2):
    for i, v in enumerate(vals):
        r = same("modular_squareroot_in_FQ2", v, key=i)
        n_sq += r == ("ok", ("NoneType", None))
assert 0 < n_sq // 2 < len(vals)
for bad in (None, "4", FQ(4)):  # (a plain int would be raised to a 760-bit power)
    same("modular_squareroot_in_FQ2", bad)
print("A2 FQ2 sqrt:", N, "calls,", round(time.time() - T0, 1))

# ---------------------------------------------------------------------------
# Part A3: G2 decoding / encoding
# ---------------------------------------------------------------------------
good2 = [multiply(G2, k) for k in (1, 2, 7, 0xABCDEF, curve_order - 1)]
enc2 = [NEW.compress_G2(p) for p in good2]
pairs = []
for z1, z2 in enc2:
    x1 = z1 % POW_2_381
    for flags in range(8):
        pairs.append(((flags << 381) + x1, z2))
    pairs += [(z1, z2 + q), (z1, q), (z1, q - 1), (z1, 0), (z1, POW_2_383 + z2), (z1, -z2), (z2, z1)]
    pairs += [(z1 + 1, z2), (z1, z2 + 1), (z1 ^ 1, z2 ^ 1)]
for x in (0, 1, q - 1, q, q + 1, POW_2_381 - 1):
    for flags in (4, 5, 6, 7, 0):
        pairs += [((flags << 381) + x, 0), ((flags << 381) + x, x), ((flags << 381), x)]
for _ in range(120):
    pairs.append((POW_2_383 + (rng.getrandbits(1) << 381) + rng.randrange(q), rng.randrange(q)))
for _ in range(40):
    pairs.append((rng.getrandbits(384), rng.getrandbits(384)))
pairs += [(POW_2_383 + POW_2_382, 0), (POW_2_383 + POW_2_382, 1), (POW_2_383 + POW_2_382 + POW_2_381, 0)]
n_ok = 0
for i, pr in enumerate(pairs):
    r = same("decompress_G2", pr, key=i)
    n_ok += r[0] == "ok"
    same("is_point_at_infinity", *pr)
for i, pr in enumerate(pairs[:60]):  # again, after other calls
    same("decompress_G2", pr, key=i)
assert n_ok > 40
for bad in (None, 5, (1,), (1, 2, 3), ("a", "b"), (POW_2_383 + 5, None)):
    same("decompress_G2", bad)
pts2 = list(good2) + [Z2, (FQ2([0, 0]), FQ2([0, 0]), FQ2([0, 0])), double(good2[1]), add(good2[0], good2[2])]
pts2 += [neg(p) for p in good2[:2]] + [(FQ2([1, 2]), FQ2([3, 4]), FQ2([1, 0]))]
for p in pts2:
    r = same("compress_G2", p)
    if r[0] == "ok":
        z = tuple(e[1] for e in r[1][1])
        same("decompress_G2", z)
print("A3 G2 decode:", N, "calls,", n_ok, "decodable,", round(time.time() - T0, 1))

# ---------------------------------------------------------------------------
# Part B: end to end through the verification entry points
# ---------------------------------------------------------------------------
LOG = {"new": [], "old": []}


def install(mod, k):
    real = mod.pairing

    def recorder(Q, P, final_exponentiate=True):
        LOG[k].append((repr(Q), repr(P), final_exponentiate))
        return real(Q, P, final_exponentiate=final_exponentiate)

    mod.pairing = recorder


install(NEW_CS, "new")
install(OLD_CS, "old")
M = 0


def e2e(suite, fn, *args, key=None):
    global M
    M += 1
    LOG["new"].clear()
    LOG["old"].clear()
    a = outcome(getattr(getattr(NEW_CS, suite), fn), *args)
    b = outcome(getattr(getattr(OLD_CS, suite), fn), *args)
    assert a == b, (suite, fn, args, a, b)
    assert LOG["new"] == LOG["old"], (suite, fn, args)
    if key is not None:
        if (suite, fn, key) in SEEN:
            assert SEEN[(suite, fn, key)] == a
        SEEN[(suite, fn, key)] = a
    return a


SUITES = ["G2Basic", "G2MessageAugmentation", "G2ProofOfPossession"]


def enc48(n):
    return (n % POW_2_384).to_bytes(48, "big")


def g1_cofactor_point():
    x = 1
    while True:
        x += 1
        rhs = (x**3 + 4) % q
        y = pow(rhs, (q + 1) // 4, q)
        if y * y % q == rhs:
            pt = (FQ(x), FQ(y), FQ(1))
            if not NEW_G2P.subgroup_check(pt):
                return pt


def g2_cofactor_point():
    k = 1
    while True:
        k += 1
        x = FQ2([k, 1])
        y = OLD.modular_squareroot_in_FQ2(x**3 + b2)
        if y is not None:
            pt = (x, y, FQ2([1, 0]))
            if not NEW_G2P.subgroup_check(pt):
                return pt


SK = [1, 2, 3]
PK = [NEW_CS.G2Basic.SkToPk(sk) for sk in SK]
assert PK == [OLD_CS.G2Basic.SkToPk(sk) for sk in SK]
good_pk = PK[1]
good_x = int.from_bytes(good_pk, "big") % POW_2_381
G1_COF = OLD_G2P.G1_to_pubkey(g1_cofactor_point())
G2_COF = OLD_G2P.G2_to_signature(g2_cofactor_point())
PK_INF = b"\xc0" + b"\x00" * 47
SIG_INF = b"\xc0" + b"\x00" * 95

keys = list(PK) + [
    b"", good_pk[:47], good_pk + b"\x00", b"\x00" + good_pk, b"\x00" * 48 + good_pk,
    PK_INF, b"\xe0" + b"\x00" * 47, b"\x80" + b"\x00" * 47, b"\x00" * 48, b"\xff" * 48,
    G1_COF, bytearray(good_pk), None,
]
for flags in range(8):
    keys.append(enc48((flags << 381) + good_x))
    keys.append(enc48(flags << 381))
for x in (0, 1, q - 1, q, q + 1, POW_2_381 - 1):
    keys.append(enc48(POW_2_383 + x))
    keys.append(enc48(POW_2_383 + POW_2_381 + x))
for n in list(range(0, 201, 13)) + [47, 48, 49]:
    keys.append(bytes(rng.getrandbits(8) for _ in range(n)))
for _ in range(60):
    r = bytearray(rng.getrandbits(8) for _ in range(48))
    r[0] = (r[0] & 0x3F) | 0x80
    keys.append(bytes(r))

sigs = {s: getattr(NEW_CS, s).Sign(2, b"abc") for s in SUITES}
assert sigs == {s: getattr(OLD_CS, s).Sign(2, b"abc") for s in SUITES}
good_sig = sigs["G2Basic"]
sx1 = int.from_bytes(good_sig[:48], "big") % POW_2_381
bad_sigs = [
    b"", good_sig[:95], good_sig + b"\x00", b"\x00" + good_sig, b"\x00" * 96, b"\xff" * 96,
    SIG_INF, b"\xe0" + b"\x00" * 95, b"\xc0" + b"\x00" * 94 + b"\x01", G2_COF,
    good_sig[:48] + enc48(q), good_sig[:48] + enc48(q - 1),
    good_sig[:48] + enc48(POW_2_383 + int.from_bytes(good_sig[48:], "big")),
    good_sig[48:] + good_sig[:48], None,
]
for flags in range(8):
    bad_sigs.append(enc48((flags << 381) + sx1) + good_sig[48:])
for x in (0, q - 1, q, POW_2_381 - 1):
    bad_sigs.append(enc48(POW_2_383 + x) + enc48(x))
for _ in range(10):
    r = bytearray(rng.getrandbits(8) for _ in range(96))
    r[0] = (r[0] & 0x3F) | 0x80
    r[48] &= 0x1F
    bad_sigs.append(bytes(r))

for rnd in range(2):
    for i, k in enumerate(keys):
        for s in ("G2Basic", "G2ProofOfPossession"):
            e2e(s, "KeyValidate", k, key=("kv", i))
for i, k in enumerate(keys[3:45]):
    s = SUITES[i % 3]
    e2e(s, "Verify", k, b"abc", sigs[s], key=("vk", i))
    if i % 3 == 0:
        e2e("G2ProofOfPossession", "PopVerify", k, sigs[s])
for i, sg in enumerate(bad_sigs):
    s = SUITES[i % 3]
    e2e(s, "Verify", good_pk, b"abc", sg, key=("vs", i))
    if i % 3 == 0:
        e2e("G2ProofOfPossession", "PopVerify", good_pk, sg)
print("B malformed:", M, "calls,", round(time.time() - T0, 1))

for s in SUITES:
    assert e2e(s, "Verify", good_pk, b"abc", sigs[s], key="good") == ("ok", ("bool", True))
assert e2e("G2Basic", "Verify", good_pk, b"abd", good_sig) == ("ok", ("bool", False))
assert e2e("G2Basic", "Verify", PK[0], b"abc", good_sig) == ("ok", ("bool", False))
e2e("G2Basic", "Verify", good_pk, b"abc", SIG_INF)
POP = NEW_CS.G2ProofOfPossession
proof = POP.PopProve(2)
assert proof == OLD_CS.G2ProofOfPossession.PopProve(2)
assert e2e("G2ProofOfPossession", "PopVerify", good_pk, proof, key="pop") == ("ok", ("bool", True))

msgs = [b"m0", b"m1", b"m2"]
for s in SUITES:
    cls = getattr(NEW_CS, s)
    agg = cls.Aggregate([cls.Sign(sk, m) for sk, m in zip(SK[:2], msgs)])
    assert agg == getattr(OLD_CS, s).Aggregate(
        [getattr(OLD_CS, s).Sign(sk, m) for sk, m in zip(SK[:2], msgs)]
    )
    assert e2e(s, "AggregateVerify", PK[:2], msgs[:2], agg, key="agg") == ("ok", ("bool", True))
    for i, k in enumerate([PK_INF, G1_COF, enc48(POW_2_383 + q), good_pk + b"\x00", enc48(good_x)]):
        for pos in range(2):
            ks = list(PK[:2])
            ks[pos] = k
            assert e2e(s, "AggregateVerify", ks, msgs[:2], agg) == ("ok", ("bool", False))
            if s == "G2ProofOfPossession":
                assert e2e(s, "FastAggregateVerify", ks, b"fast", agg) == ("ok", ("bool", False))
    e2e(s, "AggregateVerify", PK[:2], msgs[:2], G2_COF)
    e2e(s, "AggregateVerify", PK[:2], msgs[:2], SIG_INF[:95])
fast = POP.Aggregate([POP.Sign(sk, b"fast") for sk in SK])
assert e2e("G2ProofOfPossession", "FastAggregateVerify", PK, b"fast", fast, key="fast") == ("ok", ("bool", True))
e2e("G2ProofOfPossession", "FastAggregateVerify", PK[:2], b"fast", fast)
# repeat after all the other calls
e2e("G2Basic", "Verify", good_pk, b"abc", good_sig, key="good")
e2e("G2ProofOfPossession", "PopVerify", good_pk, proof, key="pop")
for i, k in enumerate(keys[3:30]):
    s = SUITES[i % 3]
    e2e(s, "Verify", k, b"abc", sigs[s], key=("vk", i))

# nothing module-level was mutated
assert CONST_SNAPSHOT == repr(
    (EIGHTH_ROOTS_OF_UNITY, NEW.EVEN_EIGHTH_ROOTS_OF_UNITY, Z1, Z2, G1, G2, b2)
)
print("OK: %d function-level and %d end-to-end paired calls identical, %.1fs" % (N, M, time.time() - T0))
