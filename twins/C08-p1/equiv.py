import os, sys; sys.path.insert(0, os.getcwd())  # noqa: E702

import importlib.util
import random

HERE = os.path.dirname(os.path.abspath(__file__))


def load(name, path):
    spec = importlib.util.spec_from_file_location(name, path)
    mod = importlib.util.module_from_spec(spec)
    sys.modules[name] = mod
    spec.loader.exec_module(mod)
    return mod


import py_ecc.fields.field_elements as new_ref  # noqa: E402
import py_ecc.fields.optimized_field_elements as new_opt  # noqa: E402
from py_ecc.fields.field_properties import field_properties  # noqa: E402

assert os.path.abspath(new_ref.__file__).startswith(os.getcwd()), new_ref.__file__

old_ref = load(
    "pristine_field_elements", os.path.join(HERE, "pristine/fields/field_elements.py")
)
old_opt = load(
    "pristine_optimized_field_elements",
    os.path.join(HERE, "pristine/fields/optimized_field_elements.py"),
)

# sanity: the edited modules really differ from the pristine ones
assert open(new_ref.__file__).read() != open(old_ref.__file__).read()
assert open(new_opt.__file__).read() != open(old_opt.__file__).read()

rng = random.Random(0xC08)
CHECKS = 0


def mk(mod, p, mc2=None, mc12=None):
    FQ = type("FQ_%d" % abs(p), (mod.FQ,), {"field_modulus": p})
    out = {"FQ": FQ}
    if mc2 is not None:
        out["FQ2"] = type(
            "FQ2_x", (mod.FQ2,), {"field_modulus": p, "FQ2_MODULUS_COEFFS": mc2}
        )
    if mc12 is not None:
        out["FQ12"] = type(
            "FQ12_x", (mod.FQ12,), {"field_modulus": p, "FQ12_MODULUS_COEFFS": mc12}
        )
    return out


def norm(v):
    """Observable value: ints of result coefficients, plus a kind tag."""
    if isinstance(v, (old_ref.FQ, new_ref.FQ, old_opt.FQ, new_opt.FQ)):
        return ("FQ", type(v.n).__name__, v.n)
    if isinstance(v, (old_ref.FQP, new_ref.FQP, old_opt.FQP, new_opt.FQP)):
        return (
            "FQP",
            len(v.coeffs),
            tuple((type(int(c)).__name__, int(c)) for c in v.coeffs),
            tuple(
                "FQ" if hasattr(c, "n") else type(c).__name__ for c in v.coeffs
            ),
        )
    return (type(v).__name__, repr(v))


def run(f):
    try:
        return ("ok", norm(f()))
    except BaseException as e:  # noqa: B902
        if isinstance(e, (KeyboardInterrupt, SystemExit)):
            raise
        return ("exc", type(e).__name__)


def same(label, f_old, f_new):
    global CHECKS
    CHECKS += 1
    a, b = run(f_old), run(f_new)
    if a != b:
        print("MISMATCH", label, a, b)
        sys.exit(1)
    return a


class MyInt(int):
    pass


class Weird:
    """Positive-looking non-int exponent supporting the operators the loop uses."""

    def __init__(self, v):
        self.v = v

    def __gt__(self, o):
        return self.v > o

    def __and__(self, o):
        return self.v & o

    def __rshift__(self, o):
        return Weird(self.v >> o)


BN = field_properties["bn128"]
BLS = field_properties["bls12_381"]


def exponents(p):
    ap = abs(p)
    es = [0, 1, 2, 3, 4, 5, 7, 8, 15, 16, 17, ap - 2, ap - 1, ap, ap + 1, 2 * ap, ap * ap]
    es += [ap**12, ap**12 - 1, (ap**12 - 1) // 3 if ap > 3 else 6]
    es += [rng.randrange(0, ap**12 + 2) for _ in range(4)]
    es += [rng.randrange(0, ap + 2) for _ in range(4)]
    es += [-1, -2, -ap, True, False, MyInt(5), MyInt(0), MyInt(-3)]
    return es


BAD_EXPS = [1.0, 2.5, 0.0, -1.5, None, "3", b"3", (1,), [2], 3 + 0j]


def values(p):
    ap = abs(p)
    vs = [0, 1, 2, ap - 1, ap - 2, ap, ap + 1, -1, -ap - 5, 2 * ap + 3, ap // 2, True]
    vs += [rng.randrange(-3 * ap, 3 * ap) for _ in range(6)]
    return vs


# ---------------------------------------------------------------- FQ.__pow__
def check_fq_pow(p, exhaustive=False):
    for old, new in ((old_ref, new_ref), (old_opt, new_opt)):
        O, N = mk(old, p)["FQ"], mk(new, p)["FQ"]
        vs = range(-1, abs(p) + 2) if exhaustive else values(p)
        es = list(range(0, 2 * abs(p) + 4)) + exponents(p) if exhaustive else exponents(p)
        for v in vs:
            for e in es:
                same(("fqpow", p, v, e), lambda: O(v) ** e, lambda: N(v) ** e)
                same(
                    ("fqpow3", p, v, e),
                    lambda: O(v).__pow__(e),
                    lambda: N(v).__pow__(e),
                )
            for e in BAD_EXPS:
                same(("fqpow-bad", p, v, e), lambda: O(v) ** e, lambda: N(v) ** e)
            same(
                ("fqpow-weird", p, v),
                lambda: O(v) ** Weird(11),
                lambda: N(v) ** Weird(11),
            )
            same(
                ("fqpow-weird0", p, v),
                lambda: O(v) ** Weird(0),
                lambda: N(v) ** Weird(0),
            )
            # FQ element used as exponent (0 -> one, otherwise TypeError)
            same(("fqpow-fq0", p, v), lambda: O(v) ** O(0), lambda: N(v) ** N(0))
            same(("fqpow-fq3", p, v), lambda: O(v) ** O(3), lambda: N(v) ** N(3))
            # argument is not mutated, repeated calls are stable
            xo, xn = O(v), N(v)
            r1 = same(("rep1", p, v), lambda: xo**5, lambda: xn**5)
            r2 = same(("rep2", p, v), lambda: xo**5, lambda: xn**5)
            assert r1 == r2 and xo.n == xn.n == v % p


for p in (2, 3, 5, 7, 11, 13):
    check_fq_pow(p, exhaustive=True)
for p in (BN["field_modulus"], BLS["field_modulus"], 1, 4, 9, 15, -7, 2**127 - 1):
    check_fq_pow(p)

# unreduced representatives obtained through the copying constructor, also for
# a class with field_modulus 0 (which can only be populated that way)
for old, new in ((old_ref, new_ref), (old_opt, new_opt)):
    for p_src, p_dst in ((101, 7), (BLS["field_modulus"], BN["field_modulus"]), (101, 0), (101, 1), (101, -7)):
        Os, Ns = mk(old, p_src)["FQ"], mk(new, p_src)["FQ"]
        Od, Nd = mk(old, p_dst)["FQ"], mk(new, p_dst)["FQ"]
        for v in (0, 1, 50, 100, p_src - 1, rng.randrange(p_src)):
            for e in (0, 1, 2, 3, 10, 97, -1, abs(p_dst) + 3, True):
                same(
                    ("unreduced", p_src, p_dst, v, e),
                    lambda: Od(Os(v)) ** e,
                    lambda: Nd(Ns(v)) ** e,
                )
            # manually forged negative / oversized representative
            xo, xn = Od(Os(v)), Nd(Ns(v))
            xo.n = xn.n = -v - 3
            for e in (0, 1, 2, 9):
                same(("forged", p_dst, v, e), lambda: xo**e, lambda: xn**e)


# ------------------------------------------- optimized FQP scalar division
def rand_coeffs(p, d, kind):
    ap = abs(p)
    if kind == "zero":
        return [0] * d
    if kind == "one":
        return [1] + [0] * (d - 1)
    if kind == "minus1":
        return [ap - 1] + [0] * (d - 1)
    if kind == "pm1":
        return [ap - 1] * d
    if kind == "sparse":
        c = [0] * d
        c[rng.randrange(d)] = rng.randrange(ap)
        return c
    if kind == "wide":
        return [rng.randrange(-3 * ap, 3 * ap) for _ in range(d)]
    return [rng.randrange(ap) for _ in range(d)]


KINDS = ["zero", "one", "minus1", "pm1", "sparse", "wide", "rand", "rand"]


def scalars(p):
    ap = abs(p)
    return [0, 1, -1, 2, ap - 1, ap, ap + 1, 2 * ap, -ap, -ap - 2, 3 * ap + 5, True, False,
            MyInt(3), rng.randrange(ap), rng.randrange(-5 * ap, 5 * ap)]


def check_fqp(p, mc2, mc12, n_pairs=3):
    for old, new, optimized in ((old_ref, new_ref, False), (old_opt, new_opt, True)):
        Ko, Kn = mk(old, p, mc2, mc12), mk(new, p, mc2, mc12)
        for name, d in (("FQ2", 2), ("FQ12", 12)):
            O, N = Ko[name], Kn[name]
            for kind in KINDS:
                c = rand_coeffs(p, d, kind)
                for s in scalars(p):
                    same((name, p, "div-int", c, s), lambda: O(c) / s, lambda: N(c) / s)
                    same(
                        (name, p, "div-int-m", c, s),
                        lambda: O(c).__div__(s),
                        lambda: N(c).__div__(s),
                    )
                for s in (1.5, None, "2", Ko["FQ"](3)):
                    s_new = Kn["FQ"](3) if hasattr(s, "n") else s
                    same(
                        (name, p, "div-bad", c, repr(s)),
                        lambda: O(c) / s,
                        lambda: N(c) / s_new,
                    )
                # FQ-coefficient instances (accepted by the optimized class too)
                cf_o = [Ko["FQ"](x) for x in c]
                cf_n = [Kn["FQ"](x) for x in c]
                for s in (0, 1, 2, -3, abs(p) + 4):
                    same(
                        (name, p, "div-int-fqcoeffs", c, s),
                        lambda: O(cf_o) / s,
                        lambda: N(cf_n) / s,
                    )
                same((name, p, "inv", c), lambda: O(c).inv(), lambda: N(c).inv())
                for e in (0, 1, 2, 3, abs(p), abs(p) ** d - 1, -1):
                    if d == 12 and abs(p) > 2**64 and e > 3:
                        e = min(e, 2**40 + 7)
                    same((name, p, "pow", c, e), lambda: O(c) ** e, lambda: N(c) ** e)
                for _ in range(n_pairs):
                    c2 = rand_coeffs(p, d, rng.choice(KINDS))
                    same(
                        (name, p, "div", c, c2),
                        lambda: O(c) / O(c2),
                        lambda: N(c) / N(c2),
                    )
                    same(
                        (name, p, "mul", c, c2),
                        lambda: O(c) * O(c2),
                        lambda: N(c) * N(c2),
                    )
                # history: repeat / interleave, operand not mutated
                xo, xn = O(c), N(c)
                before = norm(xo)
                a1 = same(("h1",), lambda: xo / 5, lambda: xn / 5)
                same(("h2",), lambda: xo / 0, lambda: xn / 0)
                same(("h3",), lambda: xo / -7, lambda: xn / -7)
                a2 = same(("h4",), lambda: xo / 5, lambda: xn / 5)
                assert a1 == a2 and norm(xo) == before == norm(xn)


check_fqp(BN["field_modulus"], BN["fq2_modulus_coeffs"], BN["fq12_modulus_coeffs"])
check_fqp(BLS["field_modulus"], BLS["fq2_modulus_coeffs"], BLS["fq12_modulus_coeffs"])
# small fields; x^2+1 is irreducible for p = 3, 7, 11; x^2+x+1 for p = 2, 5;
# the degree-12 moduli need not be irreducible for an old-vs-new comparison
check_fqp(3, (1, 0), (2, 0, 0, 0, 0, 0, 1, 0, 0, 0, 0, 0), n_pairs=2)
check_fqp(7, (1, 0), (3, 0, 0, 0, 0, 0, -2, 0, 0, 0, 0, 0), n_pairs=2)
check_fqp(2, (1, 1), (1, 0, 0, 1, 0, 0, 0, 0, 0, 0, 0, 0), n_pairs=2)
check_fqp(5, (1, 1), (2, 0, 0, 0, 0, 0, 1, 0, 0, 0, 0, 0), n_pairs=2)

# exhaustive GF(p^2) scalar division for small p, both implementations
for p, mc2 in ((2, (1, 1)), (3, (1, 0)), (5, (1, 1)), (7, (1, 0))):
    for old, new in ((old_ref, new_ref), (old_opt, new_opt)):
        O, N = mk(old, p, mc2)["FQ2"], mk(new, p, mc2)["FQ2"]
        for a in range(p):
            for b in range(p):
                for s in range(-p - 1, 2 * p + 2):
                    same(("ex2", p, a, b, s), lambda: O([a, b]) / s, lambda: N([a, b]) / s)

# --------------------------------------------- axioms still hold (new tree)
for p in (BN["field_modulus"], BLS["field_modulus"], 13):
    for mod in (new_ref, new_opt):
        F = mk(mod, p)["FQ"]
        for _ in range(20):
            x = F(rng.randrange(p))
            n = rng.randrange(0, 40)
            prod = F(1)
            for _ in range(n):
                prod = prod * x
            assert x**n == prod and int(x**n) == pow(int(x), n, p)
            assert x ** (p - 1) == (1 if x != 0 else 0)
            assert 0 <= int(x ** (p**12)) < p

print("p1 equivalence OK:", CHECKS, "comparisons")
