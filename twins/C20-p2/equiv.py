import os, sys; sys.path.insert(0, os.getcwd())  # noqa: E401,E702

"""
Equivalence demonstration for p2 (C20): in py_ecc/fields/optimized_field_elements.py
the operand class check of FQP.__add__/__sub__/__eq__ and the construction of the
per-instance ``mc_tuples`` in the FQ2/FQ12 constructors are factored into two shared
module-level helpers.

 A. in-process: the pristine copy of the module is loaded under another name next to
    the edited one; identical class families (bn128, bls12_381 and ad-hoc small
    fields, also with odd modulus-coefficient spellings) are derived from both and
    driven through the same seeded, interleaved call sequences including malformed
    operands.  Results, per-instance state (coeffs, modulus_coeffs, degree,
    mc_tuples, sgn0 cache) and exception classes AND messages must agree; operands
    are snapshotted before/after each call; mc_tuples lists must stay per-instance.

 B. against values recorded on the pristine tree (expected.json, ``--record``):
    optimized curve ops, pairings, hash-to-curve, point (de)compression and BLS
    ciphersuite calls, which all run on these classes.
"""

import importlib.util
import json
import random
import signal
import time

HERE = os.path.dirname(os.path.abspath(__file__))
T0 = time.time()


def load(path, name):
    spec = importlib.util.spec_from_file_location(name, path)
    mod = importlib.util.module_from_spec(spec)
    sys.modules[name] = mod
    spec.loader.exec_module(mod)
    return mod


PRISTINE = load(
    os.path.join(HERE, "pristine", "optimized_field_elements.py"), "pristine_ofe"
)
import py_ecc.fields.optimized_field_elements as EDITED  # noqa: E402

assert os.path.abspath(EDITED.__file__).startswith(os.getcwd()), EDITED.__file__
RECORD = "--record" in sys.argv
if not RECORD:
    assert hasattr(EDITED, "_require_same_class"), "edited tree expected"
    assert hasattr(EDITED, "_nonzero_terms"), "edited tree expected"


class CallTimeout(BaseException):
    pass


def _on_alarm(signum, frame):
    raise CallTimeout()


signal.signal(signal.SIGALRM, _on_alarm)
CALL_TIMEOUT = 2.0  # inv() in a non-field may never return (in both versions)
timeouts = []


def run(fn):
    signal.setitimer(signal.ITIMER_REAL, CALL_TIMEOUT)
    try:
        try:
            r = fn()
        finally:
            signal.setitimer(signal.ITIMER_REAL, 0)
        return ("ok", r)
    except CallTimeout:
        return ("exc", "<does not terminate>", "")
    except BaseException as e:  # noqa: B902
        if isinstance(e, (KeyboardInterrupt, SystemExit, MemoryError)):
            raise
        return ("exc", type(e).__name__, str(e))


def strip(msg):
    # class reprs contain the (deliberately different) module name of the two copies
    return msg.replace("pristine_ofe", "M").replace(
        "py_ecc.fields.optimized_field_elements", "M"
    )


def canon(v, mod):
    if isinstance(v, mod.FQP):
        return (
            "FQP",
            type(v).__name__,
            tuple(canon(c, mod) for c in v.coeffs),
            tuple(canon(c, mod) for c in v.modulus_coeffs),
            v.degree,
            (
                type(getattr(v, "mc_tuples", None)).__name__,
                repr(getattr(v, "mc_tuples", None)),
            ),
            sorted(vars(v)),
            repr(v),
        )
    if isinstance(v, mod.FQ):
        return ("FQ", type(v).__name__, repr(v.n), type(v.n).__name__)
    if isinstance(v, (tuple, list)):
        return (type(v).__name__,) + tuple(canon(x, mod) for x in v)
    return (type(v).__name__, repr(v))


checks = 0
exc_seen = {}


def same(label, fp, fe):
    global checks
    if label in timeouts:
        return ("exc", "skipped", ""), ("exc", "skipped", "")
    rp, re_ = run(fp), run(fe)
    a = (rp[0], canon(rp[1], PRISTINE)) if rp[0] == "ok" else (rp[1], strip(rp[2]))
    b = (re_[0], canon(re_[1], EDITED)) if re_[0] == "ok" else (re_[1], strip(re_[2]))
    if a != b:
        print("MISMATCH", label, "\n pristine:", a, "\n edited:  ", b)
        sys.exit(1)
    checks += 1
    if rp[0] == "exc":
        exc_seen[rp[1]] = exc_seen.get(rp[1], 0) + 1
        if rp[1] == "<does not terminate>":
            timeouts.append(label)
    return rp, re_


# --------------------------------------------------------------------------
# class families
# --------------------------------------------------------------------------
def irreducible2(p):
    for c0 in range(1, p):
        if all((x * x + c0) % p for x in range(p)):
            return (c0, 0)
    return (1, 0)


BN_P = 21888242871839275222246405745257275088696311157297823662689037894645226208583
BLS_P = 0x1A0111EA397FE69A4B1BA7B6434BACD764774B84F38512BF6730D2A0F6B0F6241EABFFFEB153FFFFB9FEFFFFFFFFAAAB  # noqa: E501
MC12_BN = (82, 0, 0, 0, 0, 0, -18, 0, 0, 0, 0, 0)
MC12_BLS = (2, 0, 0, 0, 0, 0, -2, 0, 0, 0, 0, 0)


def family(mod, tag, p, mc2, mc12=None):
    ns = {"FQ": type(f"{tag}_FQ", (mod.FQ,), {"field_modulus": p})}
    d2 = {"field_modulus": p}
    if mc2 is not None:
        d2["FQ2_MODULUS_COEFFS"] = mc2
    ns["FQ2"] = type(f"{tag}_FQ2", (mod.FQ2,), d2)
    if mc12 is not None:
        ns["FQ12"] = type(
            f"{tag}_FQ12",
            (mod.FQ12,),
            {"field_modulus": p, "FQ12_MODULUS_COEFFS": mc12},
        )
    # a second, distinct class over the same field (operands of a sibling class)
    ns["FQ2b"] = type(f"{tag}_FQ2b", (mod.FQ2,), dict(d2))
    # a subclass of FQ2 (isinstance accepts it on the right-hand side only)
    ns["FQ2sub"] = type(f"{tag}_FQ2sub", (ns["FQ2"],), {})
    return ns


SPECS = [
    ("bn", BN_P, (1, 0), MC12_BN),
    ("bls", BLS_P, (1, 0), MC12_BLS),
    ("f7", 7, (1, 0), None),
    ("f11", 11, irreducible2(11), None),
    ("f13", 13, irreducible2(13), MC12_BLS),
    ("f2", 2, (1, 1), None),
    ("f101", 101, irreducible2(101), (2, 0, 0, 0, 0, 0, -2, 0, 0, 0, 0, 0)),
    # odd spellings of the modulus coefficients
    ("lst", 7, [1, 0], None),  # list instead of tuple
    ("zero", 7, (0, 0), None),  # no non-zero term: mc_tuples == []
    ("full", 7, (3, 5), None),  # both terms
    ("bools", 7, (True, False), None),
    ("flt", 7, (1.0, 0.0), None),
    ("gen", 7, range(1, 3), None),
    ("short", 7, (1,), None),  # wrong length: constructor refuses
    ("noiter", 7, 5, None),  # not iterable: TypeError from the helper / comprehension
    ("nomc", 7, None, None),  # attribute missing -> AttributeError... (None: see below)
]
FAM_P = {s[0]: family(PRISTINE, *s) for s in SPECS}
FAM_E = {s[0]: family(EDITED, *s) for s in SPECS}
# FQ coefficients inside modulus coeffs
for F, mod in ((FAM_P, PRISTINE), (FAM_E, EDITED)):
    fq = F["f7"]["FQ"]
    F["fqmc"] = family(mod, "fqmc", 7, (fq(1), fq(0)), None)
SPECS.append(("fqmc", 7, None, None))

rng = random.Random(2020)
INTS = [0, 1, 2, 3, -1, -2, 5, 6, 7, 8, 13, 2**64 + 1, -(2**70), BN_P, BLS_P - 1]
JUNK = ["x", None, 1.5, b"\x01", [1, 2], (1, 2), object, 3]
POOLS = {}


def pool(tag, kind):
    return POOLS.setdefault(tag, {}).setdefault(kind, [])


def construct(tag, kind, coeffs):
    cp, ce = FAM_P[tag][kind], FAM_E[tag][kind]
    rp, re_ = same(
        f"construct {tag}.{kind}({coeffs!r})", lambda: cp(coeffs), lambda: ce(coeffs)
    )
    if rp[0] == "ok":
        pool(tag, kind).append((rp[1], re_[1]))


def seed_family(tag, p):
    for kind in FAM_P[tag]:
        if kind == "FQ":
            for v in [0, 1, p - 1, p, p + 1, -1, rng.randrange(p)] + JUNK:
                construct(tag, kind, v)
            continue
        deg = 12 if kind == "FQ12" else 2
        construct(tag, kind, [0] * deg)
        construct(tag, kind, [1] + [0] * (deg - 1))
        construct(tag, kind, tuple(range(deg)))
        construct(tag, kind, [p] * deg)
        construct(tag, kind, [-1] * deg)
        for _ in range(3):
            construct(tag, kind, [rng.randrange(-3, p + 3) for _ in range(deg)])
        for bad in ([], [1] * (deg + 1), [1] * (deg - 1), ["a"] * deg, [1.5] * deg):
            construct(tag, kind, bad)
        construct(tag, kind, None)
        construct(tag, kind, 5)
        fq_p, fq_e = FAM_P[tag]["FQ"], FAM_E[tag]["FQ"]
        rp, re_ = same(
            "fq-coeffs",
            lambda: FAM_P[tag][kind]([fq_p(3)] * deg),
            lambda: FAM_E[tag][kind]([fq_e(3)] * deg),
        )
        if rp[0] == "ok":
            pool(tag, kind).append((rp[1], re_[1]))


BIN = {
    "add": lambda a, b: a + b,
    "sub": lambda a, b: a - b,
    "mul": lambda a, b: a * b,
    "rmul": lambda a, b: b * a,
    "div": lambda a, b: a / b,
    "eq": lambda a, b: a == b,
    "ne": lambda a, b: a != b,
    "radd": lambda a, b: b + a,
    "rsub": lambda a, b: b - a,
    "req": lambda a, b: b == a,
    "sum": lambda a, b: sum([a, b], type(a).zero()),
    "in": lambda a, b: a in [b],
}
UN = {
    "neg": lambda a: -a,
    "inv": lambda a: a.inv(),
    "repr": lambda a: repr(a),
    "one": lambda a: type(a).one(),
    "zero": lambda a: type(a).zero(),
    "sq": lambda a: a * a,
    "pow0": lambda a: a**0,
    "pow5": lambda a: a**5,
    "powneg": lambda a: a**-3,
    "sgn0": lambda a: a.sgn0,
    "mc": lambda a: a.mc_tuples,
    "reinit": lambda a: type(a)(a.coeffs),
    "selfeq": lambda a: a == a,
    "selfsub": lambda a: a - a,
    "builtin_sum": lambda a: sum([a, a]),  # 0 + a: int.__add__ -> no __radd__
}


def pick_other(tag, kind):
    """an operand for a binary call: same class, sibling class, subclass, foreign"""
    r = rng.random()
    if r < 0.6:
        return rng.choice(pool(tag, kind))
    if r < 0.75:
        alt = [k for k in POOLS[tag] if k != kind and POOLS[tag][k]]
        if alt:
            return rng.choice(pool(tag, rng.choice(alt)))
    if r < 0.9:
        otag = rng.choice(list(POOLS))
        ok = [k for k in POOLS[otag] if POOLS[otag][k]]
        if ok:
            return rng.choice(pool(otag, rng.choice(ok)))
    j = rng.choice(JUNK + INTS + [True])
    return (j, j)


def step(tag):
    kinds = [k for k in POOLS.get(tag, {}) if k != "FQ" and POOLS[tag][k]]
    if not kinds:
        return
    kind = rng.choice(kinds)
    pl = pool(tag, kind)
    ap, ae = rng.choice(pl)
    before = (canon(ap, PRISTINE), canon(ae, EDITED))
    if rng.random() < 0.3:
        name = rng.choice(list(UN))
        res = same(f"{tag}.{kind}.{name}", lambda: UN[name](ap), lambda: UN[name](ae))
    else:
        name = rng.choice(list(BIN))
        bp, be = pick_other(tag, kind)
        bb = (canon(bp, PRISTINE), canon(be, EDITED))
        res = same(
            f"{tag}.{kind}.{name}:{type(bp).__name__}",
            lambda: BIN[name](ap, bp),
            lambda: BIN[name](ae, be),
        )
        assert bb == (canon(bp, PRISTINE), canon(be, EDITED)), "operand mutated"
    after = (canon(ap, PRISTINE), canon(ae, EDITED))
    # the only permitted change of an operand: the sgn0 cached_property got filled
    strip_sgn = lambda c: tuple(  # noqa: E731
        [y for y in x if y != "sgn0"] if isinstance(x, list) else x for x in c
    )
    assert strip_sgn(before[0]) == strip_sgn(after[0]), "operand mutated (pristine)"
    assert strip_sgn(before[1]) == strip_sgn(after[1]), "operand mutated (edited)"
    assert after[0] == after[1]
    if res[0][0] == "ok" and isinstance(res[0][1], PRISTINE.FQP):
        k2 = kind if type(res[0][1]) is type(ap) else None
        if k2:
            if len(pl) < 40:
                pl.append((res[0][1], res[1][1]))
            else:
                pl[rng.randrange(8, 40)] = (res[0][1], res[1][1])


if not RECORD:
    for s in SPECS:
        seed_family(s[0], s[1])

    # the mc_tuples list is per instance in both versions
    for mod, F in ((PRISTINE, FAM_P), (EDITED, FAM_E)):
        for tag, kind in (("bn", "FQ2"), ("bn", "FQ12"), ("bls", "FQ12"), ("full", "FQ2")):
            c = F[tag][kind]
            x, y = c.one(), c.one()
            assert type(x.mc_tuples) is list and x.mc_tuples is not y.mc_tuples
            saved = list(y.mc_tuples)
            x.mc_tuples.append((0, 12345))  # vandalise one element's private list
            assert y.mc_tuples == saved and c.one().mc_tuples == saved
            assert canon(y * y, mod) == canon(c.one() * c.one(), mod)
    assert "mc_tuples" not in vars(EDITED.FQ2) and "mc_tuples" not in vars(EDITED.FQP)

    def probes(F):
        out = []
        for tag in ["bn", "bls", "f7", "f13", "full", "lst"]:
            c = F[tag]["FQ2"]
            a, b = c([3, 4]), c([5, 6])
            out.append((tag, a * b, a / b, (a + b) ** 7, b.inv(), -a, a - b, a == b))
        return out

    first = [canon(x, EDITED) for x in probes(FAM_E)]
    assert first == [canon(x, PRISTINE) for x in probes(FAM_P)]

    tags = [s[0] for s in SPECS]
    n = 0
    while time.time() - T0 < 40 and n < 40000:
        step(rng.choice(tags[:7]) if rng.random() < 0.6 else rng.choice(tags))
        n += 1
        if n % 500 == 0:
            assert [canon(x, EDITED) for x in probes(FAM_E)] == first, "history"
    assert exc_seen.get("TypeError", 0) > 500, exc_seen
    print(f"A: {n} random steps, {checks} compared outcomes; exceptions seen: {exc_seen}")
    print("   calls that terminate in neither version:", sorted(set(timeouts)))

    # the real field classes of the library: wrong-class operands
    from py_ecc.fields import optimized_bls12_381_FQ2 as LFQ2
    from py_ecc.fields import optimized_bls12_381_FQ12 as LFQ12
    from py_ecc.fields import optimized_bn128_FQ2 as BFQ2

    for f in (
        lambda: LFQ2([1, 2]) + BFQ2([1, 2]),
        lambda: LFQ2([1, 2]) - LFQ12([1] * 12),
        lambda: LFQ2([1, 2]) == 5,
        lambda: LFQ12.one() == LFQ2.one(),
        lambda: LFQ2([1, 2]) + None,
    ):
        r = run(f)
        assert r[:2] == ("exc", "TypeError") and r[2].startswith(
            "Expected an FQP object, but got object of type <class"
        ), r


# --------------------------------------------------------------------------
# B. values recorded on the pristine tree
# --------------------------------------------------------------------------
def high_level():
    global CALL_TIMEOUT
    CALL_TIMEOUT = 90
    from py_ecc import optimized_bls12_381 as L
    from py_ecc import optimized_bn128 as B
    from py_ecc.bls import G2Basic, G2MessageAugmentation, G2ProofOfPossession
    from py_ecc.bls.g2_primitives import G2_to_signature, signature_to_G2
    from py_ecc.bls.hash_to_curve import hash_to_G2
    from py_ecc.bls.point_compression import compress_G2, decompress_G2
    from hashlib import sha256

    out = {}

    def put(k, fn):
        r = run(fn)
        out[k] = [r[0], repr(r[1]) if r[0] == "ok" else r[1]]

    for name, C in (("bn128", B), ("bls12_381", L)):
        G1, G2 = C.G1, C.G2

        def constants():
            return repr((C.G1, C.G2, C.G12, C.Z1, C.Z2, C.b, C.b2, C.b12))

        snap = constants()
        put(f"{name}.double", lambda: C.normalize(C.double(G2)))
        put(f"{name}.mul", lambda: C.normalize(C.multiply(G2, 77)))
        put(f"{name}.mul0", lambda: C.multiply(G2, 0))
        put(f"{name}.add_inf", lambda: C.add(C.Z2, G2))
        put(f"{name}.add_neg", lambda: C.add(G2, C.neg(G2)))
        put(f"{name}.eq", lambda: C.eq(C.double(G2), C.add(G2, G2)))
        put(f"{name}.eq_inf", lambda: C.eq(C.Z2, C.multiply(G2, C.curve_order)))
        put(f"{name}.eq_mixed", lambda: C.eq(G1, G2))
        put(f"{name}.twist", lambda: C.twist(C.multiply(G2, 5)))
        put(f"{name}.on_curve", lambda: C.is_on_curve(C.multiply(G2, 9), C.b2))
        put(f"{name}.off_curve", lambda: C.is_on_curve((G2[0], G2[0], G2[2]), C.b2))
        put(f"{name}.add_mixed", lambda: C.add(G1, G2))
        put(f"{name}.fq12pow", lambda: C.FQ12([1, 2, 3] + [0] * 9) ** 12345)
        put(f"{name}.fq12inv", lambda: C.FQ12(list(range(12))).inv())
        put(f"{name}.pairing", lambda: C.pairing(G2, C.multiply(G1, 3)))
        put(f"{name}.pairing_inf", lambda: C.pairing(G2, C.Z1))
        put(f"{name}.pairing_swapped", lambda: C.pairing(G1, G2))
        put(f"{name}.double_again", lambda: C.normalize(C.double(G2)))
        assert out[f"{name}.double_again"] == out[f"{name}.double"]
        assert snap == constants(), "constant changed"
        out[f"{name}.constants"] = ["ok", snap]

    put("h2c", lambda: hash_to_G2(b"abc", G2Basic.DST, sha256))
    put("h2c_empty", lambda: hash_to_G2(b"", G2ProofOfPossession.DST, sha256))
    pt = L.multiply(L.G2, 31337)
    put("compress", lambda: compress_G2(pt))
    put("decompress", lambda: decompress_G2(compress_G2(pt)))
    put("decompress_inf", lambda: decompress_G2(compress_G2(L.Z2)))
    put("decompress_bad", lambda: decompress_G2((1, 2)))
    put("sig_roundtrip", lambda: signature_to_G2(G2_to_signature(pt)))
    for suite in (G2Basic, G2MessageAugmentation, G2ProofOfPossession):
        s = suite.__name__
        sk1, sk2 = 42, 2**200 + 7
        pk1, pk2 = suite.SkToPk(sk1), suite.SkToPk(sk2)
        sig1, sig2 = suite.Sign(sk1, b"m1"), suite.Sign(sk2, b"m2")
        out[f"{s}.pk"] = ["ok", repr((pk1, pk2))]
        out[f"{s}.sig"] = ["ok", repr((sig1, sig2))]
        put(f"{s}.verify", lambda: suite.Verify(pk1, b"m1", sig1))
        put(f"{s}.verify_wrong", lambda: suite.Verify(pk1, b"m2", sig1))
        put(f"{s}.verify_badpk", lambda: suite.Verify(b"\x00" * 48, b"m1", sig1))
        put(f"{s}.verify_badsig", lambda: suite.Verify(pk1, b"m1", b"\xff" * 96))
        put(f"{s}.agg", lambda: suite.Aggregate([sig1, sig2]))
        put(f"{s}.agg_empty", lambda: suite.Aggregate([]))
        put(
            f"{s}.aggverify",
            lambda: suite.AggregateVerify(
                [pk1, pk2], [b"m1", b"m2"], suite.Aggregate([sig1, sig2])
            ),
        )
        put(f"{s}.keygen", lambda: suite.KeyGen(b"\x01" * 32))
        put(f"{s}.sign_again", lambda: suite.Sign(sk1, b"m1") == sig1)
        put(f"{s}.sign_bad", lambda: suite.Sign(0, b"m1"))
    put("pop", lambda: G2ProofOfPossession.PopVerify(
        G2ProofOfPossession.SkToPk(5), G2ProofOfPossession.PopProve(5)))
    return out


got = high_level()
path = os.path.join(HERE, "expected.json")
if RECORD:
    with open(path, "w") as f:
        json.dump(got, f, indent=1, sort_keys=True)
    print("recorded", len(got), "values on", EDITED.__file__)
    sys.exit(0)
with open(path) as f:
    want = json.load(f)
assert set(want) == set(got)
for k in sorted(want):
    if want[k] != got[k]:
        print("MISMATCH vs pristine recording:", k, want[k], got[k])
        sys.exit(1)
print(f"B: {len(got)} curve/pairing/BLS level values equal to the pristine recording")
print(f"OK ({time.time() - T0:.1f}s)")
