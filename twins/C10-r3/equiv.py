import os, sys; sys.path.insert(0, os.getcwd())
"""
r3 equivalence demonstration:
  * hash_to_G1 / hash_to_G2: pipeline temporaries inlined into one expression;
  * optimized_swu_G1: t*t for t**2, common sub-expression D^2, factored
    u = N*(N^2 + a*D^2) + b*D^3, conditional expression for the sign fix-up;
  * sqrt_division_FQ2: early return instead of flag variables.

Loads the pristine optimized_swu.py and hash_to_curve.py (saved next to this file) under
other module names inside their packages and compares them with the working tree.
"""
import hashlib
import importlib.util
import random

HERE = os.path.dirname(os.path.abspath(__file__))


def load_pristine(filename, modname):
    spec = importlib.util.spec_from_file_location(
        modname, os.path.join(HERE, "pristine", filename)
    )
    mod = importlib.util.module_from_spec(spec)
    sys.modules[modname] = mod
    spec.loader.exec_module(mod)
    return mod


import py_ecc.optimized_bls12_381 as opt  # noqa: E402
import py_ecc.optimized_bls12_381.optimized_swu as new_swu  # noqa: E402
import py_ecc.bls.hash_to_curve as new_h2c  # noqa: E402
from py_ecc.fields import (  # noqa: E402
    optimized_bls12_381_FQ as FQ,
    optimized_bls12_381_FQ2 as FQ2,
    optimized_bn128_FQ as BN_FQ,
    optimized_bn128_FQ2 as BN_FQ2,
)
from py_ecc.optimized_bls12_381.constants import ISO_11_A, ISO_11_Z  # noqa: E402

old_swu = load_pristine(
    "optimized_swu.py", "py_ecc.optimized_bls12_381._pristine_optimized_swu"
)
old_h2c = load_pristine("hash_to_curve.py", "py_ecc.bls._pristine_hash_to_curve")
# make the pristine pipeline fully pristine (it imported the SWU maps from the package)
old_h2c.optimized_swu_G1 = old_swu.optimized_swu_G1
old_h2c.optimized_swu_G2 = old_swu.optimized_swu_G2
old_h2c.iso_map_G1 = old_swu.iso_map_G1
old_h2c.iso_map_G2 = old_swu.iso_map_G2

cwd = os.path.realpath(os.getcwd())
assert os.path.realpath(new_swu.__file__).startswith(cwd), new_swu.__file__
assert os.path.realpath(new_h2c.__file__).startswith(cwd), new_h2c.__file__
assert new_h2c.optimized_swu_G1 is new_swu.optimized_swu_G1
assert new_h2c.optimized_swu_G2 is new_swu.optimized_swu_G2

p = opt.field_modulus
rng = random.Random(0xC10_3)


def canon(v):
    if isinstance(v, (tuple, list)):
        return (type(v).__name__, tuple(canon(e) for e in v))
    if hasattr(v, "coeffs"):
        return (type(v).__module__, type(v).__name__, tuple(int(c) for c in v.coeffs))
    if hasattr(v, "n"):
        return (type(v).__module__, type(v).__name__, int(v.n))
    return (type(v).__name__, repr(v))


def outcome(f, *args):
    try:
        return ("ok", canon(f(*args)))
    except BaseException as e:  # noqa: B902
        return ("exc", type(e).__name__)


checked = 0


def same(fo, fn, *args):
    global checked
    a, b = outcome(fo, *args), outcome(fn, *args)
    assert a == b, (fo.__name__, args, a, b)
    checked += 1
    return a


special = [0, 1, 2, 3, 4, 9, p - 1, p - 2, (p - 1) // 2, (p + 1) // 2, (p - 3) // 4]

# ---- optimized_swu_G1 ---------------------------------------------------------
g1_us = [FQ(a) for a in special] + [FQ(a) for a in range(5, 60)]
g1_us += [FQ(p - a) for a in range(3, 40)]
# exceptional inputs: Z^2 u^4 + Z u^2 = 0  <=>  u = 0 or u^2 = -1/Z
exc_sq = -(FQ.one() / ISO_11_Z)
root = exc_sq ** ((p + 1) // 4)
assert root * root == exc_sq, "-1/Z must be a square in FQ"
for r_ in (root, -root):
    z_u2 = ISO_11_Z * r_ * r_
    assert ISO_11_A * (z_u2 + z_u2 * z_u2) == FQ.zero()
    g1_us.append(r_)
g1_us += [FQ(rng.randrange(p)) for _ in range(1500)]

branch = {True: 0, False: 0}
for u in g1_us:
    res = same(old_swu.optimized_swu_G1, new_swu.optimized_swu_G1, u)
    assert res[0] == "ok"
    same(
        lambda t: opt.normalize(old_h2c.map_to_curve_G1(t)),
        lambda t: opt.normalize(new_h2c.map_to_curve_G1(t)),
        u,
    )
from py_ecc.optimized_bls12_381.constants import ISO_11_B  # noqa: E402

for u in g1_us[:300]:
    # coverage statistics: the numerator is left untouched <=> g(x1) is a square
    n, _, _ = old_swu.optimized_swu_G1(u)
    t2 = ISO_11_Z * u * u
    branch[n == ISO_11_B * (t2 + t2 * t2 + FQ.one())] += 1
assert branch[True] > 50 and branch[False] > 50, branch

# ---- sqrt_division_FQ2 / sqrt_division_FQ -------------------------------------
def rfq2():
    def c():
        return rng.choice(special) if rng.random() < 0.2 else rng.randrange(p)

    return FQ2([c(), c()])


hits = {True: 0, False: 0}
for _ in range(150):
    a, b = rfq2(), rfq2()
    r1_ = same(old_swu.sqrt_division_FQ2, new_swu.sqrt_division_FQ2, a, b)
    r2_ = same(old_swu.sqrt_division_FQ2, new_swu.sqrt_division_FQ2, a * a * b, b)
    for r_ in (r1_, r2_):
        if r_[0] == "ok":
            hits[r_[1][1][0] == ("bool", "True")] += 1
assert hits[True] > 50 and hits[False] > 20, hits
for a in (FQ2.zero(), FQ2.one(), FQ2([0, 1]), FQ2([p - 1, 0])):
    for b in (FQ2.zero(), FQ2.one(), FQ2([0, 1]), FQ2([p - 1, 0])):
        same(old_swu.sqrt_division_FQ2, new_swu.sqrt_division_FQ2, a, b)
for _ in range(100):
    a, b = FQ(rng.randrange(p)), FQ(rng.randrange(p))
    same(old_swu.sqrt_division_FQ, new_swu.sqrt_division_FQ, a, b)
    same(old_swu.sqrt_division_FQ, new_swu.sqrt_division_FQ, a * a * b, b)

# ---- optimized_swu_G2 (uses the restructured sqrt_division_FQ2) ---------------
g2_us = [FQ2([a, b]) for a in special[:8] for b in special[:8]]
g2_us += [FQ2([0, rng.randrange(p)]) for _ in range(15)]
g2_us += [FQ2([rng.randrange(p), 0]) for _ in range(15)]
g2_us += [rfq2() for _ in range(120)]
for u in g2_us:
    same(old_swu.optimized_swu_G2, new_swu.optimized_swu_G2, u)
for u in g2_us[:70]:
    same(
        lambda t: opt.normalize(old_h2c.map_to_curve_G2(t)),
        lambda t: opt.normalize(new_h2c.map_to_curve_G2(t)),
        u,
    )

# ---- malformed arguments ------------------------------------------------------
class Weird:
    pass


import decimal  # noqa: E402
import fractions  # noqa: E402

bad = [None, 0, 1, 7, -3, p, p + 5, 2.5, "abc", b"ab", [1, 2], (1,), {}, Weird(), True,
       False, 1 + 2j, decimal.Decimal(3), fractions.Fraction(1, 2),
       FQ2([5, 6]), FQ2([0, 0]), BN_FQ(5), BN_FQ(0), BN_FQ2([5, 6])]
kinds = set()
for m in bad:
    kinds.add(same(old_swu.optimized_swu_G1, new_swu.optimized_swu_G1, m)[0])
    same(old_swu.optimized_swu_G2, new_swu.optimized_swu_G2, m)
    same(old_h2c.map_to_curve_G1, new_h2c.map_to_curve_G1, m)
    same(old_h2c.map_to_curve_G2, new_h2c.map_to_curve_G2, m)
    for good in (FQ2([3, 4]),):
        same(old_swu.sqrt_division_FQ2, new_swu.sqrt_division_FQ2, m, good)
        same(old_swu.sqrt_division_FQ2, new_swu.sqrt_division_FQ2, good, m)
        # (m, m) with two plain numbers would be `number ** (760-bit exponent)` in BOTH
        # versions (never terminates), so only non-numeric / field values are paired
        if not isinstance(m, (int, float, complex, decimal.Decimal, fractions.Fraction)):
            same(old_swu.sqrt_division_FQ2, new_swu.sqrt_division_FQ2, m, m)
same(old_swu.optimized_swu_G1, new_swu.optimized_swu_G1)  # missing argument
same(old_swu.sqrt_division_FQ2, new_swu.sqrt_division_FQ2, FQ2.one())
assert "exc" in kinds

# ---- whole pipeline -----------------------------------------------------------
def norm(f):
    def run(*a):
        return opt.normalize(f(*a))

    return run


cases = [
    (b"", b"QUUX-V01-CS02-with-BLS12381G1_XMD:SHA-256_SSWU_RO_", hashlib.sha256),
    (b"abc", b"QUUX-V01-CS02-with-BLS12381G1_XMD:SHA-256_SSWU_RO_", hashlib.sha256),
    (b"abcdef0123456789", b"QUUX-V01-CS02-with-BLS12381G2_XMD:SHA-256_SSWU_RO_", hashlib.sha256),
    (b"a" * 512, b"QUUX-V01-CS02-with-BLS12381G2_XMD:SHA-256_SSWU_RO_", hashlib.sha256),
    (b"abc", b"", hashlib.sha256),
    (b"\x00" * 64, b"D" * 255, hashlib.sha256),
    (b"x", b"D" * 256, hashlib.sha256),  # tag too long
    (b"msg", b"tag", hashlib.sha512),
    (b"msg", b"tag", hashlib.sha384),
    (b"msg", b"tag", hashlib.sha224),
    (b"msg", b"tag", hashlib.sha3_256),
    (b"msg", b"tag", hashlib.blake2b),
    (b"msg", b"tag", hashlib.md5),
    ("not-bytes", b"tag", hashlib.sha256),
    (b"msg", "not-bytes", hashlib.sha256),
    (b"msg", None, hashlib.sha256),
    (None, b"tag", hashlib.sha256),
    (b"msg", b"tag", None),
    (b"msg", b"tag", len),
    (bytearray(b"msg"), bytearray(b"tag"), hashlib.sha256),
]
for i in range(8):
    cases.append((rng.randbytes(rng.randrange(0, 90)), rng.randbytes(rng.randrange(0, 60)), hashlib.sha256))
n_ok = 0
for c in cases:
    a = same(norm(old_h2c.hash_to_G1), norm(new_h2c.hash_to_G1), *c)
    b = same(norm(old_h2c.hash_to_G2), norm(new_h2c.hash_to_G2), *c)
    same(old_h2c.hash_to_G1, new_h2c.hash_to_G1, *c)  # raw projective output too
    if a[0] == "ok":
        n_ok += 1
        pt = new_h2c.hash_to_G1(*c)
        assert opt.is_on_curve(pt, opt.b) and opt.is_inf(opt.multiply(pt, opt.curve_order))
    if b[0] == "ok":
        pt = new_h2c.hash_to_G2(*c)
        assert opt.is_on_curve(pt, opt.b2) and opt.is_inf(opt.multiply(pt, opt.curve_order))
assert n_ok >= 15
same(old_h2c.hash_to_G1, new_h2c.hash_to_G1, b"m", b"d")  # missing argument
same(old_h2c.hash_to_G2, new_h2c.hash_to_G2, b"m")

# RFC 9380 J.9.1 / J.10.1 known answers (msg = "") against the working tree
P1 = opt.normalize(new_h2c.hash_to_G1(b"", b"QUUX-V01-CS02-with-BLS12381G1_XMD:SHA-256_SSWU_RO_", hashlib.sha256))
assert P1[0].n == 0x052926ADD2207B76CA4FA57A8734416C8DC95E24501772C814278700EED6D1E4E8CF62D9C09DB0FAC349612B759E79A1
assert P1[1].n == 0x08BA738453BFED09CB546DBB0783DBB3A5F1F566ED67BB6BE0E8C67E2E81A4CC68EE29813BB7994998F3EAE0C9C6A265

print(
    f"r3 equiv OK: {checked} comparisons, G1 branch coverage {branch}, "
    f"sqrt_division_FQ2 found/not found {hits}"
)
