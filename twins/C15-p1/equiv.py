import os, sys; sys.path.insert(0, os.getcwd())  # noqa: E401,E702

import functools
import hashlib
import importlib.util
import random

HERE = os.path.dirname(os.path.abspath(__file__))


def load(name, path):
    spec = importlib.util.spec_from_file_location(name, path)
    mod = importlib.util.module_from_spec(spec)
    sys.modules[name] = mod
    spec.loader.exec_module(mod)
    return mod


import py_ecc.bls.hash as new_hash  # noqa: E402
import py_ecc.bls.hash_to_curve as new_htc  # noqa: E402

assert os.path.realpath(new_hash.__file__).startswith(os.path.realpath(os.getcwd()))
old_hash = load("pristine_hash", os.path.join(HERE, "pristine", "hash.py"))
# pristine hash_to_curve, wired to the pristine expand_message_xmd
old_htc = load(
    "py_ecc.bls._pristine_hash_to_curve",
    os.path.join(HERE, "pristine", "hash_to_curve.py"),
)
old_htc.expand_message_xmd = old_hash.expand_message_xmd
old_htc.os2ip = old_hash.os2ip
assert new_htc.expand_message_xmd is new_hash.expand_message_xmd


def outcome(f, *a):
    try:
        r = f(*a)
    except BaseException as e:  # noqa: B902
        return ("exc", type(e))
    return ("ok", type(r), r)


def rfc_xmd(msg, dst, n, H):
    """Independent transcription of RFC 9380 section 5.3.1."""
    b_len, s_len = H().digest_size, H().block_size
    ell = -(-n // b_len)
    if ell > 255 or n > 65535 or len(dst) > 255:
        raise ValueError
    dst_prime = dst + bytes([len(dst)])
    b0 = H(bytes(s_len) + msg + n.to_bytes(2, "big") + b"\x00" + dst_prime).digest()
    bs = [H(b0 + b"\x01" + dst_prime).digest()]
    for i in range(2, ell + 1):
        x = bytes(p ^ q for p, q in zip(b0, bs[-1]))
        bs.append(H(x + bytes([i]) + dst_prime).digest())
    return b"".join(bs)[:n]


checked = 0


def same(f_old, f_new, *a):
    global checked
    o, n = outcome(f_old, *a), outcome(f_new, *a)
    assert o == n, (f_old.__name__, [repr(x)[:60] for x in a], o[:2], n[:2])
    checked += 1
    return n


rng = random.Random(15)
blake2b_32 = functools.partial(hashlib.blake2b, digest_size=32)
HASHES = [
    hashlib.sha256,
    hashlib.sha512,
    hashlib.sha384,
    hashlib.sha3_256,
    hashlib.blake2b,
    hashlib.sha1,
    hashlib.sha3_512,
    hashlib.blake2s,
    hashlib.md5,
    blake2b_32,
    lambda *a: hashlib.sha256(*a),
]


def rb(n):
    return bytes(rng.getrandbits(8) for _ in range(n))


# ---- 1. the quantified grid, in an order that interleaves hash functions ----
grid = []
for H in HASHES:
    b, r = H().digest_size, H().block_size
    msg_lens = sorted({0, 1, 2, r - 9, r - 1, r, r + 1, 2 * r - 1, 2 * r, 2 * r + 1, 1000, 3000})
    out_lens = [0, 1, 31, 32, 33, 64, b - 1, b, b + 1, 2 * b, 255 * b - 1, 255 * b, 255 * b + 1,
                65535, 65536, 1 << 20, -1, -b, -b - 1]
    for ml in msg_lens:
        for dl in (0, 1, 43, 254, 255, 256, 300):
            for ol in rng.sample(out_lens, 6):
                grid.append((rb(ml), rb(dl), ol, H))
    for ol in out_lens:
        for dl in (0, 1, 254, 255, 256):
            grid.append((rb(rng.choice(msg_lens)), rb(dl), ol, H))
rng.shuffle(grid)
for msg, dst, ol, H in grid:
    res = same(old_hash.expand_message_xmd, new_hash.expand_message_xmd, msg, dst, ol, H)
    ref = outcome(rfc_xmd, msg, dst, ol, H)
    if ref[0] == "ok":
        assert res == ref, "differs from RFC 9380 reference"
    elif ol >= 0:
        assert res == ("exc", ValueError)

# ---- 2. repeated / interleaved calls with equal and different arguments ----
seq = [grid[rng.randrange(len(grid))] for _ in range(300)]
first = [outcome(new_hash.expand_message_xmd, *a) for a in seq]
for a in rng.sample(seq, len(seq)):
    same(old_hash.expand_message_xmd, new_hash.expand_message_xmd, *a)
assert first == [outcome(new_hash.expand_message_xmd, *a) for a in seq]
assert first == [outcome(old_hash.expand_message_xmd, *a) for a in seq]

# ---- 3. more distinct hash constructors than the parameter table holds ----
ctors = []
for k in range(1, 65):
    ctors.append(functools.partial(hashlib.blake2b, digest_size=k))
for k in range(1, 33):
    ctors.append(functools.partial(hashlib.blake2s, digest_size=k))
for rnd in range(3):
    order = ctors + HASHES
    rng.shuffle(order)
    for H in order:
        m, d = rb(rng.randrange(0, 200)), rb(rng.choice([0, 1, 16, 255, 256]))
        for ol in (0, 1, 47, 64, 255 * H().digest_size, 255 * H().digest_size + 1):
            same(old_hash.expand_message_xmd, new_hash.expand_message_xmd, m, d, ol, H)
assert len(new_hash._HASH_PARAMS) <= new_hash._HASH_PARAMS_MAX
for H, (bl, zp) in new_hash._HASH_PARAMS.items():
    assert (bl, zp) == (H().digest_size, bytes(H().block_size))


# ---- 4. malformed arguments: same exception classes, also after cache warm-up ----
class Unhashable:
    __hash__ = None

    def __call__(self, *a):
        return hashlib.sha256(*a)

    def __eq__(self, other):
        return self is other


class NoBlock:
    digest_size = 32

    def __call__(self, *a):
        return self


unh = Unhashable()
bad = [
    (b"m", b"d", 32, None),
    (b"m", b"d", 32, 5),
    (b"m", b"d", 32, hashlib.sha256()),
    (b"m", b"d", 32, "sha256"),
    (b"m", b"d", 32, hashlib.shake_128),
    (b"m", b"d", 32, NoBlock()),
    (b"m", b"d", 32, unh),
    (b"m", b"d" * 256, 32, unh),
    (b"m", b"d", 255 * 32 + 1, unh),
    ("m", b"d", 32, hashlib.sha256),
    (b"m", "d", 32, hashlib.sha256),
    (b"m", "d" * 256, 32, hashlib.sha256),
    (b"m", None, 32, hashlib.sha256),
    (b"m", 7, 32, hashlib.sha256),
    (None, b"d", 32, hashlib.sha256),
    (b"m", b"d", 32.0, hashlib.sha256),
    (b"m", b"d", "32", hashlib.sha256),
    (b"m", b"d", None, hashlib.sha256),
    (b"m", b"d", True, hashlib.sha256),
    (b"m", b"d", float("inf"), hashlib.sha256),
    (b"m", b"d", float("nan"), hashlib.sha256),
    (bytearray(b"m"), b"d", 40, hashlib.sha256),
    (memoryview(b"m"), b"d", 40, hashlib.sha256),
    (b"m", bytearray(b"d"), 40, hashlib.sha256),
    (b"m", bytearray(b"d" * 256), 40, hashlib.sha256),
    (b"m", memoryview(b"d"), 40, hashlib.sha256),
    (b"m", [1, 2], 40, hashlib.sha256),
]
for rnd in range(2):
    for a in bad:
        same(old_hash.expand_message_xmd, new_hash.expand_message_xmd, *a)
assert unh not in list(new_hash._HASH_PARAMS)

# ---- 5. tables are read-only: snapshot equals a recomputation ----
assert new_hash._I2OSP_1 == tuple(bytes([i]) for i in range(256))
assert isinstance(new_hash._I2OSP_1, tuple)
for i in range(256):
    assert new_hash._I2OSP_1[i] == old_hash.i2osp(i, 1)

# ---- 6. hash_to_field for FQ and FQ2 ----
from py_ecc.optimized_bls12_381 import field_modulus as P  # noqa: E402


def coeffs(t):
    out = []
    for e in t:
        out.append(tuple(int(c) for c in e.coeffs) if hasattr(e, "coeffs") else (int(e.n),))
    return tuple(out)


def h2f_outcome(f, *a):
    try:
        r = f(*a)
    except BaseException as e:  # noqa: B902
        return ("exc", type(e))
    return ("ok", type(r), tuple(type(e).__name__ for e in r), coeffs(r))


for H in HASHES[:5] + [blake2b_32]:
    for count in list(range(0, 9)) + [-1, 16, 64, 2.0, None]:
        for dl in (0, 1, 43, 255, 256):
            msg, dst = rb(rng.choice([0, 1, 63, 64, 65, 500])), rb(dl)
            for name, m in (("hash_to_field_FQ", 1), ("hash_to_field_FQ2", 2)):
                o = h2f_outcome(getattr(old_htc, name), msg, count, dst, H)
                n = h2f_outcome(getattr(new_htc, name), msg, count, dst, H)
                n2 = h2f_outcome(getattr(new_htc, name), msg, count, dst, H)
                assert o == n == n2, (name, count, dl, o[:2], n[:2])
                checked += 1
                if n[0] == "ok":
                    u = rfc_xmd(msg, dst, count * m * 64, H)
                    want = tuple(
                        tuple(
                            int.from_bytes(u[64 * (j + i * m): 64 * (j + i * m + 1)], "big") % P
                            for j in range(m)
                        )
                        for i in range(count)
                    )
                    assert n[3] == want

# ---- 7. RFC 9380 K.1 vector (SHA-256, len 0x20, empty msg) ----
DST = b"QUUX-V01-CS02-with-expander-SHA256-128"
want = bytes.fromhex("68a985b87eb6b46952128911f2a4412bbc302a9d759667f87f7a21d803f07235")
assert new_hash.expand_message_xmd(b"", DST, 0x20, hashlib.sha256) == want
assert old_hash.expand_message_xmd(b"", DST, 0x20, hashlib.sha256) == want

print("p1 equivalence OK, comparisons:", checked)
