import os, sys; sys.path.insert(0, os.getcwd())  # noqa: E401,E702

"""
Equivalence demonstration for C15 twins.

Loads the pristine py_ecc/bls/hash.py and py_ecc/bls/hash_to_curve.py (saved next
to this script under pristine/) under private module names, and compares them with
the edited modules of the working tree (cwd) on a broad grid of inputs: results
(value and type) and exception classes must be identical.  An independent
straight-from-the-RFC implementation of expand_message_xmd / hash_to_field is used
as a third opinion wherever the call is well-formed.
"""

import hashlib
import importlib
import importlib.util
import itertools
import math
import random
import time

HERE = os.path.dirname(os.path.abspath(__file__))
PRISTINE = os.path.join(HERE, "pristine")

T0 = time.time()

# ---------------------------------------------------------------- load modules
import py_ecc.bls  # noqa: E402  (the edited tree, from cwd)

assert os.path.realpath(py_ecc.bls.__file__).startswith(
    os.path.realpath(os.getcwd())
), py_ecc.bls.__file__

new_hash = importlib.import_module("py_ecc.bls.hash")
new_h2c = importlib.import_module("py_ecc.bls.hash_to_curve")


def _load(name, path):
    spec = importlib.util.spec_from_file_location(name, path)
    mod = importlib.util.module_from_spec(spec)
    sys.modules[name] = mod
    spec.loader.exec_module(mod)
    return mod


old_hash = _load("py_ecc.bls._pristine_hash", os.path.join(PRISTINE, "hash.py"))
old_h2c = _load(
    "py_ecc.bls._pristine_hash_to_curve", os.path.join(PRISTINE, "hash_to_curve.py")
)
# the pristine hash_to_curve did `from .hash import ...` which resolved to the
# edited hash module; rebind to the pristine one so that old_* is fully pristine.
old_h2c.expand_message_xmd = old_hash.expand_message_xmd
old_h2c.os2ip = old_hash.os2ip
assert old_h2c.hash_to_field_FQ.__globals__["expand_message_xmd"] is (
    old_hash.expand_message_xmd
)
assert new_h2c.hash_to_field_FQ.__globals__["expand_message_xmd"] is (
    new_hash.expand_message_xmd
)
assert old_hash.expand_message_xmd is not new_hash.expand_message_xmd

from py_ecc.fields import (  # noqa: E402
    optimized_bls12_381_FQ as FQ,
    optimized_bls12_381_FQ2 as FQ2,
)
from py_ecc.optimized_bls12_381 import field_modulus as P  # noqa: E402


# ------------------------------------------------------ independent reference
def ref_xmd(msg, dst, n, H):
    b = H().digest_size
    r = H().block_size
    ell = -(-n // b)
    assert ell <= 255 and len(dst) <= 255 and 0 <= n <= 65535
    dst_prime = bytes(dst) + bytes([len(dst)])
    b0 = H(bytes(r) + bytes(msg) + n.to_bytes(2, "big") + b"\0" + dst_prime).digest()
    out = []
    prev = H(b0 + b"\1" + dst_prime).digest()
    out.append(prev)
    for i in range(2, ell + 1):
        x = (int.from_bytes(b0, "big") ^ int.from_bytes(prev, "big")).to_bytes(b, "big")
        prev = H(x + bytes([i]) + dst_prime).digest()
        out.append(prev)
    return b"".join(out)[:n]


def ref_h2f(msg, count, dst, H, m):
    ub = ref_xmd(msg, dst, count * m * 64, H)
    res = []
    for i in range(count):
        e = []
        for j in range(m):
            off = 64 * (j + i * m)
            e.append(int.from_bytes(ub[off : off + 64], "big") % P)
        res.append(e)
    return res


# ------------------------------------------------------------------- helpers
def norm(v):
    """A comparable, type-aware image of a result."""
    if isinstance(v, (bytes, bytearray)):
        return (type(v).__name__, bytes(v))
    if isinstance(v, FQ):
        return (type(v).__name__, v.n)
    if isinstance(v, FQ2):
        return (type(v).__name__, tuple((type(c).__name__, int(c)) for c in v.coeffs))
    if isinstance(v, (tuple, list)):
        return (type(v).__name__, tuple(norm(x) for x in v))
    if isinstance(v, int):
        return (type(v).__name__, v)
    raise AssertionError("unexpected result type %r" % type(v))


def run(f, *args):
    try:
        return ("ok", norm(f(*args)))
    except BaseException as e:  # noqa: B902
        if isinstance(e, (KeyboardInterrupt, SystemExit, AssertionError)):
            raise
        return ("exc", type(e))


N_CMP = 0
N_EXC = 0


def same(fo, fn, *args):
    global N_CMP, N_EXC
    a = run(fo, *args)
    b = run(fn, *args)
    assert a == b, (fo.__name__, args[1:], a, b)
    N_CMP += 1
    if a[0] == "exc":
        N_EXC += 1
    return a


rnd = random.Random(15)


def rb(n):
    return bytes(rnd.getrandbits(8) for _ in range(n))


HASHES = {
    "sha256": hashlib.sha256,
    "sha512": hashlib.sha512,
    "sha384": hashlib.sha384,
    "sha3_256": hashlib.sha3_256,
    "blake2b": hashlib.blake2b,
    "sha1": hashlib.sha1,
    "md5": hashlib.md5,
    "sha224": hashlib.sha224,
    "blake2s": hashlib.blake2s,
    "sha3_512": hashlib.sha3_512,
}
MAIN = ["sha256", "sha512", "sha384", "sha3_256", "blake2b"]

MSG_LENS = [0, 1, 2, 54, 55, 56, 57, 63, 64, 65, 71, 72, 73, 103, 104, 105, 111, 112,
            113, 119, 127, 128, 129, 135, 136, 137, 143, 144, 145, 1000, 1024, 4096]
MSGS = [rb(n) for n in MSG_LENS] + [b"", b"abc", b"abcdef0123456789", b"\x00" * 64]
TAG_LENS = [0, 1, 2, 16, 43, 254, 255, 256, 257, 300, 1000]
TAGS = [rb(n) for n in TAG_LENS] + [
    b"QUUX-V01-CS02-with-expander-SHA256-128",
    b"BLS_SIG_BLS12381G2_XMD:SHA-256_SSWU_RO_POP_",
]


def out_lens(b):
    return [0, 1, 2, 31, 32, 33, 47, 48, 49, 63, 64, 65, 127, 128, 129, 255, 256, 257,
            b - 1, b, b + 1, 2 * b - 1, 2 * b, 2 * b + 1, 254 * b, 254 * b + 1,
            255 * b - 1, 255 * b, 255 * b + 1, 256 * b, 65535, 65536, 65537, 2**20,
            -1, -2, -b, -b - 1, -(2**20)]


# ---------------------------------------------------- 1. RFC 9380 K.1 anchors
DST_K1 = b"QUUX-V01-CS02-with-expander-SHA256-128"
assert new_hash.expand_message_xmd(b"", DST_K1, 0x20, hashlib.sha256).hex() == (
    "68a985b87eb6b46952128911f2a4412bbc302a9d759667f87f7a21d803f07235"
)
assert new_hash.expand_message_xmd(b"abc", DST_K1, 0x20, hashlib.sha256).hex() == (
    "d8ccab23b5985ccea865c6c97b6e5b8350e794e603b4b97902f53a8a0d605615"
)

# -------------------------------------- 2. expand_message_xmd: main grid
for hname, H in HASHES.items():
    b = H().digest_size
    lens = out_lens(b)
    msgs = MSGS if hname in MAIN else MSGS[::5]
    for tag in TAGS:
        # every length with two messages, every message with a few lengths
        combos = [(m, n) for m in (MSGS[0], MSGS[9]) for n in lens]
        combos += [(m, n) for m in msgs for n in (0, 1, b, b + 1, 3 * b + 7)]
        for m, n in combos:
            r = same(old_hash.expand_message_xmd, new_hash.expand_message_xmd,
                     m, tag, n, H)
            ok = len(tag) <= 255 and 0 <= n <= 65535 and math.ceil(n / b) <= 255
            if ok:
                assert r == ("ok", ("bytes", ref_xmd(m, tag, n, H))), (hname, n)
                assert len(r[1][1]) == n
            else:
                assert r[0] == "exc", (hname, len(tag), n, r)
                if len(tag) > 255 or math.ceil(n / b) > 255:
                    assert r[1] is ValueError, r
                else:
                    assert r[1] is OverflowError, r
print("grid done", N_CMP, "comparisons,", N_EXC, "raising; %.1fs" % (time.time() - T0))

# ------------------------ 3. exhaustive small lengths for sha256 and sha3_256
for H in (hashlib.sha256, hashlib.sha3_256, hashlib.blake2b):
    for n in range(0, 5 * H().digest_size + 3):
        r = same(old_hash.expand_message_xmd, new_hash.expand_message_xmd,
                 b"exhaustive", b"TAG", n, H)
        assert r == ("ok", ("bytes", ref_xmd(b"exhaustive", b"TAG", n, H)))

# -------------------------------------------- 4. malformed / odd-typed inputs
sha = hashlib.sha256
ODD = [
    # (msg, DST, len_in_bytes, hash_function)
    ("text", b"T", 32, sha),
    (b"m", "T", 32, sha),
    (b"m", "T" * 300, 32, sha),
    (b"m", "T", -1, sha),
    ("text", "T", 32, sha),
    ("text", b"T" * 256, 32, sha),
    ("text", b"T", 10**6, sha),
    ("text", b"T", -1, sha),
    (None, b"T", 32, sha),
    (b"m", None, 32, sha),
    (b"m", b"T", None, sha),
    (b"m", b"T", "32", sha),
    (b"m", b"T", 32.0, sha),
    (b"m", b"T", 31.5, sha),
    (b"m", b"T", 1e9, sha),
    (b"m", b"T" * 256, 1e9, sha),
    (b"m", b"T", float("inf"), sha),
    (b"m", b"T", float("nan"), sha),
    (b"m", b"T", 10**400, sha),
    (b"m", b"T" * 256, 10**400, sha),
    (b"m", b"T", -(10**400), sha),
    (b"m", b"T", True, sha),
    (b"m", b"T", 32, None),
    (b"m", b"T", 32, "sha256"),
    (b"m", b"T", 32, hashlib.shake_128),
    (b"m", b"T" * 256, 32, hashlib.shake_128),
    (b"m", b"T", 0, hashlib.shake_256),
    (b"m", b"T", 32, lambda *a: None),
    (b"m", b"T", 32, int),
    (b"m", None, 32, None),
    (bytearray(b"m"), b"T", 40, sha),
    (b"m", bytearray(b"T"), 40, sha),
    (bytearray(b"m"), bytearray(b"T"), 40, sha),
    (memoryview(b"m"), b"T", 40, sha),
    (b"m", memoryview(b"T"), 40, sha),
    ([1, 2], b"T", 40, sha),
    (b"m", [1, 2], 40, sha),
    (b"m", (), 40, sha),
    (b"m", b"T", 40, hashlib.sha3_256),
]
for args in ODD:
    same(old_hash.expand_message_xmd, new_hash.expand_message_xmd, *args)
# wrong arity
for args in [(), (b"m",), (b"m", b"T"), (b"m", b"T", 32), (b"m", b"T", 32, sha, 1)]:
    same(old_hash.expand_message_xmd, new_hash.expand_message_xmd, *args)
# keyword calling convention is part of the public signature
for fo, fn in [(old_hash.expand_message_xmd, new_hash.expand_message_xmd)]:
    kw = dict(msg=b"kw", DST=b"T", len_in_bytes=77, hash_function=sha)
    assert fo(**kw) == fn(**kw) == ref_xmd(b"kw", b"T", 77, sha)

# arguments are not mutated
ba_m, ba_t = bytearray(b"message"), bytearray(b"tag")
new_hash.expand_message_xmd(ba_m, ba_t, 100, sha)
assert ba_m == bytearray(b"message") and ba_t == bytearray(b"tag")

# --------------------------------- 5. other helpers of the module unchanged
for x, n in [(0, 1), (1, 1), (255, 1), (256, 1), (-1, 1), (0, 0), (1, 0), (65535, 2),
             (65536, 2), (2**384 - 1, 48), (5, -1), (1.0, 1), ("1", 1), (1, "1")]:
    same(old_hash.i2osp, new_hash.i2osp, x, n)
for x in [b"", b"\x00", b"\x01\x00", rb(48), rb(64), bytearray(b"\x01\x02"), "ab",
          None, [1, 2], 5]:
    same(old_hash.os2ip, new_hash.os2ip, x)
for a, b_ in [(b"", b""), (b"\x01", b"\x03"), (rb(32), rb(32)), (rb(32), rb(5)),
              (b"a", "a"), (None, b"a"), ([1, 2], [3, 4]), ([256], [1])]:
    same(old_hash.xor, new_hash.xor, a, b_)
for x in [b"", b"abc", rb(100), "abc", None]:
    same(old_hash.sha256, new_hash.sha256, x)
for s_, i_, L in [(b"", b"", 0), (b"salt", b"ikm", 32), (rb(32), rb(32), 48),
                  (rb(32), rb(32), 255 * 32), (rb(32), rb(32), 255 * 32 + 1),
                  (rb(32), rb(32), -1), ("s", b"i", 32)]:
    same(old_hash.hkdf_extract, new_hash.hkdf_extract, s_, i_)
    same(old_hash.hkdf_expand, new_hash.hkdf_expand, s_, i_, L)
pub = lambda m: sorted(k for k in vars(m) if not k.startswith("_"))  # noqa: E731
assert set(pub(old_hash)) <= set(pub(new_hash)), "public name removed from hash.py"
assert set(pub(old_h2c)) <= set(pub(new_h2c)), "public name removed: hash_to_curve"

# ------------------------------------------------------------ 6. hash_to_field
H2F_TAGS = [b"", b"T", rb(254), rb(255), rb(256),
            b"QUUX-V01-CS02-with-BLS12381G2_XMD:SHA-256_SSWU_RO_"]
H2F_MSGS = [b"", b"abc", rb(55), rb(56), rb(64), rb(119), rb(128), rb(1024)]
COUNTS = list(range(0, 10)) + [-1, -3, 31, 32, 63, 64, 65, 127, 128, 129, 255, 256,
                               511, 512, 513]
for hname in MAIN:
    H = HASHES[hname]
    b = H().digest_size
    for tag, count in itertools.product(H2F_TAGS, COUNTS):
        msgs = H2F_MSGS if count in (1, 2, 3, 8) else H2F_MSGS[1:2]
        for m in msgs:
            for deg, fo, fn in [(1, old_h2c.hash_to_field_FQ, new_h2c.hash_to_field_FQ),
                                (2, old_h2c.hash_to_field_FQ2,
                                 new_h2c.hash_to_field_FQ2)]:
                r = same(fo, fn, m, count, tag, H)
                n = count * deg * 64
                ok = len(tag) <= 255 and 0 <= n <= 65535 and math.ceil(n / b) <= 255
                if ok:
                    exp = ref_h2f(m, count, tag, H, deg)
                    if deg == 1:
                        want = ("tuple", tuple((FQ.__name__, e[0]) for e in exp))
                    else:
                        want = ("tuple", tuple(
                            (FQ2.__name__, tuple(("int", c) for c in e)) for e in exp))
                    assert r == ("ok", want), (hname, count, deg)
                    assert all(0 <= c < P for e in exp for c in e)
                else:
                    assert r[0] == "exc"
# real result objects: class identity and field invariants
for count in range(0, 9):
    for H in (hashlib.sha256, hashlib.sha3_256):
        o = old_h2c.hash_to_field_FQ(b"msg", count, b"T", H)
        n_ = new_h2c.hash_to_field_FQ(b"msg", count, b"T", H)
        assert type(o) is type(n_) is tuple and len(o) == len(n_) == count
        assert all(type(x) is type(y) is FQ and x == y and x.n == y.n
                   and type(y.n) is int for x, y in zip(o, n_))
        o = old_h2c.hash_to_field_FQ2(b"msg", count, b"T", H)
        n_ = new_h2c.hash_to_field_FQ2(b"msg", count, b"T", H)
        assert type(o) is type(n_) is tuple and len(o) == len(n_) == count
        for x, y in zip(o, n_):
            assert type(x) is type(y) is FQ2 and x == y
            assert type(x.coeffs) is type(y.coeffs) and x.coeffs == y.coeffs
            assert [type(c) for c in x.coeffs] == [type(c) for c in y.coeffs]
ODD_H2F = [
    ("text", 2, b"T", sha), (b"m", 2, "T", sha), (b"m", 2.0, b"T", sha),
    (b"m", 1.5, b"T", sha), (b"m", "2", b"T", sha), (b"m", None, b"T", sha),
    (b"m", True, b"T", sha), (b"m", 2, b"T", None), (b"m", 2, b"T", hashlib.shake_128),
    (b"m", 0, b"T" * 256, sha), (b"m", 10**400, b"T", sha), (b"m", 2, None, sha),
    (bytearray(b"m"), 2, bytearray(b"T"), sha), (None, 2, b"T", sha),
    (b"m", [], b"T", sha), (b"m", b"", b"T", sha), (b"m", (), b"T", sha),
]
for args in ODD_H2F:
    same(old_h2c.hash_to_field_FQ, new_h2c.hash_to_field_FQ, *args)
    same(old_h2c.hash_to_field_FQ2, new_h2c.hash_to_field_FQ2, *args)
for args in [(), (b"m",), (b"m", 2), (b"m", 2, b"T"), (b"m", 2, b"T", sha, 1)]:
    same(old_h2c.hash_to_field_FQ, new_h2c.hash_to_field_FQ, *args)
    same(old_h2c.hash_to_field_FQ2, new_h2c.hash_to_field_FQ2, *args)
kw = dict(message=b"kw", count=3, DST=b"T", hash_function=sha)
assert old_h2c.hash_to_field_FQ(**kw) == new_h2c.hash_to_field_FQ(**kw)
assert old_h2c.hash_to_field_FQ2(**kw) == new_h2c.hash_to_field_FQ2(**kw)
print("hash_to_field done", N_CMP, "comparisons; %.1fs" % (time.time() - T0))

# --------------- 7. hash_to_G1 / hash_to_G2 end to end (callers of the anchors)
from py_ecc.optimized_bls12_381 import normalize  # noqa: E402

DST_G2 = b"QUUX-V01-CS02-with-BLS12381G2_XMD:SHA-256_SSWU_RO_"
DST_G1 = b"QUUX-V01-CS02-with-BLS12381G1_XMD:SHA-256_SSWU_RO_"
for m in [b"", b"abc", rb(200)]:
    for H in (hashlib.sha256, hashlib.sha512):
        assert normalize(old_h2c.hash_to_G2(m, DST_G2, H)) == normalize(
            new_h2c.hash_to_G2(m, DST_G2, H))
        assert old_h2c.hash_to_G2(m, DST_G2, H) == new_h2c.hash_to_G2(m, DST_G2, H)
        assert old_h2c.hash_to_G1(m, DST_G1, H) == new_h2c.hash_to_G1(m, DST_G1, H)
for args in [(b"m", b"T" * 256, sha), ("m", b"T", sha), (b"m", b"T", None)]:
    for fo, fn in [(old_h2c.hash_to_G1, new_h2c.hash_to_G1),
                   (old_h2c.hash_to_G2, new_h2c.hash_to_G2)]:
        a, b_ = run(lambda *x: 0 * len(fo(*x)), *args), run(
            lambda *x: 0 * len(fn(*x)), *args)
        assert a == b_ and a[0] == "exc", (a, b_)

# ---------------------- 8. call histories: repeats, interleavings, fresh state
calls = []
for _ in range(400):
    H = HASHES[rnd.choice(MAIN)]
    b = H().digest_size
    kind = rnd.choice(["xmd", "xmd", "fq", "fq2"])
    m = rb(rnd.choice([0, 1, 55, 56, 64, 65, 200]))
    t = rb(rnd.choice([0, 1, 16, 254, 255, 256]))
    if kind == "xmd":
        n = rnd.choice([0, 1, b - 1, b, b + 1, 7 * b + 3, 255 * b, 255 * b + 1,
                        65535, 65536, -1])
        calls.append((kind, (m, t, n, H)))
    else:
        calls.append((kind, (m, rnd.choice([0, 1, 2, 3, 8, 64, 128, 300, -1]), t, H)))
calls = calls + calls[:150]  # literal repeats of earlier calls
seq = calls + [calls[i] for i in [rnd.randrange(len(calls)) for _ in range(300)]]
F_OLD = {"xmd": old_hash.expand_message_xmd, "fq": old_h2c.hash_to_field_FQ,
         "fq2": old_h2c.hash_to_field_FQ2}
F_NEW = {"xmd": new_hash.expand_message_xmd, "fq": new_h2c.hash_to_field_FQ,
         "fq2": new_h2c.hash_to_field_FQ2}
first_seen = {}
for idx, (kind, args) in enumerate(seq):
    r_new = run(F_NEW[kind], *args)
    key = (kind, args[0], args[1], args[2], args[3].__name__)
    # same answer as the first time this call was made, whatever happened between
    assert first_seen.setdefault(key, r_new) == r_new
    # and same answer as the pristine code (which sees a different history:
    # only every third call is replayed on it)
    if idx % 3 == 0:
        assert run(F_OLD[kind], *args) == r_new
    N_CMP += 1
# module-level state of the edited modules holds nothing mutable that calls changed
snap = lambda m: {k: v for k, v in vars(m).items()  # noqa: E731
                  if isinstance(v, (bytes, int, tuple, str)) and not k.startswith("__")}
s1 = (snap(new_hash), snap(new_h2c))
new_hash.expand_message_xmd(b"x", b"y", 999, hashlib.sha512)
new_h2c.hash_to_field_FQ2(b"x", 5, b"y", hashlib.sha3_256)
assert s1 == (snap(new_hash), snap(new_h2c))
for m_ in (new_hash, new_h2c):
    for k, v in vars(m_).items():
        if k.startswith("__") or k in vars(old_hash) or k in vars(old_h2c):
            continue
        assert callable(v) or isinstance(v, (bytes, int, str, tuple)), (
            "new mutable module-level object", k, type(v))

print("OK: %d comparisons (%d raising), %.1fs" % (N_CMP, N_EXC, time.time() - T0))
