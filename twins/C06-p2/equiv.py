import os, sys; sys.path.insert(0, os.getcwd())
import importlib.util
import random
import time
from fractions import Fraction

HERE = os.path.dirname(os.path.abspath(__file__))


def load(name, path):
    spec = importlib.util.spec_from_file_location(name, path)
    mod = importlib.util.module_from_spec(spec)
    spec.loader.exec_module(mod)
    return mod


old = load("secp256k1_pristine", os.path.join(HERE, "pristine", "secp256k1.py"))
import py_ecc.secp256k1.secp256k1 as new

assert os.path.abspath(new.__file__).startswith(os.getcwd()), new.__file__
assert hasattr(new, "_lift_x") and not hasattr(old, "_lift_x")

N, P = old.N, old.P
rng = random.Random(0x2C06)
T0 = time.time()


def outcome(f, *a):
    try:
        return ("ok", f(*a))
    except Exception as e:  # noqa
        # ValueError messages are part of what callers may see: compare them too
        return ("exc", type(e), str(e) if isinstance(e, ValueError) else None)


def same(fo, fn, *a):
    ro, rn = outcome(fo, *a), outcome(fn, *a)
    assert ro == rn, (fo.__name__, a, ro, rn)
    if ro[0] == "ok":
        assert type(ro[1]) is type(rn[1])
        assert [type(c) for c in ro[1]] == [type(c) for c in rn[1]]
    return ro


def b32(i):
    return i.to_bytes(32, "big")


# ---------------------------------------------------------------- signing ----
keys = [b32(d) for d in (1, 2, 3, 7, 255, 65537, N - 2, N - 1, (N - 1) // 2, (N + 1) // 2)]
keys += [b32(rng.randrange(1, N)) for _ in range(8)]
odd_keys = [b"", b"\x00" * 32, b32(N), b32(N + 1), b"\xff" * 32, b"\x01" * 33, b"\x05",
            bytearray(b32(7)), memoryview(b32(7))]
bad_keys = [list(b32(9)), "abc", 5, None, 1.5]
hashes = [b"\x00" * 32, b"\xff" * 32, b32(N - 1), b32(N), b32(N + 1), b32(1),
          b32(2 * N % 2**256), b32(P), b32(N // 2), b32(N // 2 + 1)]
hashes += [bytes(rng.getrandbits(8) for _ in range(32)) for _ in range(8)]
other_len = [b"", b"\x00", b"\x01", b"ab", b"\xff" * 31, b"\x80" * 33, b"\xff" * 64,
             bytes(range(64)), bytes(rng.getrandbits(8) for _ in range(47)), b"\xff" * 100]
bad_hashes = ["str", None, 5, list(b32(3)), bytearray(b32(3)), memoryview(b32(3))]

sigs = []
high = low = 0
for k in keys:
    for h in hashes + other_len:
        ro = same(old.ecdsa_raw_sign, new.ecdsa_raw_sign, h, k)
        assert ro[0] == "ok"
        v, r, s = ro[1]
        assert v in (27, 28) and 1 <= r < N and 1 <= s <= N // 2
        # did the low-s branch fire?  recompute the unflipped s with the pristine code
        kk = old.deterministic_generate_k(h, k)
        s0 = old.inv(kk, N) * (old.bytes_to_int(h) + r * old.bytes_to_int(k)) % N
        if s0 * 2 >= N:
            high += 1
        else:
            low += 1
        sigs.append((h, k, (v, r, s)))
assert high > 50 and low > 50, (high, low)
for k in odd_keys + bad_keys:
    for h in (hashes[0], hashes[3], b"", b"\xff" * 64):
        same(old.ecdsa_raw_sign, new.ecdsa_raw_sign, h, k)
for h in bad_hashes:
    for k in (keys[0], b"", "abc", None):
        same(old.ecdsa_raw_sign, new.ecdsa_raw_sign, h, k)

# --------------------------------------------------------------- recovery ----
nrec = 0
for i, (h, k, (v, r, s)) in enumerate(sigs):
    if i % 4:
        continue
    pub = old.privtopub(k)
    assert same(old.ecdsa_raw_recover, new.ecdsa_raw_recover, h, (v, r, s))[:2] == ("ok", pub)
    assert same(old.ecdsa_raw_recover, new.ecdsa_raw_recover, h, (55 - v, r, s))[:2] != ("ok", pub)
    nrec += 1

# x coordinates on / off the curve
def on_curve(x):
    c = (x**3 + 7) % P
    return pow(pow(c, (P + 1) // 4, P), 2, P) == c


xs_on = [x for x in range(1, 60) if on_curve(x)][:6]
xs_off = [x for x in range(1, 60) if not on_curve(x)][:6]
assert xs_on and xs_off
h0, k0, (v0, r0, s0) = sigs[0]
h1, k1, (v1, r1, s1) = sigs[5]
rs = [0, 1, 2, 3, N - 1, N, N + 1, 2 * N, -1, -N, P - 1, P, P + 1, 2**256 - 1, 2**256, r0, r1,
      r0 + P, r0 + N, r0 - P, -r0, old.Gx, old.Gx + P, True, False] + xs_on + xs_off
rs += [x + P for x in xs_on[:2]] + [x + 2 * P for x in xs_off[:2]]
ss = [0, 1, 2, N - 1, N, N + 1, 2 * N, 2 * N + 3, 3 * N, -1, -N, -N - 7, N // 2, N // 2 + 1,
      2**256 - 1, 2**300 + 5, s0, s0 + N, s0 - N, N - s0, True, False]
vs = [27, 28, 26, 29, 0, 1, -27, 255, True, 27.0, 28.0, "27", None, b"\x1b", (27,)]
msgs = [h0, b"", b"\x00" * 32, b32(N), b32(N + 1), b"\xff" * 64, "str", None, 7, list(h0)]
nbad = 0
for r in rs:
    for s in ss:
        v = rng.choice((27, 28))
        m = rng.choice(msgs[:6])
        same(old.ecdsa_raw_recover, new.ecdsa_raw_recover, m, (v, r, s))
        nbad += 1
for v in vs:
    for r, s in ((r0, s0), (0, s0), (r0, 0), (xs_off[0], 5), (xs_on[0], 5), (N, N)):
        same(old.ecdsa_raw_recover, new.ecdsa_raw_recover, h0, (v, r, s))
        nbad += 1
for m in msgs:
    for vrs in ((v0, r0, s0), (v0, 0, s0), (v0, xs_off[0], s0), (26, r0, s0), (v0, r0, N)):
        same(old.ecdsa_raw_recover, new.ecdsa_raw_recover, m, vrs)
        nbad += 1
# non-integer / exotic scalars and malformed signature containers
exotic = [1.0, 5.0, 0.0, 2.5, float(N), 1e80, float("nan"), float("inf"), -3.0,
          Fraction(7, 1), Fraction(7, 2), Fraction(N + 3), "5", None, b"\x05", 1j, [5], (5,)]
for e in exotic:
    same(old.ecdsa_raw_recover, new.ecdsa_raw_recover, h0, (v0, r0, e))
    same(old.ecdsa_raw_recover, new.ecdsa_raw_recover, h0, (v0, e, s0))
    same(old.ecdsa_raw_recover, new.ecdsa_raw_recover, h0, (v0, xs_on[0], e))
    same(old.ecdsa_raw_recover, new.ecdsa_raw_recover, h0, (v0, xs_off[0], e))
    same(old.ecdsa_raw_recover, new.ecdsa_raw_recover, h0, (e, r0, s0))
    nbad += 5
for vrs in [(), (27,), (27, r0), (27, r0, s0, 1), None, 5, "abc", "ab", [v0, r0, s0],
            iter([v0, r0, s0]), {27: 1, 28: 2, 29: 3}, b"\x1b\x01\x02", bytearray(b"\x1c\x01\x02")]:
    if hasattr(vrs, "__next__"):
        ro = outcome(old.ecdsa_raw_recover, h0, iter([v0, r0, s0]))
        rn = outcome(new.ecdsa_raw_recover, h0, iter([v0, r0, s0]))
        assert ro == rn
    else:
        same(old.ecdsa_raw_recover, new.ecdsa_raw_recover, h0, vrs)
    nbad += 1
# arguments are not mutated
lst = [v0, r0, s0]
new.ecdsa_raw_recover(h0, lst)
assert lst == [v0, r0, s0]

# ------------------------------------- repeated / interleaved call history ----
seq = []
for _ in range(50):
    if rng.random() < 0.5:
        seq.append((old.ecdsa_raw_sign, new.ecdsa_raw_sign,
                    (rng.choice(hashes[:5] + other_len[:3]), rng.choice(keys[:5] + odd_keys[:3]))))
    else:
        h, k, (v, r, s) = rng.choice(sigs[:12])
        r = rng.choice([r, r, 0, N, xs_off[0]])
        s = rng.choice([s, s, s + N, 0, N])
        v = rng.choice([v, v, 55 - v, 29])
        seq.append((old.ecdsa_raw_recover, new.ecdsa_raw_recover, (h, (v, r, s))))
first = [outcome(fn, *a) for fo, fn, a in seq]
rng.shuffle(seq)
for fo, fn, a in seq + seq[::-1]:
    ro, rn = outcome(fo, *a), outcome(fn, *a)
    assert ro == rn, (a, ro, rn)

for name in ("P", "N", "A", "B", "Gx", "Gy", "G"):
    assert getattr(new, name) == getattr(old, name)
    assert type(getattr(new, name)) is type(getattr(old, name))

print("p2 equivalence OK; %d signatures (%d high-s flipped), %d recoveries, %d malformed "
      "recover calls; %.1fs" % (len(sigs), high, nrec, nbad, time.time() - T0))
