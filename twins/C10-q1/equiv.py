import os, sys; sys.path.insert(0, os.getcwd())  # noqa: E401,E702

"""
Equivalence demonstration for an edit of
py_ecc/optimized_bls12_381/optimized_swu.py .

Run as:  cd /tmp/wt2/C10 && /venv/bin/python <this file>

The pristine copy of the module (saved next to this script under pristine/) is
loaded under another module name inside the same package, so that its relative
imports (``.constants``) resolve to the very same constants objects as the edited
module.  Every public function of the module is then compared between both
versions on boundary, random and malformed inputs, on repeated / interleaved
call sequences, and through the whole hash_to_G1 / hash_to_G2 pipeline.
"""

import copy
import hashlib
import importlib.util
import random

HERE = os.path.dirname(os.path.abspath(__file__))

import py_ecc  # noqa: E402

assert os.path.abspath(py_ecc.__file__).startswith(os.getcwd()), py_ecc.__file__

from py_ecc.bls import hash_to_curve as h2c  # noqa: E402
from py_ecc.bls.hash_to_curve import (  # noqa: E402
    hash_to_field_FQ,
    hash_to_field_FQ2,
)
from py_ecc.fields import (  # noqa: E402
    bn128_FQ,
    bn128_FQ2,
    optimized_bls12_381_FQ as FQ,
    optimized_bls12_381_FQ2 as FQ2,
    optimized_bls12_381_FQ12 as FQ12,
    optimized_bn128_FQ,
    optimized_bn128_FQ2,
)
from py_ecc.optimized_bls12_381 import (  # noqa: E402
    add,
    b,
    b2,
    constants,
    curve_order,
    is_inf,
    is_on_curve,
    multiply,
    multiply_clear_cofactor_G1,
    multiply_clear_cofactor_G2,
    normalize,
    optimized_swu as NEW,
)

spec = importlib.util.spec_from_file_location(
    "py_ecc.optimized_bls12_381._pristine_optimized_swu",
    os.path.join(HERE, "pristine", "optimized_swu.py"),
)
OLD = importlib.util.module_from_spec(spec)
sys.modules[spec.name] = OLD
spec.loader.exec_module(OLD)

assert os.path.abspath(NEW.__file__).startswith(os.getcwd())
assert OLD.__file__ != NEW.__file__
# the library really uses the edited module
assert h2c.optimized_swu_G1 is NEW.optimized_swu_G1
assert h2c.optimized_swu_G2 is NEW.optimized_swu_G2
assert h2c.iso_map_G1 is NEW.iso_map_G1
assert h2c.iso_map_G2 is NEW.iso_map_G2

P = FQ.field_modulus
rng = random.Random(0xC10)
CHECKS = 0


def canon(v):
    """Exact, type-revealing description of a value."""
    if isinstance(v, (tuple, list)):
        return (type(v).__name__, tuple(canon(x) for x in v))
    if hasattr(v, "coeffs"):
        return (type(v).__module__, type(v).__name__, tuple(canon(c) for c in v.coeffs))
    if hasattr(v, "n") and hasattr(v, "field_modulus"):
        return (type(v).__module__, type(v).__name__, v.n)
    return (type(v).__name__, repr(v))


def outcome(fn, *args):
    try:
        return ("ok", canon(fn(*args)))
    except RecursionError:
        raise
    except BaseException as e:  # noqa: B902
        if isinstance(e, (KeyboardInterrupt, SystemExit, MemoryError)):
            raise
        return ("exc", type(e).__name__)


def same(name, *args, clone=True):
    """Call NEW.name and OLD.name on equal (independently built) arguments."""
    global CHECKS
    a_new = copy.deepcopy(args) if clone else args
    a_old = copy.deepcopy(args) if clone else args
    before = canon(a_new)
    r_new = outcome(getattr(NEW, name), *a_new)
    r_old = outcome(getattr(OLD, name), *a_old)
    assert r_new == r_old, (name, args, r_new, r_old)
    # arguments are not changed (value-wise) by either version
    assert canon(a_new) == before and canon(a_old) == before, (name, args)
    CHECKS += 1
    return r_new


def snapshot_constants():
    return {
        k: canon(getattr(constants, k))
        for k in dir(constants)
        if k.isupper() and not k.startswith("_")
    }


def snapshot_module_level(mod):
    """field elements bound at module level in the (edited) module itself"""
    return {
        k: (id(v), canon(v), sorted(vars(v)))
        for k, v in vars(mod).items()
        if hasattr(v, "coeffs") or (hasattr(v, "n") and hasattr(v, "field_modulus"))
    }


NEW_LEVEL_BEFORE = snapshot_module_level(NEW)
CONST_BEFORE = snapshot_constants()
CONST_IDS_BEFORE = {k: id(getattr(constants, k)) for k in CONST_BEFORE}

# ---------------------------------------------------------------- inputs: FQ --
# roots of Z^2 u^4 + Z u^2 = 0 besides 0:  u^2 = -1/Z
Z1 = constants.ISO_11_Z
minus_inv_z1 = (-pow(Z1.n, -1, P)) % P
r1 = pow(minus_inv_z1, (P + 1) // 4, P)
assert r1 * r1 % P == minus_inv_z1, "-1/Z is a square in FQ for p = 3 mod 4"
for r in (r1, P - r1):
    assert (Z1.n**2 * pow(r, 4, P) + Z1.n * r * r) % P == 0

fq_values = [0, 1, P - 1, 2, P - 2, 3, (P - 1) // 2, (P + 1) // 2, r1, P - r1]
fq_values += list(range(4, 40))
fq_values += [rng.randrange(P) for _ in range(400)]
fq_inputs = [FQ(v) for v in fq_values]

# --------------------------------------------------------------- inputs: FQ2 --
Z2 = constants.ISO_3_Z
# -1/Z in FQ2 and its square roots (if any) by solving with the pristine helper
ok, root = OLD.sqrt_division_FQ2(FQ2([P - 1, 0]), Z2)
fq2_exceptional = [FQ2([0, 0])]
if ok:
    assert root * root * Z2 == FQ2([P - 1, 0])
    fq2_exceptional += [root, -root]
    for r in (root, -root):
        assert Z2 * Z2 * r**4 + Z2 * r**2 == FQ2.zero()
else:
    # -1/Z is not a square: u = 0 is the only exceptional input
    pass

fq2_coeffs = [
    (0, 0),
    (1, 0),
    (P - 1, 0),
    (0, 1),
    (0, P - 1),
    ((P - 1) // 2, 0),
    ((P + 1) // 2, 0),
    (0, (P - 1) // 2),
    (0, (P + 1) // 2),
    ((P - 1) // 2, (P + 1) // 2),
    (1, 1),
    (P - 1, P - 1),
    (2, 0),
    (0, 2),
    (P - 2, P - 1),
]
fq2_coeffs += [(rng.randrange(P), 0) for _ in range(15)]
fq2_coeffs += [(0, rng.randrange(P)) for _ in range(15)]
fq2_coeffs += [(rng.randrange(P), rng.randrange(P)) for _ in range(140)]
fq2_inputs = fq2_exceptional + [FQ2(c) for c in fq2_coeffs]
print("exceptional FQ2 inputs:", len(fq2_exceptional), "module-level:", sorted(NEW_LEVEL_BEFORE))

# --------------------------------------------------- 1. the SWU maps themselves
for u in fq_inputs:
    r = same("optimized_swu_G1", u)
    assert r[0] == "ok"
for u in fq2_inputs:
    r = same("optimized_swu_G2", u)
    assert r[0] == "ok"


# --------------------------------------- 2. map_to_curve = SWU then isogeny
def old_map_G1(u):
    return OLD.iso_map_G1(*OLD.optimized_swu_G1(u))


def old_map_G2(u):
    return OLD.iso_map_G2(*OLD.optimized_swu_G2(u))


def sgn0_fq2(c0, c1):
    return (c0 % 2) or ((c0 == 0) and (c1 % 2))


for u in fq_inputs:
    new = h2c.map_to_curve_G1(FQ(u.n))
    old = old_map_G1(FQ(u.n))
    assert canon(new) == canon(old), u
    assert is_on_curve(new, b)
    # sgn0(y) = sgn0(u) holds for the point on the isogenous curve E'
    sx, sy, sz = NEW.optimized_swu_G1(FQ(u.n))
    assert (sy / sz).n % 2 == u.n % 2, ("sgn0", u)
    assert sy * sy * sz == sx**3 + constants.ISO_11_A * sx * sz**2 + constants.ISO_11_B * sz**3
    CHECKS += 1
for u in fq2_inputs:
    new = h2c.map_to_curve_G2(FQ2(u.coeffs))
    old = old_map_G2(FQ2(u.coeffs))
    assert canon(new) == canon(old), u
    assert is_on_curve(new, b2)
    sx, sy, sz = NEW.optimized_swu_G2(FQ2(u.coeffs))
    assert sgn0_fq2(*(sy / sz).coeffs) == sgn0_fq2(*u.coeffs), ("sgn0", u)
    assert sy * sy * sz == sx**3 + constants.ISO_3_A * sx * sz**2 + constants.ISO_3_B * sz**3
    CHECKS += 1

# ------------------------- 3. isogeny maps on arbitrary projective triples
specials1 = [FQ(0), FQ(1), FQ(P - 1), FQ(2)]
for _ in range(150):
    trip = [
        rng.choice(specials1) if rng.random() < 0.25 else FQ(rng.randrange(P))
        for _ in range(3)
    ]
    same("iso_map_G1", *trip)
specials2 = [FQ2([0, 0]), FQ2([1, 0]), FQ2([0, 1]), FQ2([P - 1, 0]), FQ2([5, 0])]
for _ in range(150):
    trip = [
        rng.choice(specials2)
        if rng.random() < 0.25
        else FQ2([rng.randrange(P), rng.randrange(P)])
        for _ in range(3)
    ]
    same("iso_map_G2", *trip)
# different projective representatives of the same SWU output
for u in fq_inputs[:25]:
    x, y, z = OLD.optimized_swu_G1(u)
    for lam in (FQ(1), FQ(P - 1), FQ(7), FQ(rng.randrange(1, P))):
        same("iso_map_G1", x * lam, y * lam, z * lam)
for u in fq2_inputs[:25]:
    x, y, z = OLD.optimized_swu_G2(u)
    for lam in (FQ2([1, 0]), FQ2([0, 1]), FQ2([rng.randrange(P), rng.randrange(P)])):
        same("iso_map_G2", x * lam, y * lam, z * lam)

# ------------------------------------------------ 4. square-root divisions
for _ in range(200):
    u = rng.choice(specials1) if rng.random() < 0.2 else FQ(rng.randrange(P))
    v = rng.choice(specials1) if rng.random() < 0.2 else FQ(rng.randrange(P))
    same("sqrt_division_FQ", u, v)
    w = FQ(rng.randrange(P))
    same("sqrt_division_FQ", w * w * v, v)  # a genuine square ratio
for _ in range(60):
    u = (
        rng.choice(specials2)
        if rng.random() < 0.2
        else FQ2([rng.randrange(P), rng.randrange(P)])
    )
    v = (
        rng.choice(specials2)
        if rng.random() < 0.2
        else FQ2([rng.randrange(P), rng.randrange(P)])
    )
    same("sqrt_division_FQ2", u, v)
    w = FQ2([rng.randrange(P), rng.randrange(P)])
    same("sqrt_division_FQ2", w * w * v, v)

# ------------------------------------- 5. malformed / foreign-typed inputs
malformed = [
    None,
    0,
    1,
    5,
    -3,
    True,
    P,
    P + 4,
    2**400 + 1,
    1.5,
    0.0,
    "a",
    b"x",
    (1, 2),
    [1, 2],
    FQ(5),
    FQ2([5, 0]),
    FQ2([3, 4]),
    FQ2([FQ(3), FQ(4)]),
    FQ12([1] + [0] * 11),
    FQ12([2, 3] + [0] * 10),
    optimized_bn128_FQ(5),
    optimized_bn128_FQ2([3, 4]),
    bn128_FQ(5),
    bn128_FQ2([3, 4]),
    object(),
]
for m in malformed:
    clone = not (type(m) is object)
    same("optimized_swu_G1", m, clone=clone)
    same("optimized_swu_G2", m, clone=clone)
    same("sqrt_division_FQ", m, FQ(3), clone=clone)
    same("sqrt_division_FQ", FQ(3), m, clone=clone)
    same("sqrt_division_FQ2", m, FQ2([3, 1]), clone=clone)
    same("sqrt_division_FQ2", FQ2([3, 1]), m, clone=clone)
    for good1, good2 in ((FQ(3), FQ2([3, 1])),):
        same("iso_map_G1", m, good1, good1, clone=clone)
        same("iso_map_G1", good1, m, good1, clone=clone)
        same("iso_map_G1", good1, good1, m, clone=clone)
        same("iso_map_G2", m, good2, good2, clone=clone)
        same("iso_map_G2", good2, m, good2, clone=clone)
        same("iso_map_G2", good2, good2, m, clone=clone)
for name in (
    "optimized_swu_G1",
    "optimized_swu_G2",
    "iso_map_G1",
    "iso_map_G2",
    "sqrt_division_FQ",
    "sqrt_division_FQ2",
):
    same(name)  # wrong arity
    same(name, FQ(1), FQ(1), FQ(1), FQ(1))

# -------------------------- 6. call histories: repeats and interleavings
# The same argument OBJECT is reused (its sgn0 cached_property gets filled by the
# first call); results must not depend on the history, nor on which version ran
# first, and arguments must keep their value.
hist1 = [FQ(v) for v in (0, 1, P - 1, r1, 12345, rng.randrange(P), rng.randrange(P))]
hist2 = fq2_exceptional + [
    FQ2(c) for c in ((1, 0), (0, 1), (7, 0), (rng.randrange(P), rng.randrange(P)))
]
first = {}
sequence = []
for rep in range(3):
    for i, u in enumerate(hist1):
        sequence.append(("optimized_swu_G1", ("h1", i), u))
    for i, u in enumerate(hist2):
        sequence.append(("optimized_swu_G2", ("h2", i), u))
rng.shuffle(sequence)
for step, (name, key, u) in enumerate(sequence):
    before = canon(u)
    mods = (NEW, OLD) if step % 2 else (OLD, NEW)
    res = [outcome(getattr(m, name), u) for m in mods]
    assert res[0] == res[1], (name, u)
    assert first.setdefault(key, res[0]) == res[0], ("history dependence", name, u)
    assert canon(u) == before
    # equal-but-distinct argument gives an equal result too
    fresh = FQ(u.n) if isinstance(u, FQ) else FQ2(u.coeffs)
    assert outcome(getattr(NEW, name), fresh) == res[0]
    CHECKS += 1
# outputs of one call fed into the other functions, repeatedly
for u in hist1:
    t_new = NEW.optimized_swu_G1(u)
    t_old = OLD.optimized_swu_G1(u)
    for _ in range(2):
        assert canon(NEW.iso_map_G1(*t_new)) == canon(OLD.iso_map_G1(*t_old))
        assert canon(NEW.iso_map_G1(*t_old)) == canon(OLD.iso_map_G1(*t_new))
    assert canon(NEW.optimized_swu_G1(u)) == canon(t_new)
for u in hist2:
    t_new = NEW.optimized_swu_G2(u)
    t_old = OLD.optimized_swu_G2(u)
    for _ in range(2):
        assert canon(NEW.iso_map_G2(*t_new)) == canon(OLD.iso_map_G2(*t_old))
        assert canon(NEW.iso_map_G2(*t_old)) == canon(OLD.iso_map_G2(*t_new))
    assert canon(NEW.optimized_swu_G2(u)) == canon(t_new)
# returned coordinates never alias module-level constants
const_objs = set()
for k in CONST_BEFORE:
    v = getattr(constants, k)
    stack = [v]
    while stack:
        w = stack.pop()
        if isinstance(w, (tuple, list)):
            stack.extend(w)
        else:
            const_objs.add(id(w))
for mod in (NEW,):
    for k, v in vars(mod).items():
        if hasattr(v, "coeffs") or (hasattr(v, "n") and hasattr(v, "field_modulus")):
            const_objs.add(id(v))
for u in hist1 + [FQ(v) for v in fq_values[:60]]:
    for c in NEW.optimized_swu_G1(u) + tuple(h2c.map_to_curve_G1(u)):
        assert id(c) not in const_objs, ("aliasing of a module constant", u)
for u in hist2 + fq2_inputs[:40]:
    for c in NEW.optimized_swu_G2(u) + tuple(h2c.map_to_curve_G2(u)):
        assert id(c) not in const_objs, ("aliasing of a module constant", u)


# ---------------------- 7. the full hash_to_G1 / hash_to_G2 pipelines
def old_hash_to_G1(msg, dst, hf):
    u0, u1 = hash_to_field_FQ(msg, 2, dst, hf)
    return multiply_clear_cofactor_G1(add(old_map_G1(u0), old_map_G1(u1)))


def old_hash_to_G2(msg, dst, hf):
    u0, u1 = hash_to_field_FQ2(msg, 2, dst, hf)
    return multiply_clear_cofactor_G2(add(old_map_G2(u0), old_map_G2(u1)))


messages = [b"", b"abc", b"abcdef0123456789", b"\x00", b"\xff" * 200, b"a" * 512]
dsts = [
    b"QUUX-V01-CS02-with-BLS12381G1_XMD:SHA-256_SSWU_RO_",
    b"QUUX-V01-CS02-with-BLS12381G2_XMD:SHA-256_SSWU_RO_",
    b"",
    b"\x01",
    b"D" * 255,
]
hash_functions = [hashlib.sha256, hashlib.sha512, hashlib.sha3_256, hashlib.blake2b]
combos = [(m, d, hashlib.sha256) for m in messages[:4] for d in dsts]
combos += [(m, dsts[0], hf) for m in messages[3:] for hf in hash_functions]
combos += [(b"abc", d, hf) for d in dsts[2:] for hf in hash_functions[1:]]
rng.shuffle(combos)
combos = combos[:26]
for msg, dst, hf in combos:
    new1 = h2c.hash_to_G1(msg, dst, hf)
    assert canon(new1) == canon(old_hash_to_G1(msg, dst, hf))
    assert is_on_curve(new1, b) and is_inf(multiply(new1, curve_order))
    CHECKS += 1
for msg, dst, hf in combos[:12]:
    new2 = h2c.hash_to_G2(msg, dst, hf)
    assert canon(new2) == canon(old_hash_to_G2(msg, dst, hf))
    assert is_on_curve(new2, b2) and is_inf(multiply(new2, curve_order))
    # asking again gives an equal answer
    assert canon(h2c.hash_to_G2(msg, dst, hf)) == canon(new2)
    CHECKS += 1
# over-long tag / bad argument types: same exception class through the pipeline
for args in (
    (b"abc", b"D" * 256, hashlib.sha256),
    ("abc", dsts[0], hashlib.sha256),
    (b"abc", dsts[0], None),
):
    for new_f, old_f in ((h2c.hash_to_G1, old_hash_to_G1), (h2c.hash_to_G2, old_hash_to_G2)):
        assert outcome(new_f, *args) == outcome(old_f, *args), args
        CHECKS += 1

# RFC 9380 appendix J.9.1 / J.10.1 known answers (msg = "", first vector)
g1 = normalize(h2c.hash_to_G1(b"", dsts[0], hashlib.sha256))
assert g1[0].n == int(
    "052926add2207b76ca4fa57a8734416c8dc95e24501772c814278700eed6d1e4"
    "e8cf62d9c09db0fac349612b759e79a1",
    16,
)
g2 = normalize(h2c.hash_to_G2(b"", dsts[1], hashlib.sha256))
assert g2[0].coeffs[0] == int(
    "0141ebfbdca40eb85b87142e130ab689c673cf60f1a3e98d69335266f30d9b8d"
    "4ac44c1038e9dcdd5393faf5c41fb78a",
    16,
)

# ------------------------------- 8. module constants were left untouched
assert snapshot_constants() == CONST_BEFORE
assert snapshot_module_level(NEW) == NEW_LEVEL_BEFORE
assert {k: id(getattr(constants, k)) for k in CONST_BEFORE} == CONST_IDS_BEFORE

print("equivalent on %d checks" % CHECKS)
