import os, sys; sys.path.insert(0, os.getcwd())  # noqa: E401,E702
"""
C02 / r3 equivalence demonstration.

Builds a fully pristine stack next to the refactored one:
  py_ecc.bls._pristine_point_compression  <- pristine/point_compression.py
  py_ecc.bls._pristine_g2_primitives      <- pristine/g2_primitives.py (bound to the
                                             pristine point_compression)
  py_ecc.bls._pristine_ciphersuites       <- ciphersuites.py of the tree (untouched by
                                             r3) bound to the pristine g2_primitives
and compares
  A. get_flags / is_point_at_infinity on boundary and random integers (results compared
     with their types: both must return genuine bools);
  B. decompress_G1 / decompress_G2 / compress_* (they call the two helpers);
  C. signature_to_G2 / pubkey_to_G1 / G2_to_signature / G1_to_pubkey on every candidate
     string of the property, including wrong lengths and wrong types;
  D. end-to-end Verify / PopVerify of the three suites on a reduced candidate set.
"""
import importlib.util
import inspect
import multiprocessing as mp
import random
import time

HERE = os.path.dirname(os.path.abspath(__file__))
sys.path.insert(0, HERE)

import py_ecc.bls.ciphersuites as new_cs  # noqa: E402
import py_ecc.bls.g2_primitives as new_g2  # noqa: E402
import py_ecc.bls.point_compression as new_pc  # noqa: E402

for m in (new_cs, new_g2, new_pc):
    assert os.path.abspath(m.__file__).startswith(os.getcwd()), m.__file__


def load(name, path, **swap):
    """load `path` as module `name`; while executing it, sys.modules[k] = v for swap"""
    saved = {k: sys.modules[k] for k in swap}
    sys.modules.update(swap)
    try:
        spec = importlib.util.spec_from_file_location(name, path)
        mod = importlib.util.module_from_spec(spec)
        sys.modules[name] = mod
        spec.loader.exec_module(mod)
    finally:
        sys.modules.update(saved)
    return mod


old_pc = load("py_ecc.bls._pristine_point_compression",
              os.path.join(HERE, "pristine", "point_compression.py"))
old_g2 = load("py_ecc.bls._pristine_g2_primitives",
              os.path.join(HERE, "pristine", "g2_primitives.py"),
              **{"py_ecc.bls.point_compression": old_pc})
old_cs = load("py_ecc.bls._pristine_ciphersuites", new_cs.__file__,
              **{"py_ecc.bls.g2_primitives": old_g2})

# the stacks really are distinct and bound as intended
assert old_g2.decompress_G2 is old_pc.decompress_G2
assert new_g2.decompress_G2 is new_pc.decompress_G2
assert old_cs.signature_to_G2 is old_g2.signature_to_G2
assert new_cs.signature_to_G2 is new_g2.signature_to_G2
assert old_pc.decompress_G2 is not new_pc.decompress_G2
assert sys.modules["py_ecc.bls.point_compression"] is new_pc
assert hasattr(new_g2, "FQ_OCTETS") and not hasattr(old_g2, "FQ_OCTETS"), "not applied"
assert ">>" in inspect.getsource(old_pc.get_flags)
assert ">>" not in inspect.getsource(new_pc.get_flags), "refactoring not applied"

import c02_cases as C  # noqa: E402
from py_ecc.bls.hash import os2ip  # noqa: E402
from py_ecc.fields import optimized_bls12_381_FQ2 as FQ2  # noqa: E402
from py_ecc.optimized_bls12_381 import (  # noqa: E402
    G1, G2, Z1, Z2, curve_order, field_modulus as q, multiply,
)


def canon(r):
    if r is Z2:
        return "Z2-object"
    if r is Z1:
        return "Z1-object"
    if isinstance(r, tuple):
        return ("tuple",) + tuple(canon(c) for c in r)
    if hasattr(r, "coeffs"):
        return (type(r).__name__, tuple((type(c).__name__, int(c)) for c in r.coeffs))
    if hasattr(r, "n"):
        return (type(r).__name__, int(r.n))
    return (type(r).__name__, repr(r))


def outcome(fn, *args):
    try:
        r = fn(*args)
    except BaseException as e:  # noqa: B902
        return ("raise", type(e).__name__)
    return ("ok", canon(r))


N = {"n": 0, "bad": 0, "ok": 0, "raise": 0}


def compare(label, old, new, name, *args):
    a = outcome(getattr(old, name), *args)
    b_ = outcome(getattr(new, name), *args)
    N["n"] += 1
    N[a[0]] += 1
    if a != b_:
        N["bad"] += 1
        print("MISMATCH", label, name, a, b_)
    return a


SUITES = ["G2Basic", "G2MessageAugmentation", "G2ProofOfPossession"]
VCASES = []


def vrun(i):
    label, sname, method, args = VCASES[i]
    a = C.outcome(getattr(getattr(old_cs, sname), method), *args)
    b_ = C.outcome(getattr(getattr(new_cs, sname), method), *args)
    return i, a, b_


def main():
    t0 = time.time()
    rng = random.Random(0xC02 + 3)

    # ---- A. the two helpers
    base = [0, 1, 2, 5, q - 1, q, q + 1, 2**380, 2**381 - 1, 2**381, 2**381 + 1,
            2**382 - 1, 2**382, 2**382 + 1, 2**383 - 1, 2**383, 2**383 + 1,
            2**383 + 2**382, 2**383 + 2**381, 2**383 + 2**382 + 2**381, 2**384 - 1,
            2**384, 2**384 + 2**383, 2**385 + 7, 2**400 + 2**382, 2**768 - 1, -1, -2**383,
            True, False]
    base += [rng.getrandbits(384) for _ in range(300)]
    base += [rng.getrandbits(3) << 381 for _ in range(16)]
    base += [(rng.getrandbits(3) << 381) + rng.getrandbits(rng.choice([1, 8, 200, 381])) for _ in range(200)]
    z2s = [None, 0, 1, q, 2**384 - 1, False, True, 0.0, "0", b"", FQ2([0, 0])]
    for z in base:
        compare("A", old_pc, new_pc, "get_flags", z)
        compare("A", old_pc, new_pc, "is_point_at_infinity", z)
        for z2 in z2s:
            compare("A", old_pc, new_pc, "is_point_at_infinity", z, z2)
    for z in [None, "1", 1.5, b"\x80", [1], 2.0**383]:
        compare("Atype", old_pc, new_pc, "get_flags", z)
        compare("Atype", old_pc, new_pc, "is_point_at_infinity", z)
        compare("Atype", old_pc, new_pc, "is_point_at_infinity", z, 0)
    # both versions must hand out real bools
    for z in base[:40]:
        for m in (old_pc, new_pc):
            assert all(type(f) is bool for f in m.get_flags(z))
            assert type(m.is_point_at_infinity(z)) is bool
            assert type(m.is_point_at_infinity(z, 0)) is bool
            assert type(m.is_point_at_infinity(z, 3)) is bool
    print("A done: %d comparisons, %.1fs" % (N["n"], time.time() - t0))

    # ---- B. decoders / encoders built on the helpers
    xs = [0, 1, q - 1, q, q + 1, 2**381 - 1, 4, 5]
    for flags in range(8):
        for x in xs:
            compare("B", old_pc, new_pc, "decompress_G1", (flags << 381) + x)
            for z2 in [0, 1, q - 1, q, 2**383, 2**384 - 1]:
                compare("B", old_pc, new_pc, "decompress_G2", ((flags << 381) + x, z2))
    for _ in range(60):
        x1, z2 = rng.randrange(q), rng.randrange(q)
        for flags in (4, 5):
            compare("B", old_pc, new_pc, "decompress_G1", (flags << 381) + x1)
            compare("B", old_pc, new_pc, "decompress_G2", ((flags << 381) + x1, z2))
    g2pts = [Z2, G2, multiply(G2, 3), multiply(G2, curve_order - 1), C.g2_torsion_point(rng)]
    g1pts = [Z1, G1, multiply(G1, 3), multiply(G1, curve_order - 1), C.g1_torsion_point(rng)]
    for pt in g2pts:
        compare("B", old_pc, new_pc, "compress_G2", pt)
        compare("B", old_g2, new_g2, "G2_to_signature", pt)
        compare("B", old_g2, new_g2, "subgroup_check", pt)
    for pt in g1pts:
        compare("B", old_pc, new_pc, "compress_G1", pt)
        compare("B", old_g2, new_g2, "G1_to_pubkey", pt)
    compare("B", old_g2, new_g2, "G2_to_signature", G1)  # wrong group
    compare("B", old_g2, new_g2, "G1_to_pubkey", None)
    print("B done: %d comparisons, %.1fs" % (N["n"], time.time() - t0))

    # ---- C. byte-level decoders on every candidate of the property
    sk = rng.randrange(2, curve_order - 1)
    msg = bytes(rng.randrange(256) for _ in range(20))
    signers = [
        ("basic", new_cs.G2Basic.Sign),
        ("aug", new_cs.G2MessageAugmentation.Sign),
        ("pop", new_cs.G2ProofOfPossession.Sign),
        ("popprove", lambda s, m: new_cs.G2ProofOfPossession.PopProve(s)),
    ]
    for sname, sign in signers:
        others = [("sk+1", lambda: sign(sk + 1, msg)), ("msg'", lambda: sign(sk, msg + b"!"))]
        cands = C.signature_candidates(sign, others, sk, msg, rng,
                                       nflips=96 if sname == "basic" else 24)
        for label, cand in cands:
            compare(sname + "/" + label, old_g2, new_g2, "signature_to_G2", cand)
    S = new_cs.G2Basic.Sign(sk, msg)
    for bit in list(range(16)) + list(range(376, 400)) + rng.sample(range(768), 80):
        compare("flip", old_g2, new_g2, "signature_to_G2", C.flip(S, bit))
    pk = new_cs.G2Basic.SkToPk(sk)
    compare("pk", old_g2, new_g2, "pubkey_to_G1", pk)
    for label, pkv in C.pubkey_variants(pk, rng):
        compare(label, old_g2, new_g2, "pubkey_to_G1", pkv)
    for bit in range(0, 384, 7):
        compare("pkflip", old_g2, new_g2, "pubkey_to_G1", C.flip(pk, bit))
    # over-long strings: only the positions of the flag bits matter
    for extra in (b"\x00", b"\xff", b"\x80" * 3):
        compare("long", old_g2, new_g2, "pubkey_to_G1", extra + pk)
        compare("long", old_g2, new_g2, "pubkey_to_G1", pk + extra)
        compare("long", old_g2, new_g2, "signature_to_G2", extra + S)
        compare("long", old_g2, new_g2, "signature_to_G2", S + extra)
    print("C done: %d comparisons, %.1fs" % (N["n"], time.time() - t0))

    # ---- D. end to end
    global VCASES
    for sname in SUITES + ["POP"]:
        real = "G2ProofOfPossession" if sname == "POP" else sname
        suite = getattr(new_cs, real)
        if sname == "POP":
            sign = lambda s, m, suite=suite: suite.PopProve(s)  # noqa: E731
            method, mk = "PopVerify", (lambda c: (pk, c))
        else:
            sign = suite.Sign
            method, mk = "Verify", (lambda c: (pk, msg, c))
        others = [("sk+1", lambda: sign(sk + 1, msg))]
        if sname == "G2Basic":
            others.append(("msg'", lambda: sign(sk, msg + b"!")))
            others.append(("suite:aug", lambda: new_cs.G2MessageAugmentation.Sign(sk, msg)))
            others.append(("pop-proof", lambda: new_cs.G2ProofOfPossession.PopProve(sk)))
        cands = C.signature_candidates(sign, others, sk, msg, rng,
                                       nflips=30 if sname == "G2Basic" else 5,
                                       lite=sname != "G2Basic")
        for label, cand in cands:
            VCASES.append((sname + "/" + label, real, method, mk(cand)))
        if sname in ("G2Basic", "POP"):
            Sx = sign(sk, msg)
            for label, pkv in C.pubkey_variants(pk, rng):
                args = (pkv, Sx) if sname == "POP" else (pkv, msg, Sx)
                VCASES.append((sname + "/" + label, real, method, args))
    ctx = mp.get_context("fork")
    with ctx.Pool(min(4, os.cpu_count() or 1)) as pool:
        results = pool.map(vrun, range(len(VCASES)), chunksize=4)
    hist = {}
    for i, a, b_ in results:
        N["n"] += 1
        N[a[0]] += 1
        hist[a] = hist.get(a, 0) + 1
        if a != b_:
            N["bad"] += 1
            print("MISMATCH", VCASES[i][0], a, b_)
        if VCASES[i][0].endswith("/canonical"):
            assert a == ("ok", "bool", "True"), (VCASES[i][0], a)
        else:
            assert a != ("ok", "bool", "True"), (VCASES[i][0], a)
    print("D done: %d end-to-end cases %s, %.1fs" % (len(VCASES), hist, time.time() - t0))

    print("totals:", N)
    if N["bad"]:
        print("FAILED")
        sys.exit(1)
    print("OK: pristine and refactored stacks agree on all %d comparisons" % N["n"])


if __name__ == "__main__":
    main()
