import os, sys; sys.path.insert(0, os.getcwd())  # noqa: E401,E702

# Equivalence demonstration for C05/s1:
#   linefunc and cast_point_to_fq12 moved from py_ecc/bn128/bn128_pairing.py to the
#   new module py_ecc/bn128/bn128_line.py and re-exported from bn128_pairing.
# The pristine bn128_pairing.py is loaded as py_ecc.bn128._pristine_bn128_pairing (so
# that its relative import of .bn128_curve resolves to the same curve module) and
# compared against the edited module on identical inputs.
import importlib
import importlib.util
import random

HERE = os.path.dirname(os.path.abspath(__file__))

import py_ecc.bn128 as bn128  # noqa: E402
from py_ecc.bn128 import bn128_curve as curve  # noqa: E402
from py_ecc.bn128 import bn128_pairing as new  # noqa: E402
from py_ecc.fields import bn128_FQ as FQ, bn128_FQ2 as FQ2, bn128_FQ12 as FQ12  # noqa: E402,E501

assert os.path.realpath(new.__file__).startswith(os.path.realpath(os.getcwd())), (
    "must be run with the edited worktree as cwd"
)


def load_pristine():
    name = "py_ecc.bn128._pristine_bn128_pairing"
    if name in sys.modules:
        return sys.modules[name]
    spec = importlib.util.spec_from_file_location(
        name, os.path.join(HERE, "pristine", "bn128_pairing.py")
    )
    mod = importlib.util.module_from_spec(spec)
    sys.modules[name] = mod
    spec.loader.exec_module(mod)
    return mod


old = load_pristine()
MODS = {"old": old, "new": new}
r = curve.curve_order
rng = random.Random(0xC05)


def canon(v):
    """Canonical, comparable description of a result (value AND type)."""
    if v is None:
        return ("None",)
    if isinstance(v, tuple):
        return ("tuple",) + tuple(canon(x) for x in v)
    if isinstance(v, (FQ12, FQ2)):
        return (type(v).__name__, tuple(int(c) for c in v.coeffs), v.degree)
    if isinstance(v, FQ):
        return (type(v).__name__, int(v.n))
    if isinstance(v, (int, bool)):
        return (type(v).__name__, v)
    raise TypeError("unexpected result type %r" % type(v))


def run(f, *args):
    try:
        return ("ok", canon(f(*args)))
    except Exception as e:  # noqa: BLE001
        return ("exc", type(e).__name__)


# --------------------------------------------------------------------------
# 1. structural checks on the edited tree: old import paths bind the same object
# --------------------------------------------------------------------------
line = importlib.import_module("py_ecc.bn128.bn128_line")
assert new.linefunc is line.linefunc
assert new.cast_point_to_fq12 is line.cast_point_to_fq12
from py_ecc.bn128.bn128_pairing import linefunc as lf2, cast_point_to_fq12 as cp2  # noqa: E402,E501

assert lf2 is line.linefunc and cp2 is line.cast_point_to_fq12
assert bn128.pairing is new.pairing
assert bn128.final_exponentiate is new.final_exponentiate
# the public names of the module did not shrink
missing = [
    n for n in vars(old) if not n.startswith("__") and not hasattr(new, n)
]
assert not missing, missing
# constants are equal and of the same type
for n in ("field_modulus", "ate_loop_count", "log_ate_loop_count", "conditions"):
    a, b_ = getattr(old, n), getattr(new, n)
    assert a == b_ and type(a) is type(b_), n
for n in ("one", "two", "three", "negone", "negtwo", "negthree"):
    assert canon(getattr(old, n)) == canon(getattr(new, n)), n
# the functions that stayed are textually the same code
for n in ("miller_loop", "pairing", "final_exponentiate"):
    assert getattr(old, n).__code__.co_code == getattr(new, n).__code__.co_code, n
# and so are the moved ones
for n in ("linefunc", "cast_point_to_fq12"):
    co, cn = getattr(old, n).__code__, getattr(new, n).__code__
    assert co.co_code == cn.co_code and co.co_consts == cn.co_consts, n
    assert co.co_names == cn.co_names and co.co_varnames == cn.co_varnames, n

# --------------------------------------------------------------------------
# 2. linefunc / cast_point_to_fq12 on many inputs (cheap, run in-process)
# --------------------------------------------------------------------------
scalars = [1, 2, 3, 5, r - 1, r - 2, r - 3, rng.randrange(r), rng.randrange(r)]
g1pts = [curve.multiply(curve.G1, k) for k in scalars]
g2pts = [curve.multiply(curve.G2, k) for k in scalars[:6]]
g12pts = [curve.twist(q) for q in g2pts[:4]]
junk1 = [
    (FQ(0), FQ(0)),
    (FQ(1), FQ(0)),  # y == 0 with P1 == P2 -> division by FQ(0)
    (FQ(1), FQ(3)),  # off curve
    (FQ(curve.field_modulus - 1), FQ(7)),
]
n_line = 0
for fam in (g1pts + junk1 + [None], g2pts + [None], g12pts + [None]):
    for P1 in fam:
        for P2 in fam:
            for T in fam[:4] + [None]:
                a = run(old.linefunc, P1, P2, T)
                b_ = run(new.linefunc, P1, P2, T)
                assert a == b_, (P1, P2, T, a, b_)
                n_line += 1
# malformed points
for bad in [(FQ(1),), (FQ(1), FQ(2), FQ(1)), 5, "xy", (1, 2)]:
    for args in [(bad, g1pts[0], g1pts[1]), (g1pts[0], bad, g1pts[1]),
                 (g1pts[0], g1pts[1], bad), (bad, bad, bad)]:
        a, b_ = run(old.linefunc, *args), run(new.linefunc, *args)
        assert a == b_, (args, a, b_)
        n_line += 1

n_cast = 0
for pt in g1pts + junk1 + [None, (FQ(1),), (FQ(1), FQ(2), FQ(1)), (1, 2), 7,
                           g2pts[0]]:
    a, b_ = run(old.cast_point_to_fq12, pt), run(new.cast_point_to_fq12, pt)
    assert a == b_, (pt, a, b_)
    n_cast += 1
# the argument is not mutated
p = (FQ(1), FQ(2))
new.cast_point_to_fq12(p)
assert canon(p) == canon((FQ(1), FQ(2)))

# cheap pairing cases: unit on infinity, off-curve / malformed input refused
cheap = [
    (None, curve.G1),
    (curve.G2, None),
    (None, None),
    (curve.G2, curve.multiply(curve.G1, r)),
    (curve.multiply(curve.G2, r), curve.G1),
    (curve.G2, (FQ(1), FQ(3))),
    ((curve.G2[0], curve.G2[1] + FQ2([1, 0])), curve.G1),
    ((curve.G2[0], curve.G2[1] + FQ2([1, 0])), (FQ(1), FQ(3))),
    (curve.G1, curve.G1),
    (curve.G2, curve.G2),
    (curve.G2, (FQ(1), FQ(2), FQ(1))),
    ((FQ2([1, 0]),), curve.G1),
    (curve.G2, (1, 2)),
    (curve.G2, 5),
]
for Q, P in cheap + cheap[::-1]:  # repeat in another order (no state involved)
    a, b_ = run(old.pairing, Q, P), run(new.pairing, Q, P)
    assert a == b_, (Q, P, a, b_)
assert run(new.pairing, None, curve.G1) == ("ok", canon(FQ12.one()))
assert run(new.pairing, curve.G2, (FQ(1), FQ(3))) == ("exc", "ValueError")
# final_exponentiate is untouched (same bytecode, checked above); one cheap-ish call
assert run(old.final_exponentiate, 1) == run(new.final_exponentiate, 1)
assert run(old.final_exponentiate, None) == run(new.final_exponentiate, None)

# --------------------------------------------------------------------------
# 3. full pairings (expensive: ~7 s each), both versions, same process, interleaved
# --------------------------------------------------------------------------
a_rand, b_rand = rng.randrange(1, r), rng.randrange(1, r)
PAIRS = [(1, 1), (3, r - 1), (b_rand, a_rand)]  # (b, a): pairing(b*G2, a*G1)

res = {}
for bq, ap in PAIRS:
    Q = curve.multiply(curve.G2, bq)
    P = curve.multiply(curve.G1, ap)
    Qc, Pc = canon(Q), canon(P)
    vo = run(old.pairing, Q, P)
    vn = run(new.pairing, Q, P)
    assert vo == vn and vo[0] == "ok", (bq, ap)
    assert canon(Q) == Qc and canon(P) == Pc  # arguments not mutated
    res[(bq, ap)] = FQ12(vn[1][1])

# call history: the first call repeated after all the other calls (incl. refusals
# and infinity short-circuits) still gives the same value
again = run(new.pairing, curve.G2, curve.G1)
assert again == ("ok", canon(res[(1, 1)]))

# the property itself, on the edited tree, from the values just computed
e = res[(1, 1)]
assert e != FQ12.one() and e**r == FQ12.one()
assert res[(3, r - 1)] * e**3 == FQ12.one()
assert res[(b_rand, a_rand)] == e ** ((a_rand * b_rand) % r)

print(
    "s1 equivalent: %d linefunc cases, %d cast cases, %d cheap pairing cases, "
    "%d full pairings" % (n_line, n_cast, 2 * len(cheap), 2 * len(PAIRS) + 1)
)
sys.exit(0)
