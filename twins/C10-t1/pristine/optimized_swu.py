from typing import (
    Tuple,
)

from py_ecc.fields import (
    optimized_bls12_381_FQ as FQ,
    optimized_bls12_381_FQ2 as FQ2,
)
from py_ecc.typing import (
    Optimized_Point3D,
)

from .constants import (
    ETAS,
    ISO_3_A,
    ISO_3_B,
    ISO_3_MAP_COEFFICIENTS,
    ISO_3_Z,
    ISO_11_A,
    ISO_11_B,
    ISO_11_MAP_COEFFICIENTS,
    ISO_11_Z,
    P_MINUS_3_DIV_4,
    P_MINUS_9_DIV_16,
    POSITIVE_EIGHTH_ROOTS_OF_UNITY,
    SQRT_MINUS_11_CUBED,
)


# Optimized SWU Map - FQ to G1'
# Found in Section 4 of https://eprint.iacr.org/2019/403
def optimized_swu_G1(t: FQ) -> Tuple[FQ, FQ, FQ]:
    t2 = t**2
    iso_11_z_t2 = ISO_11_Z * t2
    temp = iso_11_z_t2 + iso_11_z_t2**2
    denominator = -(ISO_11_A * temp)  # -a(Z * t^2 + Z^2 * t^4)
    temp = temp + FQ.one()
    numerator = ISO_11_B * temp  # b(Z * t^2 + Z^2 * t^4 + 1)

    # Exceptional case
    if denominator == FQ.zero():
        denominator = ISO_11_Z * ISO_11_A

    # v = D^3
    v = denominator**3
    # u = N^3 + a * N * D^2 + b* D^3
    u = (numerator**3) + (ISO_11_A * numerator * (denominator**2)) + (ISO_11_B * v)

    # Attempt y = sqrt(u / v)
    (is_root, y) = sqrt_division_FQ(u, v)

    if not is_root:
        y = y * t**3 * SQRT_MINUS_11_CUBED
        numerator = numerator * iso_11_z_t2

    if t.sgn0 != y.sgn0:
        y = -y

    y = y * denominator

    return numerator, y, denominator


# Optimized SWU Map - FQ2 to G2': y^2 = x^3 + 240i * x + 1012 + 1012i
# Found in Section 4 of https://eprint.iacr.org/2019/403
def optimized_swu_G2(t: FQ2) -> Tuple[FQ2, FQ2, FQ2]:
    t2 = t**2
    iso_3_z_t2 = ISO_3_Z * t2
    temp = iso_3_z_t2 + iso_3_z_t2**2
    denominator = -(ISO_3_A * temp)  # -a(Z * t^2 + Z^2 * t^4)
    temp = temp + FQ2.one()
    numerator = ISO_3_B * temp  # b(Z * t^2 + Z^2 * t^4 + 1)

    # Exceptional case
    if denominator == FQ2.zero():
        denominator = ISO_3_Z * ISO_3_A

    # v = D^3
    v = denominator**3
    # u = N^3 + a * N * D^2 + b* D^3
    u = (numerator**3) + (ISO_3_A * numerator * (denominator**2)) + (ISO_3_B * v)

    # Attempt y = sqrt(u / v)
    (success, sqrt_candidate) = sqrt_division_FQ2(u, v)
    y = sqrt_candidate

    # Handle case where (u / v) is not square
    # sqrt_candidate(x1) = sqrt_candidate(x0) * t^3
    sqrt_candidate = sqrt_candidate * t**3

    # u(x1) = Z^3 * t^6 * u(x0)
    u = (iso_3_z_t2) ** 3 * u
    success_2 = False
    etas = ETAS
    for eta in etas:
        # Valid solution if (eta * sqrt_candidate(x1)) ** 2 * v - u == 0
        eta_sqrt_candidate = eta * sqrt_candidate
        temp1 = eta_sqrt_candidate**2 * v - u
        if temp1 == FQ2.zero() and not success and not success_2:
            y = eta_sqrt_candidate
            success_2 = True

    if not success and not success_2:
        # Unreachable
        raise Exception("Hash to Curve - Optimized SWU failure")

    if not success:
        numerator = numerator * iso_3_z_t2

    if t.sgn0 != y.sgn0:
        y = -y

    y = y * denominator

    return (numerator, y, denominator)


def sqrt_division_FQ(u: FQ, v: FQ) -> Tuple[bool, FQ]:
    temp = u * v
    result = temp * ((temp * v**2) ** P_MINUS_3_DIV_4)
    is_valid_root = (result**2 * v - u) == FQ.zero()
    return (is_valid_root, result)


# Square Root Division
# Return: uv^7 * (uv^15)^((p^2 - 9) / 16) * root of unity
# If valid square root is found return true, else false
def sqrt_division_FQ2(u: FQ2, v: FQ2) -> Tuple[bool, FQ2]:
    temp1 = u * v**7
    temp2 = temp1 * v**8

    # gamma =  uv^7 * (uv^15)^((p^2 - 9) / 16)
    gamma = temp2**P_MINUS_9_DIV_16
    gamma = gamma * temp1

    # Verify there is a valid root
    is_valid_root = False
    result = gamma
    roots = POSITIVE_EIGHTH_ROOTS_OF_UNITY
    for root in roots:
        # Valid if (root * gamma)^2 * v - u == 0
        sqrt_candidate = root * gamma
        temp2 = sqrt_candidate**2 * v - u
        if temp2 == FQ2.zero() and not is_valid_root:
            is_valid_root = True
            result = sqrt_candidate

    return (is_valid_root, result)


# Optimal Map from 3-Isogenous Curve to G2
def iso_map_G2(x: FQ2, y: FQ2, z: FQ2) -> Optimized_Point3D[FQ2]:
    # x-numerator, x-denominator, y-numerator, y-denominator
    mapped_values = [FQ2.zero(), FQ2.zero(), FQ2.zero(), FQ2.zero()]
    z_powers = [z, z**2, z**3]

    # Horner Polynomial Evaluation
    for i, k_i in enumerate(ISO_3_MAP_COEFFICIENTS):
        mapped_values[i] = k_i[-1:][0]
        for j, k_i_j in enumerate(reversed(k_i[:-1])):
            mapped_values[i] = mapped_values[i] * x + z_powers[j] * k_i_j

    mapped_values[2] = mapped_values[2] * y  # y-numerator * y
    mapped_values[3] = mapped_values[3] * z  # y-denominator * z

    z_G2 = mapped_values[1] * mapped_values[3]  # x-denominator * y-denominator
    x_G2 = mapped_values[0] * mapped_values[3]  # x-numerator * y-denominator
    y_G2 = mapped_values[1] * mapped_values[2]  # y-numerator * x-denominator

    return (x_G2, y_G2, z_G2)


# Optimal Map from 11-Isogenous Curve to G1
def iso_map_G1(x: FQ, y: FQ, z: FQ) -> Optimized_Point3D[FQ]:
    # x-numerator, x-denominator, y-numerator, y-denominator
    mapped_values = [FQ.zero(), FQ.zero(), FQ.zero(), FQ.zero()]
    z_powers = [
        z,
        z**2,
        z**3,
        z**4,
        z**5,
        z**6,
        z**7,
        z**8,
        z**9,
        z**10,
        z**11,
        z**12,
        z**13,
        z**14,
        z**15,
    ]

    # Horner Polynomial Evaluation
    for i, k_i in enumerate(ISO_11_MAP_COEFFICIENTS):
        mapped_values[i] = k_i[-1:][0]
        for j, k_i_j in enumerate(reversed(k_i[:-1])):
            mapped_values[i] = mapped_values[i] * x + z_powers[j] * k_i_j

    # Correct for x-denominator polynomial being 1-order lower than
    # x-numerator polynomial
    mapped_values[1] = mapped_values[1] * z  # x-denominator * z

    mapped_values[2] = mapped_values[2] * y  # y-numerator * y
    mapped_values[3] = mapped_values[3] * z  # y-denominator * z

    z_G1 = mapped_values[1] * mapped_values[3]  # x-denominator * y-denominator
    x_G1 = mapped_values[0] * mapped_values[3]  # x-numerator * y-denominator
    y_G1 = mapped_values[1] * mapped_values[2]  # y-numerator * x-denominator

    return (x_G1, y_G1, z_G1)
