import os, sys; sys.path.insert(0, os.getcwd())  # noqa: E401,E702

"""
Equivalence demonstration for twin t1 of property C10.

Run as:   cd /tmp/wt2/C10 && /venv/bin/python /tmp/twin5/C10/t1/equiv.py
(`--record` re-creates pristine.json; it must only be run on the PRISTINE tree.)

Three independent comparisons:
 A. the pristine optimized_swu.py (loaded from ./pristine under another module
    name) against the edited module, function by function, on boundary, random and
    malformed inputs: results (type + coefficients) and exception classes;
 B. the pristine optimized_field_elements.py (loaded under another module name,
    with bls12-381 / bn128 subclasses built here) against the edited one for sgn0:
    value AND type of the result, exception classes, cached repeats;
 C. end-to-end values (map_to_curve_G1/G2, hash_to_G1/G2, hash_to_field, sgn0)
    recorded on the pristine tree in pristine.json against the edited tree.
"""

import hashlib
import importlib.util
import json
import random

HERE = os.path.dirname(os.path.abspath(__file__))
PRISTINE = os.path.join(HERE, "pristine")
JSON_PATH = os.path.join(HERE, "pristine.json")


def load(name, path):
    spec = importlib.util.spec_from_file_location(name, path)
    mod = importlib.util.module_from_spec(spec)
    sys.modules[name] = mod
    spec.loader.exec_module(mod)
    return mod


import py_ecc.fields.optimized_field_elements as new_ofe  # noqa: E402
import py_ecc.optimized_bls12_381.optimized_swu as new_swu  # noqa: E402
from py_ecc.bls import hash_to_curve as h2c  # noqa: E402
from py_ecc.fields import (  # noqa: E402
    optimized_bls12_381_FQ as FQ,
    optimized_bls12_381_FQ2 as FQ2,
    optimized_bls12_381_FQ12 as FQ12,
    optimized_bn128_FQ as BN_FQ,
    optimized_bn128_FQ2 as BN_FQ2,
)
from py_ecc.fields.field_properties import field_properties  # noqa: E402
from py_ecc.optimized_bls12_381 import (  # noqa: E402
    b as B1,
    b2 as B2,
    curve_order,
    is_inf,
    is_on_curve,
    multiply,
    normalize,
)
from py_ecc.optimized_bls12_381.constants import ISO_3_Z, ISO_11_Z  # noqa: E402

P = FQ.field_modulus
rng = random.Random(0xC10)
CHECKS = 0


def describe(v):
    """A faithful, comparable description of a value: type names + contents."""
    if isinstance(v, (tuple, list)):
        return [type(v).__name__, [describe(x) for x in v]]
    if isinstance(v, bool) or v is None:
        return [type(v).__name__, repr(v)]
    if isinstance(v, int):
        return [type(v).__name__, str(int(v))]
    if hasattr(v, "coeffs"):
        return [type(v).__name__, [describe(c) for c in v.coeffs]]
    if hasattr(v, "n"):
        return [type(v).__name__, str(v.n)]
    return [type(v).__name__, repr(v)]


def outcome(f, *args):
    try:
        return ["ok", describe(f(*args))]
    except BaseException as e:  # noqa: B902 - the class is what is compared
        if isinstance(e, (KeyboardInterrupt, SystemExit, MemoryError)):
            raise
        return ["raise", type(e).__name__]


def same(label, a, b):
    global CHECKS
    CHECKS += 1
    if a != b:
        print("MISMATCH", label, "\n  pristine:", a, "\n  edited:  ", b)
        sys.exit(1)


# ----------------------------------------------------------------------------
# inputs
# ----------------------------------------------------------------------------
def fq_sqrt(a):
    r = a ** ((P + 1) // 4)
    return r if r * r == a else None


def fq2_inputs():
    vals = [
        FQ2([0, 0]),
        FQ2([1, 0]),
        FQ2([-1, 0]),
        FQ2([0, 1]),
        FQ2([0, -1]),
        FQ2([(P - 1) // 2, 0]),
        FQ2([(P + 1) // 2, 0]),
        FQ2([0, (P - 1) // 2]),
        FQ2([0, (P + 1) // 2]),
        FQ2([(P - 1) // 2, (P + 1) // 2]),
        FQ2([2, 0]),
        FQ2([0, 2]),
        FQ2([P - 2, 1]),
        FQ2([2, P - 1]),
        FQ2([1, 1]),
        FQ2([P - 1, P - 1]),
    ]
    # roots of Z^2 u^4 + Z u^2 = 0 other than 0: u^2 = -1/Z
    ok, r = new_swu.sqrt_division_FQ2(-FQ2.one(), ISO_3_Z)
    if ok:
        assert ISO_3_Z * r * r + FQ2.one() == FQ2.zero()
        vals += [r, -r]
    for _ in range(10):
        vals.append(FQ2([rng.randrange(P), 0]))
        vals.append(FQ2([0, rng.randrange(P)]))
    for _ in range(40):
        vals.append(FQ2([rng.randrange(P), rng.randrange(P)]))
    for _ in range(6):
        vals.append(FQ2([rng.randrange(64), rng.randrange(64)]))
    # unusual but accepted representations: FQ coefficients, unreduced ints
    vals.append(FQ2([FQ(3), FQ(4)]))
    vals.append(FQ2([FQ(0), FQ(5)]))
    vals.append(FQ2((FQ(0), FQ(0))))
    vals.append(FQ2([P + 3, -P - 7]))
    vals.append(FQ2([True, False]))
    return vals


def fq_inputs():
    vals = [FQ(0), FQ(1), FQ(-1), FQ(2), FQ((P - 1) // 2), FQ((P + 1) // 2), FQ(P - 2)]
    inv = FQ(1) / ISO_11_Z
    r = fq_sqrt(-inv)
    if r is not None:
        vals += [r, -r]
    for _ in range(40):
        vals.append(FQ(rng.randrange(P)))
    for _ in range(6):
        vals.append(FQ(rng.randrange(64)))
    return vals


def malformed():
    return [
        None,
        0,
        1,
        5,
        -3,
        True,
        2.5,
        1e200,
        "7",
        b"\x01",
        (1, 2),
        [1, 2],
        FQ(5),
        FQ2([5, 6]),
        FQ12([1] + [0] * 11),
        BN_FQ(5),
        BN_FQ2([5, 6]),
        BN_FQ2([0, 0]),
        FQ2([BN_FQ(3), BN_FQ(4)]),
        object(),
    ]


# ----------------------------------------------------------------------------
# A. pristine optimized_swu.py against the edited one
# ----------------------------------------------------------------------------
def part_A():
    old_swu = load(
        "py_ecc.optimized_bls12_381._pristine_optimized_swu",
        os.path.join(PRISTINE, "optimized_swu.py"),
    )
    assert old_swu.__file__ != new_swu.__file__
    u2 = fq2_inputs()
    u1 = fq_inputs()

    for rep in range(2):  # second round: same arguments again (call history)
        for u in u2:
            same(("swu_G2", describe(u), rep), outcome(old_swu.optimized_swu_G2, u),
                 outcome(new_swu.optimized_swu_G2, u))
        for u in u1:
            same(("swu_G1", describe(u), rep), outcome(old_swu.optimized_swu_G1, u),
                 outcome(new_swu.optimized_swu_G1, u))
    for m in malformed():
        same(("swu_G2 malformed", repr(m)), outcome(old_swu.optimized_swu_G2, m),
             outcome(new_swu.optimized_swu_G2, m))
        same(("swu_G1 malformed", repr(m)), outcome(old_swu.optimized_swu_G1, m),
             outcome(new_swu.optimized_swu_G1, m))

    # sqrt_division_FQ2 / sqrt_division_FQ directly: squares, non-squares, zero
    pairs = []
    some = u2[:24]
    for a in some[:12]:
        for b in (FQ2([1, 0]), FQ2([0, 0]), some[13], some[20], a):
            pairs.append((a, b))
    for _ in range(25):
        x = FQ2([rng.randrange(P), rng.randrange(P)])
        v = FQ2([rng.randrange(P), rng.randrange(P)])
        pairs.append((x * x * v, v))  # u / v is a square: some root must validate
        pairs.append((x, v))
    for a, b in pairs:
        same(("sqrt_division_FQ2", describe(a), describe(b)),
             outcome(old_swu.sqrt_division_FQ2, a, b),
             outcome(new_swu.sqrt_division_FQ2, a, b))
    bad_pairs = [(1, 1), (FQ2([1, 0]), 1), (1, FQ2([1, 0])), (None, FQ2([1, 0])),
                 (FQ2([1, 0]), None), (FQ(3), FQ(4)), (BN_FQ2([1, 2]), BN_FQ2([3, 4])),
                 (FQ2([1, 2]), BN_FQ2([3, 4])), ("a", "b"), (1.0, 1.0), (0, 0)]
    for a, b in bad_pairs:
        same(("sqrt_division_FQ2 malformed", repr(a), repr(b)),
             outcome(old_swu.sqrt_division_FQ2, a, b),
             outcome(new_swu.sqrt_division_FQ2, a, b))
    for _ in range(20):
        a, b = FQ(rng.randrange(P)), FQ(rng.randrange(P))
        same(("sqrt_division_FQ",), outcome(old_swu.sqrt_division_FQ, a, b),
             outcome(new_swu.sqrt_division_FQ, a, b))

    # isogeny maps are untouched, but they are re-exported from the same module
    for u in u2[:20]:
        xyz = new_swu.optimized_swu_G2(u)
        same(("iso_map_G2",), outcome(old_swu.iso_map_G2, *xyz),
             outcome(new_swu.iso_map_G2, *xyz))
    for u in u1[:20]:
        xyz = new_swu.optimized_swu_G1(u)
        same(("iso_map_G1",), outcome(old_swu.iso_map_G1, *xyz),
             outcome(new_swu.iso_map_G1, *xyz))

    # module constants are not mutated
    from py_ecc.optimized_bls12_381 import constants as C

    assert describe(C.ETAS) == describe(list(C.ETAS)) and len(C.ETAS) == 4
    assert len(C.POSITIVE_EIGHTH_ROOTS_OF_UNITY) == 4


# ----------------------------------------------------------------------------
# B. pristine optimized_field_elements.py against the edited one: sgn0
# ----------------------------------------------------------------------------
def part_B():
    old_ofe = load(
        "py_ecc.fields._pristine_optimized_field_elements",
        os.path.join(PRISTINE, "optimized_field_elements.py"),
    )
    assert old_ofe.__file__ != new_ofe.__file__

    def build(ofe, curve):
        fp = field_properties[curve]

        class XFQ(ofe.FQ):
            field_modulus = fp["field_modulus"]

        class XFQP(ofe.FQP):
            field_modulus = fp["field_modulus"]

        class XFQ2(ofe.FQ2, XFQP):
            field_modulus = fp["field_modulus"]
            FQ2_MODULUS_COEFFS = fp["fq2_modulus_coeffs"]

        class XFQ12(ofe.FQ12, XFQP):
            field_modulus = fp["field_modulus"]
            FQ12_MODULUS_COEFFS = fp["fq12_modulus_coeffs"]

        return XFQ, XFQ2, XFQ12

    for curve in ("bls12_381", "bn128"):
        oFQ, oFQ2, oFQ12 = build(old_ofe, curve)
        nFQ, nFQ2, nFQ12 = build(new_ofe, curve)
        q = field_properties[curve]["field_modulus"]
        small = [0, 1, 2, 3, 4, q - 1, q - 2, (q - 1) // 2, (q + 1) // 2, q, q + 1, -1, -2]
        coeff_sets = [(a, b) for a in small for b in small]
        for _ in range(300):
            coeff_sets.append((rng.randrange(q), rng.randrange(q)))
        for _ in range(50):
            coeff_sets.append((0, rng.randrange(q)))
            coeff_sets.append((rng.randrange(q), 0))

        def sgn(cls, fq, coeffs, wrap):
            if wrap == "int":
                el = cls(list(coeffs))
            elif wrap == "fq":
                el = cls([fq(c) for c in coeffs])
            elif wrap == "tuple-fq":
                el = cls(tuple(fq(c) for c in coeffs))
            else:
                el = cls([bool(coeffs[0] % 2), bool(coeffs[1] % 2)])
            first = el.sgn0
            second = el.sgn0  # cached_property: a repeat returns the same object
            assert first is second
            return [type(first).__name__, repr(first)]

        for coeffs in coeff_sets:
            for wrap in ("int", "fq", "tuple-fq", "bool"):
                same(("FQ2.sgn0", curve, coeffs, wrap),
                     outcome(sgn, oFQ2, oFQ, coeffs, wrap),
                     outcome(sgn, nFQ2, nFQ, coeffs, wrap))

        # malformed coefficient objects: the exception class must not change
        # elements built without going through the reducing constructor
        def raw_sgn(cls, c0, c1):
            el = cls([0, 0])
            el.coeffs = (c0, c1)
            r = el.sgn0
            return [type(r).__name__, repr(r)]

        weird = [None, "1", 1.5, 2.0, 0.0, b"", (1,), object, 3, 0, -1, q, q + 1, True, False]
        for c0 in weird:
            for c1 in weird:
                same(("FQ2.sgn0 raw", curve, repr(c0), repr(c1)),
                     outcome(raw_sgn, oFQ2, c0, c1), outcome(raw_sgn, nFQ2, c0, c1))
        for c in ((1,), (1, 2, 3), ()):
            def raw_len(cls, c=c):
                el = cls([0, 0])
                el.coeffs = c
                return el.sgn0
            same(("FQ2.sgn0 arity", curve, c), outcome(raw_len, oFQ2), outcome(raw_len, nFQ2))

        # untouched neighbours sharing the code: FQ.sgn0 and the generic FQP.sgn0
        for _ in range(50):
            n = rng.randrange(q)
            same(("FQ.sgn0",), outcome(lambda: oFQ(n).sgn0), outcome(lambda: nFQ(n).sgn0))
            cs = [rng.choice([0, 0, 1, 2, rng.randrange(q)]) for _ in range(12)]
            same(("FQ12.sgn0",), outcome(lambda: oFQ12(cs).sgn0),
                 outcome(lambda: nFQ12(cs).sgn0))


# ----------------------------------------------------------------------------
# C. end-to-end values recorded on the pristine tree
# ----------------------------------------------------------------------------
def affine(pt):
    if is_inf(pt):
        return "inf"
    return describe(normalize(pt))


def end_to_end():
    out = {}
    u2 = fq2_inputs()
    u1 = fq_inputs()
    for k, u in enumerate(u2):
        out["map_G2/%d" % k] = outcome(lambda: affine(h2c.map_to_curve_G2(u)))
        out["proj_G2/%d" % k] = outcome(h2c.map_to_curve_G2, u)
        out["sgn0_FQ2/%d" % k] = outcome(lambda: u.sgn0)
    for k, u in enumerate(u1):
        out["map_G1/%d" % k] = outcome(lambda: affine(h2c.map_to_curve_G1(u)))
        out["proj_G1/%d" % k] = outcome(h2c.map_to_curve_G1, u)
        out["sgn0_FQ/%d" % k] = outcome(lambda: u.sgn0)
    for k, m in enumerate(malformed()):
        out["bad_G2/%d" % k] = outcome(h2c.map_to_curve_G2, m)
        out["bad_G1/%d" % k] = outcome(h2c.map_to_curve_G1, m)

    msgs = [b"", b"abc", b"abcdef0123456789", b"\x00", b"a" * 512,
            b"q128_" + b"q" * 128, bytes(range(256))]
    dsts = [b"QUUX-V01-CS02-with-BLS12381G2_XMD:SHA-256_SSWU_RO_",
            b"QUUX-V01-CS02-with-BLS12381G1_XMD:SHA-256_SSWU_RO_", b"", b"x" * 255]
    hashes = ["sha256", "sha512", "sha3_256", "sha1", "blake2b"]
    cases = []
    for m in msgs:
        cases.append((m, dsts[0], "sha256"))
        cases.append((m, dsts[1], "sha256"))
    for d in dsts[2:]:
        cases.append((b"abc", d, "sha256"))
    for h in hashes[1:]:
        cases.append((b"abc", dsts[0], h))
        cases.append((b"", dsts[3], h))
    cases.append((b"abc", b"x" * 256, "sha256"))  # too long a tag: ValueError
    cases.append((b"abc", "text-tag", "sha256"))  # malformed tag
    cases.append(("text", dsts[0], "sha256"))  # malformed message
    for rep in range(2):
        for k, (m, d, h) in enumerate(cases):
            hf = getattr(hashlib, h)
            key = "%d/%d/%s" % (rep, k, h)
            out["h2G2/" + key] = outcome(lambda: affine(h2c.hash_to_G2(m, d, hf)))
            out["h2G1/" + key] = outcome(lambda: affine(h2c.hash_to_G1(m, d, hf)))
            out["h2f2/" + key] = outcome(h2c.hash_to_field_FQ2, m, 2, d, hf)
            out["h2f1/" + key] = outcome(h2c.hash_to_field_FQ, m, 2, d, hf)
    return out


def property_holds():
    """The stated property itself on the edited tree (a sanity check)."""
    for m in (b"", b"abc", b"a" * 100):
        for d in (b"D", b"QUUX-V01-CS02-with-BLS12381G2_XMD:SHA-256_SSWU_RO_"):
            q2 = h2c.hash_to_G2(m, d, hashlib.sha256)
            q1 = h2c.hash_to_G1(m, d, hashlib.sha256)
            assert is_on_curve(q2, B2) and is_inf(multiply(q2, curve_order))
            assert is_on_curve(q1, B1) and is_inf(multiply(q1, curve_order))
    # sgn0(y) == sgn0(u) holds for the simplified-SWU output on the isogenous curve
    for u in fq2_inputs()[:20]:
        assert is_on_curve(h2c.map_to_curve_G2(u), B2)
        x, y, z = new_swu.optimized_swu_G2(u)
        assert (y / z).sgn0 == u.sgn0
    for u in fq_inputs()[:20]:
        assert is_on_curve(h2c.map_to_curve_G1(u), B1)
        x, y, z = new_swu.optimized_swu_G1(u)
        assert (y / z).sgn0 == u.sgn0


def part_C():
    with open(JSON_PATH) as f:
        recorded = json.load(f)
    now = json.loads(json.dumps(end_to_end()))
    assert set(recorded) == set(now), "different set of recorded cases"
    for key in sorted(recorded):
        same(("recorded", key), recorded[key], now[key])


if __name__ == "__main__":
    if "--record" in sys.argv:
        with open(JSON_PATH, "w") as f:
            json.dump(end_to_end(), f, indent=0, sort_keys=True)
        print("recorded", JSON_PATH)
        sys.exit(0)
    part_A()
    rng.seed(0xC10)  # part C must draw the same inputs as the recording run
    part_C()
    part_B()
    property_holds()
    print("equivalent: %d comparisons identical" % CHECKS)
    sys.exit(0)
