import os, sys; sys.path.insert(0, os.getcwd())  # noqa: E702

"""
Equivalence demonstration for C01/w1.

Loads the pristine py_ecc/bls/ciphersuites.py (saved next to this script) under
another module name inside the py_ecc.bls package and compares it with the
edited module of the current working tree: secret-key validation, SkToPk,
Sign, PopProve (results and exception classes + messages), and the
sign/verify round trip.
"""
import importlib.util
import random
import time

HERE = os.path.dirname(os.path.abspath(__file__))
T0 = time.time()

import py_ecc.bls.ciphersuites as new  # noqa: E402

assert os.path.abspath(new.__file__).startswith(os.getcwd()), new.__file__

spec = importlib.util.spec_from_file_location(
    "py_ecc.bls.ciphersuites_pristine", os.path.join(HERE, "pristine", "ciphersuites.py")
)
old = importlib.util.module_from_spec(spec)
sys.modules[spec.name] = old
spec.loader.exec_module(old)

assert hasattr(new.BaseG2Ciphersuite, "_require_privkey"), "edited tree expected"
assert not hasattr(old.BaseG2Ciphersuite, "_require_privkey")

r = new.curve_order
assert r == old.curve_order
SUITES = ["G2Basic", "G2MessageAugmentation", "G2ProofOfPossession"]
checks = 0


def outcome(fn, *args):
    try:
        return ("ok", fn(*args))
    except BaseException as e:  # noqa: B902
        return ("exc", type(e).__name__, type(e).__mro__[1].__name__, str(e))


def same(label, fo, fn, *args):
    global checks
    a = outcome(fo, *args)
    b = outcome(fn, *args)
    if a != b or (a[0] == "ok" and type(a[1]) is not type(b[1])):
        print("MISMATCH", label, repr(args)[:200], a, b)
        sys.exit(1)
    checks += 1
    return a


class MyInt(int):
    pass


# ---------------------------------------------------------------- key ranges
rng = random.Random(20240601)
int_keys = [
    0, 1, 2, 3, r - 3, r - 2, r - 1, r, r + 1, r + 2, -1, -2, -r, -(r - 1), 1 - r,
    2 * r, 2 * r - 1, 2 * r + 1, 2**255, 2**255 - 1, 2**255 + 1, 2**254, 2**256,
    2**256 - 1, 2**381, 2**512, 10**100, -(10**100), r // 2, r // 2 + 1,
]
for b in range(0, 300):
    int_keys += [2**b, 2**b - 1, 2**b + 1, -(2**b)]
for _ in range(3000):
    int_keys.append(rng.getrandbits(255))
    int_keys.append(rng.getrandbits(rng.randrange(1, 300)))
    int_keys.append(r + rng.randrange(-1000, 1000))
    int_keys.append(rng.randrange(-5, 5))
odd_keys = [
    True, False, None, 1.0, 0.0, 1.5, float("nan"), float("inf"), -0.0, "1", b"\x01",
    b"", "", bytearray(b"\x01"), (1,), [1], {1}, {1: 1}, 1 + 0j, object(), int, r * 1.0,
    MyInt(0), MyInt(1), MyInt(r - 1), MyInt(r), MyInt(-1), float(r - 1),
]
try:
    from decimal import Decimal
    from fractions import Fraction

    odd_keys += [Decimal(1), Fraction(1, 1), Fraction(1, 2), Decimal(0)]
except ImportError:
    pass

n_valid = 0
for name in SUITES:
    co, cn = getattr(old, name), getattr(new, name)
    for k in int_keys + odd_keys:
        res = same(name + "._is_valid_privkey", co._is_valid_privkey, cn._is_valid_privkey, k)
        if type(k) is int:
            # independent oracle: exactly the ints 1..r-1
            assert res == ("ok", 0 < k < r), (k, res)
            n_valid += res[1]
        # the new helper agrees with the predicate and hands back the same object
        o = outcome(cn._require_privkey, k)
        if res[1] is True:
            assert o[0] == "ok" and o[1] is k, (k, o)
        else:
            assert o[:2] == ("exc", "ValidationError") and o[3] == "Invalid private key", (k, o)
        o = outcome(cn._require_privkey, k, "secret key")
        if res[1] is True:
            assert o[0] == "ok" and o[1] is k, (k, o)
        else:
            assert o[:2] == ("exc", "ValidationError") and o[3] == "Invalid secret key", (k, o)
assert n_valid > 3000
# the base class helper too (static, shared by all suites)
for k in int_keys[:200] + odd_keys:
    same("Base._is_valid_privkey", old.BaseG2Ciphersuite._is_valid_privkey,
         new.BaseG2Ciphersuite._is_valid_privkey, k)
print("validation predicate: %d checks, %.1fs" % (checks, time.time() - T0))

# ------------------------------------------- refusals (cheap: no curve maths)
bad_keys = [k for k in int_keys[:400] + odd_keys if not outcome(old.G2Basic._is_valid_privkey, k)[1] is True]
assert 0 in bad_keys and r in bad_keys and (r + 1) in bad_keys and -1 in bad_keys and 2**255 in bad_keys
bad_msgs = ["abc", None, 5, bytearray(b"abc"), memoryview(b"abc"), [1, 2], ("a",)]
for name in SUITES:
    co, cn = getattr(old, name), getattr(new, name)
    for k in bad_keys:
        a = same(name + ".SkToPk bad", co.SkToPk, cn.SkToPk, k)
        assert a[:2] == ("exc", "ValidationError") and a[3] == "Invalid private key", a
        a = same(name + ".Sign bad", co.Sign, cn.Sign, k, b"msg")
        assert a[:2] == ("exc", "ValidationError"), a
        # bad key and bad message together: the key is reported first
        same(name + ".Sign bad/bad", co.Sign, cn.Sign, k, "not bytes")
        same(name + "._CoreSign bad", co._CoreSign, cn._CoreSign, k, b"msg", co.DST)
        same(name + "._CoreSign bad/bad", co._CoreSign, cn._CoreSign, k, None, co.DST)
    for m in bad_msgs:
        for k in (1, r - 1, True, MyInt(5)):
            same(name + ".Sign badmsg", co.Sign, cn.Sign, k, m)
            same(name + "._CoreSign badmsg", co._CoreSign, cn._CoreSign, k, m, co.DST)
for k in bad_keys:
    a = same("PopProve bad", old.G2ProofOfPossession.PopProve, new.G2ProofOfPossession.PopProve, k)
    assert a[:2] == ("exc", "ValidationError") and a[3] == "Invalid private key", a
print("refusals: %d checks, %.1fs" % (checks, time.time() - T0))

# ------------------------------------------------------- SkToPk on good keys
good_keys = [1, 2, 3, r - 2, r - 1, True, MyInt(7), 2**254, 2**254 + 1, r // 2]
good_keys += [2**b for b in range(2, 254, 9)] + [2**b - 1 for b in range(2, 255, 11)]
good_keys += [rng.getrandbits(255) % (r - 1) + 1 for _ in range(10)]
pks = {}
for k in good_keys:
    for name in SUITES[:1]:
        co, cn = getattr(old, name), getattr(new, name)
        a = same(name + ".SkToPk", co.SkToPk, cn.SkToPk, k)
        assert a[0] == "ok" and len(a[1]) == 48
        pks[int(k)] = a[1]
for k in (1, r - 1, True, good_keys[-1]):
    for name in SUITES[1:]:
        co, cn = getattr(old, name), getattr(new, name)
        a = same(name + ".SkToPk", co.SkToPk, cn.SkToPk, k)
        assert a[1] == pks[int(k)]
print("SkToPk: %d checks, %.1fs" % (checks, time.time() - T0))

# --------------------------------------------------- Sign / PopProve / Verify
msgs = [b"", b"\x00", b"a" * 55, b"b" * 56, b"c" * 63, b"d" * 64, b"e" * 65,
        bytes(range(256)), os.urandom(0) + bytes(rng.getrandbits(8) for _ in range(3000))]
sign_cases = [
    ("G2Basic", 1, msgs[0]), ("G2Basic", r - 1, msgs[3]), ("G2Basic", True, msgs[7]),
    ("G2Basic", good_keys[-1], msgs[8]), ("G2Basic", 2, msgs[5]),
    ("G2MessageAugmentation", 1, msgs[1]), ("G2MessageAugmentation", r - 1, msgs[0]),
    ("G2MessageAugmentation", r - 2, msgs[4]), ("G2MessageAugmentation", good_keys[-2], msgs[8]),
    ("G2ProofOfPossession", 1, msgs[2]), ("G2ProofOfPossession", r - 1, msgs[6]),
    ("G2ProofOfPossession", MyInt(7), msgs[0]), ("G2ProofOfPossession", good_keys[-3], msgs[7]),
]
sigs = []
for name, k, m in sign_cases:
    co, cn = getattr(old, name), getattr(new, name)
    a = same(name + ".Sign", co.Sign, cn.Sign, k, m)
    assert a[0] == "ok" and len(a[1]) == 96
    sigs.append((name, k, m, a[1]))
proofs = []
for k in (1, r - 1, True, MyInt(7), good_keys[-1]):
    a = same("PopProve", old.G2ProofOfPossession.PopProve, new.G2ProofOfPossession.PopProve, k)
    assert a[0] == "ok" and len(a[1]) == 96
    proofs.append((k, a[1]))
# call history: repeat earlier calls after the interleaving above, in reverse
for name, k, m, s in reversed(sigs[:4]):
    cn = getattr(new, name)
    assert cn.Sign(k, m) == s
    checks += 1
assert new.G2ProofOfPossession.PopProve(1) == proofs[0][1]
assert new.G2Basic.SkToPk(1) == pks[1]
print("Sign/PopProve: %d checks, %.1fs" % (checks, time.time() - T0))

# round trip on the edited module (property C01 itself), a sample to bound time
for name, k, m, s in (sigs[1], sigs[6], sigs[10]):
    cn = getattr(new, name)
    pk = cn.SkToPk(k)
    assert cn.Verify(pk, m, s) is True, (name, k)
    checks += 1
k, pr = proofs[1]
assert new.G2ProofOfPossession.PopVerify(new.G2ProofOfPossession.SkToPk(k), pr) is True
k, pr = proofs[3]
assert new.G2ProofOfPossession.PopVerify(new.G2ProofOfPossession.SkToPk(k), pr) is True
# a signature under the wrong key still fails
assert new.G2Basic.Verify(new.G2Basic.SkToPk(2), sigs[1][2], sigs[1][3]) is False
checks += 3

# module constants untouched
assert new.curve_order == old.curve_order == r
assert new.G1 == old.G1
print("OK: %d checks in %.1fs" % (checks, time.time() - T0))
