import os, sys; sys.path.insert(0, os.getcwd())  # noqa: E401,E702

"""
Equivalence demonstration for the C01 twin edit.

Loads the pristine py_ecc/bls/ciphersuites.py (saved next to this script under
pristine/) as the module py_ecc.bls._pristine_ciphersuites, next to the edited
py_ecc.bls.ciphersuites of the working tree (cwd), and checks that every public
and core entry point returns equal values / raises the same exception classes
on a broad set of honest, boundary and malformed inputs, including repeated and
interleaved calls.
"""
import importlib.util
import random
import time

HERE = os.path.dirname(os.path.abspath(__file__))
T0 = time.time()

import py_ecc.bls.ciphersuites as new_mod  # noqa: E402

assert os.path.abspath(new_mod.__file__).startswith(os.getcwd()), new_mod.__file__

spec = importlib.util.spec_from_file_location(
    "py_ecc.bls._pristine_ciphersuites",
    os.path.join(HERE, "pristine", "ciphersuites.py"),
)
old_mod = importlib.util.module_from_spec(spec)
sys.modules[spec.name] = old_mod
spec.loader.exec_module(old_mod)

from py_ecc.optimized_bls12_381 import curve_order as r  # noqa: E402

SUITES = ["G2Basic", "G2MessageAugmentation", "G2ProofOfPossession"]
checks = 0


def outcome(fn, *args, **kwargs):
    try:
        v = fn(*args, **kwargs)
        return ("ok", type(v).__name__, v)
    except BaseException as e:  # noqa: B902
        return ("exc", type(e).__name__)


def same(name, *args, label=None, **kwargs):
    """Call cls.name(*args) on both versions for every suite that has it."""
    global checks
    res = None
    for suite in SUITES:
        o_cls = getattr(old_mod, suite)
        n_cls = getattr(new_mod, suite)
        if not hasattr(o_cls, name):
            assert not hasattr(n_cls, name)
            continue
        a = outcome(getattr(o_cls, name), *args, **kwargs)
        b = outcome(getattr(n_cls, name), *args, **kwargs)
        assert a == b, (suite, name, label or args, a, b)
        checks += 1
        res = a
    return res


def same_one(suite, name, *args):
    global checks
    a = outcome(getattr(getattr(old_mod, suite), name), *args)
    b = outcome(getattr(getattr(new_mod, suite), name), *args)
    assert a == b, (suite, name, args, a, b)
    checks += 1
    return a


# ---------------------------------------------------------------------------
# 1. secret-key validation: SkToPk / Sign / PopProve / _CoreSign / predicate
# ---------------------------------------------------------------------------
class MyInt(int):
    pass


rng = random.Random(0xC01)
good_sks = [1, 2, 3, r - 2, r - 1, True, MyInt(7), MyInt(r - 1)]
good_sks += [1 << k for k in range(0, 255, 23)] + [(1 << k) - 1 for k in (2, 64, 254)]
good_sks += [rng.randrange(1 << 254, r) for _ in range(3)]
bad_sks = [0, r, r + 1, -1, -r, 2**255, 2**256, 2 * r, False, MyInt(0), MyInt(r)]
bad_sks += [1.0, 1.5, float("nan"), "1", b"\x01", None, [1], (1,), 1 + 0j]

for sk in good_sks + bad_sks:
    same("_is_valid_privkey", sk)
    same("SkToPk", sk)
for sk in bad_sks:
    same("Sign", sk, b"msg")
    same("PopProve", sk)
    same("_CoreSign", sk, b"msg", b"DST")
# message validation in Sign / _CoreSign (cheap: refused before hashing)
for m in ["str", None, 5, bytearray(b"ab"), memoryview(b"ab"), [1, 2], ("a",)]:
    same_one("G2Basic", "Sign", 5, m)
    same_one("G2ProofOfPossession", "Sign", 5, m)
    same_one("G2MessageAugmentation", "Sign", 5, m)
    same("_CoreSign", 5, m, b"DST")
    same("_CoreSign", 0, m, b"DST")  # both invalid: which check fires first
    same("_is_valid_message", m)
# DST problems (> 255 bytes -> ValueError out of _CoreSign; bad type)
same("_CoreSign", 5, b"m", b"x" * 256)
same("_CoreSign", 5, b"m", "not-bytes")
same("_CoreSign", 5, b"m", None)

# int subclasses with their own comparison operators: same operator calls in
# the same order, same (possibly non-bool) result object
LOG = []


class Traced(int):
    def __gt__(self, other):
        LOG.append(("gt", int(self), other))
        return int.__gt__(self, other)

    def __lt__(self, other):
        LOG.append(("lt", int(self), other))
        return int.__lt__(self, other)


class LtOnly(int):
    def __lt__(self, other):
        LOG.append(("lt", int(self), other))
        return "yes" if int.__lt__(self, other) else ""


class GtOnly(int):
    def __gt__(self, other):
        LOG.append(("gt", int(self), other))
        return [1] if int.__gt__(self, other) else []


class Raising(int):
    def __gt__(self, other):
        raise KeyError("gt")

    def __lt__(self, other):
        raise IndexError("lt")


for klass in (Traced, LtOnly, GtOnly, Raising):
    for val in (-1, 0, 1, 5, r - 1, r, r + 1):
        for suite in SUITES:
            del LOG[:]
            a = outcome(getattr(old_mod, suite)._is_valid_privkey, klass(val))
            log_a = list(LOG)
            del LOG[:]
            b = outcome(getattr(new_mod, suite)._is_valid_privkey, klass(val))
            assert a == b and log_a == LOG, (klass, val, a, b, log_a, LOG)
            checks += 1
    same("SkToPk", klass(5))
    same("SkToPk", klass(0))

# the new module-level values are immutable and equal to what was recomputed
from math import ceil, log2  # noqa: E402

assert type(new_mod._KEYGEN_L) is int and new_mod._KEYGEN_L == 48
assert new_mod._KEYGEN_L == ceil((1.5 * ceil(log2(r))) / 8)
assert type(new_mod._KEYGEN_L_OCTETS) is bytes
assert new_mod._KEYGEN_L_OCTETS == new_mod.i2osp(new_mod._KEYGEN_L, 2) == b"\x00\x30"
assert new_mod._KEYGEN_SALT == b"BLS-SIG-KEYGEN-SALT-"
assert (new_mod._PUBKEY_SIZE, new_mod._SIGNATURE_SIZE) == (48, 96)
for n in range(0, 200):
    same("_is_valid_pubkey", b"\x01" * n)
    same("_is_valid_signature", b"\x01" * n)

# ---------------------------------------------------------------------------
# 2. KeyGen: result equal, always in [1, r-1], repeatable, argument errors
# ---------------------------------------------------------------------------
ikms = [b"", b"\x00", b"\x00" * 32, b"\xff" * 32, bytes(range(32)), b"a" * 31]
ikms += [rng.randbytes(n) for n in (1, 32, 33, 64, 100, 1000)]
ikms += [bytearray(b"\x01" * 32)]
infos = [b"", b"\x00", b"info", rng.randbytes(70), bytearray(b"xy")]
for ikm in ikms:
    for info in infos:
        res = same("KeyGen", ikm, info)
        if res[0] == "ok":
            assert 1 <= res[2] < r
    res = same("KeyGen", ikm)
    assert res[0] == "ok" and 1 <= res[2] < r and type(res[2]) is int
    same("KeyGen", ikm, key_info=b"kw")
for _ in range(150):
    same_one("G2Basic", "KeyGen", rng.randbytes(rng.randrange(0, 80)),
             rng.randbytes(rng.randrange(0, 40)))
for bad in ["str", None, 5, [1], memoryview(b"ab")]:
    same("KeyGen", bad)
    same("KeyGen", b"\x01" * 32, bad)
    same("KeyGen", bad, bad)
# repeated + interleaved
for ikm in (ikms[0], ikms[3], ikms[0], ikms[5], ikms[3], ikms[0]):
    same("KeyGen", ikm)
    same("KeyGen", ikm, b"info")

# ---------------------------------------------------------------------------
# 3. honest signatures and proofs verify (the property), both versions
# ---------------------------------------------------------------------------
msgs = [b"", b"\x00", b"a" * 55, b"b" * 56, b"c" * 63, b"d" * 64, b"e" * 65,
        bytes(range(256)), rng.randbytes(5000)]
pairs = [(1, msgs[0]), (2, msgs[1]), (r - 2, msgs[2]), (r - 1, msgs[3]),
         (good_sks[-1], msgs[4]), (good_sks[-2], msgs[5]), (1 << 200, msgs[6]),
         (MyInt(7), msgs[7]), (True, msgs[8])]
sigs = {}
for i, (sk, m) in enumerate(pairs):
    pk = same("SkToPk", sk)[2]
    for suite in SUITES:
        s = same_one(suite, "Sign", sk, m)
        assert s[0] == "ok" and len(s[2]) == 96
        sigs[(suite, i)] = (pk, m, s[2])
    # every signature equal between versions; full verification on a rotation
    suite = SUITES[i % 3]
    v = same_one(suite, "Verify", pk, m, sigs[(suite, i)][2])
    assert v == ("ok", "bool", True), v
for i, sk in enumerate([1, r - 1, good_sks[-3]]):
    pk = same("SkToPk", sk)[2]
    proof = same("PopProve", sk)
    assert proof[0] == "ok"
    v = same("PopVerify", pk, proof[2])
    assert v == ("ok", "bool", True), v
    if i == 0:
        # the proof is not an ordinary signature on the public key
        assert same_one("G2ProofOfPossession", "Verify", pk, pk, proof[2])[2] is False
        keep_pop = (pk, proof[2])

# ---------------------------------------------------------------------------
# 4. Verify on wrong / malformed inputs, repeated and interleaved calls
# ---------------------------------------------------------------------------
pk1, m1, s1 = sigs[("G2Basic", 1)]
pk2, m2, s2 = sigs[("G2Basic", 2)]
INF_PK = b"\xc0" + b"\x00" * 47
INF_SIG = b"\xc0" + b"\x00" * 95
wrong = [
    (pk1, m2, s1), (pk2, m1, s1), (pk1, m1, s2),          # mismatches (full pairing)
    (pk1, m1, s1),                                         # repeat of a good one
    (pk1, m1, INF_SIG), (INF_PK, m1, s1), (INF_PK, m1, INF_SIG),
    (pk1, m1, s1[:-1]), (pk1, m1, s1 + b"\x00"), (pk1, m1, b""),
    (pk1[:-1], m1, s1), (pk1 + b"\x00", m1, s1), (b"", m1, s1),
    (pk1, "str", s1), (pk1, None, s1), (pk1, bytearray(m1), s1),
    (bytearray(pk1), m1, s1), (pk1, m1, bytearray(s1)), (None, m1, s1),
    (pk1, m1, None), ("x" * 48, m1, s1), (pk1, m1, "y" * 96),
    (b"\x00" * 48, m1, s1), (b"\xff" * 48, m1, s1), (pk1, m1, b"\x00" * 96),
    (pk1, m1, b"\xff" * 96), (bytes([pk1[0] ^ 0x20]) + pk1[1:], m1, s1),
    (bytes([pk1[0] & 0x7F]) + pk1[1:], m1, s1),
    (pk1, m1, bytes([s1[0] & 0x7F]) + s1[1:]),
    (pk1, m1, s1[:48] + b"\xff" * 48),
    (pk1, m1, s1),                                         # and again
]
# a signature that decodes to a curve point outside the r-torsion (if found)
for t in range(1, 40):
    cand = b"\x80" + b"\x00" * 46 + bytes([t]) + b"\x00" * 48
    try:
        pt = new_mod.signature_to_G2(cand)
    except Exception:
        continue
    if not new_mod.subgroup_check(pt):
        wrong.append((pk1, m1, cand))
        break
# a public key on the curve but outside the subgroup (if found)
for t in range(1, 40):
    cand = b"\x80" + b"\x00" * 46 + bytes([t])
    try:
        pt = new_mod.pubkey_to_G1(cand)
    except Exception:
        continue
    if not new_mod.subgroup_check(pt):
        wrong.append((cand, m1, s1))
        break
for j, (pk, m, s) in enumerate(wrong):
    suite_list = SUITES if j >= 4 else [SUITES[j % 3]]
    for suite in suite_list:
        same_one(suite, "Verify", pk, m, s)
    same("_CoreVerify", pk, m, s, b"x" * 256) if j in (3, 9) else None
    same("PopVerify", pk, s) if j >= 4 else None
    same("KeyValidate", pk)
    same("_is_valid_pubkey", pk)
    same("_is_valid_signature", s)
# oversize DST: ValueError from hashing is swallowed -> False in both
same_one("G2Basic", "_CoreVerify", pk1, m1, s1, b"x" * 256)
same_one("G2Basic", "_CoreVerify", pk1, m1, s1, None)
same_one("G2Basic", "_CoreVerify", pk1, m1, s1, "dst")
# cross-suite: signature of one suite does not verify in another, same answer
same_one("G2ProofOfPossession", "Verify", pk1, m1, s1)
same_one("G2MessageAugmentation", "Verify", pk1, m1, s1)
same_one("G2ProofOfPossession", "PopVerify", *keep_pop)
same_one("G2ProofOfPossession", "PopVerify", pk1, keep_pop[1])

# ---------------------------------------------------------------------------
# 5. aggregate entry points sharing the code (small)
# ---------------------------------------------------------------------------
a_sigs = [sigs[("G2Basic", i)][2] for i in (0, 1, 2)]
a_pks = [sigs[("G2Basic", i)][0] for i in (0, 1, 2)]
a_msgs = [sigs[("G2Basic", i)][1] for i in (0, 1, 2)]
agg = same("Aggregate", a_sigs)
assert agg[0] == "ok"
same("Aggregate", [])
same("Aggregate", [b"short"])
v = same_one("G2Basic", "AggregateVerify", a_pks, a_msgs, agg[2])
assert v == ("ok", "bool", True)
same("AggregateVerify", [], [], agg[2])
same("AggregateVerify", a_pks, a_msgs[:2], agg[2])
same("_AggregatePKs", a_pks)
same("_AggregatePKs", [])
pop_sigs = [new_mod.G2ProofOfPossession.Sign(sk, b"same") for sk in (1, 2)]
pop_agg = same("Aggregate", pop_sigs)[2]
v = same("FastAggregateVerify", a_pks[:2], b"same", pop_agg)
assert v == ("ok", "bool", True)
same("FastAggregateVerify", [], b"same", pop_agg)
same("FastAggregateVerify", a_pks[:2], "same", pop_agg)

# ---------------------------------------------------------------------------
# 6. module surface: nothing public disappeared or changed value
# ---------------------------------------------------------------------------
for suite in SUITES:
    o_cls, n_cls = getattr(old_mod, suite), getattr(new_mod, suite)
    assert o_cls.DST == n_cls.DST
    assert o_cls.xmd_hash_function is n_cls.xmd_hash_function
    old_names = {n for n in dir(o_cls) if not n.startswith("__")}
    new_names = {n for n in dir(n_cls) if not n.startswith("__")}
    assert old_names <= new_names, old_names - new_names
assert old_mod.G2ProofOfPossession.POP_TAG == new_mod.G2ProofOfPossession.POP_TAG
from py_ecc.optimized_bls12_381 import G1, Z1, Z2  # noqa: E402

assert new_mod.G1 is G1 and new_mod.Z1 is Z1 and new_mod.Z2 is Z2
assert new_mod.curve_order == r

# after the whole history: constants unchanged, KeyGen answers unchanged
assert new_mod._KEYGEN_L == 48 and new_mod._KEYGEN_L_OCTETS == b"\x00\x30"
assert new_mod._KEYGEN_SALT == b"BLS-SIG-KEYGEN-SALT-"
for ikm in ikms[:6]:
    same("KeyGen", ikm)
    same("KeyGen", ikm, b"info")

print(f"equiv OK: {checks} paired checks in {time.time() - T0:.1f}s")
