from py_ecc.fields import (
    optimized_bn128_FQ as FQ,
    optimized_bn128_FQ2 as FQ2,
    optimized_bn128_FQ12 as FQ12,
)
from py_ecc.fields.field_properties import (
    field_properties,
)
from py_ecc.typing import (
    Optimized_Field,
    Optimized_Point2D,
    Optimized_Point3D,
)

from .optimized_curve import (
    G1,
    add,
    b,
    b2,
    curve_order,
    double,
    is_on_curve,
    multiply,
    neg,
    normalize,
    twist,
)

field_modulus = field_properties["bn128"]["field_modulus"]

ate_loop_count = 29793968203157093288
log_ate_loop_count = 63
pseudo_binary_encoding = [
    0,
    0,
    0,
    1,
    0,
    1,
    0,
    -1,
    0,
    0,
    1,
    -1,
    0,
    0,
    1,
    0,
    0,
    1,
    1,
    0,
    -1,
    0,
    0,
    1,
    0,
    -1,
    0,
    0,
    0,
    0,
    1,
    1,
    1,
    0,
    0,
    -1,
    0,
    0,
    1,
    0,
    0,
    0,
    0,
    0,
    -1,
    0,
    0,
    1,
    1,
    0,
    0,
    -1,
    0,
    0,
    0,
    1,
    1,
    0,
    -1,
    0,
    0,
    1,
    0,
    1,
    1,
]


if not (
    sum([e * 2**i for i, e in enumerate(pseudo_binary_encoding)]) == ate_loop_count
):
    raise ValueError("Pseudo binary encoding is incorrect")


def normalize1(
    p: Optimized_Point3D[Optimized_Field],
) -> Optimized_Point3D[Optimized_Field]:
    x, y = normalize(p)

    return x, y, x.one()


# Create a function representing the line between P1 and P2,
# and evaluate it at T. Returns a numerator and a denominator
# to avoid unneeded divisions
def linefunc(
    P1: Optimized_Point3D[Optimized_Field],
    P2: Optimized_Point3D[Optimized_Field],
    T: Optimized_Point3D[Optimized_Field],
) -> Optimized_Point2D[Optimized_Field]:
    zero = P1[0].zero()
    x1, y1, z1 = P1
    x2, y2, z2 = P2
    xt, yt, zt = T
    # points in projective coords: (x / z, y / z)
    # hence, m = (y2/z2 - y1/z1) / (x2/z2 - x1/z1)
    # multiply numerator and denominator by z1z2 to get values below
    m_numerator = y2 * z1 - y1 * z2
    m_denominator = x2 * z1 - x1 * z2
    if m_denominator != zero:
        # m * ((xt/zt) - (x1/z1)) - ((yt/zt) - (y1/z1))
        return (
            m_numerator * (xt * z1 - x1 * zt) - m_denominator * (yt * z1 - y1 * zt),
            m_denominator * zt * z1,
        )
    elif m_numerator == zero:
        # m = 3(x/z)^2 / 2(y/z), multiply num and den by z**2
        m_numerator = 3 * x1 * x1
        m_denominator = 2 * y1 * z1
        return (
            m_numerator * (xt * z1 - x1 * zt) - m_denominator * (yt * z1 - y1 * zt),
            m_denominator * zt * z1,
        )
    else:
        return xt * z1 - x1 * zt, z1 * zt


def cast_point_to_fq12(pt: Optimized_Point3D[FQ]) -> Optimized_Point3D[FQ12]:
    if pt is None:
        return None
    x, y, z = pt
    return (FQ12([x.n] + [0] * 11), FQ12([y.n] + [0] * 11), FQ12([z.n] + [0] * 11))


# Check consistency of the "line function"
one, two, three = G1, double(G1), multiply(G1, 3)
negone, negtwo, negthree = (
    multiply(G1, curve_order - 1),
    multiply(G1, curve_order - 2),
    multiply(G1, curve_order - 3),
)

conditions = [
    linefunc(one, two, one)[0] == FQ(0),
    linefunc(one, two, two)[0] == FQ(0),
    linefunc(one, two, three)[0] != FQ(0),
    linefunc(one, two, negthree)[0] == FQ(0),
    linefunc(one, negone, one)[0] == FQ(0),
    linefunc(one, negone, negone)[0] == FQ(0),
    linefunc(one, negone, two)[0] != FQ(0),
    linefunc(one, one, one)[0] == FQ(0),
    linefunc(one, one, two)[0] != FQ(0),
    linefunc(one, one, negtwo)[0] == FQ(0),
]

if not all(conditions):
    raise ValueError("Line function is inconsistent")


# Main miller loop
def miller_loop(
    Q: Optimized_Point3D[FQ12],
    P: Optimized_Point3D[FQ12],
    final_exponentiate: bool = True,
) -> FQ12:
    if Q is None or P is None:
        return FQ12.one()
    R: Optimized_Point3D[FQ12] = Q
    f_num, f_den = FQ12.one(), FQ12.one()
    # for i in range(log_ate_loop_count, -1, -1):
    for v in pseudo_binary_encoding[63::-1]:
        _n, _d = linefunc(R, R, P)
        f_num = f_num * f_num * _n
        f_den = f_den * f_den * _d
        R = double(R)
        # if ate_loop_count & (2**i):
        if v == 1:
            _n, _d = linefunc(R, Q, P)
            f_num = f_num * _n
            f_den = f_den * _d
            R = add(R, Q)
        elif v == -1:
            nQ = neg(Q)
            _n, _d = linefunc(R, nQ, P)
            f_num = f_num * _n
            f_den = f_den * _d
            R = add(R, nQ)
    # assert R == multiply(Q, ate_loop_count)
    Q1 = (Q[0] ** field_modulus, Q[1] ** field_modulus, Q[2] ** field_modulus)
    # assert is_on_curve(Q1, b12)
    nQ2 = (Q1[0] ** field_modulus, -Q1[1] ** field_modulus, Q1[2] ** field_modulus)
    # assert is_on_curve(nQ2, b12)
    _n1, _d1 = linefunc(R, Q1, P)
    R = add(R, Q1)
    _n2, _d2 = linefunc(R, nQ2, P)
    f = f_num * _n1 * _n2 / (f_den * _d1 * _d2)
    # R = add(R, nQ2) This line is in many specifications but technically does nothing
    if final_exponentiate:
        return f ** ((field_modulus**12 - 1) // curve_order)
    else:
        return f


# Pairing computation
def pairing(
    Q: Optimized_Point3D[FQ2], P: Optimized_Point3D[FQ], final_exponentiate: bool = True
) -> FQ12:
    if not is_on_curve(Q, b2):
        raise ValueError("Invalid input - point Q is not on the correct curve")
    if not is_on_curve(P, b):
        raise ValueError("Invalid input - point P is not on the correct curves")
    if P[-1] == (P[-1].zero()) or Q[-1] == (Q[-1].zero()):
        return FQ12.one()
    return miller_loop(
        twist(Q), cast_point_to_fq12(P), final_exponentiate=final_exponentiate
    )


def final_exponentiate(p: Optimized_Field) -> Optimized_Field:
    return p ** ((field_modulus**12 - 1) // curve_order)
