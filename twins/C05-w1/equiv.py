import os, sys; sys.path.insert(0, os.getcwd())  # noqa: E702

# Equivalence demonstration for edit w1 (C05): pairing() of the two optimized
# modules now calls a private checker first and tests infinity in two guard
# clauses.  The pristine copies of both modules are loaded next to the edited
# ones (same package, other module name, so they share the curve / field
# classes) and every call is made on both; outcomes must be identical:
# same FQ12 value and type, or the same exception class and message.

import copy
import importlib
import importlib.util
import random
import time

HERE = os.path.dirname(os.path.abspath(__file__))
T0 = time.time()
failures = []
n_checks = 0


def load_pristine(pkg, fname):
    path = os.path.join(HERE, "pristine", pkg, fname)
    name = "py_ecc.%s._pristine_optimized_pairing" % pkg
    spec = importlib.util.spec_from_file_location(name, path)
    mod = importlib.util.module_from_spec(spec)
    sys.modules[name] = mod
    spec.loader.exec_module(mod)
    return mod


def outcome(fn, *args, **kwargs):
    try:
        v = fn(*args, **kwargs)
    except Exception as e:  # noqa: BLE001
        return ("exc", type(e), str(e))
    if hasattr(v, "coeffs"):
        return ("ok", type(v), tuple(int(c) for c in v.coeffs))
    return ("ok", type(v), repr(v))


def snapshot(x):
    return repr(x)


def check(label, old_fn, new_fn, *args, **kwargs):
    """Call both versions on separate deep copies; compare outcome and
    that neither version mutated its arguments."""
    global n_checks
    n_checks += 1
    a_old = copy.deepcopy((args, kwargs))
    a_new = copy.deepcopy((args, kwargs))
    before = snapshot((args, kwargs))
    o = outcome(old_fn, *a_old[0], **a_old[1])
    n = outcome(new_fn, *a_new[0], **a_new[1])
    if o != n:
        failures.append((label, o, n))
        print("MISMATCH", label, o, n)
    if snapshot(a_old) != before or snapshot(a_new) != before:
        failures.append((label, "argument mutated"))
        print("MUTATION", label)
    return n


def run(pkg):
    curve = importlib.import_module("py_ecc.%s.optimized_curve" % pkg)
    new = importlib.import_module("py_ecc.%s.optimized_pairing" % pkg)
    old = load_pristine(pkg, "optimized_pairing.py")
    assert old.__file__ != new.__file__
    assert hasattr(new, "_check_pairing_inputs"), "edit w1 is not applied"
    assert not hasattr(old, "_check_pairing_inputs"), "pristine copy is not pristine"
    # both versions share field classes and curve constants
    assert old.FQ12 is new.FQ12 and old.b is new.b and old.b2 is new.b2

    FQ, FQ2, FQ12 = curve.FQ, curve.FQ2, curve.FQ12
    G1, G2, Z1, Z2 = curve.G1, curve.G2, curve.Z1, curve.Z2
    r = curve.curve_order
    mul, add, neg = curve.multiply, curve.add, curve.neg
    rng = random.Random(0xC05 + len(pkg))

    consts_before = snapshot(
        (curve.G1, curve.G2, curve.Z1, curve.Z2, curve.b, curve.b2, curve.b12)
    )

    def scale(pt, lam):
        return tuple(c * lam for c in pt)

    big = rng.randrange(1, r)
    big2 = rng.randrange(1, r)

    # ---------------------------------------------------------------- G1 side
    P_pts = {
        "G1": G1,
        "2G1": mul(G1, 2),
        "(r-1)G1": mul(G1, r - 1),
        "bigG1": mul(G1, big),
        "G1+bigG1": add(G1, mul(G1, big)),
        "negG1": neg(G1),
        "G1*lam": scale(G1, FQ(7)),
        "bigG1*lam": scale(mul(G1, big), FQ(rng.randrange(2, 2**200))),
        "G1 as list": list(G1),
    }
    P_inf = {
        "Z1": Z1,
        "0*G1": mul(G1, 0),
        "r*G1": mul(G1, r),
        "G1+negG1": add(G1, neg(G1)),
        "(0,1,0)": (FQ(0), FQ(1), FQ(0)),
        "(0,0,0)": (FQ(0), FQ(0), FQ(0)),
        "(5,7,0)": (FQ(5), FQ(7), FQ(0)),
        "inf as list": [FQ(1), FQ(1), FQ(0)],
    }
    P_off = {
        "G1 x+1": (G1[0] + 1, G1[1], G1[2]),
        "G1 y+1": (G1[0], G1[1] + 1, G1[2]),
        "G1 z=2 only": (G1[0], G1[1], FQ(2)),
        "(1,3,1)": (FQ(1), FQ(3), FQ(1)),
        "(0,0,1)": (FQ(0), FQ(0), FQ(1)),
    }
    # ---------------------------------------------------------------- G2 side
    Q_pts = {
        "G2": G2,
        "2G2": mul(G2, 2),
        "(r-1)G2": mul(G2, r - 1),
        "bigG2": mul(G2, big2),
        "G2+bigG2": add(G2, mul(G2, big2)),
        "negG2": neg(G2),
        "G2*lam": scale(G2, FQ2([3, 5])),
        "bigG2*lam": scale(mul(G2, big2), FQ2([rng.randrange(2**200), 1])),
        "G2 as list": list(G2),
    }
    Q_inf = {
        "Z2": Z2,
        "0*G2": mul(G2, 0),
        "r*G2": mul(G2, r),
        "G2+negG2": add(G2, neg(G2)),
        "(0,1,0)": (FQ2.zero(), FQ2.one(), FQ2.zero()),
        "(0,0,0)": (FQ2.zero(), FQ2.zero(), FQ2.zero()),
        "(x,y,0)": (FQ2([5, 6]), FQ2([7, 8]), FQ2.zero()),
    }
    Q_off = {
        "G2 x+1": (G2[0] + FQ2.one(), G2[1], G2[2]),
        "G2 y+i": (G2[0], G2[1] + FQ2([0, 1]), G2[2]),
        "G2 z=2 only": (G2[0], G2[1], FQ2([2, 0])),
        "(1,1,1)": (FQ2.one(), FQ2.one(), FQ2.one()),
    }
    malformed = {
        "None": None,
        "()": (),
        "ints": (1, 2, 1),
        "ints inf": (1, 1, 0),
        "affine FQ pair": (FQ(1), FQ(2)),
        "one element": (FQ(0),),
        "string": "abc",
        "int": 5,
        "FQ12 inf": (FQ12.one(), FQ12.one(), FQ12.zero()),
        "FQ12 pt": (FQ12.one(), FQ12.one(), FQ12.one()),
        "z None": (FQ(1), FQ(2), None),
        "four coords": (FQ(1), FQ(2), FQ(1), FQ(1)),
        "four coords z=0": (FQ(1), FQ(2), FQ(1), FQ(0)),
    }
    # points of the *other* optimized curve (another FQ subclass, other modulus)
    other_pkg = "optimized_bls12_381" if pkg == "optimized_bn128" else "optimized_bn128"
    oc = importlib.import_module("py_ecc.%s.optimized_curve" % other_pkg)
    foreign_P = {"other curve G1": oc.G1, "other curve Z1": oc.Z1}
    foreign_Q = {"other curve G2": oc.G2, "other curve Z2": oc.Z2}

    # 1. cheap grid: every combination in which no Miller loop is run
    #    (some argument at infinity, off its curve, or malformed).
    all_P = {}
    for d in (P_pts, P_inf, P_off, malformed, foreign_P, {"G2 (swapped)": G2, "Z2": Z2}):
        all_P.update(d)
    all_Q = {}
    for d in (Q_pts, Q_inf, Q_off, malformed, foreign_Q, {"G1 (swapped)": G1, "Z1": Z1}):
        all_Q.update(d)
    cheap = 0
    for qn, Q in all_Q.items():
        for pn, P in all_P.items():
            if qn in Q_pts and pn in P_pts:
                continue  # real pairings: handled below
            lab = "%s pairing(%s, %s)" % (pkg, qn, pn)
            res = check(lab, old.pairing, new.pairing, Q, P)
            cheap += 1
            # property-level expectations (on top of old == new)
            q_ok = qn in Q_pts or qn in Q_inf
            p_ok = pn in P_pts or pn in P_inf
            if qn in Q_off and (p_ok or pn in P_off):
                assert res[0] == "exc" and res[1] is ValueError and " Q " in res[2], (lab, res)
            if pn in P_off and q_ok:
                assert res[0] == "exc" and res[1] is ValueError and " P " in res[2], (lab, res)
            if q_ok and p_ok:
                assert res == ("ok", FQ12, tuple(int(c) for c in FQ12.one().coeffs)), (lab, res)
    # the final_exponentiate flag must not matter on those paths either
    for fe in (False, True, 0, 1, None, "x"):
        for Q, P in (
            (Z2, G1), (G2, Z1), (Z2, Z1), (Q_off["G2 x+1"], Z1), (Z2, P_off["G1 x+1"]),
            (Q_off["G2 x+1"], P_off["G1 x+1"]), (None, G1), (G2, None), (G2, (1, 2, 1)),
        ):
            check("%s cheap fe=%r" % (pkg, fe), old.pairing, new.pairing, Q, P, fe)
            check("%s cheap kw fe=%r" % (pkg, fe), old.pairing, new.pairing, P=P, Q=Q,
                  final_exponentiate=fe)
    # wrong arity / unknown keyword
    check(pkg + " no args", old.pairing, new.pairing)
    check(pkg + " one arg", old.pairing, new.pairing, G2)
    check(pkg + " four args", old.pairing, new.pairing, G2, G1, True, 1)
    check(pkg + " bad kw", old.pairing, new.pairing, G2, G1, foo=1)

    # 2. real pairings with the Miller loop only (final_exponentiate=False):
    #    the whole grid of representatives.
    for qn, Q in Q_pts.items():
        for pn, P in P_pts.items():
            if "as list" in qn + pn or rng.random() < 0.35:
                check("%s ML pairing(%s, %s)" % (pkg, qn, pn), old.pairing, new.pairing, Q, P,
                      False)

    # 3. full pairings on the property's boundary scalars, plus history:
    #    the same arguments again after interleaved cheap and failing calls.
    seq = [
        ("G2", "G1"), ("2G2", "G1"), ("G2", "2G1"), ("(r-1)G2", "G1"), ("G2", "(r-1)G1"),
        ("bigG2", "bigG1"), ("G2*lam", "G1*lam"), ("G2+bigG2", "G1+bigG1"),
        ("negG2", "G1"), ("G2", "negG1"), ("bigG2*lam", "bigG1*lam"),
        ("G2", "G1"),  # repeat of the first call
    ]
    results = {}
    for i, (qn, pn) in enumerate(seq):
        res = check("%s full pairing(%s, %s)" % (pkg, qn, pn), old.pairing, new.pairing,
                    Q_pts[qn], P_pts[pn])
        assert res[0] == "ok", res
        if (qn, pn) in results:
            assert results[(qn, pn)] == res, "history changed a result"
        results[(qn, pn)] = res
        # interleave: identity, rejection, malformed
        check(pkg + " interleave inf", old.pairing, new.pairing, Q_inf["r*G2"], P_pts[pn])
        check(pkg + " interleave off", old.pairing, new.pairing, Q_pts[qn], P_off["G1 y+1"])
        check(pkg + " interleave bad", old.pairing, new.pairing, None, P_pts[pn])
    one = tuple(int(c) for c in FQ12.one().coeffs)
    assert results[("G2", "G1")][2] != one, "degenerate pairing"
    # sanity that the values are what the property says (old == new already shown)
    e = FQ12(results[("G2", "G1")][2])
    assert FQ12(results[("2G2", "G1")][2]) == e * e == FQ12(results[("G2", "2G1")][2])
    assert FQ12(results[("negG2", "G1")][2]) * e == FQ12.one()
    assert FQ12(results[("G2*lam", "G1*lam")][2]) == e

    # 4. untouched public functions still agree (same source, spot check)
    check(pkg + " miller_loop(None, None)", old.miller_loop, new.miller_loop, None, None)
    check(pkg + " final_exponentiate", old.final_exponentiate, new.final_exponentiate,
          FQ12([3] + [0] * 10 + [1]))
    for name in sorted(set(dir(old)) | set(dir(new))):
        if name.startswith("__") or name == "_check_pairing_inputs":
            continue
        assert hasattr(old, name) and hasattr(new, name), name

    assert consts_before == snapshot(
        (curve.G1, curve.G2, curve.Z1, curve.Z2, curve.b, curve.b2, curve.b12)
    ), "module-level constant mutated"
    print("%s: %d cheap combinations, %d checks so far, %.1fs"
          % (pkg, cheap, n_checks, time.time() - T0))


run("optimized_bn128")
run("optimized_bls12_381")
print("checks: %d   failures: %d   %.1fs" % (n_checks, len(failures), time.time() - T0))
sys.exit(1 if failures else 0)
