import os, sys; sys.path.insert(0, os.getcwd())
"""
Equivalence demonstration for C13 / t1.

Loads the pristine copies of the touched modules (saved next to this script under
pristine/) as synthetic packages `pristine_bn128` / `pristine_bls12_381`, and the
edited modules from the current working directory (the worktree), then runs both
versions of add / double / eq / is_on_curve / neg / multiply / linefunc / pairing on a
broad set of inputs (proper points, rescaled representatives, all kinds of
representatives of infinity, equal and inverse points, off-curve triples, and
malformed operands: ints, mixed field classes, cross-curve classes, short / long
tuples, None) and checks that results (value, type, and object identity with the
operands) and exception classes are identical.
"""
import importlib
import itertools
import random
import time
import types

HERE = os.path.dirname(os.path.abspath(__file__))
PRISTINE = os.path.join(HERE, "pristine", "py_ecc")

T0 = time.time()


def load_pristine_pkg(name, subdir):
    pkg = types.ModuleType(name)
    pkg.__path__ = [os.path.join(PRISTINE, subdir)]
    pkg.__package__ = name
    sys.modules[name] = pkg
    cur = importlib.import_module(name + ".optimized_curve")
    pai = importlib.import_module(name + ".optimized_pairing")
    return cur, pai


import py_ecc  # noqa: E402

assert os.path.dirname(os.path.dirname(os.path.abspath(py_ecc.__file__))) == os.getcwd(), (
    "must be run with the worktree as cwd",
    py_ecc.__file__,
)

from py_ecc.fields import (  # noqa: E402
    optimized_bls12_381_FQ,
    optimized_bls12_381_FQ2,
    optimized_bls12_381_FQ12,
    optimized_bn128_FQ,
    optimized_bn128_FQ2,
    optimized_bn128_FQ12,
)
from py_ecc.fields.optimized_field_elements import FQ as BaseFQ, FQP as BaseFQP  # noqa: E402

NEW = {
    "bn128": (
        importlib.import_module("py_ecc.optimized_bn128.optimized_curve"),
        importlib.import_module("py_ecc.optimized_bn128.optimized_pairing"),
    ),
    "bls12_381": (
        importlib.import_module("py_ecc.optimized_bls12_381.optimized_curve"),
        importlib.import_module("py_ecc.optimized_bls12_381.optimized_pairing"),
    ),
}
OLD = {
    "bn128": load_pristine_pkg("pristine_bn128", "optimized_bn128"),
    "bls12_381": load_pristine_pkg("pristine_bls12_381", "optimized_bls12_381"),
}
for k in NEW:
    for n, o in zip(NEW[k], OLD[k]):
        assert n.__file__ != o.__file__
        assert o.__file__.startswith(HERE)
        assert n.__file__.startswith(os.getcwd() + os.sep)

FIELDS = {
    "bn128": (optimized_bn128_FQ, optimized_bn128_FQ2, optimized_bn128_FQ12),
    "bls12_381": (
        optimized_bls12_381_FQ,
        optimized_bls12_381_FQ2,
        optimized_bls12_381_FQ12,
    ),
}

rng = random.Random(0xC13)
N_CHECKS = 0


# ---------------------------------------------------------------- comparison helpers
def canon(v, operands):
    """A structural, type-aware description of a result."""
    for i, op in enumerate(operands):
        if v is op:
            return ("operand", i)
    if isinstance(v, bool):
        return ("bool", v)
    if isinstance(v, int):
        return ("int", v)
    if isinstance(v, BaseFQ):
        return ("FQ", type(v).__module__, type(v).__name__, v.n)
    if isinstance(v, BaseFQP):
        return (
            "FQP",
            type(v).__name__,
            tuple((type(c).__name__, int(c)) for c in v.coeffs),
        )
    if isinstance(v, tuple):
        return ("tuple",) + tuple(canon(x, ()) for x in v)
    if isinstance(v, list):
        return ("list",) + tuple(canon(x, ()) for x in v)
    if v is None:
        return ("None",)
    return ("other", type(v).__name__, repr(v))


def run(fn, args):
    try:
        return ("ok", canon(fn(*args), args))
    except RecursionError:
        raise
    except Exception as e:  # noqa: BLE001
        return ("exc", type(e).__name__, str(e))


def same(label, f_new, f_old, args):
    global N_CHECKS
    snap = [canon(a, ()) for a in args]
    r_new = run(f_new, args)
    assert [canon(a, ()) for a in args] == snap, ("new mutated its arguments", label)
    r_old = run(f_old, args)
    assert [canon(a, ()) for a in args] == snap, ("old mutated its arguments", label)
    if r_new != r_old:
        print("MISMATCH", label)
        print("  args:", args)
        print("  new :", r_new)
        print("  old :", r_old)
        sys.exit(1)
    N_CHECKS += 1
    return r_new


# ---------------------------------------------------------------- input generators
def rand_elt(F, nonzero=False):
    while True:
        if issubclass(F, BaseFQ):
            e = F(rng.randrange(F.field_modulus))
            z = e.n == 0
        else:
            e = F([rng.randrange(F.field_modulus) for _ in range(F.degree)])
            z = all(int(c) == 0 for c in e.coeffs)
        if not (nonzero and z):
            return e


def small_elt(F, k):
    if issubclass(F, BaseFQ):
        return F(k)
    return F([k] + [0] * (F.degree - 1))


def scale(pt, lam):
    return (pt[0] * lam, pt[1] * lam, pt[2] * lam)


def point_pool(curve_mod, F, base, bcoef):
    """Operands over field class F built from an on-curve base point."""
    one, zero = F.one(), F.zero()
    pts = {}
    P = base
    P2 = curve_mod.double(P)
    P3 = curve_mod.add(P2, P)
    P5 = curve_mod.add(P3, P2)
    pts["P"] = P
    pts["2P"] = P2
    pts["3P"] = P3
    pts["5P"] = P5
    pts["P*lam"] = scale(P, rand_elt(F, True))
    pts["P*lam'"] = scale(P, rand_elt(F, True))
    pts["P*(-1)"] = scale(P, small_elt(F, -1))
    pts["2P*lam"] = scale(P2, rand_elt(F, True))
    pts["-P"] = curve_mod.neg(P)
    pts["-P*lam"] = scale(curve_mod.neg(P), rand_elt(F, True))
    pts["-2P*lam"] = scale(curve_mod.neg(P2), rand_elt(F, True))
    nx, ny = curve_mod.normalize(P3)
    pts["3P affine z=1"] = (nx, ny, one)
    # representatives of infinity
    pts["inf(1,1,0)"] = (one, one, zero)
    pts["inf(0,0,0)"] = (zero, zero, zero)
    pts["inf(0,1,0)"] = (zero, one, zero)
    pts["inf(x,y,0)"] = (rand_elt(F), rand_elt(F), zero)
    pts["inf(P.x,P.y,0)"] = (P[0], P[1], zero)
    pts["inf fresh zero"] = (F.one(), F.one(), F.zero())
    # off-curve / degenerate triples (formal identities hold for any triple)
    pts["rand"] = (rand_elt(F), rand_elt(F), rand_elt(F, True))
    pts["rand'"] = (rand_elt(F), rand_elt(F), rand_elt(F, True))
    r = pts["rand"]
    pts["rand*lam"] = scale(r, rand_elt(F, True))
    pts["rand negy*lam"] = scale((r[0], -r[1], r[2]), rand_elt(F, True))
    pts["y=0"] = (rand_elt(F), zero, rand_elt(F, True))
    pts["y=0 same x other scale"] = scale(pts["y=0"], rand_elt(F, True))
    pts["x=0"] = (zero, rand_elt(F, True), rand_elt(F, True))
    pts["x=0,y=0"] = (zero, zero, one)
    pts["same x other y"] = (r[0], rand_elt(F), r[2])
    pts["list point"] = [P[0], P[1], P[2]]
    return pts


def malformed_pool(F, other_classes, P):
    one, zero = F.one(), F.zero()
    m = {}
    m["ints"] = (1, 2, 1)
    m["ints inf"] = (1, 1, 0)
    m["int z=1"] = (P[0], P[1], 1)
    m["int z=0"] = (P[0], P[1], 0)
    m["int x"] = (5, P[1], P[2])
    m["int y"] = (P[0], 7, P[2])
    m["short"] = (P[0], P[1])
    m["long"] = (P[0], P[1], P[2], one)
    m["long inf"] = (one, one, zero, one)
    m["empty"] = ()
    m["None"] = None
    m["None coord"] = (P[0], None, P[2])
    m["None z"] = (P[0], P[1], None)
    m["str z"] = (P[0], P[1], "0")
    m["bool z"] = (P[0], P[1], False)
    for G in other_classes:
        tag = G.__module__.split(".")[-1] + "." + G.__name__
        m["all " + tag] = (rand_elt(G), rand_elt(G), rand_elt(G, True))
        m["inf " + tag] = (G.one(), G.one(), G.zero())
        m["z " + tag] = (P[0], P[1], rand_elt(G, True))
        m["z0 " + tag] = (P[0], P[1], G.zero())
        m["x " + tag] = (rand_elt(G), P[1], P[2])
        m["y " + tag] = (P[0], rand_elt(G), P[2])
    return m


# ---------------------------------------------------------------- the comparison
ALL_CLASSES = [c for k in FIELDS for c in FIELDS[k]]

for cname in ("bn128", "bls12_381"):
    ncur, npai = NEW[cname]
    ocur, opai = OLD[cname]
    FQ, FQ2, FQ12 = FIELDS[cname]

    # module-level constants unchanged
    for const in ("G1", "G2", "G12", "Z1", "Z2", "b", "b2", "b12", "w"):
        assert canon(getattr(ncur, const), ()) == canon(getattr(ocur, const), ()), const

    bases = [
        (FQ, ncur.G1, ncur.b),
        (FQ2, ncur.G2, ncur.b2),
        (FQ12, ncur.G12, ncur.b12),
    ]
    pools = {}
    for F, base, bcoef in bases:
        pools[F] = point_pool(ocur, F, base, bcoef)

    # -- well-typed operands: every ordered pair for the binary functions
    for F, base, bcoef in bases:
        pool = pools[F]
        names = list(pool)
        for a, b_ in itertools.product(names, names):
            args = (pool[a], pool[b_])
            same((cname, F.__name__, "add", a, b_), ncur.add, ocur.add, args)
            same((cname, F.__name__, "eq", a, b_), ncur.eq, ocur.eq, args)
        for a in names:
            for fn in ("double", "neg", "is_inf", "normalize"):
                same(
                    (cname, F.__name__, fn, a),
                    getattr(ncur, fn),
                    getattr(ocur, fn),
                    (pool[a],),
                )
            same(
                (cname, F.__name__, "is_on_curve", a),
                ncur.is_on_curve,
                ocur.is_on_curve,
                (pool[a], bcoef),
            )
            for n in (0, 1, 2, 3, 7, 2**64 + 13, ncur.curve_order, ncur.curve_order - 1):
                if F is FQ12 and n > 7:
                    continue
                same(
                    (cname, F.__name__, "multiply", a, n),
                    ncur.multiply,
                    ocur.multiply,
                    (pool[a], n),
                )
        # linefunc: all ordered pairs (P1, P2) against a few T
        if F is FQ12:
            tnames = ["P", "inf(1,1,0)", "rand"]
            lnames = [n for n in names if n not in ("P*lam'", "5P", "rand'")]
        else:
            tnames = ["P", "3P", "P*lam", "inf(1,1,0)", "inf(0,0,0)", "rand", "y=0", "list point"]
            lnames = names
        for a, b_ in itertools.product(lnames, lnames):
            for t in tnames:
                same(
                    (cname, F.__name__, "linefunc", a, b_, t),
                    npai.linefunc,
                    opai.linefunc,
                    (pool[a], pool[b_], pool[t]),
                )

    # -- malformed operands (both positions), FQ and FQ2 as the "home" class
    for F, base, bcoef in bases[:2]:
        pool = pools[F]
        others = [c for c in ALL_CLASSES if c is not F]
        bad = malformed_pool(F, others, base)
        good = {k: pool[k] for k in ("P", "2P*lam", "-P*lam", "inf(1,1,0)", "inf(0,0,0)", "P*lam")}
        for bk, bv in bad.items():
            for gk, gv in good.items():
                for args, tag in (((bv, gv), "bad,good"), ((gv, bv), "good,bad")):
                    same((cname, F.__name__, "add", tag, bk, gk), ncur.add, ocur.add, args)
                    same((cname, F.__name__, "eq", tag, bk, gk), ncur.eq, ocur.eq, args)
                for args, tag in (
                    ((bv, gv, pool["rand"]), "bad,good,T"),
                    ((gv, bv, pool["rand"]), "good,bad,T"),
                    ((gv, pool["3P"], bv), "good,good,badT"),
                    ((gv, gv, bv), "good,same,badT"),
                    ((gv, ocur.neg(gv), bv), "good,neg,badT"),
                ):
                    same(
                        (cname, F.__name__, "linefunc", tag, bk, gk),
                        npai.linefunc,
                        opai.linefunc,
                        args,
                    )
            same((cname, F.__name__, "add", "bad,bad", bk), ncur.add, ocur.add, (bv, bv))
            same(
                (cname, F.__name__, "linefunc", "bad,bad,bad", bk),
                npai.linefunc,
                opai.linefunc,
                (bv, bv, bv),
            )
            for fn in ("double", "neg", "is_inf"):
                same((cname, F.__name__, fn, bk), getattr(ncur, fn), getattr(ocur, fn), (bv,))
            same(
                (cname, F.__name__, "is_on_curve", bk),
                ncur.is_on_curve,
                ocur.is_on_curve,
                (bv, bcoef),
            )
        # a few pairs of malformed operands against each other
        bks = list(bad)
        for _ in range(300):
            a, b_, c = rng.choice(bks), rng.choice(bks), rng.choice(bks)
            same((cname, F.__name__, "add", "bad pair", a, b_), ncur.add, ocur.add, (bad[a], bad[b_]))
            same(
                (cname, F.__name__, "linefunc", "bad triple", a, b_, c),
                npai.linefunc,
                opai.linefunc,
                (bad[a], bad[b_], bad[c]),
            )

    # -- random walk: interleaved calls, results fed back as operands, repeated calls
    for F, base, bcoef in bases[:2]:
        pool = pools[F]
        live_new = [pool[k] for k in ("P", "2P", "inf(1,1,0)", "-P*lam", "rand")]
        live_old = list(live_new)
        for step in range(400):
            i, j = rng.randrange(len(live_new)), rng.randrange(len(live_new))
            op = rng.choice(["add", "add", "double", "neg", "scale", "repeat"])
            if op == "add":
                rn, ro = ncur.add(live_new[i], live_new[j]), ocur.add(live_old[i], live_old[j])
            elif op == "double":
                rn, ro = ncur.double(live_new[i]), ocur.double(live_old[i])
            elif op == "neg":
                rn, ro = ncur.neg(live_new[i]), ocur.neg(live_old[i])
            elif op == "scale":
                lam = rand_elt(F, True)
                rn, ro = scale(live_new[i], lam), scale(live_old[i], lam)
            else:
                r1 = canon(ncur.add(live_new[i], live_new[j]), ())
                r2 = canon(ncur.add(live_new[i], live_new[j]), ())
                assert r1 == r2
                continue
            assert canon(rn, ()) == canon(ro, ()), (cname, F.__name__, "walk", step, op)
            ln = run(npai.linefunc, (live_new[i], live_new[j], rn))
            lo = run(opai.linefunc, (live_old[i], live_old[j], ro))
            assert ln == lo, (cname, F.__name__, "walk linefunc", step)
            N_CHECKS += 2
            live_new.append(rn)
            live_old.append(ro)
            if len(live_new) > 12:
                k = rng.randrange(len(live_new))
                live_new.pop(k)
                live_old.pop(k)

    # -- whole pairing (drives linefunc/add/double through the Miller loop)
    for (a, b_) in ((1, 1), (3, 5)):
        Q = ocur.multiply(ocur.G2, a)
        Pp = ocur.multiply(ocur.G1, b_)
        rn = run(npai.pairing, (Q, Pp))
        ro = run(opai.pairing, (Q, Pp))
        assert rn == ro and rn[0] == "ok", (cname, "pairing", a, b_)
        N_CHECKS += 1
    for args in ((ocur.Z2, ocur.G1), (ocur.G2, ocur.Z1), (ocur.G1, ocur.G2)):
        assert run(npai.pairing, args) == run(opai.pairing, args), (cname, "pairing edge")
        N_CHECKS += 1

# cross-module: bn128 functions applied to bls12_381 points and vice versa
for cname, other in (("bn128", "bls12_381"), ("bls12_381", "bn128")):
    ncur, npai = NEW[cname]
    ocur, opai = OLD[cname]
    xcur = OLD[other][0]
    for G in (xcur.G1, xcur.G2):
        pts = [G, xcur.double(G), xcur.neg(G), (G[0].one(), G[0].one(), G[0].zero()), scale(G, small_elt(type(G[0]), 9))]
        for a, b_ in itertools.product(pts, pts):
            same((cname, "cross add"), ncur.add, ocur.add, (a, b_))
            same((cname, "cross eq"), ncur.eq, ocur.eq, (a, b_))
            for t in pts[:2]:
                same((cname, "cross linefunc"), npai.linefunc, opai.linefunc, (a, b_, t))

print("t1 equivalence: %d comparisons identical, %.1fs" % (N_CHECKS, time.time() - T0))
sys.exit(0)
