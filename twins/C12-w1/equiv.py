import os, sys; sys.path.insert(0, os.getcwd())  # noqa: E702

# Equivalence demonstration for twin C12/w1: restructured bls12-381
# final_exponentiate / exp_by_p / exptable versus the pristine module.
# Run as:  cd /tmp/wt2/C12 && /venv/bin/python /tmp/twin6/C12/w1/equiv.py
import importlib.util
import random
import time

T0 = time.time()
HERE = os.path.dirname(os.path.abspath(__file__))

import py_ecc.optimized_bls12_381.optimized_pairing as new  # noqa: E402
from py_ecc.fields import (  # noqa: E402
    bls12_381_FQ12 as ref_FQ12,
    optimized_bls12_381_FQ as FQ,
    optimized_bls12_381_FQ2 as FQ2,
    optimized_bls12_381_FQ12 as FQ12,
    optimized_bn128_FQ12 as bn_FQ12,
)
from py_ecc.optimized_bls12_381 import (  # noqa: E402
    G1,
    G2,
    Z1,
    Z2,
    add,
    curve_order,
    multiply,
    neg,
)

assert new.__file__.startswith(os.getcwd()), new.__file__

spec = importlib.util.spec_from_file_location(
    "py_ecc.optimized_bls12_381._pristine_optimized_pairing",
    os.path.join(HERE, "pristine", "optimized_bls12_381_optimized_pairing.py"),
)
old = importlib.util.module_from_spec(spec)
sys.modules[spec.name] = old
spec.loader.exec_module(old)
assert old is not new and old.final_exponentiate is not new.final_exponentiate

P = new.field_modulus
assert P == old.field_modulus
rng = random.Random(0xC12)
checks = 0


def key(v):
    """Canonical comparable form of a result."""
    if isinstance(v, (FQ12, FQ2, bn_FQ12)):
        return (type(v).__name__, type(v).__module__, tuple(int(c) for c in v.coeffs))
    return ("other", repr(v))


def outcome(fn, *args, **kw):
    try:
        return ("ok", key(fn(*args, **kw)))
    except BaseException as e:  # noqa: B902
        return ("exc", type(e).__name__)


def same(name, *args, **kw):
    global checks
    a = outcome(getattr(old, name), *args, **kw)
    b = outcome(getattr(new, name), *args, **kw)
    assert a == b, (name, args, a, b)
    checks += 1
    return a


def rand12():
    return FQ12([rng.randrange(P) for _ in range(12)])


def sparse(*pairs):
    c = [0] * 12
    for i, v in pairs:
        c[i] = v
    return FQ12(c)


# ---------------------------------------------------------------- the table
assert isinstance(new.exptable, tuple) and len(new.exptable) == len(old.exptable) == 12
for a, b in zip(old.exptable, new.exptable):
    assert type(a) is type(b) is FQ12 and a.coeffs == b.coeffs
table_snapshot = [e.coeffs for e in new.exptable]
assert new._HARD_PART_EXPONENT == (P**4 - P**2 + 1) // curve_order
assert (P**12 - 1) // curve_order == (P**6 - 1) * (P**2 + 1) * new._HARD_PART_EXPONENT
assert new._EASY_PART_FROBENIUS_STEPS == (2, 6)

# ------------------------------------------------------ FQ12 element corpus
elements = [
    FQ12.zero(),
    FQ12.one(),
    -FQ12.one(),
    FQ12([P - 1] * 12),
    FQ12([1] * 12),
    FQ12([2] + [0] * 11),
    sparse((1, 1)),
    sparse((6, 1)),
    sparse((11, 1)),
    sparse((11, P - 1)),
    sparse((0, 5), (6, 7)),
    sparse((0, 3), (2, 4), (4, 5), (6, 6), (8, 7), (10, 8)),
    sparse((1, rng.randrange(P)), (7, rng.randrange(P))),
    FQ12([P, P + 1, 2 * P - 1, -1, -P, 0, 1, 2, 3, 4, 5, 6]),  # reduced by ctor
]
elements += [rand12() for _ in range(10)]
# FQ-valued coefficients (the constructor keeps them as FQ objects)
elements.append(FQ12([FQ(rng.randrange(P)) for _ in range(12)]))
elements.append(FQ12([FQ(0)] * 11 + [FQ(1)]))

# exp_by_p: every element, old vs new, and against plain exponentiation by p
for x in elements:
    before = tuple(x.coeffs)
    r = same("exp_by_p", x)
    assert r[0] == "ok"
    assert x.coeffs == before  # argument not mutated
for x in elements[:14] + elements[14:18]:
    xi = FQ12([int(c) for c in x.coeffs])
    assert key(new.exp_by_p(x)) == key(xi**P)
    checks += 1
# many more random and sparse elements, exp_by_p only (cheap)
for _ in range(150):
    x = rand12() if rng.random() < 0.5 else sparse(
        *[(rng.randrange(12), rng.randrange(P)) for _ in range(rng.randrange(1, 4))]
    )
    same("exp_by_p", x)
# repeated Frobenius: order 12
x = rand12()
y_old, y_new = x, x
for i in range(12):
    y_old, y_new = old.exp_by_p(y_old), new.exp_by_p(y_new)
    assert key(y_old) == key(y_new)
assert key(y_new) == key(x)
checks += 12

# final_exponentiate: every element, old vs new
fe_results = {}
for idx, x in enumerate(elements):
    before = tuple(x.coeffs)
    fe_results[idx] = same("final_exponentiate", x)
    assert fe_results[idx][0] == "ok"
    assert x.coeffs == before
# against plain exponentiation by (p^12-1)/r on zero, one, sparse and random
BIG = (P**12 - 1) // curve_order
for idx in (0, 1, 2, 6, 10, 14, 15):
    x = elements[idx]
    assert fe_results[idx][1] == key(x**BIG), idx
    checks += 1

# ------------------------------------------------ malformed / foreign inputs
x2 = FQ2([3, 4])
malformed = [
    None,
    0,
    1,
    5,
    True,
    2.5,
    "abc",
    (),
    [1] * 12,
    tuple([1] * 12),
    FQ(7),
    x2,
    FQ2([0, 0]),
    bn_FQ12([rng.randrange(P) for _ in range(12)]),
    bn_FQ12.one(),
    ref_FQ12([rng.randrange(P) for _ in range(12)]),
    ref_FQ12.one(),
    type("Fake", (), {"coeffs": (1, 2, 3)})(),
    type("Fake", (), {"coeffs": ()})(),
    type("Fake", (), {"coeffs": ("a",) * 12})(),
    type("Fake", (), {"coeffs": (1.5,) * 12})(),
    type("Fake", (), {"coeffs": None})(),
    type("Fake", (), {"coeffs": tuple(range(20))})(),
]
seen = set()
for m in malformed:
    r1 = same("exp_by_p", m)
    r2 = same("final_exponentiate", m)
    seen.add(r1[0])
    seen.add(r2[0])
    seen.add(r1[1] if r1[0] == "exc" else "value")
    seen.add(r2[1] if r2[0] == "exc" else "value")
assert "exc" in seen and "ok" in seen, seen
# wrong arity / keywords
for args, kw in [((), {}), ((FQ12.one(), 2), {}), ((), {"p": FQ12.one()}),
                 ((), {"x": FQ12.one()}), ((), {"q": 1})]:
    same("exp_by_p", *args, **kw)
    same("final_exponentiate", *args, **kw)

# --------------------------- Miller values, two-step products, full pairings
pts = []
for k1, k2 in [(1, 1), (2, 3), (curve_order - 1, 5), (7, curve_order - 2),
               (rng.randrange(1, curve_order), rng.randrange(1, curve_order)),
               (rng.randrange(1, curve_order), rng.randrange(1, curve_order))]:
    pts.append((multiply(G2, k2), multiply(G1, k1)))
# another projective representative of the same points
lam1, lam2 = FQ(rng.randrange(2, P)), FQ2([rng.randrange(P), rng.randrange(1, P)])
q0, p0 = pts[1]
pts.append(((q0[0] * lam2, q0[1] * lam2, q0[2] * lam2),
            (p0[0] * lam1, p0[1] * lam1, p0[2] * lam1)))

millers = []
for q, p in pts:
    a = outcome(old.pairing, q, p, final_exponentiate=False)
    b = outcome(new.pairing, q, p, final_exponentiate=False)
    assert a == b and a[0] == "ok"
    checks += 1
    millers.append(new.pairing(q, p, final_exponentiate=False))

singles = []
for f in millers:
    r = same("final_exponentiate", f)
    singles.append(new.final_exponentiate(f))
    assert r[1] == key(singles[-1])
# representative independence after exponentiation
assert key(singles[1]) == key(singles[6])
# final_exponentiate(miller) equals the default pairing (plain exponentiation
# inside miller_loop) in both modules
for i in (0, 2, 6):
    q, p = pts[i]
    a = outcome(old.pairing, q, p)
    b = outcome(new.pairing, q, p)
    assert a == b == ("ok", key(singles[i])), i
    checks += 1
# products of 1..6 Miller values: one exponentiation of the product equals the
# product of the exponentiated values, in both modules
for n in range(1, 7):
    prod_f, prod_e = FQ12.one(), FQ12.one()
    for f, e in zip(millers[:n], singles[:n]):
        prod_f, prod_e = prod_f * f, prod_e * e
    r = same("final_exponentiate", prod_f)
    assert r == ("ok", key(prod_e)), n
# identity / infinity arguments and off-curve points are unaffected
for q, p in [(Z2, G1), (G2, Z1), (Z2, Z1), (None, G1), (G2, None),
             (G2, (FQ(1), FQ(1), FQ(1))), (G1, G2), (G2, G1[:2]),
             ((FQ2([0, 0]),) * 3, G1)]:
    for fe in (True, False):
        a = outcome(old.pairing, q, p, final_exponentiate=fe)
        b = outcome(new.pairing, q, p, final_exponentiate=fe)
        assert a == b, (q, p, fe, a, b)
        a = outcome(old.miller_loop, q, p, final_exponentiate=fe)
        b = outcome(new.miller_loop, q, p, final_exponentiate=fe)
        assert a == b, (q, p, fe, a, b)
        checks += 2
# bilinearity sanity through the new code path
assert key(new.final_exponentiate(millers[0] * new.pairing(G2, neg(G1), False))) == key(
    FQ12.one()
)
assert add(G1, neg(G1))[2] == FQ(0)

# ----------------------------------------- call histories: repeat/interleave
history = [elements[0], elements[14], x2, elements[1], None, elements[14],
           millers[0], elements[22], 5, elements[0], millers[0], elements[15],
           bn_FQ12.one(), elements[14], elements[6], elements[22]]
first = {}
for rnd in range(2):
    order = list(range(len(history)))
    if rnd:
        rng.shuffle(order)
    for i in order:
        for name in ("exp_by_p", "final_exponentiate"):
            r = same(name, history[i])
            assert first.setdefault((name, i), r) == r  # same answer on every repeat

# nothing at module level was changed by any of the calls
assert [e.coeffs for e in new.exptable] == table_snapshot
assert [e.coeffs for e in old.exptable] == table_snapshot
assert new._HARD_PART_EXPONENT == (P**4 - P**2 + 1) // curve_order
assert new._EASY_PART_FROBENIUS_STEPS == (2, 6)
assert new.field_modulus == P and new.curve_order == curve_order
assert FQ12.zero().coeffs == (0,) * 12 and FQ12.one().coeffs == (1,) + (0,) * 11

print("C12/w1 equivalent: %d checks, %.1fs" % (checks, time.time() - T0))
sys.exit(0)
