import os, sys; sys.path.insert(0, os.getcwd())  # noqa: E401,E702

"""
Equivalence demonstration for w2 (C14): restructured optimized FQ operators,
comparisons, __pow__ and sgn0 versus the pristine optimized_field_elements
module (and versus the reference FQ class for the property itself).

Run as:  cd /tmp/wt2/C14 && /venv/bin/python /tmp/twin6/C14/w2/equiv.py
"""
import importlib.util
import itertools
import operator
import random
import time
from fractions import Fraction

HERE = os.path.dirname(os.path.abspath(__file__))

import py_ecc.fields.optimized_field_elements as NEW  # noqa: E402
import py_ecc.fields.field_elements as REF  # noqa: E402
from py_ecc.fields.field_properties import field_properties  # noqa: E402

assert os.path.abspath(NEW.__file__).startswith(os.getcwd()), NEW.__file__

spec = importlib.util.spec_from_file_location(
    "pristine_optimized_field_elements",
    os.path.join(HERE, "pristine", "optimized_field_elements.py"),
)
OLD = importlib.util.module_from_spec(spec)
sys.modules[spec.name] = OLD
spec.loader.exec_module(OLD)
assert OLD is not NEW and OLD.FQ is not NEW.FQ

T0 = time.time()
rng = random.Random(0xC14 + 2)
CHECKS = 0
FAILS = []
KINDS = {}  # outcome kinds seen on the pristine side (harness sanity)

BN = field_properties["bn128"]["field_modulus"]
BLS = field_properties["bls12_381"]["field_modulus"]
PRIMES = {
    "bn128": BN,
    "bls12_381": BLS,
    "p2": 2,
    "p3": 3,
    "p5": 5,
    "p7": 7,
    "p13": 13,
    "p101": 101,
    "p65537": 65537,
    "m61": (1 << 61) - 1,
    "one": 1,  # degenerate modulus: everything is 0
    "c15": 15,  # not a prime: inversion is garbage but must be the same garbage
}
SMALL = ("p2", "p3", "p5", "p7", "p13", "one", "c15")
M2 = {
    "bn128": field_properties["bn128"]["fq2_modulus_coeffs"],
    "bls12_381": field_properties["bls12_381"]["fq2_modulus_coeffs"],
    "p7": (1, 0),
    "p13": (-2, -3),
    "p101": (1000, -777),
}
M12 = {
    "bn128": field_properties["bn128"]["fq12_modulus_coeffs"],
    "bls12_381": field_properties["bls12_381"]["fq12_modulus_coeffs"],
    "p7": (3, 0, 0, 0, 0, 0, -2, 0, 0, 0, 0, 0),
}


def build(mod):
    fam = {}
    for name, p in PRIMES.items():
        entry = {"p": p, "FQ": type(name + "_FQ", (mod.FQ,), {"field_modulus": p})}
        if name in M2:
            fqp = type(name + "_FQP", (mod.FQP,), {"field_modulus": p})
            entry["FQ2"] = type(
                name + "_FQ2",
                (mod.FQ2, fqp),
                {"field_modulus": p, "FQ2_MODULUS_COEFFS": M2[name]},
            )
            if name in M12:
                entry["FQ12"] = type(
                    name + "_FQ12",
                    (mod.FQ12, fqp),
                    {"field_modulus": p, "FQ12_MODULUS_COEFFS": M12[name]},
                )
        fam[name] = entry
    fam["_mod"] = mod
    return fam


FAM_OLD = build(OLD)
FAM_NEW = build(NEW)
FAM_REF = build(REF)
ALL_FQ = (OLD.FQ, NEW.FQ, REF.FQ)
ALL_FQP = (OLD.FQP, NEW.FQP, REF.FQP)


def describe(v):
    if isinstance(v, ALL_FQ):
        # class, the complete stored representation, and the value
        state = tuple(sorted((k, type(x).__name__, x) for k, x in vars(v).items()))
        return ("FQ", type(v).__name__, state)
    if isinstance(v, ALL_FQP):
        return ("FQP", type(v).__name__, tuple(describe(c) for c in v.coeffs), v.degree)
    if isinstance(v, (list, tuple)):
        return (type(v).__name__, tuple(describe(x) for x in v))
    return (type(v).__name__, repr(v))


def outcome(fn, fam):
    try:
        return ("ok", describe(fn(fam)))
    except RecursionError:
        raise
    except BaseException as e:  # noqa: B902
        if isinstance(e, (KeyboardInterrupt, SystemExit, MemoryError)):
            raise
        return ("raise", type(e).__name__)


def check(label, fn):
    global CHECKS
    CHECKS += 1
    a = outcome(fn, FAM_OLD)
    b = outcome(fn, FAM_NEW)
    KINDS[a[0] if a[0] == "ok" else a[1]] = KINDS.get(a[0] if a[0] == "ok" else a[1], 0) + 1
    if a != b:
        FAILS.append((label, a, b))
        if len(FAILS) <= 10:
            print("MISMATCH", label, "\n  pristine:", a, "\n  edited:  ", b)
    return a


BINOPS = {
    "add": operator.add,
    "sub": operator.sub,
    "mul": operator.mul,
    "truediv": operator.truediv,
    "eq": operator.eq,
    "ne": operator.ne,
    "lt": operator.lt,
    "le": operator.le,
    "gt": operator.gt,
    "ge": operator.ge,
    "mod": operator.mod,
    "floordiv": operator.floordiv,
    "div_method": lambda a, b: a.__div__(b) if hasattr(a, "__div__") else b.__rdiv__(a),
    "rdiv_method": lambda a, b: a.__rdiv__(b) if hasattr(a, "__rdiv__") else NotImplemented,
    "dunder_eq": lambda a, b: a.__eq__(b),
    "dunder_ne": lambda a, b: a.__ne__(b),
    "dunder_lt": lambda a, b: a.__lt__(b),
    "dunder_gt": lambda a, b: a.__gt__(b),
    "dunder_le": lambda a, b: a.__le__(b),
    "dunder_ge": lambda a, b: a.__ge__(b),
    "dunder_radd": lambda a, b: a.__radd__(b),
    "dunder_rsub": lambda a, b: a.__rsub__(b),
    "dunder_rmul": lambda a, b: a.__rmul__(b),
    "dunder_rtruediv": lambda a, b: a.__rtruediv__(b),
}

EXPONENTS = [
    0, 1, 2, 3, 4, 5, 6, 7, 8, 9, 15, 16, 17, 31, 32, 33, 255, 256, 257, 65537,
    -1, -2, -1000, True, False, (1 << 64), (1 << 64) - 1, (1 << 200) + 12345,
]
BAD_EXPONENTS = [2.0, 2.5, -1.5, 0.0, -0.0, None, "3", (1,), 3 + 0j, Fraction(3, 2),
                 Fraction(-3, 2), Fraction(4, 1), [2], float("inf"), float("nan")]


def boundary_ints(p):
    vals = {0, 1, 2, 3, p - 1, p - 2, p, p + 1, -1, -2, -p, -p - 1, 2 * p - 1, 2 * p,
            p // 2, p // 2 + 1, 10 * p + 3, -(10 * p) - 3}
    return sorted(vals)


def unary_suite(label, make):
    """make(f) -> an FQ element built on family f"""
    check(label + " neg", lambda f: -make(f))
    check(label + " int", lambda f: int(make(f)))
    check(label + " repr", lambda f: repr(make(f)))
    check(label + " sgn0", lambda f: make(f).sgn0)
    check(label + " sgn0 type", lambda f: type(make(f).sgn0).__name__)

    def sgn_twice(f):
        x = make(f)
        first = x.sgn0
        mid = (x + 1, x * x, -x, x == x)
        return (first, x.sgn0, describe(x), describe(mid), x.sgn0)

    check(label + " sgn0 cached", sgn_twice)
    check(label + " copy", lambda f: type(make(f))(make(f)))
    check(label + " hash", lambda f: hash(make(f)))
    check(label + " bool", lambda f: bool(make(f)))
    check(label + " 1/x", lambda f: 1 / make(f))
    check(label + " one zero", lambda f: (type(make(f)).one(), type(make(f)).zero()))


# --------------------------------------------------------------------------
# 1. exhaustive on small moduli: every element against every element and a
#    window of integers reaching beyond [0, p)
# --------------------------------------------------------------------------
def exhaustive():
    for name in SMALL:
        p = PRIMES[name]
        ints = list(range(-2 * p - 1, 3 * p + 2))
        for a in range(p):
            unary_suite(f"exh {name} {a}", lambda f, a=a: f[name]["FQ"](a))
            for e in EXPONENTS[:24] + [p, p - 1, p - 2, p * p]:
                check(f"exh {name} {a}**{e}", lambda f, a=a, e=e: f[name]["FQ"](a) ** e)
            for opname, op in BINOPS.items():
                for b in range(p):
                    check(
                        f"exh {name} {opname} FQ({a}) FQ({b})",
                        lambda f, a=a, b=b, op=op: op(f[name]["FQ"](a), f[name]["FQ"](b)),
                    )
                for k in ints:
                    check(
                        f"exh {name} {opname} FQ({a}) {k}",
                        lambda f, a=a, k=k, op=op: op(f[name]["FQ"](a), k),
                    )
                    if not opname.startswith("dunder") and "method" not in opname:
                        check(
                            f"exh {name} {opname} {k} FQ({a})",
                            lambda f, a=a, k=k, op=op: op(k, f[name]["FQ"](a)),
                        )
        # constructor arguments outside the canonical range
        for k in ints:
            unary_suite(f"exh ctor {name} {k}", lambda f, k=k: f[name]["FQ"](k))


# --------------------------------------------------------------------------
# 2. boundary and random values on every modulus (both real curves included)
# --------------------------------------------------------------------------
def sampled():
    for name, p in PRIMES.items():
        vals = boundary_ints(p) + [rng.randrange(-p, 2 * p) for _ in range(12)]
        elems = boundary_ints(p)[:14] + [rng.randrange(p) for _ in range(8)]
        for a in elems:
            unary_suite(f"{name} {a}", lambda f, a=a: f[name]["FQ"](a))
            for e in EXPONENTS + [p, p - 1, p - 2, (p - 1) // 2 if p > 2 else 1, p + 1]:
                check(f"{name} {a}**{e}", lambda f, a=a, e=e: f[name]["FQ"](a) ** e)
            for e in BAD_EXPONENTS:
                check(f"{name} {a}**{e!r}", lambda f, a=a, e=e: f[name]["FQ"](a) ** e)
            check(f"{name} {a}**FQ", lambda f, a=a: f[name]["FQ"](a) ** f[name]["FQ"](3))
            check(f"{name} 2**FQ", lambda f, a=a: 2 ** f[name]["FQ"](a))
            for opname, op in BINOPS.items():
                for b in vals:
                    check(
                        f"{name} {opname} FQ({a}) FQ({b})",
                        lambda f, a=a, b=b, op=op: op(f[name]["FQ"](a), f[name]["FQ"](b)),
                    )
                    check(
                        f"{name} {opname} FQ({a}) {b}",
                        lambda f, a=a, b=b, op=op: op(f[name]["FQ"](a), b),
                    )
                    if not opname.startswith("dunder") and "method" not in opname:
                        check(
                            f"{name} {opname} {b} FQ({a})",
                            lambda f, a=a, b=b, op=op: op(b, f[name]["FQ"](a)),
                        )
                for b in (True, False):
                    check(
                        f"{name} {opname} FQ({a}) {b}",
                        lambda f, a=a, b=b, op=op: (
                            op(f[name]["FQ"](a), b),
                            op(b, f[name]["FQ"](a)) if not opname.startswith("dunder")
                            and "method" not in opname else None,
                        ),
                    )


# --------------------------------------------------------------------------
# 3. malformed operands: same exception classes
# --------------------------------------------------------------------------
class IntSub(int):
    pass


def malformed():
    bads = [None, 2.5, 2.0, "7", b"7", [1], (1,), {1}, {}, 1 + 2j, Fraction(1, 2),
            object(), object, NotImplemented, Ellipsis, float("nan")]
    for name in ("bn128", "p7", "one"):
        p = PRIMES[name]
        for opname, op in BINOPS.items():
            for bad in bads:
                check(
                    f"bad {name} {opname} {bad!r}",
                    lambda f, bad=bad, op=op: op(f[name]["FQ"](5), bad),
                )
                if not opname.startswith("dunder") and "method" not in opname:
                    check(
                        f"bad-left {name} {opname} {bad!r}",
                        lambda f, bad=bad, op=op: op(bad, f[name]["FQ"](5)),
                    )
            # int subclass operand, element of another modulus, of another family
            check(
                f"intsub {name} {opname}",
                lambda f, op=op: (op(f[name]["FQ"](5), IntSub(p + 9)),
                                  op(f[name]["FQ"](5), IntSub(-4))),
            )
            check(
                f"other modulus {name} {opname}",
                lambda f, op=op: (op(f[name]["FQ"](5), f["p13"]["FQ"](11)),
                                  op(f["p13"]["FQ"](11), f[name]["FQ"](5))),
            )
            check(
                f"subclass {name} {opname}",
                lambda f, op=op: op(
                    f[name]["FQ"](5),
                    type("Sub", (f[name]["FQ"],), {})(6),
                ),
            )
            check(
                f"reference FQ operand {name} {opname}",
                lambda f, op=op: op(f[name]["FQ"](5), FAM_REF[name]["FQ"](6)),
            )
            check(
                f"FQP operand {name} {opname}",
                lambda f, op=op: op(f[name]["FQ"](5), f["p7"]["FQ2"]([1, 2])),
            )
            check(
                f"FQP left operand {name} {opname}",
                lambda f, op=op: op(f["p7"]["FQ2"]([1, 2]), f["p7"]["FQ"](5)),
            )
        for bad in bads + [f"{p}"]:
            check(f"ctor bad {name} {bad!r}", lambda f, bad=bad: f[name]["FQ"](bad))
        check("ctor base class", lambda f: f["_mod"].FQ(3))
        check(
            "ctor FQ of other modulus",
            lambda f: f[name]["FQ"](f["bls12_381"]["FQ"](BLS - 1)),
        )
        check("ctor bool", lambda f: (f[name]["FQ"](True), f[name]["FQ"](False)))
        check("sgn0 of non-canonical", lambda f: f[name]["FQ"](f["bls12_381"]["FQ"](BLS - 2)).sgn0)
        # ordering helpers
        check(
            "sorted / min / max",
            lambda f: (
                sorted(f[name]["FQ"](x) for x in (5, 3, 9, 0, p - 1, 3)),
                min(f[name]["FQ"](4), f[name]["FQ"](2)),
                max(f[name]["FQ"](4), 7, f[name]["FQ"](2)),
                sorted([3, f[name]["FQ"](2), 1, f[name]["FQ"](0)]),
            ),
        )
        check("in list", lambda f: (f[name]["FQ"](3) in [1, 2, 3], 3 in [f[name]["FQ"](3)]))
        check("in list bad", lambda f: f[name]["FQ"](3) in [None])
        check("sum", lambda f: sum([f[name]["FQ"](3), f[name]["FQ"](p - 1), 4]))
        check("mod_int", lambda f: [f["_mod"].mod_int(f[name]["FQ"](5), 2),
                                    f["_mod"].mod_int(5, 2)])
        check("mod_int bad", lambda f: f["_mod"].mod_int("5", 2))


# --------------------------------------------------------------------------
# 4. FQ objects used as extension-field coefficients (FQP arithmetic, deg(),
#    sgn0 and inv all go through the FQ operators / comparisons)
# --------------------------------------------------------------------------
def as_coefficients():
    for name in ("bn128", "bls12_381", "p7", "p13", "p101"):
        p = PRIMES[name]
        for key, d in (("FQ2", 2), ("FQ12", 12)):
            if key not in FAM_OLD[name]:
                continue
            vecs = [[0] * d, [1] + [0] * (d - 1), [p - 1] * d, [0] * (d - 1) + [1]]
            vecs += [[rng.randrange(p) for _ in range(d)] for _ in range(5)]
            vecs += [[rng.choice([0, 0, rng.randrange(p)]) for _ in range(d)] for _ in range(3)]

            def el(f, v, wrap):
                if wrap:
                    return f[name][key]([f[name]["FQ"](x) for x in v])
                return f[name][key](v)

            for a, b in itertools.product(vecs, vecs[:6]):
                for wa, wb in ((True, True), (True, False), (False, True)):
                    check(
                        f"coeff {name}.{key} ops",
                        lambda f, a=a, b=b, wa=wa, wb=wb: (
                            el(f, a, wa) + el(f, b, wb),
                            el(f, a, wa) - el(f, b, wb),
                            el(f, a, wa) * el(f, b, wb),
                            el(f, a, wa) == el(f, b, wb),
                            el(f, a, wa) != el(f, b, wb),
                        ),
                    )
            for a in vecs:
                check(f"coeff {name}.{key} sgn0", lambda f, a=a: el(f, a, True).sgn0)
                check(f"coeff {name}.{key} neg", lambda f, a=a: -el(f, a, True))
                check(f"coeff {name}.{key} *int", lambda f, a=a: el(f, a, True) * 7)
                check(f"coeff {name}.{key} /int", lambda f, a=a: el(f, a, True) / 7)
                check(f"coeff {name}.{key} inv", lambda f, a=a: el(f, a, True).inv())
                check(f"coeff {name}.{key} div", lambda f, a=a: el(f, vecs[4], True) / el(f, a, True))
                check(f"coeff {name}.{key} pow", lambda f, a=a: el(f, a, True) ** 5)


# --------------------------------------------------------------------------
# 5. the property: random straight-line programs with int mixing, depth <= 8,
#    pristine optimized vs edited optimized vs reference FQ
# --------------------------------------------------------------------------
def gen_tree(depth, nleaves, p):
    if depth == 0 or rng.random() < 0.1:
        return ("leaf", rng.randrange(nleaves))
    r = rng.random()
    if r < 0.10:
        return ("neg", gen_tree(depth - 1, nleaves, p))
    if r < 0.25:
        e = rng.choice([0, 1, 2, 3, 5, 11, 30, p - 2, p - 1, p, 12345678901234567890])
        return ("pow", gen_tree(depth - 1, nleaves, p), e)
    if r < 0.50:
        op = rng.choice(["addint", "raddint", "subint", "rsubint", "mulint", "rmulint",
                         "divint", "rdivint"])
        k = rng.choice([rng.randrange(-3 * p, 3 * p), rng.randrange(-5, 6), p, 0, 1])
        return (op, gen_tree(depth - 1, nleaves, p), k)
    op = rng.choice(["add", "sub", "mul", "div"])
    return (op, gen_tree(depth - 1, nleaves, p), gen_tree(depth - 1, nleaves, p))


def ev(tree, leaves):
    tag = tree[0]
    if tag == "leaf":
        return leaves[tree[1]]
    if tag == "neg":
        return -ev(tree[1], leaves)
    x = ev(tree[1], leaves)
    if tag == "pow":
        return x ** tree[2]
    if tag == "addint":
        return x + tree[2]
    if tag == "raddint":
        return tree[2] + x
    if tag == "subint":
        return x - tree[2]
    if tag == "rsubint":
        return tree[2] - x
    if tag == "mulint":
        return x * tree[2]
    if tag == "rmulint":
        return tree[2] * x
    if tag == "divint":
        return x / tree[2]
    if tag == "rdivint":
        return tree[2] / x
    y = ev(tree[2], leaves)
    if tag == "add":
        return x + y
    if tag == "sub":
        return x - y
    if tag == "mul":
        return x * y
    return x / y


def programs():
    global CHECKS
    for name, p in PRIMES.items():
        n_prog = 150 if p.bit_length() > 64 else 300
        for n in range(n_prog):
            depth = rng.randrange(1, 9)
            vals = [rng.randrange(p) for _ in range(3)] + [0, 1, p - 1]
            tree = gen_tree(depth, len(vals), p)

            def run(f, tree=tree, vals=vals):
                leaves = [f[name]["FQ"](v) for v in vals]
                out = ev(tree, leaves)
                others = [f[name]["FQ"](v) for v in vals]
                return (
                    out,
                    out.sgn0 if f is not FAM_REF else None,
                    [out == o for o in others],
                    [out != o for o in others],
                    [(out < o, out <= o, out > o, out >= o, out < int(o)) for o in others],
                    [out == int(o) for o in others],
                )

            check(f"prog {name} #{n}", run)
            if name in ("one", "c15"):
                continue
            # against the reference class: canonical value, sgn0 (RFC 9380: x mod 2
            # for m = 1) and comparison results
            new_r = run(FAM_NEW)
            ref_r = run(FAM_REF)
            CHECKS += 1
            if (
                int(new_r[0]) != int(ref_r[0])
                or not (0 <= new_r[0].n < p)
                or new_r[1] != int(ref_r[0]) % 2
                or new_r[2] != ref_r[2]
                or new_r[3] != ref_r[3]
                or new_r[4] != ref_r[4]
                or new_r[5] != ref_r[5]
            ):
                FAILS.append((f"ref prog {name} #{n}", tree))
                if len(FAILS) <= 10:
                    print("REF MISMATCH", name, tree)


# --------------------------------------------------------------------------
# 6. call histories: the only per-object cache is cached_property sgn0
# --------------------------------------------------------------------------
def histories():
    for name in ("bn128", "bls12_381", "p7", "p2"):
        p = PRIMES[name]

        def script(f):
            cls = f[name]["FQ"]
            xs = [cls(v) for v in (0, 1, 2, p - 1, p - 2, p // 2, 3 % p)]
            log = []
            order = list(range(len(xs))) * 3
            random.Random(11).shuffle(order)
            for n, i in enumerate(order):
                x, y = xs[i], xs[(2 * i + n) % len(xs)]
                log.append(describe(x))  # stored state before (maybe with sgn0)
                log.append(x.sgn0)
                log.append(describe((x + y, x - y, x * y, x / y, y / x, x ** (n + 1))))
                log.append((x == y, x != y, x < y, x <= y, x > y, x >= y, x == int(y)))
                log.append(x.sgn0)  # cached read
                log.append(cls(int(x)).sgn0)  # equal, fresh element
                log.append(describe(x))
                log.append(describe((x + y, x * y)))  # repeated, equal arguments
            return (log, [describe(x) for x in xs])

        check(f"history {name}", script)
    assert field_properties["bn128"]["field_modulus"] == BN
    assert field_properties["bls12_381"]["field_modulus"] == BLS


# --------------------------------------------------------------------------
# 7. the library's own optimized FQ classes against pristine twins
# --------------------------------------------------------------------------
def library_classes():
    global CHECKS
    import py_ecc.fields as F

    for curve in ("bn128", "bls12_381"):
        lib = getattr(F, f"optimized_{curve}_FQ")
        ref = getattr(F, f"{curve}_FQ")
        assert issubclass(lib, NEW.FQ)
        old = FAM_OLD[curve]["FQ"]
        p = PRIMES[curve]
        for _ in range(300):
            a, b = rng.randrange(-p, 2 * p), rng.randrange(-p, 2 * p)
            e = rng.choice([0, 1, 2, 3, p - 2, p - 1, rng.randrange(p)])
            CHECKS += 1
            got, want, want_ref = [], [], []
            for cls, acc in ((lib, got), (old, want), (ref, want_ref)):
                x, y = cls(a), cls(b)
                acc.extend(
                    int(v)
                    for v in (x + y, x - y, x * y, x / y, x ** e, -x, x + b, b - x, x * b,
                              b / x, x / b)
                )
                acc.extend([x == y, x != y, x == b % p, x == b])
                acc.append(int(x.sgn0) if cls is not ref else int(x) % 2)
            if not (got == want == want_ref):
                FAILS.append((f"library {curve}", a, b, e))


def main():
    for step in (exhaustive, malformed, sampled, as_coefficients, programs, histories,
                 library_classes):
        t = time.time()
        step()
        print(f"{step.__name__}: done, {CHECKS} checks so far, {time.time() - t:.1f}s")
    print("pristine-side outcome kinds:", dict(sorted(KINDS.items())))
    # harness sanity: no outcome may stem from a bug in this script itself
    assert not {"NameError", "UnboundLocalError", "KeyError", "AssertionError"} & set(KINDS)
    assert KINDS.get("ok", 0) > 0.5 * sum(KINDS.values())
    print(f"total checks: {CHECKS}, mismatches: {len(FAILS)}, {time.time() - T0:.1f}s")
    if FAILS:
        for f in FAILS[:20]:
            print(f)
        sys.exit(1)
    print("w2 equivalent to pristine on all checked inputs")


if __name__ == "__main__":
    main()
