import hashlib
import hmac
from typing import (
    TYPE_CHECKING,
    Any,
    Tuple,
    cast,
)

if TYPE_CHECKING:
    from py_ecc.typing import (
        PlainPoint2D,
        PlainPoint3D,
    )


def safe_ord(value: Any) -> int:
    if isinstance(value, int):
        return value
    else:
        return ord(value)


# Elliptic curve parameters (secp256k1)
P = 2**256 - 2**32 - 977
N = 115792089237316195423570985008687907852837564279074904382605163141518161494337
A = 0
B = 7
Gx = 55066263022277343669578718895168534326250603453777594175500187360389116729240
Gy = 32670510020758816978083085130507043184471273380659243275938904335757337482424
G = cast("PlainPoint2D", (Gx, Gy))


def bytes_to_int(x: bytes) -> int:
    o = 0
    for b in x:
        o = (o << 8) + safe_ord(b)
    return o


# Extended Euclidean Algorithm
def inv(a: int, n: int) -> int:
    if a == 0:
        return 0
    lm, hm = 1, 0
    low, high = a % n, n
    while low > 1:
        r = high // low
        nm, new = hm - lm * r, high - low * r
        lm, low, hm, high = nm, new, lm, low
    return lm % n


def to_jacobian(p: "PlainPoint2D") -> "PlainPoint3D":
    """
    Convert a 2D point to its corresponding Jacobian point representation.

    :param p: the point to convert
    :type p: PlainPoint2D

    :return: the Jacobian point representation
    :rtype: PlainPoint3D
    """
    o = (p[0], p[1], 1)
    return cast("PlainPoint3D", o)


def jacobian_double(p: "PlainPoint3D") -> "PlainPoint3D":
    """
    Double a point in Jacobian coordinates and return the result.

    :param p: the point to double
    :type p: PlainPoint3D

    :return: the resulting Jacobian point
    :rtype: PlainPoint3D
    """
    if not p[1]:
        return cast("PlainPoint3D", (0, 0, 0))
    ysq = (p[1] ** 2) % P
    S = (4 * p[0] * ysq) % P
    M = (3 * p[0] ** 2 + A * p[2] ** 4) % P
    nx = (M**2 - 2 * S) % P
    ny = (M * (S - nx) - 8 * ysq**2) % P
    nz = (2 * p[1] * p[2]) % P
    return cast("PlainPoint3D", (nx, ny, nz))


def jacobian_add(p: "PlainPoint3D", q: "PlainPoint3D") -> "PlainPoint3D":
    """
    Add two points in Jacobian coordinates and return the result.

    :param p: the first point to add
    :type p: PlainPoint3D
    :param q: the second point to add
    :type q: PlainPoint3D

    :return: the resulting Jacobian point
    :rtype: PlainPoint3D
    """
    if not p[1]:
        return q
    if not q[1]:
        return p
    U1 = (p[0] * q[2] ** 2) % P
    U2 = (q[0] * p[2] ** 2) % P
    S1 = (p[1] * q[2] ** 3) % P
    S2 = (q[1] * p[2] ** 3) % P
    if U1 == U2:
        if S1 != S2:
            return cast("PlainPoint3D", (0, 0, 1))
        return jacobian_double(p)
    H = U2 - U1
    R = S2 - S1
    H2 = (H * H) % P
    H3 = (H * H2) % P
    U1H2 = (U1 * H2) % P
    nx = (R**2 - H3 - 2 * U1H2) % P
    ny = (R * (U1H2 - nx) - S1 * H3) % P
    nz = (H * p[2] * q[2]) % P
    return cast("PlainPoint3D", (nx, ny, nz))


def from_jacobian(p: "PlainPoint3D") -> "PlainPoint2D":
    """
    Convert a Jacobian point back to its corresponding 2D point representation.

    :param p: the point to convert
    :type p: PlainPoint3D

    :return: the 2D point representation
    :rtype: PlainPoint2D
    """
    z = inv(p[2], P)
    return cast("PlainPoint2D", ((p[0] * z**2) % P, (p[1] * z**3) % P))


def jacobian_multiply(a: "PlainPoint3D", n: int) -> "PlainPoint3D":
    """
    Multiply a point in Jacobian coordinates by an integer and return the result.

    :param a: the point to multiply
    :type a: PlainPoint3D
    :param n: the integer to multiply the point by
    :type n: int

    :return: the resulting Jacobian point
    :rtype: PlainPoint3D
    """
    if a[1] == 0 or n == 0:
        return cast("PlainPoint3D", (0, 0, 1))
    if n == 1:
        return a
    if n < 0 or n >= N:
        return jacobian_multiply(a, n % N)
    if (n % 2) == 0:
        return jacobian_double(jacobian_multiply(a, n // 2))
    if (n % 2) == 1:
        return jacobian_add(jacobian_double(jacobian_multiply(a, n // 2)), a)
    raise ValueError("Unexpected case in jacobian_multiply: This should never happen.")


def multiply(a: "PlainPoint2D", n: int) -> "PlainPoint2D":
    """
    Multiply a 2D point a by an integer n using elliptic curve point multiplication,
    and return the resulting 2D point in plain coordinates.

    :param a: a 2D point on the elliptic curve
    :type a: PlainPoint2D
    :param n: an integer used for point multiplication
    :type n: int

    :return: the resulting 2D point in plain coordinates
    :rtype: PlainPoint2D
    """
    return from_jacobian(jacobian_multiply(to_jacobian(a), n))


def add(a: "PlainPoint2D", b: "PlainPoint2D") -> "PlainPoint2D":
    """
    Add two 2D points a and b using elliptic curve point addition, and return the
    resulting 2D point in plain coordinates.

    :param a: a 2D point on the elliptic curve
    :type a: PlainPoint2D
    :param b: another 2D point on the elliptic curve
    :type b: PlainPoint2D

    :return: the resulting 2D point in plain coordinates
    :rtype: PlainPoint2D
    """
    return from_jacobian(jacobian_add(to_jacobian(a), to_jacobian(b)))


# bytes32
def privtopub(privkey: bytes) -> "PlainPoint2D":
    return multiply(G, bytes_to_int(privkey))


def deterministic_generate_k(msghash: bytes, priv: bytes) -> int:
    """
    Generate a deterministic value `k` for use in ECDSA signature generation,
    as described in RFC 6979. The generated `k` value is intended to provide
    protection against weak random number generation.
    https://datatracker.ietf.org/doc/html/rfc6979

    :param msghash: The hash of the message to be signed.
    :type msghash: bytes
    :param priv: The private key to be used in the signature.
    :type priv: bytes

    :return: A deterministic value k (as an int) that can be used as the ephemeral
        private key in the signature generation process.
    :rtype: int
    """
    v = b"\x01" * 32
    k = b"\x00" * 32
    k = hmac.new(k, v + b"\x00" + priv + msghash, hashlib.sha256).digest()
    v = hmac.new(k, v, hashlib.sha256).digest()
    k = hmac.new(k, v + b"\x01" + priv + msghash, hashlib.sha256).digest()
    v = hmac.new(k, v, hashlib.sha256).digest()
    return bytes_to_int(hmac.new(k, v, hashlib.sha256).digest())


# bytes32, bytes32 -> v, r, s (as numbers)
def ecdsa_raw_sign(msghash: bytes, priv: bytes) -> Tuple[int, int, int]:
    """
    Return a raw ECDSA signature of the provided `data`, using the provided
    `private_key`.

    :param msghash: the data to sign
    :type msghash: bytes
    :param priv: the private key to use for signing
    :type priv: bytes

    :return: a tuple of integers `(v, r, s)`, representing the raw ECDSA signature
    :rtype: Tuple[int, int, int]
    """
    z = bytes_to_int(msghash)
    k = deterministic_generate_k(msghash, priv)

    r, y = multiply(G, k)
    s = inv(k, N) * (z + r * bytes_to_int(priv)) % N

    v, r, s = 27 + ((y % 2) ^ (0 if s * 2 < N else 1)), r, s if s * 2 < N else N - s
    return v, r, s


def ecdsa_raw_recover(msghash: bytes, vrs: Tuple[int, int, int]) -> "PlainPoint2D":
    """
    Recover the public key from the signature and message hash.

    :param msghash: the hash of the message to be signed
    :type msghash: bytes
    :param vrs: the signature generated by the `ecdsa_raw_sign` function
    :type vrs: Tuple[int, int, int]

    :return: the recovered public key
    :rtype: PlainPoint2D
    """
    v, r, s = vrs
    if v not in (27, 28):
        raise ValueError(f"value of v was {v}, must be either 27 or 28")
    x = r
    xcubedaxb = (x * x * x + A * x + B) % P
    beta = pow(xcubedaxb, (P + 1) // 4, P)
    y = beta if v % 2 ^ beta % 2 else (P - beta)
    # If xcubedaxb is not a quadratic residue, then r cannot be the x coord
    # for a point on the curve, and so the sig is invalid
    if (xcubedaxb - y * y) % P != 0 or not (r % N) or not (s % N):
        raise ValueError(
            f"sig is invalid, {r} cannot be the x coord for point on curve"
        )
    z = bytes_to_int(msghash)
    Gz = jacobian_multiply(cast("PlainPoint3D", (Gx, Gy, 1)), (N - z) % N)
    XY = jacobian_multiply(cast("PlainPoint3D", (x, y, 1)), s)
    Qr = jacobian_add(Gz, XY)
    Q = jacobian_multiply(Qr, inv(r, N))
    Q_jacobian = from_jacobian(Q)

    return Q_jacobian
