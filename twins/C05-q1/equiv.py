import os, sys; sys.path.insert(0, os.getcwd())
import importlib.util
import random
import time

HERE = os.path.dirname(os.path.abspath(__file__))


def load(name, path):
    spec = importlib.util.spec_from_file_location(name, path)
    mod = importlib.util.module_from_spec(spec)
    sys.modules[name] = mod
    spec.loader.exec_module(mod)
    return mod


import py_ecc.optimized_bn128 as pkg
from py_ecc.optimized_bn128 import optimized_pairing as new
from py_ecc.optimized_bn128 import (
    FQ, FQ2, FQ12, G1, G2, Z1, Z2, add, b, b2, curve_order, multiply, neg, twist,
)

assert os.path.abspath(new.__file__).startswith(os.getcwd()), new.__file__
old = load(
    "py_ecc.optimized_bn128._pristine_pairing",
    os.path.join(HERE, "pristine", "optimized_bn128_pairing.py"),
)
assert old.__file__ != new.__file__
assert hasattr(new, "_line_add_step") and not hasattr(old, "_line_add_step")

T0 = time.time()
rng = random.Random(0xC05)
r = curve_order
p = new.field_modulus
n_checks = 0


def outcome(fn, *args, **kw):
    try:
        return ("ok", fn(*args, **kw))
    except Exception as e:  # noqa
        return ("exc", type(e))


def same(label, fname, *args, **kw):
    global n_checks
    o = outcome(getattr(old, fname), *args, **kw)
    n = outcome(getattr(new, fname), *args, **kw)
    if o[0] != n[0] or not (o[1] == n[1]):
        print("MISMATCH", label, fname, o, n)
        sys.exit(1)
    if o[0] == "ok":
        assert type(o[1]) is type(n[1]), (label, type(o[1]), type(n[1]))
    n_checks += 1
    return n


def rescale(pt, lam):
    return tuple(c * lam for c in pt)


# ---- pairing() on subgroup points, boundary scalars, projective representatives
scalars = [0, 1, 2, r - 1, r, rng.randrange(r), rng.randrange(r)]
pairs = [(1, 1), (0, 1), (1, 0), (2, 1), (1, 2), (r - 1, 1), (1, r - 1), (r, 1), (1, r),
         (scalars[5], scalars[6]), (2, r - 1)]
results = {}
for (a, bb) in pairs:
    P = multiply(G1, a)
    Q = multiply(G2, bb)
    results[(a, bb)] = same(("pairing", a, bb), "pairing", Q, P)
    # argument objects must not be mutated
    assert P == multiply(G1, a) and Q == multiply(G2, bb)

# other projective representatives of the same points
lam1, lam2 = FQ(rng.randrange(1, p)), FQ2([rng.randrange(p), rng.randrange(p)])
P = rescale(multiply(G1, 5), lam1)
Q = rescale(multiply(G2, 7), lam2)
v = same("proj", "pairing", Q, P)
assert v == same("proj-unscaled", "pairing", multiply(G2, 7), multiply(G1, 5))
# sums
same("sumP", "pairing", G2, add(multiply(G1, 3), multiply(G1, 11)))
same("sumQ", "pairing", add(multiply(G2, 3), multiply(G2, 11)), G1)
same("negP", "pairing", G2, neg(G1))
same("negQ", "pairing", neg(G2), G1)
# no final exponentiation; truthy / falsy non-bool flags
for flag in (False, True, 0, 1, None, "", "x", [], [0]):
    same(("flag", repr(flag)), "pairing", G2, G1, final_exponentiate=flag)
same("flag-pos", "pairing", G2, G1, False)

# ---- infinity in either argument (several representatives)
infP = [Z1, (FQ(5), FQ(7), FQ(0)), (FQ(0), FQ(0), FQ(0))]
infQ = [Z2, (FQ2([5, 1]), FQ2([7, 2]), FQ2.zero()), (FQ2.zero(), FQ2.zero(), FQ2.zero())]
for ip in infP:
    same(("infP", ip), "pairing", G2, ip)
    for iq in infQ:
        same(("infPQ", ip, iq), "pairing", iq, ip)
for iq in infQ:
    same(("infQ", iq), "pairing", iq, G1)

# ---- off-curve / malformed input
offP = [(FQ(1), FQ(3), FQ(1)), (G1[0], G1[1] + 1, G1[2]), (G1[0], G1[1], FQ(2))]
offQ = [(G2[0], G2[1] + FQ2([1, 0]), G2[2]), (G2[0], G2[1], FQ2([2, 0])),
        (FQ2([1, 1]), FQ2([2, 2]), FQ2.one())]
for op in offP:
    assert same(("offP", op), "pairing", G2, op) == ("exc", ValueError)
    same(("offP-infQ", op), "pairing", Z2, op)
for oq in offQ:
    assert same(("offQ", oq), "pairing", oq, G1) == ("exc", ValueError)
    same(("offQ-infP", oq), "pairing", oq, Z1)
    same(("offQ-offP", oq), "pairing", oq, offP[0])
malformed = [None, 5, (), (FQ(1), FQ(2)), (1, 2, 1), (1, 2, 0), "abc", G1, G2,
             (G1[0], G1[1]), (FQ(1), FQ(2), FQ(1), FQ(1)), (1.0, 2.0, 1.0)]
for m in malformed:
    same(("malQ", repr(m)), "pairing", m, G1)
    same(("malP", repr(m)), "pairing", G2, m)
    same(("malPQ", repr(m)), "pairing", m, m)

# ---- miller_loop() called directly
tQ, cP = twist(G2), new.cast_point_to_fq12(G1)
for flag in (True, False, 0, "x"):
    same(("ml", repr(flag)), "miller_loop", tQ, cP, flag)
same("ml-noneQ", "miller_loop", None, cP)
same("ml-noneP", "miller_loop", tQ, None)
same("ml-none", "miller_loop", None, None, False)
tQ5 = twist(rescale(multiply(G2, 5), lam2))
cP9 = new.cast_point_to_fq12(rescale(multiply(G1, 9), lam1))
same("ml-scaled", "miller_loop", tQ5, cP9, False)
same("ml-scaled-fe", "miller_loop", tQ5, cP9)
# degenerate / malformed operands handed straight to the loop
z12 = FQ12.zero()
ml_bad = [
    ((tQ[0], tQ[1], z12), cP),
    (tQ, (cP[0], cP[1], z12)),
    ((z12, z12, z12), cP),
    (tQ, (z12, z12, z12)),
    (G2, G1),
    (tQ, G1),
    (G2, cP),
    ((tQ[0], tQ[1]), cP),
    (tQ, (cP[0], cP[1])),
    (5, cP),
    (tQ, 5),
    ((1, 2, 1), (1, 2, 1)),
    (cP, cP),
    (cP, tQ),
    (tQ, tQ),
]
for (q_, p_) in ml_bad:
    same(("ml-bad", repr(q_)[:40], repr(p_)[:40]), "miller_loop", q_, p_, False)
    same(("ml-bad-fe", repr(q_)[:40], repr(p_)[:40]), "miller_loop", q_, p_, True)

# ---- call histories: repeat earlier calls after the interleaving above
for (a, bb) in [(1, 1), (2, 1), (r - 1, 1), (r, 1)]:
    again = same(("again", a, bb), "pairing", multiply(G2, bb), multiply(G1, a))
    assert again == results[(a, bb)]
same("again-off", "pairing", offQ[0], G1)
same("again-inf", "pairing", Z2, G1)

# property sanity on the new module itself
e = results[(1, 1)][1]
assert e != FQ12.one() and e ** r == FQ12.one()
assert results[(2, 1)][1] == e * e == results[(1, 2)][1]
assert results[(r - 1, 1)][1] * e == FQ12.one()
assert results[(0, 1)][1] == FQ12.one() == results[(r, 1)][1] == results[(1, r)][1]

# module constants untouched
assert new.pseudo_binary_encoding == old.pseudo_binary_encoding
assert new.ate_loop_count == old.ate_loop_count
assert pkg.pairing is new.pairing

print("q1 equivalence OK: %d comparisons in %.1fs" % (n_checks, time.time() - T0))
