import os, sys; sys.path.insert(0, os.getcwd())  # noqa: E401,E702

"""
Equivalence demonstration for refactoring r2 (C13).

Compares the refactored py_ecc.secp256k1.secp256k1 (imported from the current
working directory) with the pristine copy in /tmp/twin/C13/r2/pristine/ on
jacobian_double / jacobian_add / jacobian_multiply and the public API built on
them.  Inputs: curve points in random Jacobian scalings (reduced and unreduced,
negative and > P coordinates), every y == 0 "identity" representative, doubling
reached through addition, inverse points, off-curve triples, an exhaustive sweep
over a grid of small/boundary integers, and malformed operands (wrong arity, None,
strings, bools, lists).  Return values must be identical (== and same type,
component by component), identity of a returned operand must be preserved, and
exception classes must agree.
"""

import importlib.util
import itertools
import random

HERE = os.path.dirname(os.path.abspath(__file__))

import py_ecc.secp256k1.secp256k1 as new  # noqa: E402

assert os.path.realpath(new.__file__).startswith(os.path.realpath(os.getcwd()))
spec = importlib.util.spec_from_file_location(
    "pristine_secp256k1", os.path.join(HERE, "pristine", "secp256k1.py")
)
old = importlib.util.module_from_spec(spec)
spec.loader.exec_module(old)

P, N = old.P, old.N
assert (new.P, new.N, new.A, new.B, new.G) == (old.P, old.N, old.A, old.B, old.G)
rng = random.Random(0xC13_2)
checked = 0


def outcome(fn, *args):
    try:
        return ("ok", fn(*args))
    except RecursionError:
        raise
    except Exception as e:  # noqa: BLE001
        return ("exc", type(e))


def same_value(a, b):
    if type(a) is not type(b):
        return False
    if isinstance(a, (tuple, list)):
        return len(a) == len(b) and all(same_value(x, y) for x, y in zip(a, b))
    return a == b


def compare(name, args, label):
    global checked
    o = outcome(getattr(old, name), *args)
    n = outcome(getattr(new, name), *args)
    checked += 1
    if o[0] != n[0]:
        raise SystemExit(f"MISMATCH kind {label}: {name}{args!r}: {o!r} vs {n!r}")
    if o[0] == "exc":
        if o[1] is not n[1]:
            raise SystemExit(f"MISMATCH exc {label}: {name}{args!r}: {o!r} vs {n!r}")
        return
    if not same_value(o[1], n[1]):
        raise SystemExit(f"MISMATCH value {label}: {name}{args!r}: {o!r} vs {n!r}")
    for a in args:
        if isinstance(a, tuple) and (o[1] is a) != (n[1] is a):
            raise SystemExit(f"MISMATCH identity {label}: {name}{args!r}")


def jac(pt, lam, unreduced=False):
    x, y = pt
    X, Y, Z = x * lam**2, y * lam**3, lam
    if not unreduced:
        X, Y, Z = X % P, Y % P, Z % P
    return (X, Y, Z)


def neg_jac(p):
    return (p[0], -p[1] % P, p[2])


# ---- curve points in many representations
affine = [old.G] + [old.multiply(old.G, rng.randrange(1, N)) for _ in range(12)]
reps = []
for pt in affine:
    reps.append((pt[0], pt[1], 1))
    reps.append(jac(pt, rng.randrange(1, P)))
    reps.append(jac(pt, rng.randrange(1, 2**40), unreduced=True))
    reps.append(jac(pt, -rng.randrange(1, 2**40), unreduced=True))
    reps.append((pt[0] + P, pt[1] - P, 1 + 2 * P))
infs = [
    (0, 0, 0),
    (0, 0, 1),
    (1, 0, 0),
    (1, 0, 1),
    (rng.randrange(P), 0, rng.randrange(P)),
    (5, False, 7),  # bool zero as y
]
junk = [
    tuple(rng.randrange(P) for _ in range(3)),
    tuple(rng.randrange(-P, 2 * P) for _ in range(3)),
    (0, 1, 1),
    (0, rng.randrange(1, P), 0),  # z == 0 but y != 0
    (rng.randrange(P), P, 1),  # y = P: truthy, but 0 mod P
    (rng.randrange(P), rng.randrange(1, P), 0),
    (1, 1, 1),
    (True, True, True),
]
ops = reps + infs + junk
for p in ops:
    compare("jacobian_double", (p,), "double")
    compare("from_jacobian", (p,), "from_jacobian")
for p, q in itertools.product(ops, repeat=2):
    compare("jacobian_add", (p, q), "add")
# doubling through add and inverse points under independent scalings
for pt in affine:
    for _ in range(5):
        a, b = jac(pt, rng.randrange(1, P)), jac(pt, rng.randrange(1, P))
        compare("jacobian_add", (a, b), "add-same")
        compare("jacobian_add", (a, neg_jac(b)), "add-inverse")
        compare("jacobian_add", (a, a), "add-same-object")
        ua = jac(pt, rng.randrange(1, 2**30), unreduced=True)
        compare("jacobian_add", (ua, b), "add-same-unreduced")
        compare("jacobian_add", (ua, (b[0], -b[1], b[2])), "add-inverse-unreduced")

# ---- exhaustive grid of small and boundary integers
grid = [-1, 0, 1, 2, 3, P - 1, P, P + 1]
triples = list(itertools.product(grid, repeat=3))
for p in triples:
    compare("jacobian_double", (p,), "grid-double")
for p, q in itertools.product(triples, repeat=2):
    compare("jacobian_add", (p, q), "grid-add")

# ---- scalar multiplication and public API
scalars = [0, 1, 2, 3, 7, N - 1, N, N + 1, -1, -5, 2**256, rng.randrange(N)]
for p in reps[:10] + infs + junk[:3]:
    for n in scalars:
        compare("jacobian_multiply", (p, n), "jacobian_multiply")
for pt in affine[:5]:
    for n in scalars:
        compare("multiply", (pt, n), "multiply")
    for qt in affine[:5]:
        compare("add", (pt, qt), "affine add")
    compare("add", (pt, (pt[0], P - pt[1])), "affine add inverse")
    compare("add", (pt, (0, 0)), "affine add zero")
for _ in range(6):
    priv = rng.randrange(1, N).to_bytes(32, "big")
    msg = rng.randrange(2**256).to_bytes(32, "big")
    compare("privtopub", (priv,), "privtopub")
    compare("ecdsa_raw_sign", (msg, priv), "sign")
    vrs = old.ecdsa_raw_sign(msg, priv)
    compare("ecdsa_raw_recover", (msg, vrs), "recover")
    compare("ecdsa_raw_recover", (msg, (vrs[0], vrs[1] + 1, vrs[2])), "recover-bad")

# ---- malformed operands
g = (old.Gx, old.Gy, 1)
bad = [
    (),
    (1,),
    (1, 2),
    (0, 0),
    (1, 2, 3, 4),
    None,
    (None, None, None),
    (1, None, 1),
    (1, 2, None),
    (None, 2, 1),
    ("x", "y", "z"),
    (1, "y", 1),
    (1, 2, "z"),
    ("x", 2, 1),
    (1, [], 1),
    (1, [2], 1),
    ([1], 2, 1),
    [old.Gx, old.Gy, 1],
    "abc",
    7,
]
for a in bad:
    compare("jacobian_double", (a,), "malformed-double")
    for c in [g, (0, 0, 1), (0, 0, 0), jac(old.G, 12345)] + bad:
        compare("jacobian_add", (a, c), "malformed-add")
        compare("jacobian_add", (c, a), "malformed-add")
    for n in (0, 1, 2, 3):
        compare("jacobian_multiply", (a, n), "malformed-multiply")

# the new named constants hold exactly the literals they replace
assert new.JACOBIAN_INFINITY == (0, 0, 1) and type(new.JACOBIAN_INFINITY) is tuple
assert new.JACOBIAN_INFINITY_FROM_DOUBLE == (0, 0, 0)
assert all(type(c) is int for c in new.JACOBIAN_INFINITY + new.JACOBIAN_INFINITY_FROM_DOUBLE)

print(f"r2 equivalence OK: {checked} comparisons")
