import os, sys; sys.path.insert(0, os.getcwd())
import importlib.util
import random

HERE = os.path.dirname(os.path.abspath(__file__))


def load(name, path):
    spec = importlib.util.spec_from_file_location(name, path)
    mod = importlib.util.module_from_spec(spec)
    sys.modules[name] = mod
    spec.loader.exec_module(mod)
    return mod


old = load("pristine_bls_optimized_curve", os.path.join(HERE, "pristine", "optimized_curve.py"))

import py_ecc.optimized_bls12_381 as pkg
from py_ecc.optimized_bls12_381 import optimized_curve as new
from py_ecc.optimized_bls12_381 import optimized_pairing as new_pairing
from py_ecc.optimized_bls12_381 import optimized_clear_cofactor as new_cc
from py_ecc.fields import (
    optimized_bls12_381_FQ as FQ,
    optimized_bls12_381_FQ2 as FQ2,
    optimized_bls12_381_FQ12 as FQ12,
)

assert os.path.realpath(new.__file__).startswith(os.path.realpath(os.getcwd())), new.__file__

# --- every import path binds the very same function objects -----------------
if hasattr(new, "add") and new.add.__module__ != new.__name__:
    glaw = sys.modules[new.add.__module__]
    assert glaw.add is new.add and glaw.double is new.double
assert pkg.add is new.add and pkg.double is new.double
assert new_pairing.add is new.add and new_pairing.double is new.double
assert new_cc.multiply is new.multiply
# the public name sets of the module are unchanged
pub = lambda m: sorted(k for k in vars(m) if not k.startswith("__"))
assert pub(old) == pub(new), (set(pub(old)) ^ set(pub(new)))

rng = random.Random(0xC13)
p = new.field_modulus
assert old.field_modulus == p and old.curve_order == new.curve_order


def canon(v):
    """Structural, type-exact description of a returned value."""
    if isinstance(v, tuple):
        return ("tuple",) + tuple(canon(e) for e in v)
    if isinstance(v, (FQ,)):
        return (type(v).__name__, type(v.n).__name__, v.n)
    if hasattr(v, "coeffs"):
        return (type(v).__name__, tuple((type(c).__name__, int(c)) for c in v.coeffs))
    return (type(v).__name__, v)


def run(f, *a):
    try:
        return ("ok", canon(f(*a)))
    except Exception as e:  # noqa: BLE001
        return ("exc", type(e))


nchecks = 0


def same(fname, *a):
    global nchecks
    r_old = run(getattr(old, fname), *a)
    r_new = run(getattr(new, fname), *a)
    assert r_old == r_new, (fname, a, r_old, r_new)
    nchecks += 1
    return r_new


def rnd_el(cls):
    if cls is FQ:
        return FQ(rng.randrange(p))
    deg = 2 if cls is FQ2 else 12
    return cls(tuple(rng.randrange(p) for _ in range(deg)))


def nz_el(cls):
    while True:
        e = rnd_el(cls)
        if e != cls.zero():
            return e


def small_nz(cls):
    # sparse scaling for FQ12 keeps things fast
    if cls is FQ12:
        return FQ12((rng.randrange(1, p),) + (0,) * 11)
    return nz_el(cls)


def scale(pt, lam):
    return tuple(c * lam for c in pt)


curves = [(FQ, new.G1, new.b), (FQ2, new.G2, new.b2), (FQ12, new.G12, new.b12)]

for cls, G, b in curves:
    n_pts = 3 if cls is FQ12 else 6
    ks = [1, 2, 3, new.curve_order - 1, new.curve_order - 2] + [
        rng.randrange(1, new.curve_order) for _ in range(n_pts)
    ]
    if cls is FQ12:
        ks = [1, 2, new.curve_order - 1, rng.randrange(1, 2**40)]
    pts = [old.multiply(G, k) for k in ks]
    # the new multiply goes through the moved add/double
    for k in ks[: 4 if cls is FQ12 else len(ks)]:
        same("multiply", G, k)
    same("multiply", G, 0)
    same("multiply", G, new.curve_order)
    infs = [
        (cls.one(), cls.one(), cls.zero()),
        (cls.zero(), cls.zero(), cls.zero()),
        (cls.zero(), cls.one(), cls.zero()),
        (rnd_el(cls), rnd_el(cls), cls.zero()),
    ]
    offcurve = [(rnd_el(cls), rnd_el(cls), nz_el(cls)) for _ in range(2)]
    ytors = [(rnd_el(cls), cls.zero(), cls.one())]  # y = 0 (not on these curves)
    reps = []
    for P in pts:
        reps.append(P)
        reps.append(scale(P, small_nz(cls)))
    allpts = reps + infs + offcurve + ytors
    for P in allpts:
        same("double", P)
        same("neg", P)
        same("is_inf", P)
        same("is_on_curve", P, b)
    for P in allpts:
        for Q in allpts:
            same("add", P, Q)
            same("eq", P, Q)
    # doubling reached through add with distinct representatives; inverse points
    for P in pts:
        lam, mu = small_nz(cls), small_nz(cls)
        r = same("add", scale(P, lam), scale(P, mu))
        assert r[0] == "ok"
        same("add", scale(P, lam), scale(old.neg(P), mu))
        same("add", scale(P, lam), old.double(scale(P, mu)))
    # repeat: same arguments after interleaving give same results
    a1 = same("add", pts[0], pts[1])
    same("double", pts[1])
    a2 = same("add", pts[0], pts[1])
    assert a1 == a2
    # identity operands are returned as the same object, arguments not mutated
    for I in infs:
        assert new.add(pts[0], I) is pts[0] and new.add(I, pts[0]) is pts[0]
        assert old.add(pts[0], I) is pts[0] and old.add(I, pts[0]) is pts[0]
    assert new.add(infs[0], infs[1]) is infs[0] and old.add(infs[0], infs[1]) is infs[0]

# mixed / malformed inputs: same exception classes
G1, G2 = new.G1, new.G2
bad = [
    None,
    (),
    (FQ(1), FQ(2)),
    (FQ(1), FQ(2), FQ(1), FQ(1)),
    (1, 2, 1),
    (1, 2, 0),
    (FQ(1), 2, 1),
    (FQ(1), FQ(2), 1),
    (FQ(1), FQ(2), 0),
    [FQ(1), FQ(2), FQ(1)],
    (FQ2.one(), FQ(2), FQ(1)),
    "abc",
    (1.5, 2.5, 1.0),
    G2,
]
for x in bad:
    same("double", x)
    same("neg", x)
    same("is_inf", x)
    same("is_on_curve", x, new.b)
    for y in [G1, new.Z1, x, G2]:
        same("add", x, y)
        same("add", y, x)
        same("eq", x, y)
        same("eq", y, x)
same("multiply", G1, -1)
same("multiply", G1, 2.0)
same("multiply", None, 3)

# downstream users of the re-exported names: pairing and cofactor clearing
from py_ecc.optimized_bls12_381 import pairing, normalize
e1 = pairing(G2, new.multiply(G1, 5))
e2 = pairing(new.multiply(G2, 5), G1)
assert e1 == e2
X = (FQ2((1, 2)), FQ2((3, 4)), FQ2.one())
from py_ecc.optimized_bls12_381.constants import H_EFF_G2
assert canon(new_cc.multiply_clear_cofactor_G2(X)) == canon(old.multiply(X, H_EFF_G2))

print("s1 equivalence OK:", nchecks, "comparisons")
